"""C16 correspondence: configuration loading — implementation vs. Lean model vs. the property's own oracle.

Streams (all judged three ways: real `KSKMConfig.from_dict` / `from_yaml`, the model driver, and `Oracle`
below, which is written from the property text and the comments of config/ksrsigner.yaml, not from the code):
  example   the example file with each option in turn deleted / retyped (null, bool, int, negative int,
            float, string, list, map) / misspelled / perturbed across its bound, and an unknown key added to
            every object at every nesting level (incl. a key definition, a schema slot, an hsm entry, hsm.env)
  duration  unparsable and exotic durations through both parsers (request_policy: pydantic's own;
            ksk_policy: the repository's duration_to_timedelta), plus the two parsers called directly
  scalar    pydantic's lax coercion table per field type (bool/int/str/timedelta/datetime/paths/…)
  random    random well-formed configurations, yaml.safe_dump -> KSKMConfig.from_yaml, every loaded value
            compared exactly (durations and datetimes in microseconds) with the generator's intent
  validity  valid_from / valid_until of a key definition written as YAML text in every spelling of an ISO 8601
            timestamp (no designator, `Z`, `+00:00`, non-UTC offsets, fractions, space separator, bare date, quoted
            text) x both options x pairs: the loaded value must be the documented instant — a timestamp without
            designator is UTC, as for KSR / SKR timestamps — and is never a datetime without time zone
  main      the real kskm.tools.ksrsigner.main() in subprocesses: exit statuses
  flags     single-flag-off policies x requests violating exactly one rule (builders of corr_C05)
  flag-pairs  every flag switched off x requests violating that flag's rule AND another rule at once (and each rule
            alone, and none): fully valid KSRs with real RSA keys, real proof-of-possession signatures, a real timeline
            and declared policy, every check on; 24 elementary violations (key tag / flags / size / exponent of a key,
            declared exponent, missing or damaged signature, bundle ids, counts, cycle, slot and distinct-key counts,
            deprecated / unsupported / unapproved declared algorithms, interval, overlap, validity, horizon) placed
            pairwise on the same key, in the same bundle, one before the other and the other way round; each request
            under every-check-on, each of the 15 flags off in turn, and both rules' flags off.  Judged by an oracle
            assembled from the documented regions of corr_C05 / corr_C06 and the independent verifier of corr_C07:
            refused iff a violated rule has none of its flags off, and then with the class of such a rule; a flag of a
            satisfied rule changes nothing
  chain-flags / chain-pairs  the same for check_skr_and_ksr(): one / two..four of its rules violated at once

impl violates the oracle -> failing input of the property (VIOLATION); impl != model -> broken tie.
"""

from __future__ import annotations

import copy
import datetime as dt
import io
import json
import os
import re
import shutil
from pathlib import Path
from typing import Any, Iterator

import lib
import tables_config
from lib import DAY_US, Result, run_driver
from tables_config import canon

DRIVER = "kskm_driver_pkgf"

ASSUMPTIONS = [
    "yaml.safe_load is trusted: the model starts from the value tree PyYAML produced",
    "pydantic's validation semantics are modelled (coercion table established by experiment), not verified; strings the model does not cover are answered `unsupported` and judged by the oracle alone. Still not covered after wave B3: non-ASCII characters against the `\\w` patterns (Unicode word class), durations with a `.`/`,` fraction or in speedate's non-ISO spellings (`3d`, `1 day, 10:20:30`, `95:13`), numbers with a fraction as validities / durations (the tree encoding drops the fraction), validity text that is a number with a fraction or beyond 64 bits (wraps), year 1 / 9999 with a non-zero zone, integer text over [0-9_+-] with a sign after a leading zero (`0-6` loads as -6), integer text longer than 4300 characters",
    "file existence (pydantic FilePath) is passed to the model as the list of existing paths",
    "exit statuses are observed on real subprocesses; what happens after a configuration is loaded is other properties' subject (no KSR is supplied, so status 0 is unreachable here)",
    "flag-pairs: RSA PKCS#1 v1.5 as implemented by `cryptography` decides proof of possession for implementation and oracle alike; the model is fed the "
    "recorded answers of the real verifier; a request whose signature set is unusable may end in ValueError instead of KSR_BUNDLE_POP_Violation (C07's subject)",
]
TRUSTED = ["PyYAML (safe_load / safe_dump)", "the documented-form oracle in corr_C16 (Oracle, DOC_*)",
           "flag-pairs: PAIR_RULES (rule -> flags -> classes, from the option comments of config/ksrsigner.yaml) and the clause oracles it is "
           "evaluated with: corr_C05.region, corr_C06.region, corr_C07.independent_accepts (dnspython + cryptography)"]

SCRATCH_TOKEN = "@SCRATCH@"
SEC = 10**6

# ------------------------------------------------------------------------------------------------
# documented forms (property text + comments of config/ksrsigner.yaml); independent of the code
# ------------------------------------------------------------------------------------------------

DOC_ALGORITHMS = {  # IANA DNSSEC algorithm numbers, by the names the tool documents
    "RSAMD5": 1, "DSA": 3, "RSASHA1": 5, "DSA_NSEC3_SHA1": 6, "RSASHA1_NSEC3_SHA1": 7, "RSASHA256": 8,
    "RSASHA512": 10, "ECC_GOST": 12, "ECDSAP256SHA256": 13, "ECDSAP384SHA384": 14, "ED25519": 15, "ED448": 16,
}  # fmt: skip

CHECK_FLAGS = [
    "validate_signatures", "keys_match_zsk_policy", "rsa_exponent_match_zsk_policy", "check_cycle_length",
    "check_bundle_overlap", "signature_algorithms_match_zsk_policy", "signature_validity_match_zsk_policy",
    "check_keys_match_ksk_operator_policy", "signature_check_expire_horizon", "check_bundle_intervals",
    "check_chain_keys", "check_chain_keys_in_hsm", "check_chain_overlap", "check_keys_publish_safety",
    "check_keys_retire_safety",
]  # fmt: skip

# option -> (kind, documented default).  kinds: bool | int(lo,hi) | duration | domain | str | keyname | hex | alg
# | datetime | file | path | pin | list(kind) | names(kind) (a key name or a list of key names)
DOC_REQUEST_POLICY: dict[str, tuple[Any, Any]] = {
    "acceptable_domains": (("list", "domain"), ["."]),
    "num_bundles": (("int", 1, None), 9),
    "enable_unsupported_ecdsa": ("bool", False),
    "enable_unsupported_edwards_dsa": ("bool", False),
    "min_cycle_inception_length": ("duration", {"td": 79 * DAY_US}),
    "max_cycle_inception_length": ("duration", {"td": 81 * DAY_US}),
    "min_bundle_interval": ("duration", {"td": 9 * DAY_US}),
    "max_bundle_interval": ("duration", {"td": 11 * DAY_US}),
    "approved_algorithms": (("list", "str"), ["RSASHA256"]),
    "rsa_approved_exponents": (("list", ("int", 1, None)), [65537]),
    "rsa_approved_key_sizes": (("list", ("int", 1, 65535)), [2048]),
    "num_keys_per_bundle": (("list", ("int", 1, None)), [2, 1, 1, 1, 1, 1, 1, 1, 2]),
    "num_different_keys_in_all_bundles": (("int", 1, None), 3),
    "dns_ttl": (("int", 0, None), 0),
    "signature_horizon_days": (("int", 1, None), 180),
}
for _f in CHECK_FLAGS:
    DOC_REQUEST_POLICY[_f] = ("bool", True)  # "every check on"
DOC_RESPONSE_POLICY = {"num_bundles": (("int", 1, None), 9), "validate_signatures": ("bool", True)}
DOC_KSK_POLICY = {
    "ttl": (("int", 0, None), 172800),
    "signers_name": ("domain", "."),
    "publish_safety": ("duration", {"td": 0}),
    "retire_safety": ("duration", {"td": 0}),
    "max_signature_validity": ("duration", {"td": 0}),
    "min_signature_validity": ("duration", {"td": 0}),
    "max_validity_overlap": ("duration", {"td": 0}),
    "min_validity_overlap": ("duration", {"td": 0}),
}
DOC_KEY = {
    "description": ("str", "REQUIRED"),
    "label": ("keyname", "REQUIRED"),
    "key_tag": (("int", 0, 65535), None),  # "DNSSEC key tag" (config/ksrsigner.yaml): a 16-bit checksum, 0 included
    "algorithm": ("alg", "REQUIRED"),
    "valid_from": ("datetime", "REQUIRED"),
    "valid_until": ("datetime", None),
    "rsa_size": (("int", 1, 65535), None),
    "rsa_exponent": (("int", 1, None), None),
    "ds_sha256": ("hex", None),
    "hash_using_hsm": ("bool", None),
}
DOC_HSM = {"module": ("str", "REQUIRED"), "pin": ("pin", None), "so_pin": ("pin", None), "env": ("env", {})}
DOC_FILENAMES = {"previous_skr": ("file", None), "input_ksr": ("file", None), "output_skr": ("path", None), "output_trustanchor": ("path", None)}
DOC_ACTION = {"publish": ("names", "REQUIRED"), "sign": ("names", "REQUIRED"), "revoke": ("names", [])}
DOC_TOP = ["hsm", "filenames", "keys", "request_policy", "response_policy", "ksk_policy", "schemas"]

# names the loader itself uses after `_transform_config`; accepted when written directly, documented nowhere
UNDOCUMENTED_ALIASES = {("ksk_keys",), ("ksk_policy", "signature_policy")}

ISO_STRICT = re.compile(r"P(?:([0-9]{1,6})W)?(?:([0-9]{1,6})D)?(?:T(?:([0-9]{1,6})H)?(?:([0-9]{1,6})M)?(?:([0-9]{1,6})S)?)?")
GARBAGE_DURATIONS = ["X", "abc", "P1X", "PxD", "--", "P1D!", "1 fortnight", "D1P", "P1D P1D"]


def iso_wdhms(s: str) -> int | None:
    """ISO 8601 week/day/hour/minute/second durations, exactly: microseconds, or None if not of that form."""
    m = ISO_STRICT.fullmatch(s)
    if not m or all(g is None for g in m.groups()):
        return None
    if "T" in s and all(g is None for g in m.groups()[2:]):
        return None
    w, d, h, mi, sec = (int(g) if g is not None else 0 for g in m.groups())
    return ((w * 7 + d) * 86400 + h * 3600 + mi * 60 + sec) * SEC


def ascii_only(s: str) -> bool:
    return all(ord(c) < 128 for c in s)


def doc_instant(v: dt.datetime | dt.date) -> dict[str, Any]:
    """The documented reading of a configured validity ("ISO8601 timestamp of key inception / expiration",
    config/ksrsigner.yaml), as the transport form [instant in us since the epoch, UTC offset in s]:
    a timestamp with a zone designator is that instant, its offset kept; one WITHOUT designator is UTC (as for the
    timestamps of KSRs and SKRs) — never a local time, never left without time zone; a bare date is its midnight.
    Computed from the wall-clock fields alone (not with canon(), which the implementation's values go through)."""
    if not isinstance(v, dt.datetime):
        return {"ts": [(v - dt.date(1970, 1, 1)).days * DAY_US, 0]}
    wall_us = (v.replace(tzinfo=None) - dt.datetime(1970, 1, 1)) // dt.timedelta(microseconds=1)
    off = v.utcoffset()
    if off is None:
        return {"ts": [wall_us, 0]}
    off_s = off // dt.timedelta(seconds=1)
    return {"ts": [wall_us - off_s * SEC, off_s]}


def naive_validities(loaded: Any) -> list[str]:
    """keys.<name>.<valid_from|valid_until> of a loaded configuration (transport form) that carry no time zone"""
    out = []
    for k, v in (loaded.get("map") or []) if isinstance(loaded, dict) else []:
        if k != "ksk_keys" or not isinstance(v, dict):
            continue
        for name, key in v.get("map") or []:
            for opt, x in (key.get("map") or []) if isinstance(key, dict) else []:
                if opt in ("valid_from", "valid_until") and isinstance(x, dict) and "ts" in x and x["ts"][1] is None:
                    out.append(f"keys.{name}.{opt} = {x}")
    return out


def stated_validities(tree: Any) -> Iterator[tuple[tuple[Any, ...], dict[str, Any]]]:
    """(path in the loaded configuration, documented instant) for every validity the file states as a YAML timestamp
    or a bare date: whatever else the file contains, IF it loads, these are the values it must load"""
    if not isinstance(tree, dict):
        return
    for sect in ("keys", "ksk_keys"):
        if sect == "ksk_keys" and "keys" in tree:
            continue  # `keys` replaces it
        keys = tree.get(sect)
        if not isinstance(keys, dict):
            continue
        for name, key in keys.items():
            if not isinstance(name, str) or not isinstance(key, dict):
                continue
            for opt in ("valid_from", "valid_until"):
                if isinstance(key.get(opt), dt.date):
                    yield ("ksk_keys", name, opt), doc_instant(key[opt])


def model_dicts() -> dict[tuple[str, ...], dict[str, tuple[Any, Any]]]:
    return {}


def spec_for(path: tuple[Any, ...]) -> tuple[str, Any]:
    """What the documentation says sits at `path` of a configuration file:
    ("model", table) an object with fixed options; ("names", None) a map of free names; ("slots", None) the
    int-keyed slots of a schema; ("env", None) the free-form map; ("leaf", (kind, default)); ("unknown", None)."""
    if path == ():
        return ("model", {k: (None, None) for k in DOC_TOP})
    head = path[0]
    if head in ("request_policy", "response_policy", "ksk_policy", "filenames"):
        table = {"request_policy": DOC_REQUEST_POLICY, "response_policy": DOC_RESPONSE_POLICY, "ksk_policy": DOC_KSK_POLICY, "filenames": DOC_FILENAMES}[head]
        if len(path) == 1:
            return ("model", table)
        if path[1] in table:
            return leaf_spec(table[path[1]], path[2:])
        return ("unknown", None)
    if head in ("hsm", "keys"):
        table = DOC_HSM if head == "hsm" else DOC_KEY
        if len(path) == 1:
            return ("names", None)
        if len(path) == 2:
            return ("model", table)
        if head == "hsm" and path[2] == "env":
            return ("env", None)
        if path[2] in table:
            return leaf_spec(table[path[2]], path[3:])
        return ("unknown", None)
    if head == "schemas":
        if len(path) == 1:
            return ("names", None)
        if len(path) == 2:
            return ("slots", None)
        if len(path) == 3:
            return ("model", DOC_ACTION)
        if path[3] in DOC_ACTION:
            return leaf_spec(DOC_ACTION[path[3]], path[4:])
        return ("unknown", None)
    return ("unknown", None)


def leaf_spec(entry: tuple[Any, Any], rest: tuple[Any, ...]) -> tuple[str, Any]:
    kind, default = entry
    if not rest:
        return ("leaf", (kind, default))
    if isinstance(kind, tuple) and kind[0] == "list" and len(rest) == 1 and isinstance(rest[0], int):
        return ("leaf", (kind[1], "ELEMENT"))
    if kind == "names" and len(rest) == 1 and isinstance(rest[0], int):
        return ("leaf", ("keyname", "ELEMENT"))
    return ("unknown", None)


def leaf_verdict(kind: Any, v: Any, files: set[str]) -> tuple[bool | None, Any]:
    """(documented?, expected loaded value).  True: of the documented form -> must load exactly as `expected`;
    False: violates a documented constraint / cannot be a value of this option -> must be rejected;
    None: a spelling the documentation does not speak about (pydantic may or may not coerce it): no demand."""
    if isinstance(kind, tuple) and kind[0] == "int":
        _, lo, hi = kind
        if isinstance(v, bool) or isinstance(v, float):
            return (None, None)
        if isinstance(v, int):
            ok = (lo is None or v >= lo) and (hi is None or v <= hi)
            return (ok, v)
        if isinstance(v, str):
            return (False, None) if (ascii_only(v) and not any(c.isdigit() for c in v)) else (None, None)
        return (False, None)
    if isinstance(kind, tuple) and kind[0] == "list":
        if not isinstance(v, list):
            return (False, None)
        out = []
        verdict: bool | None = True
        for x in v:
            ok, e = leaf_verdict(kind[1], x, files)
            if ok is False:
                return (False, None)
            if ok is None:
                verdict = None
            out.append(e)
        return (verdict, out)
    if kind == "bool":
        if isinstance(v, bool):
            return (True, v)
        if v is None or isinstance(v, (list, dict, dt.date)):
            return (False, None)
        if isinstance(v, str) and v.lower() not in ("0", "off", "f", "false", "n", "no", "1", "on", "t", "true", "y", "yes"):
            return (False, None)
        return (None, None)
    if kind == "duration":
        if isinstance(v, str):
            us = iso_wdhms(v)
            if us is not None:
                return (True, {"td": us})
            if v in GARBAGE_DURATIONS:
                return (False, None)
            return (None, None)
        if isinstance(v, (list, dict)) and v:
            return (False, None)
        return (None, None)
    if kind in ("domain", "keyname", "hex", "str"):
        if not isinstance(v, str):
            return (False, None)
        if kind == "str":
            return (True, v)
        if not ascii_only(v):
            return (None, None) if kind != "hex" else (False, None)
        pat = {"domain": r"[A-Za-z0-9_.]+", "keyname": r"[A-Za-z0-9_]+", "hex": r"[0-9a-fA-F]+"}[kind]
        return (re.fullmatch(pat, v) is not None, v)
    if kind == "alg":
        if isinstance(v, str):
            return (v in DOC_ALGORITHMS, DOC_ALGORITHMS.get(v))
        return (False, None)
    if kind == "datetime":
        if isinstance(v, dt.datetime):
            return (True, doc_instant(v))
        if v is None or isinstance(v, (bool, list, dict)):
            return (False, None)
        if isinstance(v, str) and not any(c.isdigit() for c in v):
            return (False, None)
        return (None, None)
    if kind == "file":
        if isinstance(v, str):
            if v not in files:
                return (False, None)
            return (True, v) if str(Path(v)) == v else (None, None)
        return (True, None) if v is None else (False, None)
    if kind == "path":
        if isinstance(v, str):
            return (True, v) if (v and str(Path(v)) == v) else (None, None)
        return (True, None) if v is None else (False, None)
    if kind == "pin":
        if isinstance(v, bool) or isinstance(v, float):
            return (None, None)
        if v is None or isinstance(v, (str, int)):
            return (True, v)
        return (False, None)
    if kind == "names":
        if isinstance(v, str):
            ok, _ = leaf_verdict("keyname", v, files)
            return (ok, [v])
        return leaf_verdict(("list", "keyname"), v, files)
    if kind == "env":
        if isinstance(v, dict) and all(isinstance(k, str) for k in v):
            return (True, plain(canon(v)))
        return (False, None) if not isinstance(v, dict) else (None, None)
    return (None, None)


class Oracle:
    """The property evaluated on a configuration tree, without looking at the code.

    verdict(tree) -> ("reject", why) | ("accept", expected_loaded | None) | ("nodemand", why)
    """

    def __init__(self, files: set[str]) -> None:
        self.files = files

    def verdict(self, tree: Any) -> tuple[str, Any]:
        if not isinstance(tree, dict):
            return ("nodemand", "top level is not a mapping")
        state = {"reject": None, "nodemand": None}
        self._walk(tree, (), state)
        if state["reject"]:
            return ("reject", state["reject"])
        if state["nodemand"]:
            return ("nodemand", state["nodemand"])
        return ("accept", self.expected(tree))

    def _walk(self, v: Any, path: tuple[Any, ...], st: dict[str, Any]) -> None:
        sh = SHARED
        if sh is not None and isinstance(v, (dict, list)) and id(v) in sh.ids:
            key = (path, id(v))
            if key not in sh.walk:
                sub = {"reject": None, "nodemand": None}
                self._walk1(v, path, sub)
                sh.walk[key] = (sub["reject"], sub["nodemand"])
            rj, nd = sh.walk[key]
            st["reject"] = st["reject"] or rj
            st["nodemand"] = st["nodemand"] or nd
            return
        self._walk1(v, path, st)

    def _walk1(self, v: Any, path: tuple[Any, ...], st: dict[str, Any]) -> None:
        what, info = spec_for(path)
        if what == "model":
            if not isinstance(v, dict):
                st["reject"] = st["reject"] or f"{fmt_path(path)}: an options object is required"
                return
            for k, x in v.items():
                if (path + (k,)) in UNDOCUMENTED_ALIASES:
                    st["nodemand"] = st["nodemand"] or f"{fmt_path(path + (k,))}: the loader's internal name (undocumented alias)"
                elif k not in info:
                    st["reject"] = st["reject"] or f"unknown option {fmt_path(path + (k,))}"
                else:
                    self._walk(x, path + (k,), st)
            for k, (kind, default) in info.items():
                if default == "REQUIRED" and k not in v:
                    st["reject"] = st["reject"] or f"required option {fmt_path(path + (k,))} is missing"
        elif what == "names":
            if not isinstance(v, dict):
                st["reject"] = st["reject"] or f"{fmt_path(path)}: a mapping of names is required"
                return
            for k, x in v.items():
                if not isinstance(k, str):
                    st["nodemand"] = st["nodemand"] or f"{fmt_path(path)}: non-string name"
                self._walk(x, path + (k,), st)
        elif what == "slots":
            if not isinstance(v, dict):
                st["reject"] = st["reject"] or f"{fmt_path(path)}: a mapping of slots is required"
                return
            for k, x in v.items():
                if isinstance(k, bool) or not isinstance(k, int):
                    if isinstance(k, str) and ascii_only(k) and not any(c.isdigit() for c in k):
                        st["reject"] = st["reject"] or f"{fmt_path(path)}: slot {k!r} is not a number"
                    else:
                        st["nodemand"] = st["nodemand"] or f"{fmt_path(path)}: slot spelled {k!r}"
                self._walk(x, path + (k,), st)
        elif what == "env":
            ok, _ = leaf_verdict("env", v, self.files)
            if ok is False:
                st["reject"] = st["reject"] or f"{fmt_path(path)}: env must be a mapping"
            elif ok is None:
                st["nodemand"] = st["nodemand"] or f"{fmt_path(path)}: env with non-string names"
        elif what == "leaf":
            kind, default = info
            ok, _ = leaf_verdict(kind, v, self.files)
            if v is None and default is None:
                ok = True  # an optional option left empty
            if ok is False:
                st["reject"] = st["reject"] or f"{fmt_path(path)} = {short(v)} violates the documented form ({kind})"
            elif ok is None:
                st["nodemand"] = st["nodemand"] or f"{fmt_path(path)} = {short(v)}: undocumented spelling"
        else:
            st["nodemand"] = st["nodemand"] or f"{fmt_path(path)}: outside the documented structure"

    # ---- the expected loaded configuration of a well-formed tree (every leaf of a documented form) ----
    def _section(self, table: dict[str, tuple[Any, Any]], given: dict[str, Any]) -> list[list[Any]]:
        out = []
        for k, (kind, default) in table.items():
            if k in given:
                if self.identity:
                    out.append([k, given[k]])
                else:
                    out.append([k, None if (given[k] is None and default is None) else leaf_verdict(kind, given[k], self.files)[1]])
            else:
                out.append([k, default])
        return out

    identity = False

    def expected(self, tree: dict[str, Any]) -> dict[str, Any]:
        exp: dict[str, Any] = {}
        exp["hsm"] = {n: dict(self._section(DOC_HSM, h)) for n, h in tree.get("hsm", {}).items()}
        exp["ksk_keys"] = {n: dict(self._section(DOC_KEY, k)) for n, k in tree.get("keys", {}).items()}
        kp = dict(self._section(DOC_KSK_POLICY, tree.get("ksk_policy", {})))
        exp["ksk_policy"] = {
            "ttl": kp.pop("ttl"),
            "signers_name": kp.pop("signers_name"),
            "signature_policy": dict(kp, algorithms=[]),
        }
        rp = dict(self._section(DOC_REQUEST_POLICY, tree.get("request_policy", {})))
        if rp["dns_ttl"] == 0:
            # "if this is 0 the config value ksk_policy.ttl will be used instead": demanded when the file states both
            if "ksk_policy" in tree and "ttl" in tree["ksk_policy"] and "dns_ttl" in tree.get("request_policy", {}):
                rp["dns_ttl"] = exp["ksk_policy"]["ttl"]
            else:
                rp["dns_ttl"] = "NODEMAND"
        exp["request_policy"] = rp
        exp["response_policy"] = dict(self._section(DOC_RESPONSE_POLICY, tree.get("response_policy", {})))
        exp["filenames"] = dict(self._section(DOC_FILENAMES, tree.get("filenames", {})))
        exp["schemas"] = {n: {slot: dict(self._section(DOC_ACTION, a)) for slot, a in s.items()} for n, s in tree.get("schemas", {}).items()}
        return exp


class Intent(Oracle):
    """fills the documented defaults around a tree whose leaves already are the intended loaded values"""

    identity = True


def fmt_path(path: tuple[Any, ...]) -> str:
    return ".".join(str(p) for p in path) or "<top>"


def short(v: Any) -> str:
    s = repr(v)
    return s if len(s) < 60 else s[:57] + "..."


def plain(j: Any) -> Any:
    """canonical transport form -> plain nested dicts (maps as dicts) for path-wise comparison"""
    if isinstance(j, list):
        return [plain(x) for x in j]
    if isinstance(j, dict) and "map" in j:
        return {(k if not isinstance(k, (dict, list)) else repr(k)): plain(v) for k, v in j["map"]}
    if isinstance(j, dict) and "f" in j:
        return {"f": j["f"]}
    return j


def diff_expected(exp: Any, got: Any, path: str = "") -> str | None:
    """first difference between the oracle's expected loaded value and the observed one (None = equal)"""
    if exp == "NODEMAND":
        return None
    if isinstance(exp, dict) and not ("td" in exp or "ts" in exp or "f" in exp or "date" in exp):
        if not isinstance(got, dict):
            return f"{path}: expected an object, loaded {short(got)}"
        if set(exp) != set(got):
            return f"{path}: options differ: expected {sorted(map(str, exp))}, loaded {sorted(map(str, got))}"
        for k in exp:
            d = diff_expected(exp[k], got[k], f"{path}.{k}" if path else str(k))
            if d:
                return d
        return None
    if isinstance(exp, list):
        if not isinstance(got, list) or len(exp) != len(got):
            return f"{path}: expected {short(exp)}, loaded {short(got)}"
        for i, (a, b) in enumerate(zip(exp, got)):
            d = diff_expected(a, b, f"{path}[{i}]")
            if d:
                return d
        return None
    if type(exp) is not type(got) or exp != got:
        return f"{path}: expected {short(exp)}, loaded {short(got)}"
    return None


# ------------------------------------------------------------------------------------------------
# running the implementation and the model
# ------------------------------------------------------------------------------------------------


def uncanon(j: Any, scratch: str) -> Any:
    """transport form -> Python value (for replays); SCRATCH_TOKEN in strings is replaced"""
    if isinstance(j, str):
        return j.replace(SCRATCH_TOKEN, scratch)
    if isinstance(j, list):
        return [uncanon(x, scratch) for x in j]
    if isinstance(j, dict):
        if "map" in j:
            out = {}
            for k, v in j["map"]:
                kk = uncanon(k, scratch)
                out[tuple(kk) if isinstance(kk, list) else kk] = uncanon(v, scratch)
            return out
        if "f" in j:
            return float(j.get("r", j["f"][0] if j["f"][0] is not None else "nan"))
        if "td" in j:
            return dt.timedelta(microseconds=j["td"])
        if "date" in j:
            return dt.date(1970, 1, 1) + dt.timedelta(days=j["date"])
        if "ts" in j:
            us, off = j["ts"]
            base = dt.datetime(1970, 1, 1) + dt.timedelta(microseconds=us)
            if off is None:
                return base
            tz = dt.timezone(dt.timedelta(seconds=off))
            return (base.replace(tzinfo=dt.timezone.utc)).astimezone(tz)
    return j


def tokenise(j: Any, scratch: str) -> Any:
    """replace the scratch directory by SCRATCH_TOKEN in a transport value (stable replays)"""
    if isinstance(j, str):
        return j.replace(scratch, SCRATCH_TOKEN)
    if isinstance(j, list):
        return [tokenise(x, scratch) for x in j]
    if isinstance(j, dict):
        return {k: tokenise(v, scratch) for k, v in j.items()}
    return j


def strings_in(v: Any) -> Iterator[str]:
    if isinstance(v, str):
        yield v
    elif isinstance(v, dict):
        for k, x in v.items():
            yield from strings_in(k)
            yield from strings_in(x)
    elif isinstance(v, (list, tuple)):
        for x in v:
            yield from strings_in(x)


_IS_FILE: dict[str, bool] = {}


def is_file(s: str) -> bool:
    if s not in _IS_FILE:
        try:
            _IS_FILE[s] = "\x00" not in s and ("/" in s or len(s) < 64) and Path(s).is_file()
        except (OSError, ValueError):
            _IS_FILE[s] = False
    return _IS_FILE[s]


def existing_files(tree: Any) -> list[str]:
    return sorted(s for s in set(strings_in(tree)) if is_file(s))


def error_class(exc: BaseException) -> str:
    import pydantic

    if type(exc).__name__ == "ConfigurationError":
        return "configuration"
    if isinstance(exc, pydantic.ValidationError):
        return "validation"
    return lib.error_kind(exc)


def load_impl(tree: Any, via_yaml: str | None = None) -> dict[str, Any]:
    """KSKMConfig.from_dict(tree) (or from_yaml(text)) -> {"ok": canonical loaded} | {"error": class}"""
    from kskm.common.config import KSKMConfig

    try:
        if via_yaml is not None:
            loaded = KSKMConfig.from_yaml(io.StringIO(via_yaml))
        else:
            mine = copy.deepcopy(tree)
            loaded = KSKMConfig.from_dict(mine)
            # "stated values are loaded exactly" holds for every load: loading must not depend on, or change, what was
            # loaded before from the same dict (the loader's own comment: "do not modify the caller's data")
            RELOAD["loads"] += 1
            if isinstance(tree, dict) and len(RELOAD["problems"]) < 40:
                first = canon(loaded)
                if mine != tree:
                    RELOAD["modified"] += 1  # recorded; the property is judged on the second load below
                try:
                    second: Any = {"ok": canon(KSKMConfig.from_dict(mine))}
                except BaseException as exc2:  # noqa: BLE001
                    second = {"error": error_class(exc2)}
                if second != {"ok": first}:
                    diff = first_diff({"ok": first}, second) if "ok" in second else second
                    RELOAD["problems"].append({"kind": "second-load-differs", "tree": tree, "difference": diff, "caller_dict_modified": mine != tree})
    except (KeyboardInterrupt, SystemExit):
        raise
    except BaseException as exc:  # noqa: BLE001
        return {"error": error_class(exc)}
    return {"ok": canon(loaded)}


RELOAD: dict[str, Any] = {"loads": 0, "modified": 0, "problems": []}
WHAT_NAIVE = "a loaded KSK validity has no time zone (a timestamp without designator is UTC)"
WHAT_RELOAD = "a second load of the same configuration dict does not give the stated values (the first load modified its caller's data)"


def coarse(o: Any) -> str:
    """outcome class at the level the exit status depends on"""
    if o == "unsupported":
        return "unsupported"
    if "ok" in o:
        return "ok"
    e = o.get("error")
    return e if e in ("configuration", "validation") else "other"


def same_load(impl: Any, model: Any) -> bool:
    if coarse(impl) != coarse(model):
        return False
    if "ok" in impl:
        return impl["ok"] == model["ok"]
    return True


# ------------------------------------------------------------------------------------------------
# stream: the example file, each option in turn
# ------------------------------------------------------------------------------------------------

RETYPES: list[tuple[str, Any]] = [
    ("null", None), ("true", True), ("false", False), ("int0", 0), ("int7", 7), ("negint", -3), ("float", 2.5),
    ("float-integral", 3.0), ("string", "abc"), ("empty-string", ""), ("numeric-string", "12"), ("list", []),
    ("list1", ["x"]), ("map", {}), ("map1", {"a": 1}),
]  # fmt: skip
BOUNDS = [0, -1, 1, 2, 65535, 65536, 2**31 - 1, 2**31, 2**63, 2**64]
STRMODS = [("nl", lambda s: s + "\n"), ("dash", lambda s: s + "-"), ("space", lambda s: s + " "), ("lead-space", lambda s: " " + s),
           ("dot", lambda s: s + "."), ("empty", lambda s: ""), ("nonascii", lambda s: s + "é"), ("nul", lambda s: s + "\x00")]  # fmt: skip


def example_base(scratch: Path) -> dict[str, Any]:
    import yaml

    base = yaml.safe_load((lib.REPO / "config" / "ksrsigner.yaml").read_text())
    base["filenames"]["previous_skr"] = str(scratch / "prev-skr.xml")
    base["filenames"]["input_ksr"] = str(scratch / "ksr.xml")
    return base


def walk_paths(v: Any, path: tuple[Any, ...] = ()) -> Iterator[tuple[tuple[Any, ...], Any]]:
    yield path, v
    if isinstance(v, dict):
        for k, x in v.items():
            yield from walk_paths(x, path + (k,))
    elif isinstance(v, list):
        for i, x in enumerate(v):
            yield from walk_paths(x, path + (i,))


def get_at(tree: Any, path: tuple[Any, ...]) -> Any:
    for p in path:
        tree = tree[p]
    return tree


def mutated(base: Any, path: tuple[Any, ...], fn: Any) -> Any:
    """copy of `base` with fn(parent, key) applied at `path`; containers along the path are copied, everything
    else is SHARED with `base` (nothing downstream mutates a tree: load_impl deep-copies)"""
    if not path:
        return fn(None, None, copy.copy(base))
    t = copy.copy(base)
    node = t
    for p in path[:-1]:
        child = copy.copy(node[p])
        node[p] = child
        node = child
    fn(node, path[-1], t)
    return t


class Shared:
    """memo tables for the nodes of the (never mutated) base tree, which mutated trees share"""

    def __init__(self, base: Any) -> None:
        self.base = base
        self.ids: set[int] = set()
        self.canon: dict[int, Any] = {}
        self.strings: dict[int, frozenset[str]] = {}
        self.walk: dict[tuple[tuple[Any, ...], int], tuple[Any, Any]] = {}
        for _, v in walk_paths(base):
            if isinstance(v, (dict, list)):
                self.ids.add(id(v))

    def canon_of(self, v: Any) -> Any:
        if isinstance(v, dict):
            if id(v) in self.ids:
                if id(v) not in self.canon:
                    self.canon[id(v)] = {"map": [[self.canon_of(k), self.canon_of(x)] for k, x in v.items()]}
                return self.canon[id(v)]
            return {"map": [[self.canon_of(k), self.canon_of(x)] for k, x in v.items()]}
        if isinstance(v, list):
            if id(v) in self.ids:
                if id(v) not in self.canon:
                    self.canon[id(v)] = [self.canon_of(x) for x in v]
                return self.canon[id(v)]
            return [self.canon_of(x) for x in v]
        return canon(v)

    def strings_of(self, v: Any) -> frozenset[str]:
        if isinstance(v, str):
            return frozenset([v])
        if isinstance(v, (dict, list)):
            known = id(v) in self.ids
            if known and id(v) in self.strings:
                return self.strings[id(v)]
            acc: set[str] = set()
            if isinstance(v, dict):
                for k, x in v.items():
                    acc |= self.strings_of(k)
                    acc |= self.strings_of(x)
            else:
                for x in v:
                    acc |= self.strings_of(x)
            out = frozenset(acc)
            if known:
                self.strings[id(v)] = out
            return out
        return frozenset()


SHARED: Shared | None = None


def rename_key(parent: dict[Any, Any], old: Any, new: Any) -> None:
    items = [(new if k == old else k, v) for k, v in parent.items()]
    parent.clear()
    parent.update(items)


def example_cases(base: dict[str, Any], tier: str, r: Any) -> Iterator[dict[str, Any]]:
    schema_names = list(base["schemas"])
    full_schemas = set(schema_names) if tier == "thorough" else {"normal", "revoke"}
    yield {"stream": "example", "tag": "unchanged", "tree": base}
    for path, v in walk_paths(base):
        if path and path[0] == "schemas" and len(path) >= 2 and path[1] not in full_schemas:
            # the other schemas: a sample of their options
            if len(path) > 2 and r.random() > 0.06:
                continue
        what, info = spec_for(path)
        p = fmt_path(path)
        if path:
            def _del(parent: Any, key: Any, t: Any) -> None:
                del parent[key]
            yield {"stream": "example", "tag": f"delete:{p}", "tree": mutated(base, path, _del), "path": path, "mutation": "delete"}
            for name, val in RETYPES:
                if type(val) is type(v) and val == v:
                    continue
                def _set(parent: Any, key: Any, t: Any, val: Any = val) -> None:
                    parent[key] = copy.deepcopy(val)
                yield {"stream": "example", "tag": f"retype:{name}:{p}", "tree": mutated(base, path, _set), "path": path, "mutation": "retype"}
            parent = get_at(base, path[:-1])
            if isinstance(parent, dict):
                for suffix in (["_x"] if tier == "quick" else ["_x", "s", " "]):
                    key = path[-1]
                    new = (str(key) + suffix) if isinstance(key, str) else f"{key}x"
                    def _ren(parent: Any, key: Any, t: Any, new: Any = new) -> None:
                        rename_key(parent, key, new)
                    yield {"stream": "example", "tag": f"misspell:{p}->{new}", "tree": mutated(base, path, _ren), "path": path, "mutation": "misspell"}
        if isinstance(v, dict):
            for newkey, newval in [("bogus_option", 1), ("Bogus", None), ("num_bundles ", 9), (7, 7)]:
                if newkey in v:
                    continue
                def _add(parent: Any, key: Any, t: Any, path: Any = path, newkey: Any = newkey, newval: Any = newval) -> Any:
                    get_at(t, path)[newkey] = newval
                    return t
                def _addk(parent: Any, key: Any, t: Any, newkey: Any = newkey, newval: Any = newval) -> Any:
                    if parent is None:
                        t[newkey] = newval
                        return t
                    node = copy.copy(parent[key])
                    node[newkey] = newval
                    parent[key] = node
                    return t
                tree = mutated(base, path, _addk)
                yield {"stream": "example", "tag": f"unknown:{p}+{newkey!r}", "tree": tree, "path": path, "mutation": "unknown"}
        if isinstance(v, int) and not isinstance(v, bool):
            for b in BOUNDS:
                if b == v:
                    continue
                def _setb(parent: Any, key: Any, t: Any, b: int = b) -> None:
                    parent[key] = b
                yield {"stream": "example", "tag": f"bound:{b}:{p}", "tree": mutated(base, path, _setb), "path": path, "mutation": "bound"}
        if isinstance(v, str):
            for name, f in STRMODS:
                nv = f(v)
                if nv == v:
                    continue
                def _sets(parent: Any, key: Any, t: Any, nv: str = nv) -> None:
                    parent[key] = nv
                yield {"stream": "example", "tag": f"strmod:{name}:{p}", "tree": mutated(base, path, _sets), "path": path, "mutation": "strmod"}
    # options the example file does not spell out, added with their boundary values
    extras: list[tuple[tuple[Any, ...], Any]] = []
    for opt, (kind, default) in DOC_REQUEST_POLICY.items():
        if opt not in base["request_policy"]:
            vals = [True, False, None, 0, "abc"] if kind == "bool" else [0, 1, -1, None, "abc"]
            extras += [(("request_policy", opt), x) for x in vals]
    for opt in ("valid_until", "hash_using_hsm", "rsa_size", "key_tag"):
        extras += [(("keys", "ksk_next", opt), x) for x in (None, 0, 1, 65535, 65536, True, "abc", dt.datetime(2030, 1, 1, tzinfo=dt.timezone.utc), dt.date(2030, 1, 1))]
    # a validity in every zone spelling a YAML timestamp can have: none (= UTC), UTC, east / west of UTC, a bare date
    for opt in ("valid_from", "valid_until"):
        for kname in ("ksk_current", "ksk_next"):
            extras += [((("keys", kname, opt)), x) for x in (
                dt.datetime(2030, 1, 1), dt.datetime(2030, 1, 1, 12, 30, 1, 500000), dt.datetime(2030, 1, 1, tzinfo=dt.timezone.utc),
                dt.datetime(2030, 1, 1, tzinfo=dt.timezone(dt.timedelta(hours=2))), dt.datetime(2030, 1, 1, 3, 4, 5, tzinfo=dt.timezone(dt.timedelta(hours=-5, minutes=-30))),
                dt.date(2030, 1, 1), "2030-01-01T00:00:00", "2030-01-01T00:00:00Z", "2030-01-01T00:00:00+02:00")]
    extras += [(("filenames", "output_trustanchor"), x) for x in ("ta.xml", "a//b", "", None, 5)]
    extras += [(("filenames", "input_ksr"), x) for x in ("does-not-exist.xml", str(Path(base["filenames"]["input_ksr"]).parent), None)]
    extras += [(("ksk_policy", "signature_policy"), x) for x in ({}, None, {"publish_safety": "P1D"}, [])]
    extras += [(("ksk_policy", "algorithms"), x) for x in ("P1D", None, [])]
    extras += [(("ksk_keys",), x) for x in ({}, {"k": 1}, None)]
    extras += [(("hsm", "softhsm", "env", "X"), x) for x in (None, 1, [1, {"a": None}], {"deep": {"deeper": 2.5}})]
    extras += [(("hsm", "softhsm", "env", 5), "non-string name")]
    for path, val in extras:
        def _setv(parent: Any, key: Any, t: Any, val: Any = val) -> None:
            parent[key] = val
        tree = mutated(base, path, _setv)
        yield {"stream": "example", "tag": f"add:{fmt_path(path)}={short(val)}", "tree": tree, "path": path, "mutation": "add"}
    # whole-file shapes
    for name, tree in [("null", None), ("empty-map", {}), ("empty-list", []), ("list", [1]), ("string", "abc"), ("empty-string", ""), ("int", 5), ("bool", True), ("float", 2.5)]:
        yield {"stream": "example", "tag": f"whole-file:{name}", "tree": tree, "mutation": "whole"}
    # sections dropped pairwise with dns_ttl (the only cross-section transform)
    for ttl in ("absent", 0, 5, "0", "7", False, 0.5, 2.5, None, "x", []):
        for kp in ("absent", "as-is", "no-ttl", "ttl-0", "ttl-string", "ttl-negative", "with-signature_policy"):
            tree = copy.deepcopy(base)
            if ttl == "absent":
                del tree["request_policy"]["dns_ttl"]
            else:
                tree["request_policy"]["dns_ttl"] = ttl
            if kp == "absent":
                del tree["ksk_policy"]
            elif kp == "no-ttl":
                del tree["ksk_policy"]["ttl"]
            elif kp == "ttl-0":
                tree["ksk_policy"]["ttl"] = 0
            elif kp == "ttl-string":
                tree["ksk_policy"]["ttl"] = "3600"
            elif kp == "ttl-negative":
                tree["ksk_policy"]["ttl"] = -1
            elif kp == "with-signature_policy":
                tree["ksk_policy"] = {"signature_policy": {}, "ttl": 42}
            yield {"stream": "example", "tag": f"dns_ttl:{ttl!r}:ksk_policy:{kp}", "tree": tree, "mutation": "dns_ttl"}


# ------------------------------------------------------------------------------------------------
# judging one configuration tree three ways
# ------------------------------------------------------------------------------------------------


def judge_tree(res: Result, case: dict[str, Any], impl: Any, model: Any, oracle: Oracle, scratch: str) -> None:
    tree = case["tree"]

    class _Rec(dict):  # built only when a violation / disagreement is reported
        pass

    def mk() -> dict[str, Any]:
        rec = {"stream": case["stream"], "tag": case["tag"], "tree": tokenise(canon_tree(tree), scratch)}
        if "yaml" in case:
            rec["yaml"] = case["yaml"].replace(scratch, SCRATCH_TOKEN)
        return rec

    res.count({"stream": case["stream"], "tag": case["tag"]})
    res.bump("stream:" + case["stream"])
    if case.get("mutation"):
        res.bump("mutation:" + case["mutation"])
    res.bump("impl:" + coarse(impl) + ("" if coarse(impl) != "other" else ":" + impl["error"]))
    verdict, info = oracle.verdict(tree)
    res.bump("oracle:" + verdict)
    if verdict == "reject" and "ok" in impl:
        what = "unknown option is accepted" if str(info).startswith("unknown option") else "configuration outside the documented form is accepted"
        res.violation(what, mk(), key=f"accepted:{case['tag']}", oracle=info, impl="accepted")
    elif verdict == "accept":
        if "ok" not in impl:
            res.violation("well-formed configuration is not loaded", mk(), key=f"{impl['error']}:{case['tag']}", impl=impl, oracle="every option is of its documented form")
        else:
            d = diff_expected(info, plain(impl["ok"]))
            if d:
                res.violation("loaded value differs from the configured value", mk(), key=f"{case['tag']}", difference=d)
    if "intent" in case and "ok" in impl:
        d = diff_expected(case["intent"], plain(impl["ok"]))
        if d:
            res.violation("loaded value differs from the configured value", mk(), key=f"intent:{case['tag']}", difference=d)
    if "ok" in impl:
        # a KSK validity is an instant: whatever the file holds, what is loaded carries a time zone …
        nv = naive_validities(impl["ok"])
        if nv:
            res.violation(WHAT_NAIVE, mk(), key=f"naive-validity:{case['tag']}", where=nv[:4])
        # … and a stated timestamp / date is loaded as the documented instant (no designator = UTC)
        stated = list(stated_validities(tree))
        if stated:
            got_all = plain(impl["ok"])
            for path, want in stated:
                res.bump("validity:stated")
                try:
                    got = get_at(got_all, path)
                except (KeyError, TypeError, IndexError):
                    continue
                d = diff_expected(want, got, fmt_path(path))
                if d:
                    res.violation("loaded value differs from the configured value", mk(), key=f"validity:{case['tag']}", difference=d)
    if "expect_at" in case and "ok" in impl:
        got_all = plain(impl["ok"])
        for path, want in case["expect_at"]:
            res.bump("validity:spelled")
            d = diff_expected(want, get_at(got_all, path), fmt_path(path))
            if d:
                res.violation("loaded value differs from the configured value", mk(), key=f"spelled:{case['tag']}", difference=d)
    if case.get("must_load") and "ok" not in impl:
        res.violation("well-formed configuration is not loaded", mk(), key=f"{impl['error']}:{case['tag']}", impl=impl, oracle=case["must_load"])
    if model is None:
        return
    if lib.is_unsupported(model):
        res.unsupported += 1
        res.bump("unsupported:" + case["stream"])
        dump_unsupported(case["stream"], {"tag": case.get("tag"), "impl": summarise(impl)})
    elif not same_load(impl, model):
        res.disagreement("KSKMConfig.from_dict: model != implementation", mk(), summarise(impl), summarise(model), difference=first_diff(impl, model))
    elif "error" in impl and impl["error"] != model.get("error"):
        res.soft_error_kind_mismatch += 1


def dump_unsupported(stream: str, rec: Any) -> None:
    """debugging aid: with C16_DUMP_UNSUPPORTED=<file> every case the model declines is appended there"""
    path = os.environ.get("C16_DUMP_UNSUPPORTED")
    if path:
        with open(path, "a", encoding="utf-8") as fh:
            fh.write(json.dumps({"stream": stream, **rec}, default=repr, ensure_ascii=False)[:2000] + "\n")


def canon_tree(tree: Any) -> Any:
    try:
        return canon(tree, r=True)
    except TypeError:
        return {"uncanonical": repr(tree)[:200]}


def summarise(o: Any) -> Any:
    if isinstance(o, dict) and "ok" in o:
        return {"ok": "(loaded configuration; see difference)"}
    return o


def first_diff(impl: Any, model: Any) -> str | None:
    if isinstance(impl, dict) and isinstance(model, dict) and "ok" in impl and "ok" in model:
        return diff_expected(plain(model["ok"]), plain(impl["ok"]))
    return None


def line_for(tree: Any) -> dict[str, Any]:
    if SHARED is not None:
        return {"op": "config_from_dict", "config": SHARED.canon_of(tree), "files": sorted(x for x in SHARED.strings_of(tree) if is_file(x))}
    return {"op": "config_from_dict", "config": canon(tree), "files": existing_files(tree)}


class Scratch:
    def __enter__(self) -> Path:
        self.dir = lib.VERIF / f".scratch_C16_{os.getpid()}"
        self.dir.mkdir(exist_ok=True)
        (self.dir / "prev-skr.xml").write_text("<SKR/>\n")
        (self.dir / "ksr.xml").write_text("<KSR/>\n")
        return self.dir

    def __exit__(self, *a: Any) -> None:
        shutil.rmtree(self.dir, ignore_errors=True)


def run(tier: str, driver_ok: bool) -> Result:
    res = Result("C16")
    res.rule = (
        "example file x every option path x {delete, 15 retypes, misspell, unknown key added to every object, 10 bound values per "
        "integer, 8 string perturbations}; dns_ttl x ksk_policy cross lattice; durations through both parsers; scalar coercion "
        "table; random well-formed configurations via YAML; subprocess main() exit statuses; single-flag-off policies x "
        "one-rule-violating requests; flag-pairs: fully checked KSRs (real keys, signatures, timeline) with 0 / 1 / 2 rules violated "
        "(24 elementary violations, every two of different rules, placed on the same key / same bundle / either one first) x "
        "{every check on, each of the 15 flags off, both rules' flags off}, expected verdict and class from the documented regions "
        "(C05, C06) and an independent verifier (C07); chain-pairs: 2..4 rules of check_skr_and_ksr violated at once x the same "
        "policies; non-trivial = distinct (stream, tag, tree / request, flags off)"
    )
    r = lib.rng("C16")
    with Scratch() as scratch:
        sdir = str(scratch)
        files = {str(scratch / "prev-skr.xml"), str(scratch / "ksr.xml")}
        oracle = Oracle(files)
        base = example_base(scratch)
        global SHARED
        SHARED = Shared(base)
        # exit statuses first: a violation there (F3) is the first one reported
        for other in OTHER_STREAMS:
            if other is main_stream:
                other(res, tier, r, scratch, driver_ok)
        cases: list[dict[str, Any]] = list(example_cases(base, tier, r))
        for extra in EXTRA_TREE_STREAMS:
            cases.extend(extra(base, tier, r, scratch))
        impls = [load_impl(c["tree"], c.get("yaml")) for c in cases]
        lines = [line_for(c["tree"]) for c in cases]
        models = run_driver(lines, exe=DRIVER) if driver_ok else [None] * len(lines)
        for c, i, m in zip(cases, impls, models):
            judge_tree(res, c, i, m, oracle, sdir)
            if len(res.samples) < 3 and c["tag"] in ("unchanged", "delete:request_policy.num_bundles", "bound:0:request_policy.num_bundles"):
                res.sample({"tag": c["tag"], "impl": summarise(i), "model": summarise(m), "oracle": oracle.verdict(c["tree"])[0]})
        for other in OTHER_STREAMS:
            if other is not main_stream:
                other(res, tier, r, scratch, driver_ok)
        SHARED = None
    res.stats["reload:successful from_dict loads probed"] = RELOAD["loads"]
    res.stats["reload:caller's dict modified by the load"] = RELOAD["modified"]
    for pr in RELOAD["problems"]:
        res.violation(WHAT_RELOAD, {"stream": "reload", "tree": pr["tree"]}, key="reload:" + pr["kind"], **{k: v for k, v in pr.items() if k not in ("kind", "tree")})
    return res


EXTRA_TREE_STREAMS: list[Any] = []
OTHER_STREAMS: list[Any] = []


def replay(obj: dict[str, Any]) -> Any:
    v = obj.get("violation") or obj.get("disagreement") or {}
    case = v.get("case") or {}
    with Scratch() as scratch:
        sdir = str(scratch)
        if case.get("stream") == "main":
            return replay_main(case, scratch)
        if case.get("stream") == "flags":
            return replay_flags(case)
        if case.get("stream") == "flag-pairs":
            return replay_pairs(case)
        if case.get("stream") == "chain-pairs":
            return replay_chain_pairs(case)
        if case.get("stream") == "coercion":
            return replay_coercion(case, sdir)
        if "op" in case:
            return {"case": case, "model": run_driver([case], exe=DRIVER)[0]}
        tree = uncanon(case.get("tree"), sdir)
        y = case.get("yaml")
        impl = load_impl(tree, y.replace(SCRATCH_TOKEN, sdir) if y else None)
        model = run_driver([line_for(tree)], exe=DRIVER)[0]
        files = {str(scratch / "prev-skr.xml"), str(scratch / "ksr.xml")}
        return {"case": {"stream": case.get("stream"), "tag": case.get("tag")}, "implementation": summarise(impl) if "ok" in impl else impl,
                "model": summarise(model), "oracle": list(Oracle(files).verdict(tree))[:1] + [str(Oracle(files).verdict(tree)[1])[:400]],
                "model_vs_implementation": first_diff(impl, model) if "ok" in impl and isinstance(model, dict) and "ok" in model else (coarse(impl), coarse(model))}


def replay_coercion(case: dict[str, Any], sdir: str) -> Any:
    import pydantic

    from kskm.common import config_misc as cm
    from kskm.common import data as cdata

    line = case["line"]
    model = run_driver([line], exe=DRIVER)[0]
    if line["op"] == "config_from_dict":
        impl = load_impl(uncanon(line["config"], sdir))
        return {"case": case, "implementation": summarise(impl), "model": summarise(model)}
    cls = {"RequestPolicy": cm.RequestPolicy, "KSKKey": cm.KSKKey, "KSKMFilenames": cm.KSKMFilenames, "SignaturePolicy": cdata.SignaturePolicy}[line["model"]]
    data = dict(REQUIRED_FILLERS.get(line["model"], {}))
    data[line["field"]] = uncanon(line["value"], sdir)
    try:
        impl = {"ok": canon(getattr(cls.model_validate(data), line["field"]))}
    except pydantic.ValidationError:
        impl = {"error": "validation"}
    except Exception as exc:  # noqa: BLE001
        impl = {"error": lib.error_kind(exc)}
    return {"case": case, "implementation": impl, "model": model}


def replay_main(case: dict[str, Any], scratch: Path) -> Any:
    return {"error": "main replay not available"}


def replay_flags(case: dict[str, Any]) -> Any:
    return {"error": "flags replay not available"}


# ------------------------------------------------------------------------------------------------
# stream: durations through both parsers
# ------------------------------------------------------------------------------------------------

EXOTIC_DURATIONS: list[Any] = [
    "P79D", "P1W", "P1W2D", "P2D1W", "PT1H", "PT1M", "PT1S", "PT1H30M", "P1DT2H3M4S", "PT36H", "P0D", "PT0S", "P1DT", "P", "PT", "",
    "P1M", "P1Y", "P1Y2M3DT4H5M6S", "P1MT1M", "P1D5", "P1D5S", "P0D-86400", "P1D-5", "P1D+5", "P1D 5", "P1D5 ", "P1D1_0", "P1H", "PT1D", "P1S",
    "PT1H1H", "PT1S1M", "P1D1D", "P1DT1HT1M", "P1TD", "PT1.5S", "P1.5D", "P1,5D", "-P1D", "+P1D", "P-1D", "p1d", "P1d", "P 1D", " P1D", "P1D ",
    "P1D\n", "P1D\nP99D", "P1D\nXYZ", "P1D\r", "PT\n1S", "P\n1D", "P1D\x00", "P01D", "P0001D", "P999999999D", "P1000000000D", "P142857142W",
    "P142857143W", "PT4294967295S", "PT4294967296S", "P999999999DT86399S", "P999999999DT86400S", "PT86399999913600S", "-P999999999D",
    "-P999999999DT1S", "P99999999999999999999D", "1", "86400", "-3", "1.5", "1 day", "1 days, 0:00:00", "1:02:03", "12:30", "3d", "X", "abc",
    "P1X", "PxD", "--", "P1D!", "P１D", "P١D", "Ｐ1D", "P1D5٣", "PT5M1H", "P1W1D1H", "PTS", "PD", "P1", "P12", "T1S", "1D", "D",
    None, True, False, 0, 1, -5, 86400, 10**12, 86399999999999, 86400000000000, -86399999913600, -86399999913601, 0.0, 2.0, 1.5, -0.5,
    float("inf"), float("nan"), 1e18, [], ["P1D"], {}, {"a": 1}, dt.date(2020, 1, 1), dt.datetime(2020, 1, 1),
]  # fmt: skip


def random_duration(r: Any) -> str:
    units_d, units_t = "YMWD", "HMS"
    s = r.choice(["", "", "", "+", "-"]) + "P"
    for _ in range(r.randint(0, 3)):
        s += f"{r.choice([0, 1, r.randint(0, 99), r.randint(0, 10 ** r.randint(1, 10))])}{r.choice(units_d if r.random() < 0.9 else units_t)}"
    if r.random() < 0.6:
        s += "T"
        for _ in range(r.randint(0, 3)):
            s += f"{r.choice([0, 1, r.randint(0, 99), r.randint(0, 10 ** r.randint(1, 10)), 2**32 - 1, 2**32])}{r.choice(units_t if r.random() < 0.9 else units_d)}"
    if r.random() < 0.15:
        s += r.choice(["5", "-5", "+7", " 5", "\n", "\nX", "T", "x", "1_0", "0", "-86400"])
    if r.random() < 0.05:
        i = r.randrange(len(s) + 1)
        s = s[:i] + r.choice(["T", "P", " ", ".", "D", "9"]) + s[i:]
    return s


def duration_stream(base: dict[str, Any], tier: str, r: Any, scratch: Path) -> Iterator[dict[str, Any]]:
    vals = list(EXOTIC_DURATIONS) + [random_duration(r) for _ in range(150 if tier == "quick" else 1500)]
    for i, v in enumerate(vals):
        for sect, opt in (("request_policy", "min_bundle_interval"), ("ksk_policy", "publish_safety")):
            def _set(parent: Any, key: Any, t: Any, v: Any = v) -> None:
                parent[key] = v
            yield {"stream": "duration", "tag": f"{sect}.{opt}={short(v)}#{i}", "tree": mutated(base, (sect, opt), _set), "mutation": "duration"}


EXTRA_TREE_STREAMS.append(duration_stream)


def direct_duration_stream(res: Result, tier: str, r: Any, scratch: Path, driver_ok: bool) -> None:
    """the two parsers called directly, for volume: TypeAdapter(timedelta) vs pyd_duration, duration_to_timedelta vs
    repo_duration; the oracle: ISO W/D/H/M/S strings must give exactly the stated value in both."""
    from pydantic import TypeAdapter, ValidationError

    from kskm.common.parse_utils import duration_to_timedelta

    ta = TypeAdapter(dt.timedelta)
    n = 1500 if tier == "quick" else 20000
    strs = [v for v in EXOTIC_DURATIONS if isinstance(v, str)] + [random_duration(r) for _ in range(n)]
    # the documented grammar itself, systematically
    for w, d, h, m, sec in [(0, 1, 0, 0, 0), (1, 0, 0, 0, 0), (0, 0, 1, 0, 0), (0, 0, 0, 1, 0), (0, 0, 0, 0, 1), (2, 3, 4, 5, 6), (0, 79, 0, 0, 0), (52, 0, 0, 0, 0), (0, 0, 36, 90, 3600), (999999, 999999, 999999, 999999, 999999)]:
        date = (f"{w}W" if w else "") + (f"{d}D" if d else "")
        time_ = (f"{h}H" if h else "") + (f"{m}M" if m else "") + (f"{sec}S" if sec else "")
        strs.append("P" + date + ("T" + time_ if time_ else ""))
    lines: list[dict[str, Any]] = []
    impls: list[Any] = []
    for s in strs:
        try:
            impls.append({"ok": lib.td_us(ta.validate_python(s))})
        except ValidationError:
            impls.append({"error": "validation"})
        except Exception as exc:  # noqa: BLE001
            impls.append({"error": lib.error_kind(exc)})
        lines.append({"op": "pyd_duration", "text": s})
        try:
            impls.append({"ok": lib.td_us(duration_to_timedelta(s))})
        except Exception as exc:  # noqa: BLE001
            impls.append({"error": lib.error_kind(exc)})
        lines.append({"op": "repo_duration", "value": s})
    models = run_driver(lines, exe=DRIVER) if driver_ok else [None] * len(lines)
    for line, impl, m in zip(lines, impls, models):
        s = line.get("text", line.get("value"))
        res.count({"stream": "duration-direct", "op": line["op"], "s": s})
        res.bump("stream:duration-direct")
        want = iso_wdhms(s)
        if want is not None and impl != {"ok": want}:
            res.violation("ISO 8601 W/D/H/M/S duration is not loaded exactly", line, key=f"{line['op']}:{s}", impl=impl, expected=want)
        if s in GARBAGE_DURATIONS and "ok" in impl:
            res.violation("unparsable duration is accepted", line, key=f"{line['op']}:{s}", impl=impl)
        if "ok" in impl and want is None:
            res.bump(f"quirk:{line['op']}:accepts-beyond-WDHMS")
        if m is None:
            continue
        if lib.is_unsupported(m):
            res.unsupported += 1
            res.bump("unsupported:duration-direct")
            dump_unsupported("duration-direct", {"line": line, "impl": impl})
        elif ("ok" in impl) != ("ok" in m) or ("ok" in impl and impl != m):
            res.disagreement(f"{line['op']}: model != implementation", line, impl, m)
        elif "error" in impl and (impl["error"] == "validation") != (m.get("error") == "validation"):
            res.disagreement(f"{line['op']}: error class differs", line, impl, m)


OTHER_STREAMS.append(direct_duration_stream)


# ------------------------------------------------------------------------------------------------
# stream: pydantic's lax coercion table, per field type
# ------------------------------------------------------------------------------------------------

SCALAR_VALUES: list[Any] = [
    None, True, False, 0, 1, 2, -1, 12, 65535, 65536, 2**53, 2**53 + 1, 2**64, -(2**64), 0.0, 1.0, -0.0, 12.0, 2.5, -2.5, 1e20, 2.0**53, float("inf"), float("nan"),
    "", "true", "True", "TRUE", "yes", "on", "1", "0", "y", "t", "no", "off", "false", "f", "n", " true", "true ", "2", "12", "-3", "+12", " 12", "12 ", "12.0", "1_000",
    "1e3", "0x10", "1x", "abc", "é", "١٢", "007", "-0", "--1", "+", "-", ".", "abc\n", "a.b", "a-b", "a_b", "a b", "ABCDEF0123", "abcdefg", "RSASHA256", "rsasha256", "ED448", "8",
    [], [1], ["a"], ["a", "b"], [["a"]], [None], {}, {"a": 1}, {1: 1}, dt.date(2010, 7, 15), dt.datetime(2010, 7, 15), dt.datetime(2010, 7, 15, 12, 30, 1, 5, tzinfo=dt.timezone.utc),
    dt.datetime(2010, 7, 15, tzinfo=dt.timezone(dt.timedelta(hours=2))), dt.datetime(1, 1, 1), dt.datetime(9999, 12, 31, 23, 59, 59, 999999),
    "2010-07-15T00:00:00+00:00", "2010-07-15T00:00:00Z", "2010-07-15T00:00:00", "2010-07-15 00:00:00", "2010-07-15T00:00", "2010-07-15", "2010-07-15T00:00:00.123456",
    "2010-07-15T00:00:00.1234567", "2010-07-15T00:00:00.5", "2010-07-15T00:00:00+02:00", "2010-07-15T00:00:00-0230", "2010-07-15T00:00:00+02", "2010-07-15t00:00:00z",
    "20100715T000000Z", "2010-7-15T00:00:00", "2010-07-15T24:00:00", "2010-02-30T00:00:00", "2012-02-29T00:00:00", "2100-02-29T00:00:00", "2000-02-29", "2010-13-01",
    "2010-00-10", "2010-07-15T00:00:60", "2010-07-15T00:60:00", "1500000000", "-1", "20000000000", "20000000001", "1500000000.5", "0001-01-01T00:00:00", "0000-01-01T00:00:00",
    "9999-12-31T23:59:59", "10000-01-01T00:00:00", "2010-07-15T00:00:00+24:00", "2010-07-15T00:00:00+23:59", "2010-07-15_00:00:00", "2010-07-15X00:00:00",
    " 2010-07-15T00:00:00", "2010-07-15T00:00:00 ", "1969-12-31T23:59:59.999999Z", "1600-02-29T12:00:00-11:30",
    1500000000, -1500000000, 20000000000, 20000000001, 1500000000000,
]  # fmt: skip
SCALAR_FIELDS = [
    ("RequestPolicy", "validate_signatures"), ("RequestPolicy", "num_bundles"), ("RequestPolicy", "dns_ttl"), ("RequestPolicy", "rsa_approved_key_sizes"),
    ("RequestPolicy", "rsa_approved_exponents"), ("RequestPolicy", "acceptable_domains"), ("RequestPolicy", "approved_algorithms"), ("RequestPolicy", "min_bundle_interval"),
    ("ResponsePolicy", "num_bundles"), ("KSKPolicy", "ttl"), ("KSKPolicy", "signers_name"), ("KSKPolicy", "signature_policy"), ("SignaturePolicy", "publish_safety"),
    ("SignaturePolicy", "algorithms"), ("KSKKey", "description"), ("KSKKey", "label"), ("KSKKey", "key_tag"), ("KSKKey", "algorithm"), ("KSKKey", "valid_from"),
    ("KSKKey", "valid_until"), ("KSKKey", "rsa_size"), ("KSKKey", "rsa_exponent"), ("KSKKey", "ds_sha256"), ("KSKKey", "hash_using_hsm"), ("SchemaAction", "publish"),
    ("SchemaAction", "revoke"), ("KSKMHSM", "module"), ("KSKMHSM", "pin"), ("KSKMHSM", "env"), ("KSKMFilenames", "previous_skr"), ("KSKMFilenames", "output_skr"),
    ("KSKMConfig", "hsm"), ("KSKMConfig", "ksk_keys"), ("KSKMConfig", "schemas"), ("KSKMConfig", "request_policy"), ("KSKMConfig", "filenames"),
]  # fmt: skip
REQUIRED_FILLERS: dict[str, dict[str, Any]] = {
    "KSKKey": {"description": "d", "label": "L", "algorithm": "RSASHA256", "valid_from": dt.datetime(2010, 1, 1)},
    "SchemaAction": {"publish": "a", "sign": "a"},
    "KSKMHSM": {"module": "m"},
}


def scalar_stream(res: Result, tier: str, r: Any, scratch: Path, driver_ok: bool) -> None:
    """each field type of each model against the whole value table: the model instantiated with just that field
    (required fields filled in), the loaded field compared with the model's `config_validate`."""
    import pydantic

    from kskm.common import config as cfg
    from kskm.common import config_misc as cm
    from kskm.common import data as cdata

    classes = {"RequestPolicy": cm.RequestPolicy, "ResponsePolicy": cm.ResponsePolicy, "KSKPolicy": cm.KSKPolicy, "SignaturePolicy": cdata.SignaturePolicy,
               "KSKKey": cm.KSKKey, "SchemaAction": cm.SchemaAction, "KSKMHSM": cm.KSKMHSM, "KSKMFilenames": cm.KSKMFilenames, "KSKMConfig": cfg.KSKMConfig}  # fmt: skip
    values = list(SCALAR_VALUES) + [str(scratch / "ksr.xml"), str(scratch), str(scratch / "nope.xml"), "ta.xml", "a/b.xml", "a//b", "./a", "a/", "/", "/abs/x"]
    values += [dt.timedelta(days=1), dt.timedelta(0)]
    lines: list[dict[str, Any]] = []
    impls: list[Any] = []
    for mname, fname in SCALAR_FIELDS:
        cls = classes[mname]
        for v in values:
            for wrap in (False, True):
                if wrap and not (isinstance(v, (str, int, float)) or v is None):
                    continue
                val = [v] if wrap else v
                data = dict(REQUIRED_FILLERS.get(mname, {}))
                data[fname] = copy.deepcopy(val)
                try:
                    tree_j = canon(val)
                except TypeError:
                    continue
                try:
                    obj = cls.model_validate(data)
                    impls.append({"ok": canon(getattr(obj, fname))})
                except pydantic.ValidationError:
                    impls.append({"error": "validation"})
                except Exception as exc:  # noqa: BLE001
                    impls.append({"error": lib.error_kind(exc)})
                lines.append({"op": "config_validate", "model": mname, "field": fname, "value": tree_j, "files": existing_files(val)})
    models = run_driver(lines, exe=DRIVER) if driver_ok else [None] * len(lines)
    for line, impl, m in zip(lines, impls, models):
        res.count({"stream": "scalar", "m": line["model"], "f": line["field"], "v": line["value"]})
        res.bump("stream:scalar")
        if m is None:
            continue
        if lib.is_unsupported(m):
            res.unsupported += 1
            res.bump("unsupported:scalar")
            dump_unsupported("scalar", {"line": line, "impl": impl})
        elif coarse(impl) != coarse(m) or ("ok" in impl and impl != m):
            res.disagreement("field validation: model != implementation", tokenise(line, str(scratch)), impl, m)


OTHER_STREAMS.append(scalar_stream)


# ------------------------------------------------------------------------------------------------
# stream: the coercion classes the model decides exactly (wave B3): integers out of text and floats, validity
# timestamps out of numbers and ISO text, durations out of whole seconds and text with foreign characters, path
# normalisation, a configuration file whose top level is not a mapping
# ------------------------------------------------------------------------------------------------

RUST_WS = ["", "", " ", "\t", "\n", "\r", "\x0b", "\x0c", "\x85", "\xa0", "\u1680", "\u2000", "\u200a", "\u2028", "\u2029", "\u202f", "\u205f", "\u3000"]
NOT_RUST_WS = ["\x1c", "\x1f", "\u200b", "\ufeff", "\x00"]
KNOWN_SECTIONS = {"hsm", "keys", "ksk_keys", "ksk_policy", "request_policy", "response_policy", "schemas", "filenames"}


def gen_int_text(r: Any) -> str:
    digits = lambda: "".join(r.choice("0123456789") for _ in range(r.choice([1, 1, 2, 3, 5, 19, 20, 25])))  # noqa: E731
    body = "_".join(digits() for _ in range(r.choice([1, 1, 1, 2, 3])))
    if r.random() < 0.3:
        body = r.choice(["0", "00", "000", "0_", "0__", "0_0_", "0___0__", "0-", "0_-", "0+"]) + body
    s = r.choice(["", "", "+", "-"]) + body + r.choice(["", "", "", ".0", ".000", ".", ".5", ".0_0"])
    if r.random() < 0.35:
        i = r.randrange(len(s) + 1)
        s = s[:i] + r.choice(["_", "__", " ", "+", "-", ".", ",", "e3", "x", "١", "２", "é", "\x1c"]) + s[i:]
    return r.choice(RUST_WS) + s + r.choice(RUST_WS + NOT_RUST_WS[:2])


def denoted_number(text: str) -> float | int | None:
    """what Python itself reads the text as (the independent reading of "the stated value")"""
    import decimal

    try:
        return int(text)
    except ValueError:
        pass
    try:
        d = decimal.Decimal(text.strip())
    except decimal.InvalidOperation:
        return None
    if not d.is_finite():
        return None
    return int(d) if d == d.to_integral_value() else float(d)


def gen_iso_datetime(r: Any) -> str:
    """mostly valid `YYYY-MM-DD[T t_ ]HH:MM[:SS[(.|,)f…]][zone]`, each part now and then at / beyond its edge"""
    rare = lambda ok, bad: r.choice(bad) if r.random() < 0.06 else r.choice(ok)  # noqa: E731
    y = rare([1, 2, 1600, 1969, 1970, 2010, 2012, 2100, 9998, 9999, r.randint(1, 9999), r.randint(1900, 2100)], [0])
    mo, d = rare([1, 2, 12, r.randint(1, 12)], [0, 13]), rare([1, 28, r.randint(1, 28), r.randint(1, 28), 29, 30], [0, 31, 32])
    s = f"{y:04d}-{mo:02d}-{d:02d}"
    if r.random() < 0.12:
        return s + rare([""], [" ", "T", "Z"])
    s += rare(["T", "T", "T", "t", " ", "_"], ["X", "\t", "  "])
    s += f"{rare([0, 12, 23, r.randint(0, 23)], [24]):02d}:{rare([0, 59, r.randint(0, 59)], [60]):02d}"
    if r.random() < 0.8:
        s += f":{rare([0, 59, r.randint(0, 59)], [60]):02d}"
        if r.random() < 0.4:
            s += r.choice([".", ".", ","]) + "".join(r.choice("0123456789") for _ in range(rare([1, 3, 6, 7, 9, 12], [0])))
    s += rare(["", "", "Z", "z", "+00:00", "-00:00", "+0000", "-0230", "+02:00", "+23:59", "-23:59", "\u221202:00", "\u22120200"], ["+24:00", "+02:60", "+02", " Z", "Zx", "+1:00"])
    if r.random() < 0.06:
        i = r.randrange(len(s) + 1)
        s = s[:i] + r.choice([" ", "0", "-", ":", "x"]) + s[i:]
    return s


def python_instant(text: str) -> int | None:
    """Python's own ISO 8601 reading (datetime.fromisoformat), no designator = UTC; None if it does not read it"""
    try:
        v = dt.datetime.fromisoformat(text)
    except ValueError:
        return None
    try:
        return lib.dt_us(v if v.tzinfo else v.replace(tzinfo=dt.timezone.utc))
    except OverflowError:
        return None


def gen_foreign_duration(r: Any) -> str:
    base = r.choice(["%d d", "%dd", "%dD", "%d days, %d:%02d:%02d", "%d:%02d", "%d:%02d:%02d", "%d day, %d:%02d", "%dd %d:%02d:%02d.%d", ":%02d:%02d",
                     "P%dD", "P%dW%dD", "PT%dH%dM", "P%dDT%dS", "%d", "%d.%d", "%d %d"])  # fmt: skip
    s = base % tuple(r.randint(0, 60) for _ in range(base.count("%")))
    if r.random() < 0.4:
        s = r.choice("+-") + s
    for _ in range(r.choice([0, 1, 1, 2])):
        i = r.randrange(len(s) + 1)
        s = s[:i] + r.choice(list("TZxPe+-\n\t_YMWHSAé٣ dw") + ["\u2212"]) + s[i:]
    return s


def coercion_stream(res: Result, tier: str, r: Any, scratch: Path, driver_ok: bool) -> None:
    import os.path

    import pydantic

    from kskm.common import config_misc as cm
    from kskm.common import data as cdata

    classes = {"RequestPolicy": cm.RequestPolicy, "KSKKey": cm.KSKKey, "KSKMFilenames": cm.KSKMFilenames, "SignaturePolicy": cdata.SignaturePolicy}
    n = 1 if tier == "quick" else 12
    D = 86400
    cases: list[tuple[str, str, str, Any]] = []  # (kind, model, field, value)
    # integers out of text / floats
    for _ in range(260 * n):
        cases.append(("int-text", *r.choice([("RequestPolicy", "dns_ttl"), ("KSKKey", "rsa_exponent"), ("KSKKey", "key_tag"), ("RequestPolicy", "num_bundles")]), gen_int_text(r)))
    for f in (2.0**63, -(2.0**63), 9223372036854774784.0, -9223372036854774784.0, 2.0**53, 2.0**53 + 2, 1e19, -1e19, 1e20, 4.0, -4.0, 0.5, float("inf"), float("nan")):
        cases.append(("int-float", "KSKKey", "rsa_exponent", f))
        cases.append(("int-float", "RequestPolicy", "dns_ttl", f))
    # validity out of numbers: the seconds / milliseconds watershed and the year 1 / 9999 edges
    nums: list[int] = []
    for b in (0, 2 * 10**10, -2 * 10**10, 253402300799, 253402300799999, 253402300800000, -62135596800, -62135596800000, -62167219200000, 2**53, -(2**53), 2**63, -(2**63), 2**64, -(2**64)):
        nums += [b - 2, b - 1, b, b + 1, b + 2]
    nums += [r.randint(-(10 ** r.randint(1, 21)), 10 ** r.randint(1, 21)) for _ in range(60 * n)]
    for i in nums:
        fld = r.choice(["valid_from", "valid_until"])
        cases.append(("ts-int", "KSKKey", fld, i))
        cases.append(("ts-text", "KSKKey", fld, r.choice(["", "", "+", ""]) + str(i) if i >= 0 else str(i)))
        if float(i) == i and abs(i) < 2**53:
            cases.append(("ts-float", "KSKKey", fld, float(i)))
    for _ in range(300 * n):
        cases.append(("ts-iso", "KSKKey", r.choice(["valid_from", "valid_until"]), gen_iso_datetime(r)))
    # durations out of whole seconds: the u32 day wrap, the 10^9-day edge, the i64 edge
    secs: list[int] = []
    for b in (0, 10**9 * D, -(10**9) * D, -(10**9 - 1) * D, 2**32 * D, -(2**32) * D, 2 * 2**32 * D, 2**32 * D + 10**9 * D, 2**63, -(2**63), 2**64, 2**53):
        secs += [b - D, b - 1, b, b + 1, b + D]
    secs += [r.randint(-(10 ** r.randint(1, 20)), 10 ** r.randint(1, 20)) for _ in range(40 * n)]
    for i in secs:
        m, fld = r.choice([("RequestPolicy", "min_bundle_interval"), ("SignaturePolicy", "publish_safety")])
        cases.append(("td-int", m, fld, i))
        if float(i) == i:
            cases.append(("td-float", m, fld, float(i)))
    for _ in range(300 * n):
        cases.append(("td-text", "RequestPolicy", r.choice(["max_bundle_interval", "min_cycle_inception_length"]), gen_foreign_duration(r)))
    # (SignaturePolicy is a STRICT model: text is never coerced there — `_transform_config` converts it first)
    for v in ("P51D", "PT3H0M", 86400, True, dt.timedelta(days=3)):
        cases.append(("td-strict", "SignaturePolicy", "retire_safety", v))
    # paths
    for _ in range(80 * n):
        segs = [r.choice(["", ".", "..", "a", "b.xml", "x y", "é", "a\x00b"]) for _ in range(r.randint(0, 4))]
        cases.append(("path", "KSKMFilenames", r.choice(["output_skr", "output_trustanchor"]), r.choice(["", "", "/", "//", "///", "./"]) + "/".join(segs)))

    lines: list[dict[str, Any]] = []
    impls: list[Any] = []
    kept: list[tuple[str, str, str, Any]] = []
    for kind, mname, fname, v in cases:
        data = dict(REQUIRED_FILLERS.get(mname, {}))
        data[fname] = v
        try:
            obj = classes[mname].model_validate(data)
            impl: Any = {"ok": canon(getattr(obj, fname))}
        except pydantic.ValidationError:
            impl = {"error": "validation"}
        except Exception as exc:  # noqa: BLE001
            impl = {"error": lib.error_kind(exc)}
        impls.append(impl)
        kept.append((kind, mname, fname, v))
        lines.append({"op": "config_validate", "model": mname, "field": fname, "value": canon(v), "files": []})
    # a configuration whose top level is not a mapping: `dict(config)` decides
    tops: list[Any] = ["x", "ab", "just a string", "", [], ["ab"], ["abc"], [1], [None], [True], [1.5], [["hsm", {}]], [["hsm", {}], 1], [["hsm", {}], "abc"], [[["a"], 1]],
                       [[{"a": 1}, 1]], [{"a": 1, "b": 2}], [{"hsm": 1, "filenames": 2}], [["a", 1], ["a", 2]], [[1, 2]], [""], [[]], [{}], [["filenames", {}]], [["filenames", {}], ["schemas", {}]],
                       [["filenames", {}], ["filenames", {}]], [["filenames", {}, 1]], [dt.date(2020, 1, 1)], [["request_policy", {"num_bundles": 0}]], None, 0, True, 1.5]  # fmt: skip
    for v in tops:
        impls.append(load_impl(v))
        kept.append(("top-level", "KSKMConfig", "", v))
        lines.append({"op": "config_from_dict", "config": canon(v), "files": []})
    models = run_driver(lines, exe=DRIVER) if driver_ok else [None] * len(lines)
    for (kind, mname, fname, v), line, impl, m in zip(kept, lines, impls, models):
        rec = {"stream": "coercion", "kind": kind, "line": line}
        res.count({"stream": "coercion", "kind": kind, "m": mname, "f": fname, "v": line.get("value", line.get("config"))})
        res.bump("stream:coercion")
        res.bump(f"coercion:{kind}:{coarse(impl)}")
        # ---- the property on the implementation's own answer (independent readings of "the stated value")
        if "ok" in impl:
            got = impl["ok"]
            if kind == "int-text":
                want = denoted_number(v)
                core = v.strip().lstrip("+-")
                if (want is None or got != want) and core[:1] == "0" and re.search(r"[+-]", core):
                    # pydantic-core skips a leading run of zeros / underscores and then reads a SIGNED number: "0-6" is
                    # loaded as -6, "0_-369" as -369.  Recorded (reported to the lead as a candidate finding), not judged:
                    # every constrained option (dns_ttl >= 0, the positivity checks) still refuses the negative result.
                    res.bump("quirk:int-text:sign after a leading zero is read (0-6 loads as -6)")
                elif want is None or got != want:
                    res.violation("text that does not state this integer is loaded as an integer option", rec, key=f"int-text:{fname}:{v!r}", impl=impl, python_reads=want)
            if kind in ("int-text", "int-float") and fname == "dns_ttl" and isinstance(got, int) and got < 0:
                res.violation("negative TTL is accepted", rec, key=f"neg-ttl:{v!r}", impl=impl)
            if kind == "int-float" and (v != v or got != v):
                res.violation("float that is not this whole number is loaded as an integer option", rec, key=f"int-float:{v!r}", impl=impl)
            if kind in ("ts-int", "ts-text", "ts-float"):
                i = int(v)
                if not (isinstance(got, dict) and got.get("ts") in ([i * 10**6, 0], [i * 10**3, 0])) and abs(i) >= 2**63 and kind == "ts-text":
                    # speedate reads the digits with wrapping 64-bit arithmetic: "18446744073709551616" loads as the epoch;
                    # a bare number is not a documented spelling of a validity ("ISO8601 timestamp"): recorded, not judged
                    res.bump("quirk:ts-text:number beyond 64 bits wraps")
                elif not (isinstance(got, dict) and got.get("ts") in ([i * 10**6, 0], [i * 10**3, 0])):
                    res.violation("numeric validity is not loaded as that unix time (s or ms), in UTC", rec, key=f"ts-num:{v!r}", impl=impl)
            if kind == "ts-iso":
                want_us = python_instant(v)
                if want_us is None:
                    res.bump("quirk:ts-iso:accepts-what-fromisoformat-refuses")
                elif not (isinstance(got, dict) and got.get("ts", [None])[0] == want_us and got["ts"][1] is not None):
                    res.violation("loaded value differs from the configured value", rec, key=f"ts-iso:{v!r}", impl=impl, python_reads=want_us)
            if kind in ("td-int", "td-float"):
                if got != {"td": int(v) * 10**6}:
                    # pydantic's day count is a u32 that wraps; whole seconds are not a documented duration spelling
                    res.bump("quirk:td-int:loaded-value-is-not-the-stated-seconds(u32 day wrap)")
            if kind == "td-strict" and not isinstance(v, dt.timedelta):
                res.violation("the strict signature-policy model coerces a value that is not a duration", rec, key=f"td-strict:{v!r}", impl=impl)
            if kind == "td-text":
                want_td = iso_wdhms(v)
                if want_td is not None and got != {"td": want_td}:
                    res.violation("ISO 8601 W/D/H/M/S duration is not loaded exactly", rec, key=f"td-text:{v!r}", impl=impl, expected=want_td)
                if want_td is None:
                    res.bump("quirk:td-text:accepts-beyond-WDHMS")
            if kind == "path" and os.path.normpath(got) != os.path.normpath(v or "."):
                res.violation("loaded value differs from the configured value", rec, key=f"path:{v!r}", impl=impl)
            if kind == "top-level":
                try:
                    as_dict = dict(v)
                except (TypeError, ValueError):
                    as_dict = None
                if as_dict is None or not set(as_dict) <= KNOWN_SECTIONS:
                    res.violation("a configuration that is not a mapping of known sections is loaded", rec, key=f"top:{v!r}", impl=summarise(impl))
        elif kind == "td-text" and iso_wdhms(v) is not None:
            res.violation("ISO 8601 W/D/H/M/S duration is not loaded exactly", rec, key=f"td-text:{v!r}", impl=impl, expected=iso_wdhms(v))
        if m is None:
            continue
        if lib.is_unsupported(m):
            res.unsupported += 1
            res.bump("unsupported:coercion")
            res.bump(f"unsupported:coercion:{kind}")
            dump_unsupported("coercion", {"kind": kind, "line": line, "impl": summarise(impl)})
        elif kind == "top-level":
            if not same_load(impl, m):
                res.disagreement("KSKMConfig.from_dict (top level not a mapping): model != implementation", rec, summarise(impl), summarise(m))
        elif coarse(impl) != coarse(m) or ("ok" in impl and impl != m):
            res.disagreement("field validation: model != implementation", rec, impl, m)
        elif "error" in impl and coarse(impl) == "other" and impl["error"] != m.get("error"):
            res.disagreement("field validation: escaping exception differs", rec, impl, m)


OTHER_STREAMS.append(coercion_stream)


# ------------------------------------------------------------------------------------------------
# stream: random well-formed configurations round-tripped through YAML
# ------------------------------------------------------------------------------------------------

WORDS = ["ksk_current", "ksk_next", "K1", "k_2", "Kjqmt7v", "Klajeyz", "a", "B", "softhsm", "aep", "luna", "normal", "rollover", "revoke", "pre-publish", "x9", "_", "__a__", "0", "007", "on", "yes", "null", "1e3", "0x10"]


def gen_duration(r: Any) -> tuple[str, dict[str, int]]:
    w, d, h, m, s = (r.choice([0, 0, r.randint(0, 12), r.randint(0, 999999)]) for _ in range(5))
    if r.random() < 0.5:
        h = m = s = 0
    if w == d == h == m == s == 0:
        d = r.randint(0, 400)
        return f"P{d}D", {"td": d * DAY_US}
    date = (f"{w}W" if w else "") + (f"{d}D" if d else "")
    time_ = (f"{h}H" if h else "") + (f"{m}M" if m else "") + (f"{s}S" if s else "")
    return "P" + date + ("T" + time_ if time_ else ""), {"td": ((w * 7 + d) * 86400 + h * 3600 + m * 60 + s) * SEC}


def gen_datetime(r: Any) -> tuple[dt.datetime | dt.date, dict[str, Any]]:
    base = dt.datetime(r.randint(1971, 2200), r.randint(1, 12), r.randint(1, 28), r.randint(0, 23), r.randint(0, 59), r.randint(0, 59), r.choice([0, 0, r.randint(0, 999999)]))
    kind = r.choice(["utc", "naive", "offset", "date"])
    naive_us = (base - dt.datetime(1970, 1, 1)) // dt.timedelta(microseconds=1)
    if kind == "naive":
        return base, {"ts": [naive_us, 0]}  # no designator: UTC
    if kind == "date":
        return base.date(), {"ts": [(base.date() - dt.date(1970, 1, 1)).days * DAY_US, 0]}  # midnight UTC
    if kind == "utc":
        return base.replace(tzinfo=dt.timezone.utc), {"ts": [naive_us, 0]}
    off = r.choice([-12, -5, 1, 2, 9]) * 3600 + r.choice([0, 0, 1800])
    return base.replace(tzinfo=dt.timezone(dt.timedelta(seconds=off))), {"ts": [naive_us - off * SEC, off]}


def gen_value(kind: Any, r: Any, scratch: Path) -> tuple[Any, Any]:
    """(what is written into the file, the value it is meant to load as)"""
    if isinstance(kind, tuple) and kind[0] == "int":
        _, lo, hi = kind
        lo = 0 if lo is None else lo
        v = r.choice([lo, lo + 1, hi if hi is not None else 2**31, r.randint(lo, hi if hi is not None else 10**6), r.randint(lo, hi if hi is not None else 2**40)])
        return v, v
    if isinstance(kind, tuple) and kind[0] == "list":
        pairs = [gen_value(kind[1], r, scratch) for _ in range(r.choice([0, 1, 1, 2, 9]))]
        return [a for a, _ in pairs], [b for _, b in pairs]
    if kind == "bool":
        b = r.random() < 0.5
        return b, b
    if kind == "duration":
        return gen_duration(r)
    if kind == "domain":
        v = r.choice([".", "example.", "a.b.c", "xn__q9j", "A_1.", "arpa", "0", "on", "1.2"])
        return v, v
    if kind == "keyname":
        v = r.choice([w for w in WORDS if re.fullmatch(r"[A-Za-z0-9_]+", w)])
        return v, v
    if kind == "hex":
        v = "".join(r.choice("0123456789abcdefABCDEF") for _ in range(r.choice([1, 8, 64])))
        return v, v
    if kind == "str":
        v = r.choice(["Root DNSSEC KSK 2010", "", "x", "multi\nline", "ünï", "  padded ", "yes", "12", "a: b", "# not a comment", "RSASHA256", "NOSUCHALG"])
        return v, v
    if kind == "alg":
        v = r.choice(list(DOC_ALGORITHMS))
        return v, DOC_ALGORITHMS[v]
    if kind == "datetime":
        return gen_datetime(r)
    if kind == "file":
        v = str(scratch / r.choice(["ksr.xml", "prev-skr.xml"]))
        return v, v
    if kind == "path":
        v = r.choice(["skr.xml", "out/skr.xml", "/tmp/x.xml", "root-anchors.xml"])
        return v, v
    if kind == "pin":
        v = r.choice([123456, "123456", "p i n", 0, 2**70])
        return v, v
    if kind == "names":
        if r.random() < 0.5:
            v, _ = gen_value("keyname", r, scratch)
            return v, [v]
        return gen_value(("list", "keyname"), r, scratch)
    if kind == "env":
        d = {r.choice(["SOFTHSM2_CONF", "KEYPER_LIBRARY_PATH", "X", "y"]): r.choice(["softhsm.conf", 1, None, True, ["a", 1], {"n": {"m": 0}}]) for _ in range(r.randint(0, 3))}
        return d, d
    raise ValueError(kind)


def gen_section(table: dict[str, tuple[Any, Any]], r: Any, scratch: Path, density: float) -> tuple[dict[str, Any], dict[str, Any]]:
    given: dict[str, Any] = {}
    want: dict[str, Any] = {}
    keys = list(table)
    r.shuffle(keys)
    for k in keys:
        kind, default = table[k]
        if default == "REQUIRED" or r.random() < density:
            given[k], want[k] = gen_value(kind, r, scratch)
    return given, want


def random_config(r: Any, scratch: Path) -> tuple[dict[str, Any], dict[str, Any]]:
    tree: dict[str, Any] = {}
    want: dict[str, Any] = {}
    density = r.choice([0.1, 0.5, 0.9, 1.0])
    sections = list(DOC_TOP)
    r.shuffle(sections)
    for sect in sections:
        if r.random() < 0.25:
            continue
        if sect in ("request_policy", "response_policy", "ksk_policy", "filenames"):
            table = {"request_policy": DOC_REQUEST_POLICY, "response_policy": DOC_RESPONSE_POLICY, "ksk_policy": DOC_KSK_POLICY, "filenames": DOC_FILENAMES}[sect]
            tree[sect], want[sect] = gen_section(table, r, scratch, density)
        elif sect in ("hsm", "keys"):
            table = DOC_HSM if sect == "hsm" else DOC_KEY
            tree[sect], want[sect] = {}, {}
            for name in r.sample(WORDS, r.randint(0, 3)):
                tree[sect][name], want[sect][name] = gen_section(table, r, scratch, density)
        else:
            tree[sect], want[sect] = {}, {}
            for name in r.sample(WORDS, r.randint(0, 3)):
                tree[sect][name], want[sect][name] = {}, {}
                for slot in r.sample(range(0, 12), r.randint(0, 9)):
                    tree[sect][name][slot], want[sect][name][slot] = gen_section(DOC_ACTION, r, scratch, density)
    # the positivity / dns_ttl interplay: make the documented replacement observable
    if "request_policy" in tree and "ksk_policy" in tree and r.random() < 0.5:
        tree["request_policy"]["dns_ttl"] = want["request_policy"]["dns_ttl"] = 0
        if "ttl" not in tree["ksk_policy"]:
            tree["ksk_policy"]["ttl"] = want["ksk_policy"]["ttl"] = r.choice([0, 1, 3600, 172800])
    if "hsm" in want:
        for h in want["hsm"].values():
            if "env" in h:
                h["env"] = plain(canon(h["env"]))
    return tree, want


def random_stream(base: dict[str, Any], tier: str, r: Any, scratch: Path) -> Iterator[dict[str, Any]]:
    import yaml

    intent = Intent({str(scratch / "prev-skr.xml"), str(scratch / "ksr.xml")})
    for i in range(250 if tier == "quick" else 3000):
        tree, want = random_config(r, scratch)
        text = yaml.safe_dump(tree, default_flow_style=r.choice([None, False, True]), sort_keys=r.random() < 0.5)
        loaded_tree = yaml.safe_load(text)
        yield {"stream": "random", "tag": f"random#{i}:{lib.seed()}", "tree": loaded_tree, "yaml": text, "intent": intent.expected(want), "mutation": "random"}


EXTRA_TREE_STREAMS.append(random_stream)


# ------------------------------------------------------------------------------------------------
# stream: KSK validity in every spelling of an ISO 8601 timestamp, as YAML text
# ------------------------------------------------------------------------------------------------

# (YAML scalar as written, wall-clock time, UTC offset in seconds or None = no designator, must it load?)
# The expected instant is wall - offset, the expected loaded offset is the stated one, 0 when none is stated.
VALIDITY_SPELLINGS: list[tuple[str, tuple[int, ...], int | None, bool]] = [
    ("2010-07-15T00:00:00", (2010, 7, 15, 0, 0, 0, 0), None, True),
    ("2010-07-15 00:00:00", (2010, 7, 15, 0, 0, 0, 0), None, True),
    ("2010-07-15t12:30:01", (2010, 7, 15, 12, 30, 1, 0), None, True),
    ("2010-07-15T23:59:59.999999", (2010, 7, 15, 23, 59, 59, 999999), None, True),
    ("2010-07-15T00:00:00.5", (2010, 7, 15, 0, 0, 0, 500000), None, True),
    ("2010-07-15T00:00:00Z", (2010, 7, 15, 0, 0, 0, 0), 0, True),
    ("2010-07-15 00:00:00 Z", (2010, 7, 15, 0, 0, 0, 0), 0, True),
    ("2010-07-15T00:00:00+00:00", (2010, 7, 15, 0, 0, 0, 0), 0, True),
    ("2010-07-15T00:00:00-00:00", (2010, 7, 15, 0, 0, 0, 0), 0, True),
    ("2010-07-15T00:00:00+02:00", (2010, 7, 15, 0, 0, 0, 0), 7200, True),
    ("2010-07-15T00:00:00+02", (2010, 7, 15, 0, 0, 0, 0), 7200, True),
    ("2010-07-15T00:00:00-05:00", (2010, 7, 15, 0, 0, 0, 0), -18000, True),
    ("2010-07-15 00:00:00 -5", (2010, 7, 15, 0, 0, 0, 0), -18000, True),
    ("2010-07-15T12:30:01.25+05:30", (2010, 7, 15, 12, 30, 1, 250000), 19800, True),
    ("2010-07-15T00:00:00-11:30", (2010, 7, 15, 0, 0, 0, 0), -41400, True),
    ("2010-07-15T00:00:00+14:00", (2010, 7, 15, 0, 0, 0, 0), 50400, True),
    ("1969-12-31T23:59:59", (1969, 12, 31, 23, 59, 59, 0), None, True),
    ("2038-01-19T03:14:08", (2038, 1, 19, 3, 14, 8, 0), None, True),
    ("2024-03-31T02:30:00", (2024, 3, 31, 2, 30, 0, 0), None, True),  # inside a European DST gap: UTC has none
    ("2024-10-27T02:30:00", (2024, 10, 27, 2, 30, 0, 0), None, True),  # ... and inside the repeated hour
    ("2012-02-29T12:00:00", (2012, 2, 29, 12, 0, 0, 0), None, True),
    # a bare date and quoted texts: the documentation says "timestamp"; IF accepted, they are that time in UTC
    ("2010-07-15", (2010, 7, 15, 0, 0, 0, 0), None, False),
    ("2012-02-29", (2012, 2, 29, 0, 0, 0, 0), None, False),
    ("'2010-07-15T00:00:00'", (2010, 7, 15, 0, 0, 0, 0), None, False),
    ("'2010-07-15 12:30:01'", (2010, 7, 15, 12, 30, 1, 0), None, False),
    ("'2010-07-15T00:00:00Z'", (2010, 7, 15, 0, 0, 0, 0), 0, False),
    ("'2010-07-15T00:00:00+02:00'", (2010, 7, 15, 0, 0, 0, 0), 7200, False),
    ("'2010-07-15T00:00:00-0530'", (2010, 7, 15, 0, 0, 0, 0), -19800, False),
    ("'2010-07-15'", (2010, 7, 15, 0, 0, 0, 0), None, False),
]  # fmt: skip


def spelled_instant(wall: tuple[int, ...], off: int | None) -> dict[str, Any]:
    y, mo, d, h, mi, sec, us = wall
    wall_us = ((dt.date(y, mo, d) - dt.date(1970, 1, 1)).days * 86400 + h * 3600 + mi * 60 + sec) * SEC + us
    return {"ts": [wall_us - (off or 0) * SEC, off or 0]}


def validity_stream(base: dict[str, Any], tier: str, r: Any, scratch: Path) -> Iterator[dict[str, Any]]:
    import yaml

    def text_of(keys: dict[str, dict[str, str]]) -> str:
        out = ["keys:"]
        for name, opts in keys.items():
            out += [f"  {name}:", "    description: validity stream", f"    label: L_{name}", "    algorithm: RSASHA256"]
            out += [f"    {o}: {v}" for o, v in opts.items()]
        return "\n".join(out) + "\n"

    def case(tag: str, keys: dict[str, dict[str, str]], expect: list[tuple[tuple[Any, ...], Any]], must: bool) -> dict[str, Any]:
        text = text_of(keys)
        c = {"stream": "validity", "tag": tag, "tree": yaml.safe_load(text), "yaml": text, "mutation": "validity", "expect_at": expect}
        if must:
            c["must_load"] = "every validity is an ISO 8601 timestamp"
        return c

    other = "2030-01-01T00:00:00+00:00"
    for sp, wall, off, must in VALIDITY_SPELLINGS:
        want = spelled_instant(wall, off)
        yield case(f"valid_from={sp}", {"k": {"valid_from": sp}}, [(("ksk_keys", "k", "valid_from"), want), (("ksk_keys", "k", "valid_until"), None)], must)
        yield case(f"valid_until={sp}", {"k": {"valid_from": other, "valid_until": sp}},
                   [(("ksk_keys", "k", "valid_from"), spelled_instant((2030, 1, 1, 0, 0, 0, 0), 0)), (("ksk_keys", "k", "valid_until"), want)], must)
    # pairs: the two options (and two keys) are read independently of each other
    pairs = [(a, b) for a in VALIDITY_SPELLINGS for b in VALIDITY_SPELLINGS]
    if tier == "quick":
        pairs = r.sample(pairs, 120)
    for (sa, wa, oa, ma), (sb, wb, ob, mb) in pairs:
        yield case(f"valid_from={sa},valid_until={sb}", {"k": {"valid_from": sa, "valid_until": sb}, "j": {"valid_from": sb}},
                   [(("ksk_keys", "k", "valid_from"), spelled_instant(wa, oa)), (("ksk_keys", "k", "valid_until"), spelled_instant(wb, ob)),
                    (("ksk_keys", "j", "valid_from"), spelled_instant(wb, ob))], ma and mb)


EXTRA_TREE_STREAMS.append(validity_stream)


# ------------------------------------------------------------------------------------------------
# stream: the real main() in subprocesses — exit statuses
# ------------------------------------------------------------------------------------------------

EXIT_CONFIG = 2  # the documented "configuration error" status (EXIT_CODES["config"]; re-read from the code below)


def main_cases(base: dict[str, Any], scratch: Path) -> list[dict[str, Any]]:
    import yaml

    ok = copy.deepcopy(base)
    ok["filenames"] = {"output_skr": "skr.xml"}

    def mut(path: tuple[Any, ...], val: Any = "DELETE") -> dict[str, Any]:
        t = copy.deepcopy(ok)
        parent = get_at(t, path[:-1])
        if val == "DELETE":
            del parent[path[-1]]
        else:
            parent[path[-1]] = val
        return t

    trees: list[tuple[str, Any]] = [
        ("validation:minimal", {"request_policy": {"bogus_option": 1}}),
        ("configuration:minimal", {"request_policy": {"num_bundles": 0}}),
        ("valid:example-without-ksr", ok),
        ("valid:empty-map", {}),
        ("valid:only-hsm", {"hsm": {"softhsm": {"module": "m.so"}}}),
        ("valid:no-normal-schema", mut(("schemas", "normal"))),
        ("configuration:num_bundles=0", mut(("request_policy", "num_bundles"), 0)),
        ("configuration:num_bundles=-1", mut(("request_policy", "num_bundles"), -1)),
        ("configuration:horizon=0", mut(("request_policy", "signature_horizon_days"), 0)),
        ("configuration:distinct-keys=0", mut(("request_policy", "num_different_keys_in_all_bundles"), 0)),
        ("validation:unknown-top-level", mut(("bogus_section",), {})),
        ("validation:unknown-request-option", mut(("request_policy", "bogus_option"), 1)),
        ("validation:unknown-response-option", mut(("response_policy", "bogus_option"), 1)),
        ("validation:unknown-ksk-policy-option", mut(("ksk_policy", "bogus_option"), "P1D")),
        ("validation:unknown-key-option", mut(("keys", "ksk_next", "bogus_option"), 1)),
        ("validation:unknown-schema-slot-option", mut(("schemas", "normal", 1, "bogus_option"), "ksk_current")),
        ("validation:unknown-hsm-option", mut(("hsm", "softhsm", "bogus_option"), 1)),
        ("validation:unknown-filenames-option", mut(("filenames", "bogus_option"), "x")),
        ("validation:negative-ttl", mut(("ksk_policy", "ttl"), -1)),
        ("validation:negative-dns-ttl", mut(("request_policy", "dns_ttl"), -1)),
        ("validation:rsa-size-0", mut(("keys", "ksk_next", "rsa_size"), 0)),
        ("validation:rsa-size-65536", mut(("request_policy", "rsa_approved_key_sizes"), [65536])),
        ("validation:key-tag-negative", mut(("keys", "ksk_next", "key_tag"), -1)),
        ("validation:key-tag-65536", mut(("keys", "ksk_next", "key_tag"), 65536)),
        ("validation:label", mut(("keys", "ksk_next", "label"), "K-1")),
        ("validation:domain", mut(("request_policy", "acceptable_domains"), ["exa mple"])),
        ("validation:digest", mut(("keys", "ksk_next", "ds_sha256"), "xyz")),
        ("validation:algorithm-name", mut(("keys", "ksk_next", "algorithm"), "RSASHA257")),
        ("validation:duration", mut(("request_policy", "min_bundle_interval"), "X")),
        ("validation:response-num-bundles-0", mut(("response_policy", "num_bundles"), 0)),
        ("validation:missing-key-label", mut(("keys", "ksk_next", "label"))),
        ("validation:missing-input-file", mut(("filenames", "input_ksr"), "does-not-exist.xml")),
        ("validation:flag-null", mut(("request_policy", "check_chain_overlap"), None)),
        ("other:ksk-policy-duration-X", mut(("ksk_policy", "publish_safety"), "X")),
        ("other:ksk-policy-duration-P1M", mut(("ksk_policy", "publish_safety"), "P1M")),
        ("other:ksk-policy-null", mut(("ksk_policy",), None)),
        ("other:ksk-policy-without-ttl", mut(("ksk_policy", "ttl"))),
        ("other:dns-ttl-null", mut(("request_policy", "dns_ttl"), None)),
        ("other:algorithm-list", mut(("keys", "ksk_next", "algorithm"), ["RSASHA256"])),
    ]
    cases = [{"stream": "main", "name": n, "yaml": yaml.safe_dump(t)} for n, t in trees]
    cases += [
        {"stream": "main", "name": "file:missing", "yaml": None},
        {"stream": "main", "name": "file:empty", "yaml": ""},
        {"stream": "main", "name": "file:malformed-yaml", "yaml": "request_policy: {num_bundles: 0\n  - ]: [\n"},
        {"stream": "main", "name": "file:malformed-yaml-tab", "yaml": "a:\n\t- b\n"},
        {"stream": "main", "name": "file:python-tag", "yaml": "a: !!python/object/apply:os.system ['true']\n"},
        {"stream": "main", "name": "file:scalar", "yaml": "just a string\n"},
    ]
    return cases


def run_main_cases(cases: list[dict[str, Any]], scratch: Path, width: int = 12) -> list[int]:
    statuses: list[int] = []
    for i in range(0, len(cases), width):
        procs = []
        for k, c in enumerate(cases[i : i + width]):
            p = scratch / f"main_{i + k}.yaml"
            if c["yaml"] is not None:
                p.write_text(c["yaml"])
            elif p.exists():
                p.unlink()
            procs.append(tables_config.run_main(str(p), scratch))
        for pr in procs:
            pr.communicate(timeout=180)
            statuses.append(pr.returncode)
    return statuses


def loader_outcome(text: str | None) -> tuple[str, Any]:
    """what the loader reports for this file, observed in-process: (outcome class, tree or None)"""
    import yaml

    if text is None:
        return "fileNotFound", None
    try:
        tree = yaml.safe_load(text)
    except yaml.YAMLError:
        return "otherException", None
    impl = load_impl(tree)
    c = coarse(impl)
    return {"ok": "loaded", "configuration": "configurationError", "validation": "validationError"}.get(c, "otherException"), tree


def judge_main(res: Result, c: dict[str, Any], status: int, model: Any) -> None:
    from kskm.tools.ksrsigner import EXIT_CODES

    outcome, _ = loader_outcome(c["yaml"])
    rec = {"stream": "main", "name": c["name"], "yaml": c["yaml"]}
    res.count({"stream": "main", "name": c["name"]})
    res.bump("stream:main")
    res.bump(f"main:{outcome}:exit{status}")
    cfg_status = EXIT_CODES.get("config")
    if cfg_status != EXIT_CONFIG:
        res.violation("the configuration-error status is not the documented one", rec, key=f"exit-codes:{cfg_status}", exit_codes=dict(EXIT_CODES))
    if outcome in ("configurationError", "validationError") and status != EXIT_CONFIG:
        what = "schema-invalid configuration does not exit with the configuration-error status" if outcome == "validationError" else "configuration error does not exit with the configuration-error status"
        res.violation(what, rec, key=f"{'validation' if outcome == 'validationError' else 'configuration'}-error-exit-{status}", loader=outcome, status=status, expected=EXIT_CONFIG)
    if status == 0:
        res.violation("the signer exits 0 although no KSR was (or could be) processed", rec, key=f"exit-0:{c['name']}", loader=outcome, status=status)
    if model is None:
        return
    if lib.is_unsupported(model):
        res.unsupported += 1
        res.bump("unsupported:main")
        dump_unsupported("main", {"name": c["name"], "yaml": c["yaml"], "outcome": outcome, "status": status})
        return
    if model.get("status") != status or (model.get("outcome") != outcome):
        res.disagreement("main(): model exit status != observed", rec, {"outcome": outcome, "status": status}, model)


def main_stream(res: Result, tier: str, r: Any, scratch: Path, driver_ok: bool) -> None:
    base = example_base(scratch)
    cases = main_cases(base, scratch)
    statuses = run_main_cases(cases, scratch)
    lines = []
    for c in cases:
        outcome, tree = loader_outcome(c["yaml"])
        if tree is None and outcome != "loaded" and (c["yaml"] is None or outcome == "otherException" and not _yaml_ok(c["yaml"])):
            lines.append({"op": "config_main_status", "outcome": outcome, "restOk": False})
        else:
            lines.append({"op": "config_load_status", "config": canon(tree), "files": existing_files(tree)})
    models = run_driver(lines, exe=DRIVER) if driver_ok else [None] * len(lines)
    for c, st, line, m in zip(cases, statuses, lines, models):
        if m is not None and line["op"] == "config_main_status":
            m = {"outcome": line["outcome"], "status": m}
        judge_main(res, c, st, m)
        if c["name"] in ("validation:minimal", "configuration:minimal"):
            res.sample({"main": c["name"], "exit_status": st, "model": m})


def _yaml_ok(text: str) -> bool:
    import yaml

    try:
        yaml.safe_load(text)
        return True
    except yaml.YAMLError:
        return False


OTHER_STREAMS.append(main_stream)


def replay_main(case: dict[str, Any], scratch: Path) -> Any:
    st = run_main_cases([case], scratch)[0]
    outcome, tree = loader_outcome(case.get("yaml"))
    return {"case": case.get("name"), "yaml": case.get("yaml"), "loader_reports": outcome, "exit_status_observed": st, "expected_by_property": EXIT_CONFIG if outcome in ("configurationError", "validationError") else "non-zero"}


# ------------------------------------------------------------------------------------------------
# stream: single-flag-off policies x requests violating exactly one rule
# ------------------------------------------------------------------------------------------------

# the rule each flag guards, as documented in config/ksrsigner.yaml (flag -> violation the rule raises)
FLAG_RULE = {
    "check_cycle_length": "bundleCycleDuration",
    "check_bundle_overlap": "policySigOverlap",
    "signature_validity_match_zsk_policy": "policySigValidity",
    "signature_check_expire_horizon": "policySigHorizon",
    "check_bundle_intervals": "policyBundleInterval",
    "check_keys_match_ksk_operator_policy": "policyKeys",
    "signature_algorithms_match_zsk_policy": "policyAlg",
    "check_chain_keys": "chainKeys",
    "check_chain_overlap": "chainOverlap",
}
# flags that may be toggled on these (key-less) requests without creating a violation of their own
NEUTRAL_FLAGS = ["rsa_exponent_match_zsk_policy", "check_chain_keys", "check_chain_keys_in_hsm", "check_chain_overlap", "check_keys_publish_safety", "check_keys_retire_safety"]


def flag_cases(tier: str, r: Any) -> list[dict[str, Any]]:
    """requests that violate exactly one switchable rule (plus a few violating none / the unswitchable part)"""
    import corr_C05

    out: list[dict[str, Any]] = []
    per_rule: dict[str, int] = {}
    limit = 6 if tier == "quick" else 40
    for n in (1, 2, 3, 9):
        for tag, timeline, zp, pol, now in corr_C05.lattice(n, r, "quick"):
            reg = corr_C05.region(timeline, zp, pol, now)
            failing = [f for f in corr_C05.TIMING_FLAGS if not reg[f]]
            if not reg["count"] or len(failing) > 1:
                continue
            name = failing[0] if failing else "none"
            if per_rule.get(name, 0) >= limit * (2 if name == "none" else 1):
                continue
            per_rule[name] = per_rule.get(name, 0) + 1
            out.append({"kind": "timing", "tag": tag, "n": n, "timeline": timeline, "zsk": zp, "policy": pol, "now": now, "violates": name})
    # operator key-count rule: n bundles without keys against a policy wanting one key per bundle
    for n in (1, 3):
        base = corr_C05.honest(n, 1_500_000_000 * SEC)
        zp, pol = corr_C05.profiles(n)[1]
        out.append({"kind": "keys", "tag": f"keys:{n}", "n": n, "timeline": base, "zsk": zp, "policy": pol, "now": base[0][0] - 5 * DAY_US, "violates": "check_keys_match_ksk_operator_policy"})
    # algorithm rules: an RSA size the operator does not approve (switchable) / a deprecated algorithm (NOT switchable)
    for n in (1, 3):
        base = corr_C05.honest(n, 1_500_000_000 * SEC)
        zp, pol = corr_C05.profiles(n)[1]
        out.append({"kind": "alg", "tag": f"alg:size:{n}", "n": n, "timeline": base, "zsk": zp, "policy": pol, "now": base[0][0] - 5 * DAY_US, "alg": [8, 1024, 65537], "violates": "signature_algorithms_match_zsk_policy"})
        out.append({"kind": "alg", "tag": f"alg:exponent:{n}", "n": n, "timeline": base, "zsk": zp, "policy": pol, "now": base[0][0] - 5 * DAY_US, "alg": [8, 2048, 3], "violates": "signature_algorithms_match_zsk_policy"})
        out.append({"kind": "alg", "tag": f"alg:unapproved:{n}", "n": n, "timeline": base, "zsk": zp, "policy": pol, "now": base[0][0] - 5 * DAY_US, "alg": [10, 2048, 65537], "violates": "signature_algorithms_match_zsk_policy"})
        out.append({"kind": "alg", "tag": f"alg:deprecated:{n}", "n": n, "timeline": base, "zsk": zp, "policy": pol, "now": base[0][0] - 5 * DAY_US, "alg": [1, 2048, 65537], "violates": "UNSWITCHABLE"})
        out.append({"kind": "alg", "tag": f"alg:unsupported:{n}", "n": n, "timeline": base, "zsk": zp, "policy": pol, "now": base[0][0] - 5 * DAY_US, "alg": [5, 2048, 65537], "violates": "UNSWITCHABLE"})
        out.append({"kind": "alg", "tag": f"alg:fine:{n}", "n": n, "timeline": base, "zsk": zp, "policy": pol, "now": base[0][0] - 5 * DAY_US, "alg": [8, 2048, 65537], "violates": "none"})
    return out


def build_flag_case(c: dict[str, Any], flags_off: list[str]) -> tuple[Any, Any]:
    import corr_C05
    from kskm.common.data import AlgorithmDNSSEC, AlgorithmPolicyRSA

    timing = {f: True for f in corr_C05.TIMING_FLAGS}
    req, policy = corr_C05.build([tuple(x) for x in c["timeline"]], c["zsk"], c["policy"], timing)
    upd: dict[str, Any] = {}
    if c["kind"] == "keys":
        upd.update(check_keys_match_ksk_operator_policy=True, num_keys_per_bundle=[1] * c["n"], num_different_keys_in_all_bundles=1)
    if c["kind"] == "alg":
        a, bits, e = c["alg"]
        zp = req.zsk_policy.replace(algorithms={AlgorithmPolicyRSA(bits=bits, algorithm=AlgorithmDNSSEC(a), exponent=e)})
        req = req.replace(zsk_policy=zp)
    for f in flags_off:
        upd[f] = False
    if upd:
        policy = policy.replace(**upd)
    return req, policy


def flags_stream(res: Result, tier: str, r: Any, scratch: Path, driver_ok: bool) -> None:
    import corr_C05
    from kskm.ksr.validate import validate_request
    from lib import PinnedClock, request_j, request_policy_j, run_impl

    cases = flag_cases(tier, r)
    for idx, c in enumerate(cases):
        c["idx"] = idx
    switchable = list(corr_C05.TIMING_FLAGS) + ["check_keys_match_ksk_operator_policy", "signature_algorithms_match_zsk_policy"]
    rows: list[dict[str, Any]] = []
    lines: list[dict[str, Any]] = []
    with PinnedClock() as clock:
        for c in cases:
            offs: list[list[str]] = [[]] + [[f] for f in switchable + NEUTRAL_FLAGS]
            for off in offs:
                if c["kind"] != "keys" and off == ["check_keys_match_ksk_operator_policy"]:
                    pass  # already off in the C05 builder: switching it "off" again must change nothing
                req, policy = build_flag_case(c, off)
                clock.now_us = c["now"]
                impl = run_impl(lambda: validate_request(req, policy))
                rows.append({"case": c, "off": off, "impl": impl})
                lines.append({"op": "validate_request", "request": request_j(req), "policy": request_policy_j(policy), "now": c["now"]})
    models = run_driver(lines, exe=DRIVER) if driver_ok else [None] * len(lines)
    # per case: the verdict with every flag on
    baseline: dict[str, Any] = {}
    for row in rows:
        if not row["off"]:
            baseline[row["case"]["idx"]] = row["impl"]
    for row, m in zip(rows, models):
        c, off, impl = row["case"], row["off"], row["impl"]
        rec = {"stream": "flags", "tag": c["tag"], "case": c, "off": off}
        res.count({"stream": "flags", "idx": c["idx"], "tag": c["tag"], "n": c["n"], "kind": c["kind"], "off": off})
        res.bump("stream:flags")
        res.bump("flags:violates:" + c["violates"])
        base = baseline[c["idx"]]
        v = c["violates"]
        # the property: with every check on, the request is refused by exactly the rule it violates …
        if not off:
            want = {"ok": None} if v == "none" else ({"violation": "policyAlg"} if v == "UNSWITCHABLE" else {"violation": FLAG_RULE[v]})
            if c["kind"] == "timing" and v == "signature_check_expire_horizon" and impl == {"violation": "policyBase"}:
                pass  # "expired already" is reported by the base class of the same rule
            elif impl != want:
                res.violation("request violating exactly one rule is not refused by that rule", rec, key=f"baseline:{c['tag']}", impl=impl, expected=want)
        else:
            f = off[0]
            # … switching off the flag of that rule accepts it, switching off any other flag changes nothing
            want = {"ok": None} if (f == v) else base
            if impl != want:
                what = "switching one check off does not disable exactly that check"
                res.violation(what, rec, key=f"{f}:{c['tag']}", impl=impl, expected=want, all_on=base)
        if m is None:
            continue
        if lib.is_unsupported(m):
            res.unsupported += 1
        elif not lib.same_outcome(impl, m):
            res.disagreement("validate_request under a single-flag-off policy: model != implementation", rec, impl, m)


OTHER_STREAMS.append(flags_stream)


def replay_flags(case: dict[str, Any]) -> Any:
    from kskm.ksr.validate import validate_request
    from lib import PinnedClock, request_j, request_policy_j, run_impl

    c, off = case["case"], case["off"]
    out = {}
    with PinnedClock() as clock:
        clock.now_us = c["now"]
        for name, o in (("all_on", []), ("flag_off", off)):
            req, policy = build_flag_case(c, o)
            out[name] = {"off": o, "implementation": run_impl(lambda: validate_request(req, policy)),
                         "model": run_driver([{"op": "validate_request", "request": request_j(req), "policy": request_policy_j(policy), "now": c["now"]}], exe=DRIVER)[0]}
    out["violates"] = c["violates"]
    return out


def chain_flags_stream(res: Result, tier: str, r: Any, scratch: Path, driver_ok: bool) -> None:
    """the chain rules of check_skr_and_ksr(): a KSR whose first bundle (a) overlaps the last SKR bundle too little,
    (b) carries a key the last SKR bundle does not; each under every single-flag-off policy."""
    import corr_C05
    from kskm.common.data import AlgorithmDNSSEC, Key, SignaturePolicy
    from kskm.signer.policy import check_skr_and_ksr
    from kskm.skr.data import Response, ResponseBundle
    from lib import request_j, request_policy_j, response_j, run_impl, us_dt

    start = 1_500_000_000 * SEC
    zp, pol = corr_C05.profiles(2)[1]
    key = Key(key_identifier="zsk1", key_tag=1, ttl=0, flags=256, protocol=3, algorithm=AlgorithmDNSSEC.RSASHA256, public_key=b"AwEAAQ==")
    rows: list[dict[str, Any]] = []
    lines: list[dict[str, Any]] = []
    chain_flags = ["check_chain_keys", "check_chain_keys_in_hsm", "check_chain_overlap"]
    others = ["check_bundle_overlap", "check_keys_publish_safety", "check_keys_retire_safety", "validate_signatures"]
    for name, violates, overlap_days, with_key in [("overlap", "check_chain_overlap", 1, False), ("overlap-long", "check_chain_overlap", 20, False),
                                                    ("keys", "check_chain_keys", 11, True), ("none", "none", 11, False)]:  # fmt: skip
        timeline = corr_C05.honest(2, start)
        req, policy = corr_C05.build(timeline, zp, pol, {f: True for f in corr_C05.TIMING_FLAGS})
        if with_key:
            req = req.replace(bundles=[req.bundles[0].replace(keys={key})] + list(req.bundles[1:]))
        last_exp = start + overlap_days * DAY_US
        last = Response(id="prev", serial=0, domain=".", timestamp=None, zsk_policy=req.zsk_policy, ksk_policy=SignaturePolicy(),
                        bundles=[ResponseBundle(id="pb", inception=us_dt(last_exp - 21 * DAY_US), expiration=us_dt(last_exp), keys=set(), signatures=set())])  # fmt: skip
        for off in [[]] + [[f] for f in chain_flags + others]:
            p = policy.replace(**{f: False for f in off}) if off else policy
            impl = run_impl(lambda: check_skr_and_ksr(req, last, p, None))
            rows.append({"name": name, "violates": violates, "off": off, "impl": impl})
            lines.append({"op": "check_skr_and_ksr", "request": request_j(req), "last": response_j(last), "policy": request_policy_j(p), "token": None})
    models = run_driver(lines, exe=DRIVER) if driver_ok else [None] * len(lines)
    base = {row["name"]: row["impl"] for row in rows if not row["off"]}
    for row, m in zip(rows, models):
        rec = {"stream": "chain-flags", "name": row["name"], "off": row["off"]}
        res.count(rec)
        res.bump("stream:chain-flags")
        v = row["violates"]
        if not row["off"]:
            want = {"ok": None} if v == "none" else {"violation": FLAG_RULE[v]}
        else:
            want = {"ok": None} if row["off"][0] == v else base[row["name"]]
        if row["impl"] != want:
            res.violation("switching one check off does not disable exactly that check", rec, key=f"chain:{row['name']}:{row['off']}", impl=row["impl"], expected=want)
        if m is None:
            continue
        if lib.is_unsupported(m):
            res.unsupported += 1
        elif not lib.same_outcome(row["impl"], m):
            res.disagreement("check_skr_and_ksr under a single-flag-off policy: model != implementation", rec, row["impl"], m)


OTHER_STREAMS.append(chain_flags_stream)


# ------------------------------------------------------------------------------------------------
# stream: every flag switched off x requests violating that flag's rule AND another rule at once
# ------------------------------------------------------------------------------------------------
#
# "switching one check off disables that check and no other" is a statement about EVERY request, in particular about
# requests that break two rules at once: with the flag of the first rule off, the second rule must still refuse the
# request (a switched-off check must not mask, skip or shorten another check), and with both rules' flags off it is
# accepted.  The requests here carry real RSA keys and real proof-of-possession signatures (fixtures/keys.json,
# signed over dnspython's to-be-signed octets), a real timeline and a declared ZSK policy, so EVERY check of
# validate_request() is on and satisfied in the base request.  A request is a base request plus one or two ATOMS
# (elementary violations) placed at a locus: a key, a bundle, a pair of adjacent bundles, or the request as a whole.
# For every two atoms of different rules the loci are combined so that the two violations sit on the same key, in
# the same bundle, the first before the second and the second before the first (the order of bundles is the order in
# which every per-bundle loop meets them).
#
# Judges, per (request, set of flags off):
#   oracle   pair_oracle(): which rules the request violates, established WITHOUT /repo (corr_C05.region for the timing
#            rules, corr_C06.region for the key / algorithm / header rules, corr_C07.independent_accepts = dnspython +
#            `cryptography` for proof of possession); the property then says: refused iff a violated rule has none of
#            its flags off, and the class reported is the class of such a rule
#   relation a flag whose rule the request does not violate changes nothing (verdict identical to every-check-on)
#   model    the Lean model of validate_request through the driver, fed the recorded answers of the real verifier

# rule -> (the flags each of which waives it, the classes by which a refusal on its account may be reported); from the
# option comments of config/ksrsigner.yaml and the KSR-* rule names.  () = the rule has no switch.
PAIR_RULES: dict[str, tuple[tuple[str, ...], tuple[str, ...]]] = {
    "domain": ((), ("ksrDomain",)),
    "unique-ids": ((), ("bundleUnique",)),
    "keys": (("keys_match_zsk_policy",), ("bundleKeys",)),
    "exponent": (("rsa_exponent_match_zsk_policy", "keys_match_zsk_policy"), ("bundleKeys",)),
    "pop": (("validate_signatures",), ("bundlePop",)),
    "count": ((), ("bundleCount",)),
    "cycle": (("check_cycle_length",), ("bundleCycleDuration",)),
    "operator-keys": (("check_keys_match_ksk_operator_policy",), ("policyKeys",)),
    "algorithm-basic": ((), ("policyAlg",)),
    "algorithm": (("signature_algorithms_match_zsk_policy",), ("policyAlg",)),
    "overlap": (("check_bundle_overlap",), ("policySigOverlap",)),
    "validity": (("signature_validity_match_zsk_policy",), ("policySigValidity",)),
    "horizon": (("signature_check_expire_horizon",), ("policySigHorizon", "policyBase")),
    "interval": (("check_bundle_intervals",), ("policyBundleInterval",)),
}
# the options validate_request() is documented to obey / the ones that belong to later stages (must change nothing here)
PAIR_REQUEST_FLAGS = sorted({f for fl, _ in PAIR_RULES.values() for f in fl}, key=CHECK_FLAGS.index)
PAIR_NEUTRAL_FLAGS = [f for f in CHECK_FLAGS if f not in PAIR_REQUEST_FLAGS]
PAIR_START = 1_500_000_000 * SEC
DOC_ALG_NAME = {v: k for k, v in DOC_ALGORITHMS.items()}
PAIR_MEMBERS = {2: [["k0", "k1"], ["k1", "k2"]], 3: [["k0", "k1"], ["k1"], ["k1", "k2"]], 4: [["k0", "k1"], ["k1"], ["k1"], ["k1", "k2"]]}


def pair_base(nb: int, bits: int) -> dict[str, Any]:
    """the recipe of an honest request (3 distinct ZSKs rolling over nb bundles) and the operator policy accepting it"""
    import corr_C05

    zp, pol = corr_C05.profiles(nb)[1]  # validity 15..25 d, overlap 9..13 d, interval 9..11 d, cycle +-2 d; honest = 21 / 11 / 10
    members = [list(m) for m in PAIR_MEMBERS[nb]]
    return {
        "nb": nb, "bits": bits, "domain": ".", "ids": [f"b{i}" for i in range(nb)], "members": members,
        "material": {k: [bits, 65537] for k in ("k0", "k1", "k2")}, "keyflags": {}, "tagdelta": [], "omit": [], "flip": [],
        "declared": [{"kind": "rsa", "alg": 8, "bits": bits, "exp": 65537}],
        "timeline": [list(x) for x in corr_C05.honest(nb, PAIR_START)], "zsk": dict(zp), "policy": dict(pol), "late": [],
        "pol06": {
            "acceptable_domains": ["."], "approved_algorithms": ["RSASHA256"], "rsa_approved_exponents": [3, 65537],
            "rsa_approved_key_sizes": [bits], "num_keys_per_bundle": [len(m) for m in members], "num_different_keys_in_all_bundles": 3,
        },
        "now": PAIR_START - 5 * DAY_US,
    }  # fmt: skip


def _bundles_of(st: dict[str, Any], kid: str) -> set[int]:
    return {i for i, m in enumerate(st["members"]) if kid in m}


def _absent_key(st: dict[str, Any], b: int) -> str:
    return next(k for k in ("k0", "k2", "k1") if k not in st["members"][b])


def _shift_from(st: dict[str, Any], b: int, d: int) -> None:
    for k in range(b, st["nb"]):
        st["timeline"][k] = [st["timeline"][k][0] + d, st["timeline"][k][1] + d]


def _set(st: dict[str, Any], path: list[Any], v: Any) -> None:
    node = st
    for p in path[:-1]:
        node = node[p]
    node[path[-1]] = v


def _pair_atoms() -> list[dict[str, Any]]:
    """name, rule, phase (atoms are applied in phase order so that they compose), loci(st), touched bundles, apply"""
    keys3 = lambda st: ["k0", "k1", "k2"]  # noqa: E731
    whole = lambda st: [None]  # noqa: E731
    none = lambda st, l: set()  # noqa: E731
    ofkey = lambda st, l: _bundles_of(st, l)  # noqa: E731
    A: list[dict[str, Any]] = []

    def atom(name: str, rule: str, phase: int, loci: Any, touch: Any, apply: Any, level: str) -> None:
        A.append({"name": name, "rule": rule, "phase": phase, "loci": loci, "touch": touch, "apply": apply, "level": level})

    atom("domain", "domain", 0, whole, none, lambda st, l: _set(st, ["domain"], "example."), "request")
    atom("duplicate-bundle-id", "unique-ids", 0, lambda st: sorted({(0, 1), (st["nb"] - 2, st["nb"] - 1), (0, st["nb"] - 1)}),
         lambda st, l: set(l), lambda st, l: _set(st, ["ids", l[1]], st["ids"][l[0]]), "bundles")
    # KSR-BUNDLE-KEYS: stated key tag, flags, size (all occurrences of the key), and the key tag of ONE occurrence
    atom("key-tag", "keys", 2, keys3, ofkey, lambda st, l: st["tagdelta"].append([l, None]), "key")
    atom("key-tag-one-occurrence", "keys", 2, lambda st: [("k1", b) for b in sorted(_bundles_of(st, "k1"))[1:]],
         lambda st, l: {l[1]}, lambda st, l: st["tagdelta"].append([l[0], l[1]]), "key")
    atom("key-flags-257", "keys", 1, keys3, ofkey, lambda st, l: _set(st, ["keyflags", l], 257), "key")
    atom("key-size", "keys", 0, keys3, ofkey, lambda st, l: _set(st, ["material", l, 0], 2048 if st["bits"] == 1024 else 1024), "key")
    # the exponent clause (its own switch): one key with exponent 3 / the declared exponent 3 against keys with 65537
    atom("key-exponent", "exponent", 0, keys3, ofkey, lambda st, l: _set(st, ["material", l, 1], 3), "key")
    atom("declared-exponent", "exponent", 0, whole, none, lambda st, l: _set(st, ["declared", 0, "exp"], 3), "request")
    # KSR-BUNDLE-POP: a key without a signature of its own (bundles of >= 2 keys) / one signature octet damaged
    atom("signature-omitted", "pop", 5, lambda st: [(b, k) for b, m in enumerate(st["members"]) if len(m) >= 2 for k in m],
         lambda st, l: {l[0]}, lambda st, l: st["omit"].append(list(l)), "key")
    atom("signature-bit", "pop", 5, lambda st: [(b, k) for b, m in enumerate(st["members"]) for k in m if (b, k) in ((0, "k0"), (st["nb"] - 1, "k2")) or 0 < b < st["nb"] - 1],
         lambda st, l: {l[0]}, lambda st, l: st["flip"].append(list(l)), "key")
    atom("bundle-count", "count", 9, whole, none, lambda st, l: _set(st, ["policy", "num_bundles"], st["nb"] + 1), "request")
    atom("cycle-length", "cycle", 9, whole, none, lambda st, l: st["late"].append(["cycle"]), "request")
    # KSR-POLICY-KEYS: one key too many in a slot (a key of the request that does not belong there) / distinct-key count
    atom("slot-count", "operator-keys", 0, lambda st: list(range(st["nb"])), lambda st, l: {l},
         lambda st, l: st["members"][l].append(_absent_key(st, l)), "bundle")
    atom("distinct-key-count", "operator-keys", 0, whole, none, lambda st, l: _set(st, ["pol06", "num_different_keys_in_all_bundles"], 4), "request")
    # KSR-POLICY-ALG: the part without a switch (deprecated / unsupported) and the switchable part (operator's lists)
    for name, rule, alg, bits, exp in (("declared-deprecated", "algorithm-basic", 1, None, 65537), ("declared-unsupported", "algorithm-basic", 5, None, 65537),
                                       ("declared-size-unapproved", "algorithm", 8, 4096, 65537), ("declared-exponent-unapproved", "algorithm", 8, None, 17),
                                       ("declared-algorithm-unapproved", "algorithm", 10, None, 65537)):  # fmt: skip
        def declare(st: dict[str, Any], l: Any, rule: str = rule, alg: int = alg, bits: int | None = bits, exp: int = exp) -> None:
            st["declared"].append({"kind": "rsa", "alg": alg, "bits": bits or st["bits"], "exp": exp})
            if rule == "algorithm-basic":
                # the operator even lists it as approved: refusing deprecated / unsupported algorithms is not configurable
                st["pol06"]["approved_algorithms"].append(DOC_ALG_NAME[alg])

        atom(name, rule, 0, whole, none, declare, "request")
    # timing (phases 6 < 7 < 8 < 9: interval shifts first, then the overlap is set relative to the shifted inception, ...)
    pairs = lambda st: list(range(st["nb"] - 1))  # noqa: E731
    atom("interval", "interval", 6, pairs, lambda st, l: {l, l + 1}, lambda st, l: _shift_from(st, l + 1, DAY_US * 3 // 2), "bundle")
    atom("overlap", "overlap", 7, pairs, lambda st, l: {l, l + 1}, lambda st, l: _set(st, ["timeline", l, 1], st["timeline"][l + 1][0] + 8 * DAY_US), "bundle")
    atom("validity", "validity", 8, lambda st: [st["nb"] - 1], lambda st, l: {l}, lambda st, l: _set(st, ["timeline", l, 1], st["timeline"][l][0] + 26 * DAY_US), "bundle")
    atom("horizon-far", "horizon", 9, lambda st: [st["nb"] - 1], lambda st, l: {l}, lambda st, l: st["late"].append(["far", l]), "bundle")
    atom("horizon-past", "horizon", 9, lambda st: [0], lambda st, l: {l}, lambda st, l: st["late"].append(["past", l]), "bundle")
    return A


def pair_finish(st: dict[str, Any]) -> None:
    """the knobs that are relative to the final timeline"""
    tl = st["timeline"]
    for late in st["late"]:
        if late[0] == "cycle":
            cyc = tl[-1][0] - tl[0][0]
            st["policy"].update(min_cycle=cyc + DAY_US, max_cycle=cyc + 5 * DAY_US)
        elif late[0] == "far":  # expires exactly one second beyond (horizon + 1) days
            st["now"] = tl[late[1]][1] - (st["policy"]["horizon_days"] + 1) * DAY_US - SEC
        elif late[0] == "past":  # expired one second ago
            st["now"] = tl[late[1]][1] + SEC


class PairRing:
    """fixture keys by (bits, exponent); signatures are cached (most requests share most bundles)"""

    def __init__(self, r: Any) -> None:
        import keys as fx

        self.pool: dict[tuple[int, int], list[Any]] = {}
        for bits in (1024, 2048):
            for e in (65537, 3):
                ks = list(fx.rsa_keys(bits, e))
                r.shuffle(ks)
                self.pool[(bits, e)] = ks
        self.sigs: dict[Any, str] = {}

    def key(self, kid: str, bits: int, e: int) -> Any:
        return self.pool[(bits, e)][int(kid[1:])]

    def sign(self, tk: Any, key: dict[str, Any], keys: list[dict[str, Any]], inc: int, exp: int) -> dict[str, Any]:
        import corr_C07

        s = {"id": key["id"], "ttl": 172800, "alg": key["alg"], "labels": 0, "ottl": 172800, "exp": exp, "inc": inc, "tag": key["tag"], "name": ".", "sig": ""}
        memo = (key["pk"], key["flags"], inc, exp, tuple(sorted((k["pk"], k["flags"]) for k in keys)))
        if memo not in self.sigs:
            tbs = corr_C07.dns_tbs(s, keys)
            assert tbs is not None
            import base64

            self.sigs[memo] = base64.b64encode(tk.sign_dnssec(key["alg"], tbs)).decode()
        s["sig"] = self.sigs[memo]
        return s


def pair_materialise(st: dict[str, Any], ring: PairRing, r: Any) -> dict[str, Any]:
    """recipe -> the request as plain data (keys, signatures, times, declared policy, operator policy): replayable as is"""
    import corr_C05
    import corr_C06
    import corr_C07

    pair_finish(st)
    specs: dict[str, dict[str, Any]] = {}
    tks: dict[str, Any] = {}
    for kid, (bits, e) in st["material"].items():
        tks[kid] = ring.key(kid, bits, e)
        specs[kid] = corr_C06.keyspec(kid, 8, tks[kid].dnskey_public_key(), flags=st["keyflags"].get(kid, 256))
    honest = corr_C05.honest(st["nb"], PAIR_START)
    bundles = []
    for b, members in enumerate(st["members"]):
        ks = [dict(specs[k]) for k in members]
        # the requester signs what it submits (proof of possession holds unless an atom damages it afterwards);
        # the RRSIG's own validity fields are those of the honest timeline (they are ignored by the rule)
        sigs = [ring.sign(tks[k["id"]], k, ks, honest[b][0], honest[b][1]) for k in ks]
        for kid, where in st["tagdelta"]:
            for k in ks:
                if k["id"] == kid and where in (None, b):
                    k["tag"] = (k["tag"] + 1) % 65536  # Key.key_tag is not part of the signed RRset
        for ob, kid in st["omit"]:
            if ob == b:
                sigs = [s for s in sigs if s["id"] != kid]
        for fb, kid in st["flip"]:
            if fb == b:
                for s in sigs:
                    if s["id"] == kid:
                        s["sig"] = corr_C07.flip(s["sig"], r.randrange(8 * 64))
        bundles.append({"id": st["ids"][b], "inc": st["timeline"][b][0], "exp": st["timeline"][b][1], "keys": ks, "sigs": sigs})
    return {"domain": st["domain"], "declared": [dict(d) for d in st["declared"]], "bundles": bundles, "zsk": dict(st["zsk"]),
            "policy": dict(st["policy"]), "pol06": copy.deepcopy(st["pol06"]), "now": st["now"]}


def pair_build(case: dict[str, Any], off: list[str]) -> tuple[Any, Any]:
    """plain data -> the repository's Request and RequestPolicy (every check on except the flags in `off`)"""
    import corr_C07
    from kskm.common.config_misc import RequestPolicy
    from kskm.common.data import AlgorithmDNSSEC, AlgorithmPolicyRSA, SignaturePolicy
    from kskm.ksr.data import Request, RequestBundle
    from lib import us_dt, us_td

    bundles = [
        RequestBundle(id=b["id"], inception=us_dt(b["inc"]), expiration=us_dt(b["exp"]), keys={corr_C07.mk_key(k) for k in b["keys"]},
                      signatures={corr_C07.mk_sig(s) for s in b["sigs"]}, signers=None)
        for b in case["bundles"]
    ]  # fmt: skip
    zp, pol, p6 = case["zsk"], case["policy"], case["pol06"]
    req = Request(
        id="req", serial=1, domain=case["domain"], timestamp=None, bundles=bundles,
        zsk_policy=SignaturePolicy(
            min_signature_validity=us_td(zp["min_validity"]), max_signature_validity=us_td(zp["max_validity"]),
            min_validity_overlap=us_td(zp["min_overlap"]), max_validity_overlap=us_td(zp["max_overlap"]),
            algorithms={AlgorithmPolicyRSA(bits=d["bits"], algorithm=AlgorithmDNSSEC(d["alg"]), exponent=d["exp"]) for d in case["declared"]},
        ),
    )  # fmt: skip
    policy = RequestPolicy(
        acceptable_domains=p6["acceptable_domains"], num_bundles=pol["num_bundles"],
        min_cycle_inception_length=us_td(pol["min_cycle"]), max_cycle_inception_length=us_td(pol["max_cycle"]),
        min_bundle_interval=us_td(pol["min_interval"]), max_bundle_interval=us_td(pol["max_interval"]), signature_horizon_days=pol["horizon_days"],
        approved_algorithms=p6["approved_algorithms"], rsa_approved_exponents=p6["rsa_approved_exponents"], rsa_approved_key_sizes=p6["rsa_approved_key_sizes"],
        num_keys_per_bundle=p6["num_keys_per_bundle"], num_different_keys_in_all_bundles=p6["num_different_keys_in_all_bundles"],
        **{f: False for f in off},
    )  # fmt: skip
    return req, policy


_POP_MEMO: dict[str, bool] = {}


def pair_oracle(case: dict[str, Any]) -> dict[str, bool]:
    """rule -> violated?, flag-independent and without /repo: the clauses of the three documented regions"""
    import json

    import corr_C05
    import corr_C06
    import corr_C07

    c6 = {"domain": case["domain"], "declared": case["declared"], "bundles": [{"id": b["id"], "keys": b["keys"]} for b in case["bundles"]]}
    on = dict(case["pol06"], keys_match_zsk_policy=True, check_keys_match_ksk_operator_policy=True, signature_algorithms_match_zsk_policy=True,
              rsa_exponent_match_zsk_policy=True, enable_unsupported_ecdsa=False, enable_unsupported_edwards_dsa=False)  # fmt: skip
    r_on = corr_C06.region(c6, on)
    r_waived = corr_C06.region(c6, dict(on, rsa_exponent_match_zsk_policy=False))
    r_algoff = corr_C06.region(c6, dict(on, signature_algorithms_match_zsk_policy=False))
    V: dict[str, bool] = {}
    V["domain"] = not r_on["check_domain"]
    V["unique-ids"] = not r_on["check_unique_ids"]
    V["keys"] = not r_waived["check_keys_match_zsk_policy"]  # refused even when the exponent is not looked at
    # the exponent clause by itself: a key whose algorithm and size are declared, but with another exponent only
    exp_bad = False
    for b in case["bundles"]:
        for k in b["keys"]:
            import base64

            rd = corr_C06.rfc3110_read(base64.b64decode(k["pk"]))
            if rd is not None:
                same = [d for d in case["declared"] if d["kind"] == "rsa" and d["alg"] == k["alg"] and d["bits"] == rd[1]]
                if same and not any(d["exp"] == rd[0] for d in same):
                    exp_bad = True
    V["exponent"] = exp_bad
    V["operator-keys"] = not r_on["check_keys_in_bundles"]
    V["algorithm-basic"] = not r_algoff["check_zsk_policy_algorithm"]
    p6 = case["pol06"]
    V["algorithm"] = any(
        corr_C06.ALG_NAMES[d["alg"]] not in p6["approved_algorithms"]
        or (d["alg"] in corr_C06.DOC_RSA and (d["bits"] not in p6["rsa_approved_key_sizes"] or d["exp"] not in p6["rsa_approved_exponents"]))
        for d in case["declared"]
    )
    pop = True
    for b in case["bundles"]:
        memo = json.dumps([b["keys"], b["sigs"]], sort_keys=True)
        if memo not in _POP_MEMO:
            _POP_MEMO[memo] = corr_C07.independent_accepts({"keys": b["keys"], "sigs": b["sigs"]})
        pop = pop and _POP_MEMO[memo]
    V["pop"] = not pop
    r5 = corr_C05.region([(b["inc"], b["exp"]) for b in case["bundles"]], case["zsk"], case["policy"], case["now"])
    V["count"] = not r5["count"]
    V["cycle"] = not r5["check_cycle_length"]
    V["overlap"] = not r5["check_bundle_overlap"]
    V["validity"] = not r5["signature_validity_match_zsk_policy"]
    V["horizon"] = not r5["signature_check_expire_horizon"]
    V["interval"] = not r5["check_bundle_intervals"]
    # the two composite clauses of corr_C06 must be the disjunction of their parts (self-check of this oracle)
    V["_coherent"] = ((not r_on["check_keys_match_zsk_policy"]) == (V["keys"] or V["exponent"])) and (
        (not r_on["check_zsk_policy_algorithm"]) == (V["algorithm-basic"] or V["algorithm"]))
    return V


def pair_in_force(V: dict[str, bool], off: list[str]) -> list[str]:
    """the violated rules none of whose flags is off: the property says the request is refused iff there is one"""
    return [rule for rule, (flags, _) in PAIR_RULES.items() if V[rule] and not (set(flags) & set(off))]


def pair_relation(st: dict[str, Any], a: dict[str, Any], la: Any, b: dict[str, Any], lb: Any) -> str:
    if a["level"] == "key" and b["level"] == "key":
        ka = la if isinstance(la, str) else (la[0] if isinstance(la[0], str) else la[1])
        kb = lb if isinstance(lb, str) else (lb[0] if isinstance(lb[0], str) else lb[1])
        ta, tb = a["touch"](st, la), b["touch"](st, lb)
        if ka == kb and ta & tb:
            return "same-key"
    ta, tb = a["touch"](st, la), b["touch"](st, lb)
    if not ta or not tb:
        return "whole-request"
    if ta & tb:
        return "same-bundle"
    return "first-earlier" if max(ta) < min(tb) else ("second-earlier" if max(tb) < min(ta) else "interleaved")


def pair_recipes(tier: str, r: Any, nb: int, bits: int) -> list[dict[str, Any]]:
    """honest, every atom at every locus, and every two atoms of different rules in every relative placement"""
    atoms = _pair_atoms()
    out: list[dict[str, Any]] = []

    def make(parts: list[tuple[dict[str, Any], Any]], relation: str) -> None:
        st = pair_base(nb, bits)
        for a, l in sorted(parts, key=lambda p: p[0]["phase"]):
            a["apply"](st, l)
        out.append({"st": st, "atoms": [[a["name"], l] for a, l in parts], "rules": sorted({a["rule"] for a, _ in parts}), "relation": relation,
                    "tag": "+".join(f"{a['name']}@{l}" for a, l in parts) or "honest"})  # fmt: skip

    make([], "honest")
    probe = pair_base(nb, bits)
    for a in atoms:
        for l in a["loci"](probe):
            make([(a, l)], "single")
    per_relation = 2 if tier == "quick" else 4
    for i, a in enumerate(atoms):
        for b in atoms[i + 1 :]:
            if a["rule"] == b["rule"]:
                continue
            by_rel: dict[str, list[tuple[Any, Any]]] = {}
            for la in a["loci"](probe):
                for lb in b["loci"](probe):
                    if {a["name"], b["name"]} == {"key-size", "key-exponent"} and la == lb:
                        continue  # one key cannot be of another size and, at the declared size, of another exponent
                    by_rel.setdefault(pair_relation(probe, a, la, b, lb), []).append((la, lb))
            for rel, combos in sorted(by_rel.items()):
                r.shuffle(combos)
                for la, lb in combos[:per_relation]:
                    make([(a, la), (b, lb)], rel)
    # three and four rules at once, at random loci (what they violate is whatever the oracle says: atoms may interact)
    for _ in range(40 if tier == "quick" else 300):
        parts: list[tuple[dict[str, Any], Any]] = []
        for a in r.sample(atoms, r.choice([3, 3, 4])):
            if a["rule"] not in {p[0]["rule"] for p in parts}:
                parts.append((a, r.choice(a["loci"](probe))))
        make(parts, "several")
        out[-1]["rules"] = None  # no aim
    return out


def pair_policies(rec: dict[str, Any], tier: str, r: Any) -> list[list[str]]:
    """sets of flags to switch off for one request"""
    own = sorted({f for rule in rec["rules"] for f in PAIR_RULES[rule][0]}, key=CHECK_FLAGS.index)
    sets: list[list[str]] = [[]] + [[f] for f in own]
    if len(rec["rules"]) > 2:
        # several rules at once: all their flags off but one rule's, all off, random subsets
        for rule in rec["rules"]:
            sets.append([f for f in own if f not in PAIR_RULES[rule][0]])
        sets.append(list(own))
        sets += [[f for f in own if r.random() < 0.5] for _ in range(3)]
        sets += [[f] for f in PAIR_NEUTRAL_FLAGS]
        uniq3: list[list[str]] = []
        for x in sets:
            if x not in uniq3:
                uniq3.append(x)
        return uniq3
    if len(rec["rules"]) == 2:
        fa, fb = (PAIR_RULES[rule][0] for rule in rec["rules"])
        sets += [sorted({x, y}, key=CHECK_FLAGS.index) for x in fa for y in fb if x != y]
    sets += [[f] for f in CHECK_FLAGS if f not in own]  # every other flag, one at a time: must change nothing
    if not rec["rules"] and tier == "thorough":
        sets += [[f, g] for i, f in enumerate(CHECK_FLAGS) for g in CHECK_FLAGS[i + 1 :]]
    uniq: list[list[str]] = []
    for s in sets:
        if s not in uniq:
            uniq.append(s)
    return uniq


def pair_run_one(case: dict[str, Any], off: list[str], clock: Any, recorder: Any) -> tuple[Any, dict[str, Any]]:
    import corr_C07
    from kskm.ksr.validate import validate_request
    from lib import request_j, request_policy_j, run_impl

    req, policy = pair_build(case, off)
    clock.now_us = case["now"]
    recorder.take()
    impl = run_impl(lambda: validate_request(req, policy))
    records = corr_C07.dedupe(recorder.take())
    return impl, {"op": "validate_request", "request": request_j(req), "policy": request_policy_j(policy), "now": case["now"], "verify": records}


def pair_judge(res: Result, rec: dict[str, Any], off: list[str], impl: Any, all_on: Any, V: dict[str, bool], model: Any) -> None:
    """the property on one (request, flags off), then the tie to the model"""
    report = {"stream": "flag-pairs", "tag": rec["tag"], "violates": [k for k, v in V.items() if v and not k.startswith("_")], "off": off,
              "relation": rec["relation"], "case": rec["case"]}  # fmt: skip
    in_force = pair_in_force(V, off)
    classes = sorted({c for rule in in_force for c in PAIR_RULES[rule][1]})
    key = f"{'+'.join(off) or 'all-on'}:{'+'.join(report['violates']) or 'none'}"
    bad = None
    if not in_force:
        if impl != {"ok": None}:
            bad = ("request violating no rule that is in force is refused" if not off else "switching one check off does not disable exactly that check")
    elif "ok" in impl:
        bad = ("request violating a rule is accepted with every check on" if not off else "switching one check off disables another check as well")
    elif "error" in impl:
        if "pop" not in in_force:  # an unusable signature set may end in ValueError (C07's subject); anything else may not
            bad = "request violating a rule ends in a non-policy error"
    elif impl["violation"] not in classes:
        bad = "request is refused, but on account of a rule that is switched off or satisfied"
    if bad:
        res.violation(bad, report, key=key, impl=impl, expected=("accepted" if not in_force else {"refused_by_one_of": in_force, "classes": classes}), all_on=all_on)
    elif off and not any(V[rule] and (set(PAIR_RULES[rule][0]) & set(off)) for rule in PAIR_RULES) and impl != all_on:
        # none of the switched-off flags guards a rule this request violates: nothing at all may change
        res.violation("switching off a check the request satisfies changes the verdict", report, key="neutral:" + key, impl=impl, all_on=all_on)
    if model is None:
        return
    if lib.is_unsupported(model):
        res.unsupported += 1
        res.bump("unsupported:flag-pairs")
    elif not lib.same_outcome(impl, model):
        res.disagreement("validate_request with two rules violated / flags off: model != implementation", report, impl, model)


def pair_flags_stream(res: Result, tier: str, r: Any, scratch: Path, driver_ok: bool) -> None:
    import kskm.common.signature as sigmod
    from lib import PinnedClock

    r = lib.rng("C16-pairs")
    families = [(3, 1024)] if tier == "quick" else [(3, 1024), (2, 1024), (4, 1024), (3, 2048)]
    ring = PairRing(r)
    rows: list[tuple[dict[str, Any], list[str], Any, dict[str, bool]]] = []
    lines: list[dict[str, Any]] = []
    covered: dict[tuple[str, str], set[str]] = {}
    accepted_alone: set[tuple[str, str]] = set()
    recorder = lib.VerifyRecorder().install(sigmod)
    try:
        with PinnedClock() as clock:
            for nb, bits in families:
                for rec in pair_recipes(tier, r, nb, bits):
                    rec["case"] = pair_materialise(rec.pop("st"), ring, r)
                    rec["family"] = f"{nb}x{bits}"
                    V = pair_oracle(rec["case"])
                    violated = sorted(k for k, v in V.items() if v and not k.startswith("_"))
                    if rec["rules"] is None:
                        rec["rules"] = violated
                    if violated != rec["rules"] or not V["_coherent"]:
                        # the generator missed its aim (the oracle, not the aim, is the judge below)
                        res.bump("flag-pairs:aim-missed")
                        res.notes.append(f"flag-pairs: {rec['tag']} ({rec['family']}) was meant to violate {rec['rules']}, the oracle says {violated}")
                    for off in pair_policies(rec, tier, r):
                        impl, line = pair_run_one(rec["case"], off, clock, recorder)
                        rows.append((rec, off, impl, V))
                        lines.append(line)
    finally:
        recorder.uninstall()
    models = run_driver(lines, exe=DRIVER) if driver_ok else [None] * len(lines)
    all_on: dict[int, Any] = {id(rec): impl for rec, off, impl, _ in rows if not off}
    for (rec, off, impl, V), m in zip(rows, models):
        violated = sorted(k for k, v in V.items() if v and not k.startswith("_"))
        res.count({"stream": "flag-pairs", "family": rec["family"], "tag": rec["tag"], "off": off})
        res.bump("stream:flag-pairs")
        res.bump(f"flag-pairs:rules-violated:{len(violated)}")
        res.bump(f"flag-pairs:flags-off:{len(off)}")
        res.bump("flag-pairs:placement:" + rec["relation"])
        res.bump("flag-pairs:impl:" + ("accept" if "ok" in impl else next(iter(impl.values()))))
        if len(off) == 1:
            f = off[0]
            waived = [rule for rule in violated if f in PAIR_RULES[rule][0]]
            for g in violated:
                if waived and g not in waived and "ok" not in impl:
                    covered.setdefault((f, g), set()).add(rec["relation"])  # f off, f's rule and g violated: refused by g
            if waived and waived == violated:
                accepted_alone.add((f, waived[0]))
            if not waived:
                for g in violated:
                    covered.setdefault((f, g), set()).add("flag-of-a-satisfied-rule")
            rules = list(PAIR_RULES)
            for w in waived:
                for g in violated:
                    if g not in waived:
                        res.bump("flag-pairs:order:switched-off rule is listed " + ("before" if rules.index(w) < rules.index(g) else "after") + " the rule still in force")
        pair_judge(res, rec, off, impl, all_on[id(rec)], V, m)
        if rec["relation"] == "same-key" and rec["tag"].startswith("key-tag@") and "+key-exponent@" in rec["tag"] and off == ["rsa_exponent_match_zsk_policy"]:
            res.sample({"stream": "flag-pairs", "tag": rec["tag"], "off": off, "violates": violated, "impl": impl, "model": m}, limit=6)
    # coverage of the matrix flag x other rule (what the evidence should show was explored)
    want = [(f, g) for f in CHECK_FLAGS for g in PAIR_RULES if f not in PAIR_RULES[g][0]]
    missing = [f"{f} x {g}" for f, g in want if (f, g) not in covered]
    res.stats["flag-pairs:matrix"] = f"{len(want) - len(missing)}/{len(want)} (flag off, other rule violated) combinations exercised; every request-level flag accepted alone: {len(accepted_alone)}"
    if missing:
        res.notes.append("flag-pairs: combinations not exercised: " + ", ".join(missing))
    both = {fg: rels for fg, rels in covered.items() if fg[0] in PAIR_REQUEST_FLAGS}
    res.stats["flag-pairs:placements-per-combination"] = {k: sum(1 for rels in both.values() if k in rels) for k in ("same-key", "same-bundle", "first-earlier", "second-earlier", "interleaved", "whole-request")}


OTHER_STREAMS.append(pair_flags_stream)


def replay_pairs(case: dict[str, Any]) -> Any:
    import kskm.common.signature as sigmod
    from lib import PinnedClock

    out: dict[str, Any] = {"tag": case.get("tag"), "relation": case.get("relation")}
    V = pair_oracle(case["case"])
    out["oracle_violated_rules"] = [k for k, v in V.items() if v and not k.startswith("_")]
    recorder = lib.VerifyRecorder().install(sigmod)
    try:
        with PinnedClock() as clock:
            for name, off in (("all_on", []), ("flags_off", case["off"])):
                impl, line = pair_run_one(case["case"], off, clock, recorder)
                out[name] = {"off": off, "implementation": impl, "model": run_driver([line], exe=DRIVER)[0],
                             "property_expects": "accepted" if not pair_in_force(V, off) else {"refused_by_one_of": pair_in_force(V, off)}}  # fmt: skip
    finally:
        recorder.uninstall()
    return out


CHAIN_RULES = {  # rule of check_skr_and_ksr() -> (its flag or None, class)
    "request-id": (None, "ksrId"), "bundle-id": (None, "bundleUnique"),
    "chain-keys": ("check_chain_keys", "chainKeys"), "chain-overlap": ("check_chain_overlap", "chainOverlap"),
}  # fmt: skip


def chain_pair_build(violated: list[str], overlap_days: int) -> tuple[Any, Any, Any]:
    """a two-bundle KSR, the last SKR it follows and the all-on policy, with the listed chain rules violated"""
    import corr_C05
    from kskm.common.data import AlgorithmDNSSEC, Key, SignaturePolicy
    from kskm.skr.data import Response, ResponseBundle
    from lib import us_dt

    start = 1_500_000_000 * SEC
    zp, pol = corr_C05.profiles(2)[1]
    key = Key(key_identifier="zsk1", key_tag=1, ttl=0, flags=256, protocol=3, algorithm=AlgorithmDNSSEC.RSASHA256, public_key=b"AwEAAQ==")
    req, policy = corr_C05.build(corr_C05.honest(2, start), zp, pol, {f: True for f in corr_C05.TIMING_FLAGS})
    if "chain-keys" in violated:
        req = req.replace(bundles=[req.bundles[0].replace(keys={key})] + list(req.bundles[1:]))
    last_exp = start + overlap_days * DAY_US
    last = Response(id="req" if "request-id" in violated else "prev", serial=0, domain=".", timestamp=None, zsk_policy=req.zsk_policy, ksk_policy=SignaturePolicy(),
                    bundles=[ResponseBundle(id=req.bundles[-1].id if "bundle-id" in violated else "pb", inception=us_dt(last_exp - 21 * DAY_US),
                                            expiration=us_dt(last_exp), keys=set(), signatures=set())])  # fmt: skip
    return req, last, policy


def chain_pairs_stream(res: Result, tier: str, r: Any, scratch: Path, driver_ok: bool) -> None:
    """check_skr_and_ksr() on KSRs that break TWO (or three, or all four) of its rules at once — the request id of the last
    SKR re-used, a bundle id of the last SKR re-used (neither has a switch), a first-bundle key the last SKR bundle does not
    carry (check_chain_keys), too little / too much overlap with the last SKR bundle (check_chain_overlap) — under every
    single-flag-off policy and with both chain flags off: the rule whose flag is off no longer refuses, every other
    violated rule still does, with its own class."""
    import itertools

    from kskm.signer.policy import check_skr_and_ksr
    from lib import request_j, request_policy_j, response_j, run_impl

    rules = CHAIN_RULES
    rows: list[dict[str, Any]] = []
    lines: list[dict[str, Any]] = []
    combos = [c for n in (2, 3, 4) for c in itertools.combinations(rules, n)]
    for violated in combos:
        for overlap_days in ((1, 20) if "chain-overlap" in violated else (11,)):
            req, last, policy = chain_pair_build(list(violated), overlap_days)
            offs = [[]] + [[f] for f in CHECK_FLAGS] + [["check_chain_keys", "check_chain_overlap"]]
            for off in offs:
                p = policy.replace(**{f: False for f in off}) if off else policy
                impl = run_impl(lambda: check_skr_and_ksr(req, last, p, None))
                rows.append({"violated": list(violated), "overlap_days": overlap_days, "off": off, "impl": impl})
                lines.append({"op": "check_skr_and_ksr", "request": request_j(req), "last": response_j(last), "policy": request_policy_j(p), "token": None})
    models = run_driver(lines, exe=DRIVER) if driver_ok else [None] * len(lines)
    base = {(tuple(row["violated"]), row["overlap_days"]): row["impl"] for row in rows if not row["off"]}
    for row, m in zip(rows, models):
        rec = {"stream": "chain-pairs", "violated": row["violated"], "overlap_days": row["overlap_days"], "off": row["off"]}
        res.count(rec)
        res.bump("stream:chain-pairs")
        res.bump(f"chain-pairs:rules-violated:{len(row['violated'])}")
        in_force = [v for v in row["violated"] if rules[v][0] not in row["off"]]
        classes = [rules[v][1] for v in in_force]
        impl = row["impl"]
        if not in_force:
            bad = impl != {"ok": None}
        elif not any(rules[v][0] in row["off"] for v in row["violated"]):
            bad = impl != base[(tuple(row["violated"]), row["overlap_days"])] or impl.get("violation") not in classes
        else:
            bad = impl.get("violation") not in classes
        if bad:
            res.violation("switching one check off does not disable exactly that check", rec, key=f"chain-pairs:{'+'.join(row['violated'])}:{row['off']}",
                          impl=impl, expected=("accepted" if not in_force else {"refused_by_one_of": in_force, "classes": classes}))  # fmt: skip
        if m is None:
            continue
        if lib.is_unsupported(m):
            res.unsupported += 1
        elif not lib.same_outcome(impl, m):
            res.disagreement("check_skr_and_ksr with two rules violated / flags off: model != implementation", rec, impl, m)


OTHER_STREAMS.append(chain_pairs_stream)


def replay_chain_pairs(case: dict[str, Any]) -> Any:
    from kskm.signer.policy import check_skr_and_ksr
    from lib import request_j, request_policy_j, response_j, run_impl

    req, last, policy = chain_pair_build(case["violated"], case["overlap_days"])
    out: dict[str, Any] = {"violated": case["violated"]}
    for name, off in (("all_on", []), ("flags_off", case["off"])):
        p = policy.replace(**{f: False for f in off}) if off else policy
        line = {"op": "check_skr_and_ksr", "request": request_j(req), "last": response_j(last), "policy": request_policy_j(p), "token": None}
        out[name] = {"off": off, "implementation": run_impl(lambda: check_skr_and_ksr(req, last, p, None)), "model": run_driver([line], exe=DRIVER)[0],
                     "property_expects_refusal_by": [v for v in case["violated"] if CHAIN_RULES[v][0] not in off]}  # fmt: skip
    return out
