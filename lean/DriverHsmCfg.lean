/-
  kskm_driver_hsmcfg (work package B1: C15 hsmconfig / find_key_by_id) — one JSON object per input line, one JSON value per output line.
  `{"op": NAME, …}` ↦ the model's answer; malformed lines answer `{"driver_error": …}`.
-/
import Kskm.Ops.Core
import Kskm.Ops.HsmConfig
open Lean Kskm Kskm.Ops

def allOps : List (String × Op) := coreOps ++ hsmConfigOps

def handleLine (line : String) : String :=
  match Json.parse line with
  | .error e => (Json.mkObj [("driver_error", Json.str s!"parse: {e}")]).compress
  | .ok j =>
    match j.getObjValAs? String "op" with
    | .error e => (Json.mkObj [("driver_error", Json.str e)]).compress
    | .ok op =>
      match allOps.lookup op with
      | none => (Json.mkObj [("driver_error", Json.str s!"unknown op {op}")]).compress
      | some f =>
        match f j with
        | .ok r => r.compress
        | .error e => (Json.mkObj [("driver_error", Json.str e)]).compress

partial def loop (i o : IO.FS.Stream) : IO Unit := do
  let line ← i.getLine
  if line.isEmpty then return ()
  let t := line.trimAscii.toString
  if !t.isEmpty then
    o.putStrLn (handleLine t)
  loop i o

def main : IO Unit := do
  let i ← IO.getStdin
  let o ← IO.getStdout
  loop i o
  o.flush
