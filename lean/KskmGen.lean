import KskmGen.Tables
