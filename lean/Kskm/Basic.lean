/-
  Kskm.Basic — shared vocabulary of the executable model.

  Conventions (DESIGN.md §3):
  * octet strings are `List UInt8`; text is `String`;
  * every Python `int` that comes out of a document is an `Int`;
  * instants are `Int` microseconds since 1970-01-01T00:00:00Z, durations `Int` microseconds;
  * outcomes are `Except Fail α` where `Fail` separates policy violations (by rule),
    other errors (by a coarse class) and inputs the model declines to judge.
-/
namespace Kskm

abbrev Bytes := List UInt8

/-- Policy rules, one per `PolicyViolation` subclass raised in /repo. -/
inductive Rule where
  | ksrDomain | ksrId
  | bundleUnique | bundleKeys | bundlePop | bundleCount | bundleCycleDuration
  | policyKeys | policyAlg | policySigOverlap | policySigValidity | policySigHorizon
  | policyBase            -- `KSR_PolicyViolation` itself ("expire in the past")
  | policyBundleInterval | policySafety
  | chainKeys | chainOverlap
  | keyUsage
  | skrPolicy             -- bare `PolicyViolation` from skr/validate.py (bundle count)
  | skrInvalidSignature   -- `InvalidSignatureViolation`
  deriving DecidableEq, Repr, Inhabited

/-- Coarse classes of non-policy failures (Python exception families). -/
inductive ErrKind where
  | value | key | type | index | runtime | notImplemented | assertion
  | struct | binascii | configuration | createSignature | skrVerify | invalidSignature
  | p11 | validation | attribute | unicode | overflow | other
  deriving DecidableEq, Repr, Inhabited

inductive Fail where
  | violation (r : Rule)
  | error (k : ErrKind)
  | unsupported           -- input outside the modelled domain: the model declines to judge
  deriving DecidableEq, Repr, Inhabited

abbrev Res := Except Fail

def violation {α} (r : Rule) : Res α := .error (.violation r)
def err {α} (k : ErrKind) : Res α := .error (.error k)
def unsupported {α} : Res α := .error .unsupported

instance {α} [DecidableEq α] : DecidableEq (Res α)
  | .ok a, .ok b => if h : a = b then isTrue (by rw [h]) else isFalse (by intro h'; cases h'; exact h rfl)
  | .error a, .error b =>
    if h : a = b then isTrue (by rw [h]) else isFalse (by intro h'; cases h'; exact h rfl)
  | .ok _, .error _ => isFalse (by intro h; cases h)
  | .error _, .ok _ => isFalse (by intro h; cases h)

/-- Run `f` on every element, stopping at the first failure (a Python `for` loop that may raise). -/
def forEach {α} : List α → (α → Res Unit) → Res Unit
  | [], _ => pure ()
  | a :: as, f => do f a; forEach as f

theorem forEach_ok_iff {α} (l : List α) (f : α → Res Unit) :
    forEach l f = .ok () ↔ ∀ a ∈ l, f a = .ok () := by
  induction l with
  | nil => simp [forEach, pure, Except.pure]
  | cons a as ih =>
    simp only [forEach, List.mem_cons, forall_eq_or_imp]
    cases h : f a with
    | error e => simp [bind, Except.bind]
    | ok u => cases u; simp [bind, Except.bind, ih]

/-- Adjacent pairs `(l[i-1], l[i])`, `i = 1 …`, as the positional loops of /repo visit them. -/
def adjacent {α} : List α → List (α × α)
  | a :: b :: r => (a, b) :: adjacent (b :: r)
  | _ => []

/-- `Except` sequencing accepts exactly when both parts accept. -/
theorem seq_ok_iff (a b : Res Unit) : (do a; b) = .ok () ↔ a = .ok () ∧ b = .ok () := by
  cases a with
  | error e => simp [bind, Except.bind]
  | ok u => cases u; simp [bind, Except.bind]

/-- Big-endian fixed-width encodings (`struct.pack("!H")`, `"!I"`, `"!B"`); callers check ranges. -/
def be8 (n : Nat) : Bytes := [UInt8.ofNat n]
def be16 (n : Nat) : Bytes := [UInt8.ofNat (n / 256), UInt8.ofNat n]
def be32 (n : Nat) : Bytes :=
  [UInt8.ofNat (n / 16777216), UInt8.ofNat (n / 65536), UInt8.ofNat (n / 256), UInt8.ofNat n]

/-- `int.from_bytes(b, "big")`. -/
def beNat (b : Bytes) : Nat := b.foldl (fun acc x => acc * 256 + x.toNat) 0

/-- Unsigned lexicographic order on octet strings, a proper prefix being smaller
    (Python `bytes.__le__`, RFC 4034 §6.3 canonical RR ordering). -/
def bytesLe : Bytes → Bytes → Bool
  | [], _ => true
  | _ :: _, [] => false
  | a :: as, b :: bs => if a < b then true else if b < a then false else bytesLe as bs

/-- Python's `struct.pack` range guard for an unsigned field of `bits` bits. -/
def inRange (bits : Nat) (v : Int) : Bool := decide (0 ≤ v) && decide (v.toNat < 2 ^ bits)
-- (compared in `Nat` so that the kernel never has to unfold `Int.sub` against a large literal)

end Kskm
