/-
  Kskm.HsmConfig — kskm/misc/hsm.py: `parse_hsmconfig`, `load_hsmconfig` (over ALL strings, `List Char`)
  and `find_key_by_id` (token-oracle monad of Kskm.Hsm).

  `parse_hsmconfig(config, src, defaults, max_lines)` mirrored statement by statement:

    for line in config:
        max_lines -= 1
        if not max_lines: raise RuntimeError            -- the counter is decremented BEFORE the test and the
                                                        -- test is `== 0`: the max_lines-th line raises even
                                                        -- when it is blank; max_lines ≤ 0 never reaches 0
                                                        -- again, i.e. there is NO limit then (`Int` counter)
        line = line.strip().strip("\n")                 -- `strip()` = the tabulated str.strip class
        if not line or line.startswith("#"): continue
        separator_idx = line.index("=")                 -- first "="; none ⇒ ValueError
        lhs, rhs = line[:idx], line[idx+1:]             -- NOT stripped again ("A = b" ⇒ key "A ", value " b")
        while True:
            match = re.search(r"\$(\w+)", rhs)          -- leftmost "$" followed by ≥ 1 word character,
            if not match: break                         -- key = the MAXIMAL word run (`\w` = tabulated class)
            key = match.group(1)
            val = res.get(key, defaults.get(key))       -- a key present in `res` wins even when its value is ""
            if not val: raise RuntimeError
            if "$" in val: raise ValueError
            rhs = rhs.replace(f"${key}", val)           -- ALL non-overlapping occurrences, left to right:
        res[lhs] = rhs                                  -- "$FOO" inside "$FOO_BAR" is replaced too;
    return res                                          -- a repeated key keeps its first position (dict)

  The `while True` loop carries explicit FUEL and answers `outOfFuel` when it runs out;
  KskmProofs/C15.lean proves that it never does for fuel ≥ the number of "$" in `rhs`
  (`hsmconfig_interpolation_terminates`), which is the fuel `parseHsmconfig` supplies.

  The character classes are the PARAMETER `Xml.Classes` (tabulated from the running Python), never ASCII.
  `defaults` is a PARAMETER (function from names to optional string values: `defaults.get(key)`); non-string
  default values are outside the model.
-/
import Kskm.Xml
import Kskm.Hsm
namespace Kskm.HsmConfig
open Kskm.Xml (Classes Out strip)

abbrev Str := List Char

/-- the result dict, in insertion order -/
abbrev Dict := List (Str × Str)

/-- `d.get(k)` -/
def Dict.get (d : Dict) (k : Str) : Option Str := (d.find? (fun p => p.1 == k)).map (·.2)

/-- `d[k] = v`: an existing key keeps its position, a new one goes last -/
def Dict.set : Dict → Str → Str → Dict
  | [], k, v => [(k, v)]
  | (k', v') :: rest, k, v => if k' == k then (k', v) :: rest else (k', v') :: Dict.set rest k v

/-- `defaults.get(key)` -/
abbrev Defaults := Str → Option Str

/-- number of "$" in a string: the termination measure of the interpolation loop -/
def dollars (s : Str) : Nat := s.count '$'

/-- `re.search(r"\$(\w+)", rhs)`: group 1 of the leftmost match — the maximal word run after the first "$" that
    is followed by a word character -/
def searchVar (isWord : Char → Bool) : Str → Option Str
  | [] => none
  | c :: s =>
    if c = '$' then
      match s.takeWhile isWord with
      | [] => searchVar isWord s
      | k :: ks => some (k :: ks)
    else searchVar isWord s

/-- `s.replace(pat, val)` for a non-empty `pat`, scanning left to right; `skip` = characters of a match still to be
    dropped (so the recursion is structural) -/
def replaceAux (pat val : Str) : Nat → Str → Str
  | _, [] => []
  | skip + 1, _ :: s => replaceAux pat val skip s
  | 0, c :: s =>
    if pat.isPrefixOf (c :: s) then val ++ replaceAux pat val (pat.length - 1) s
    else c :: replaceAux pat val 0 s

def replaceAll (pat val s : Str) : Str := replaceAux pat val 0 s

/-- what one round of the `while True:` loop does -/
inductive Round where
  | done (r : Out Str)        -- `break` (→ `ok rhs`) or `raise`
  | again (rhs : Str)         -- `rhs = rhs.replace(…)`, next round
  deriving Repr

/-- one round of the `while True:` loop of `parse_hsmconfig`; `lookup key` = `res.get(key, defaults.get(key))` -/
def interpRound (isWord : Char → Bool) (lookup : Str → Option Str) (rhs : Str) : Round :=
  match searchVar isWord rhs with
  | none => .done (.ok rhs)
  | some key =>
    match lookup key with
    | none => .done (.err .runtime)                  -- `if not val` (None)
    | some [] => .done (.err .runtime)               -- `if not val` ("")
    | some val =>
      if val.contains '$' then .done (.err .value)
      else .again (replaceAll ('$' :: key) val rhs)

/-- the `while True:` loop, with fuel (= rounds that may still replace) -/
def interpolate (isWord : Char → Bool) (lookup : Str → Option Str) : Nat → Str → Out Str
  | 0, rhs =>
    match interpRound isWord lookup rhs with
    | .done r => r
    | .again _ => .outOfFuel
  | fuel + 1, rhs =>
    match interpRound isWord lookup rhs with
    | .done r => r
    | .again rhs' => interpolate isWord lookup fuel rhs'

/-- `res.get(key, defaults.get(key))` -/
def lookupVar (res : Dict) (defaults : Defaults) (key : Str) : Option Str :=
  match res.get key with
  | some v => some v
  | none => defaults key

/-- `line.index("=")` split: `(line[:idx], line[idx+1:])` -/
def splitEq : Str → Option (Str × Str)
  | [] => none
  | c :: s => if c = '=' then some ([], s) else (splitEq s).map (fun p => (c :: p.1, p.2))

structure St where
  maxLines : Int
  res : Dict
  deriving DecidableEq, Repr

/-- one iteration of `for line in config:` -/
def step (cls : Classes) (defaults : Defaults) (st : St) (line : Str) : Out St :=
  let maxLines := st.maxLines - 1
  if maxLines = 0 then .err .runtime else
  let line := strip (· == '\n') (strip cls.isStrip line)
  if line.isEmpty || line.head? == some '#' then .ok { st with maxLines } else
  match splitEq line with
  | none => .err .value
  | some (lhs, rhs) =>
    match interpolate cls.isWord (lookupVar st.res defaults) (dollars rhs) rhs with
    | .ok rhs' => .ok { maxLines, res := st.res.set lhs rhs' }
    | .err k => .err k
    | .outOfFuel => .outOfFuel

def loop (cls : Classes) (defaults : Defaults) : St → List Str → Out St
  | st, [] => .ok st
  | st, l :: ls =>
    match step cls defaults st l with
    | .ok st' => loop cls defaults st' ls
    | .err k => .err k
    | .outOfFuel => .outOfFuel

/-- `parse_hsmconfig(config, src, defaults, max_lines)` on the lines the iterator yields -/
def parseHsmconfig (cls : Classes) (defaults : Defaults) (maxLines : Int) (lines : List Str) : Out Dict :=
  match loop cls defaults { maxLines, res := [] } lines with
  | .ok st => .ok st.res
  | .err k => .err k
  | .outOfFuel => .outOfFuel

/-- iteration over a text-mode file object (universal newlines): "\r\n" and "\r" read as "\n", lines keep their "\n";
    `cur` = the line being collected, reversed -/
def textLinesAux : Str → Str → List Str
  | cur, [] => if cur.isEmpty then [] else [cur.reverse]
  | cur, '\r' :: '\n' :: s => ('\n' :: cur).reverse :: textLinesAux [] s
  | cur, '\r' :: s => ('\n' :: cur).reverse :: textLinesAux [] s
  | cur, '\n' :: s => ('\n' :: cur).reverse :: textLinesAux [] s
  | cur, c :: s => textLinesAux (c :: cur) s

def textLines (text : Str) : List Str := textLinesAux [] text

def pkcs11LibraryPath : Str := "PKCS11_LIBRARY_PATH".toList

/-- `load_hsmconfig(filename, defaults, max_lines)`: `defaults if defaults else os.environ` (an EMPTY or missing
    mapping falls back to the environment), the decoded file text is a parameter, and a result without
    PKCS11_LIBRARY_PATH is a RuntimeError. -/
def loadHsmconfig (cls : Classes) (defaults : Option (List (Str × Str))) (environ : Defaults)
    (maxLines : Int) (text : Str) : Out Dict :=
  let dflt : Defaults := match defaults with
    | none => environ
    | some [] => environ
    | some d => fun k => Dict.get d k
  match parseHsmconfig cls dflt maxLines (textLines text) with
  | .ok res => if (res.get pkcs11LibraryPath).isSome then .ok res else .err .runtime
  | .err k => .err k
  | .outOfFuel => .outOfFuel

/-! ### `find_key_by_id` -/
open Kskm

/-- the template value of CKA_ID travels as the hex text of the identifier octets -/
def idTemplate (keyIdHex : String) : List (String × TmplVal) := [("ID", .str keyIdHex)]

/-- `KeyType(_cka_type)`: an unknown number (or None) is a ValueError -/
def keyTypeOfAttr (kt : AttrAns) : TokM KeyType :=
  match kt with
  | .num n =>
    match keyTypeOf n with
    | some t => pure t
    | none => TokM.err .value
  | .none => TokM.err .value
  | _ => TokM.fail .unsupported

/-- the body of `for this in objs:`; `none` = the object is skipped (neither public nor private key) -/
def keyOfObject (path : String) (slot h : Nat) : TokM (Option P11Key) := do
  match ← askOk (.getAttr path slot h ["CLASS", "LABEL"]) with
  | .attrs [cls, lab] =>
    match cls with
    | .num c =>
      if c = ckoPrivate ∨ c = ckoPublic then do
        let kt ← attr1 (← askOk (.getAttr path slot h ["KEY_TYPE"]))
        -- keyword arguments are evaluated in order: `KeyType(_cka_type)` before `_p11_object_to_public_key`
        let t ← keyTypeOfAttr kt
        let pk ← p11ObjectToPublicKey path slot h
        match lab with
        | .str label =>
          pure (some { label, keyType := t, keyClass := c, hashUsingHsm := none, publicKey := pk,
                       module := path, slot,
                       privHandle := if c = ckoPrivate then some h else none,
                       pubHandle := if c = ckoPublic then some h else none })
        | .none => TokM.err .validation                 -- pydantic: `label` must be a string
        | _ => TokM.fail .unsupported
      else pure none
    | .none => pure none                                -- `None in [3, 2]` is False
    | _ => TokM.fail .unsupported
  | _ => TokM.fail .unsupported

def keysOfObjects (path : String) (slot : Nat) : List Nat → TokM (List P11Key)
  | [] => pure []
  | h :: rest => do
    let k ← keyOfObject path slot h
    let more ← keysOfObjects path slot rest
    pure (match k with | some k => k :: more | none => more)

/-- `KSKM_P11Module.find_key_by_id(key_id, session)`; the session is (module path, slot) -/
def findKeyById (path : String) (slot : Nat) (keyIdHex : String) : TokM (List P11Key) := do
  match ← askOk (.findObjects path slot (idTemplate keyIdHex)) with
  | .handles hs => keysOfObjects path slot hs
  | _ => TokM.fail .unsupported

end Kskm.HsmConfig
