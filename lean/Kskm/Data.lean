/-
  Kskm.Data — the data classes of kskm.common.data / ksr.data / skr.data / common.config_misc,
  field for field.  Python `set[...]` fields are lists here; the harness sends the elements in the
  set's actual iteration order, and the theorems show the verdicts do not depend on that order.
-/
import Kskm.Basic
namespace Kskm

/-- `AlgorithmDNSSEC` numbers used by name in the model (the full enum is in `KskmGen.Tables`). -/
def algRSASHA1 : Nat := 5
def algRSASHA256 : Nat := 8
def algRSASHA512 : Nat := 10
def algECDSAP256 : Nat := 13
def algECDSAP384 : Nat := 14
def algED25519 : Nat := 15
def algED448 : Nat := 16

def flagSEP : Nat := 1
def flagREVOKE : Nat := 128
def flagZONE : Nat := 256

structure Key where
  keyIdentifier : String
  keyTag : Int
  ttl : Int
  flags : Int
  protocol : Int
  algorithm : Nat
  /-- base64 *text*, as in /repo (`Key.public_key` is the UTF-8 of the XML text) -/
  publicKey : String
  deriving DecidableEq, Repr, Inhabited

structure Signature where
  keyIdentifier : String
  ttl : Int
  typeCovered : Nat := 48
  algorithm : Nat
  labels : Int
  originalTtl : Int
  expiration : Int
  inception : Int
  keyTag : Int
  signersName : String
  signatureData : String
  deriving DecidableEq, Repr, Inhabited

/-- Which `AlgorithmPolicy` subclass an entry is an instance of. -/
inductive AlgKind where
  | rsa | ecdsa | eddsa | dsa
  deriving DecidableEq, Repr, Inhabited

structure AlgPolicy where
  kind : AlgKind
  bits : Int
  algorithm : Nat
  exponent : Option Int := none     -- only `AlgorithmPolicyRSA` has it
  deriving DecidableEq, Repr, Inhabited

structure SigPolicy where
  publishSafety : Int := 0
  retireSafety : Int := 0
  maxSignatureValidity : Int := 0
  minSignatureValidity : Int := 0
  maxValidityOverlap : Int := 0
  minValidityOverlap : Int := 0
  algorithms : List AlgPolicy := []
  deriving DecidableEq, Repr, Inhabited

structure Bundle where
  id : String
  inception : Int
  expiration : Int
  keys : List Key
  signatures : List Signature
  /-- `RequestBundle.signers` (`None` when absent); unused by every check -/
  signers : Option (List (Option String)) := none
  deriving DecidableEq, Repr, Inhabited

structure Request where
  id : String
  serial : Int
  domain : String
  timestamp : Option Int := none
  zskPolicy : SigPolicy
  bundles : List Bundle
  deriving DecidableEq, Repr, Inhabited

structure Response where
  id : String
  serial : Int
  domain : String
  timestamp : Option Int := none
  zskPolicy : SigPolicy
  kskPolicy : SigPolicy
  bundles : List Bundle
  deriving DecidableEq, Repr, Inhabited

/-- `RequestPolicy` of common/config_misc.py.  Durations in microseconds. -/
structure RequestPolicy where
  acceptableDomains : List String := ["."]
  numBundles : Int := 9
  validateSignatures : Bool := true
  keysMatchZskPolicy : Bool := true
  rsaExponentMatchZskPolicy : Bool := true
  enableUnsupportedEcdsa : Bool := false
  enableUnsupportedEdwardsDsa : Bool := false
  checkCycleLength : Bool := true
  minCycleInceptionLength : Int := 79 * 86400000000
  maxCycleInceptionLength : Int := 81 * 86400000000
  minBundleInterval : Int := 9 * 86400000000
  maxBundleInterval : Int := 11 * 86400000000
  checkBundleOverlap : Bool := true
  signatureAlgorithmsMatchZskPolicy : Bool := true
  /-- `approved_algorithms` resolved to numbers by the harness; a name that is not an enum member
      makes /repo raise `KeyError` when the list is consulted: `none` stands for such a name. -/
  approvedAlgorithms : List (Option Nat) := [some 8]
  rsaApprovedExponents : List Int := [65537]
  rsaApprovedKeySizes : List Int := [2048]
  signatureValidityMatchZskPolicy : Bool := true
  checkKeysMatchKskOperatorPolicy : Bool := true
  numKeysPerBundle : List Int := [2, 1, 1, 1, 1, 1, 1, 1, 2]
  numDifferentKeysInAllBundles : Int := 3
  dnsTtl : Int := 0
  signatureCheckExpireHorizon : Bool := true
  signatureHorizonDays : Int := 180
  checkBundleIntervals : Bool := true
  checkChainKeys : Bool := true
  checkChainKeysInHsm : Bool := true
  checkChainOverlap : Bool := true
  checkKeysPublishSafety : Bool := true
  checkKeysRetireSafety : Bool := true
  deriving DecidableEq, Repr, Inhabited

structure ResponsePolicy where
  numBundles : Int := 9
  validateSignatures : Bool := true
  deriving DecidableEq, Repr, Inhabited

def usPerSecond : Int := 1000000
def usPerDay : Int := 86400000000

/-- `timedelta.days` -/
def tdDays (d : Int) : Int := d / usPerDay      -- Int `/` is floor for a positive divisor

end Kskm
