/-
  Kskm.TrustAnchor — kskm/tools/trustanchor.py (`trustanchor`, `_trustanchor_filename`,
  `output_trustanchor_xml`), kskm/ta/keydigest.py (`create_trustanchor_keydigest`) and
  kskm/ta/data.py (`KeyDigest`, `TrustAnchor`, their `to_xml`).

      p11modules = init_pkcs11_modules(config, name=args.hsm)
      for each configured KSK, in configuration order:
          p11key = get_p11_key(ksk.label, p11modules, public=True)
          absent or without a public key  ->  skipped
          _key = public_key_to_dnssec_key(pk, ksk.label, ksk.algorithm, flags 257, ksk_policy.ttl)
          key_digests.add(create_trustanchor_keydigest(ksk, _key))       # a Python set
      TrustAnchor(id = args.id or uuid4(), source, zone ".", key_digests).to_xml_doc()
      one write to the file, or print to stdout

  Parameters (never axioms): the token (`TokM`), SHA-256 (`Externals.hash`, answers recorded by the
  harness), `uuid4()` (the string it would return), the typed PIN.  The write itself (`open`, `fd.write`)
  is an effect that the model reports (`TaOutput`) and does not interpret.

  The Python `set[KeyDigest]` is a duplicate-free list in insertion order; Python's iteration order is a
  hash order the model does not predict, `sorted(…, key=valid_from)` is stable over it.  `C18.lean`
  proves that the rendered entries of two orders of the same set are permutations of each other, both
  sorted by `validFrom`; the harness compares entries as a multiset plus sortedness.
-/
import Kskm.Signer
import Kskm.Ceremony
import Kskm.Time
namespace Kskm

/-- `KeyDigest` of kskm/ta/data.py -/
structure KeyDigest where
  id : String
  keyTag : Int
  algorithm : Nat
  /-- `DigestDNSSEC.SHA256.value` -/
  digestType : Nat := 2
  digest : Bytes
  validFrom : Int
  validUntil : Option Int := none
  deriving DecidableEq, Repr, Inhabited

/-- `create_trustanchor_keydigest(ksk_key, key, domain)`: SHA-256 over owner name (wire form) ‖ RDATA -/
def createTrustanchorKeydigest (hash : Hasher) (ksk : KskKey) (key : Key) (domain : String := ".") :
    Res KeyDigest := do
  let owner ← dn2wire domain
  let rdata ← keyToRdata key
  let digest ← hashOrUnknown hash .sha256 (owner ++ rdata)
  pure { id := key.keyIdentifier, keyTag := key.keyTag, algorithm := key.algorithm, digestType := 2,
         digest, validFrom := ksk.validFrom, validUntil := ksk.validUntil }

/-- `set.add` -/
def digestSetAdd (s : List KeyDigest) (d : KeyDigest) : List KeyDigest :=
  if s.contains d then s else s ++ [d]

/-- `KeyDigest.to_xml` -/
def KeyDigest.toXml (d : KeyDigest) : String :=
  "<KeyDigest id=\"" ++ d.id ++ "\"" ++ " validFrom=\"" ++ formatDatetime d.validFrom ++ "\""
    ++ (match d.validUntil with
        | some u => " validUntil=\"" ++ formatDatetime u ++ "\""
        | none => "")
    ++ ">\n"
    ++ "<KeyTag>" ++ toString d.keyTag ++ "</KeyTag>\n"
    ++ "<Algorithm>" ++ toString d.algorithm ++ "</Algorithm>\n"
    ++ "<DigestType>" ++ toString d.digestType ++ "</DigestType>\n"
    ++ "<Digest>" ++ upperHex d.digest ++ "</Digest>\n"
    ++ "</KeyDigest>\n"

/-- `sorted(self.key_digests, key=lambda ks: ks.valid_from)` — stable -/
def sortDigests (l : List KeyDigest) : List KeyDigest :=
  l.mergeSort (fun a b => decide (a.validFrom ≤ b.validFrom))

structure TrustAnchorDoc where
  id : String
  source : String
  zone : String
  keyDigests : List KeyDigest
  deriving DecidableEq, Repr, Inhabited

def taSource : String := "http://data.iana.org/root-anchors/root-anchors.xml"
def xmlDeclLine : String := "<?xml version=\"1.0\" encoding=\"UTF-8\"?>\n"

/-- the opening lines of `TrustAnchor.to_xml` -/
def TrustAnchorDoc.header (ta : TrustAnchorDoc) : String :=
  "<TrustAnchor id=\"" ++ ta.id ++ "\" source=\"" ++ ta.source ++ "\">\n"
    ++ "<Zone>" ++ ta.zone ++ "</Zone>\n"

def taFooter : String := "</TrustAnchor>"

/-- the `KeyDigest` snippets in output order -/
def TrustAnchorDoc.entries (ta : TrustAnchorDoc) : List String := (sortDigests ta.keyDigests).map KeyDigest.toXml

/-- `TrustAnchor.to_xml` -/
def TrustAnchorDoc.toXml (ta : TrustAnchorDoc) : String :=
  ta.header ++ String.join ta.entries ++ taFooter

/-- `TrustAnchor.to_xml_doc` -/
def TrustAnchorDoc.toXmlDoc (ta : TrustAnchorDoc) : String := xmlDeclLine ++ ta.toXml

/-- where the document goes: one write to a file, or `print` -/
inductive TaOutput where
  | file (path : String) (content : String)
  | stdout (text : String)
  deriving DecidableEq, Repr, Inhabited

structure TaArgs where
  /-- `--id` -/
  id : Option String := none
  /-- what `str(uuid.uuid4())` returns if it is called -/
  uuid : String := ""
  /-- `--trustanchor` -/
  trustanchor : Option String := none
  /-- `--hsm` -/
  hsm : Option String := none
  deriving DecidableEq, Repr, Inhabited

structure TaConfig where
  hsm : List HsmConfig
  /-- `config.ksk_keys` in configuration order -/
  kskKeys : List (String × KskKey)
  /-- `config.ksk_policy.ttl` -/
  ttl : Int := 172800
  /-- `config.filenames.output_trustanchor` -/
  outputTrustanchor : Option String := none
  typedPin : String := ""
  deriving Repr, Inhabited

/-- the loop over `config.ksk_keys.items()` -/
def taLoop (ext : Externals) (mods : List P11Module) (ttl : Int) :
    List KskKey → List KeyDigest → TokM (List KeyDigest)
  | [], acc => pure acc
  | ksk :: rest, acc => do
    match ← getP11Key ksk.label true none mods with
    | none => taLoop ext mods ttl rest acc            -- "could not be loaded using PKCS#11"
    | some k =>
      match k.publicKey with
      | none => taLoop ext mods ttl rest acc
      | some pk =>
        if pk.isEmpty then taLoop ext mods ttl rest acc else do
        let key ← TokM.lift (publicKeyToDnssecKey pk ksk.label ksk.algorithm ttl 257)
        let this ← TokM.lift (createTrustanchorKeydigest ext.hash ksk key)
        taLoop ext mods ttl rest (digestSetAdd acc this)

/-- Python truthiness of an optional string argument -/
def truthyStr (o : Option String) : Option String :=
  match o with
  | some s => if s.isEmpty then none else some s
  | none => none

/-- `_trustanchor_filename(args, config)` -/
def trustanchorFilename (args : TaArgs) (cfg : TaConfig) : Option String :=
  match truthyStr args.trustanchor with
  | some p => some p
  | none => cfg.outputTrustanchor

structure TaResult where
  ta : TrustAnchorDoc
  output : TaOutput
  deriving DecidableEq, Repr, Inhabited

/-- `trustanchor(logger, args, config)` (returns `True`; here: what was built and where it went) -/
def trustanchor (ext : Externals) (args : TaArgs) (cfg : TaConfig) : TokM TaResult := do
  let mods ← initPkcs11Modules cfg.hsm args.hsm cfg.typedPin cfg.hsm
  let digests ← taLoop ext mods cfg.ttl (cfg.kskKeys.map (·.2)) []
  let ta : TrustAnchorDoc :=
    { id := (truthyStr args.id).getD args.uuid, source := taSource, zone := ".", keyDigests := digests }
  let xml := ta.toXmlDoc
  match trustanchorFilename args cfg with
  | some path => pure { ta, output := .file path xml }
  | none => pure { ta, output := .stdout (xml ++ "\n") }

end Kskm
