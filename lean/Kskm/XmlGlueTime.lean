/-
  Kskm.XmlGlueTime — the time/duration/int text codecs the XML glue needs.

  Work package E's models exist (lean/Kskm/Duration.lean, lean/Kskm/Time.lean), so this file is only
  the switch-over point that was agreed while they did not: the glue imports THIS file and uses
  `Kskm.parseDurationChars`, `Kskm.parseDatetimeChars`, `Kskm.pyInt` from there.
-/
import Kskm.Duration
import Kskm.Time
