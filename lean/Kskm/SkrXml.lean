/-
  Kskm.SkrXml — kskm/skr/output.py: `skr_to_xml` and its helpers, as text.

  Text is `List Char` inside (the proofs are about lists); `skrToXml` packs the result into a `String`.

  Every f-string template of output.py is written here LINE BY LINE and glued with `joinNl`
  (= `"\n".join`): a triple-quoted f-string is the "\n"-join of its lines, its first and last lines
  being empty (the template starts and ends with a newline).  A hole `{_indent(x)}` standing after
  four blanks is the "line" `sp4 ++ indent x` (which may itself contain newlines).

  `indent` is `_indent` exactly: split on "\n", drop the EMPTY pieces (a whitespace-only line is
  kept), prefix four blanks, join with "\n", `str.lstrip()` the result.

  Set-valued fields (`keys`, `signatures`, `algorithms`) are lists in iteration order; keys are
  written after Python's stable `sorted(..., key=key_tag)`.

  The second half of the file gives the same document as the rendering of an element tree
  (`treeOf`, `renderDoc`); `KskmProofs/C11.lean` proves the two agree on `WriterDomain`.
-/
import Kskm.Duration
import Kskm.Time
namespace Kskm

/-! ### Python string helpers -/

/-- `"\n".join(lines)` -/
def joinNl : List (List Char) → List Char
  | [] => []
  | [l] => l
  | l :: l' :: ls => l ++ '\n' :: joinNl (l' :: ls)

/-- `s.split("\n")` -/
def splitNl : List Char → List (List Char)
  | [] => [[]]
  | c :: r =>
    if c = '\n' then [] :: splitNl r
    else
      match splitNl r with
      | l :: ls => (c :: l) :: ls
      | [] => [[c]]

/-- `str.isspace()` of one character in CPython 3.12 (Unicode 15: White_Space plus the
    information separators U+001C…U+001F); checked against the running interpreter over all code
    points by harness/corr_C11.py. -/
def pyIsSpace (c : Char) : Bool :=
  let n := c.toNat
  (9 ≤ n && n ≤ 13) || (28 ≤ n && n ≤ 32) || n = 133 || n = 160 || n = 5760
    || (8192 ≤ n && n ≤ 8202) || n = 8232 || n = 8233 || n = 8239 || n = 8287 || n = 12288

/-- `str.lstrip()` -/
def lstrip (s : List Char) : List Char := s.dropWhile pyIsSpace

def sp4 : List Char := [' ', ' ', ' ', ' ']

/-- `_indent` -/
def indent (data : List Char) : List Char :=
  lstrip (joinNl (((splitNl data).filter (fun l => !l.isEmpty)).map (fun l => sp4 ++ l)))

def natStr (n : Nat) : List Char := Nat.toDigits 10 n

/-! ### the templates -/

/-- `<name>text</name>` preceded by four blanks: one line of a template -/
def leafLine (name : String) (text : List Char) : List Char :=
  sp4 ++ '<' :: name.toList ++ '>' :: text ++ '<' :: '/' :: name.toList ++ ['>']

/-- one pass of the loop of `_signature_algorithms_to_xml` -/
def algXml (a : AlgPolicy) : Res (List Char) :=
  match a.kind, a.exponent with
  | .rsa, some e =>
    pure (joinNl [
      [],
      "<SignatureAlgorithm algorithm=\"".toList ++ natStr a.algorithm ++ "\">".toList,
      "    <RSA size=\"".toList ++ pyIntStr a.bits ++ "\" exponent=\"".toList ++ pyIntStr e ++ "\"/>".toList,
      "</SignatureAlgorithm>".toList,
      []])
  | .rsa, none => unsupported            -- an `AlgorithmPolicyRSA` always has an exponent
  | _, _ => err .notImplemented          -- "Can only output RSA at the moment"

/-- `_signature_algorithms_to_xml` -/
def algsXml (algs : List AlgPolicy) : Res (List Char) := do
  let parts ← algs.mapM algXml
  pure parts.flatten

/-- `_skr_response_policy_to_xml2` -/
def policy2Xml (name : String) (p : SigPolicy) : Res (List Char) := do
  let algs ← algsXml p.algorithms
  pure (joinNl [
    [],
    '<' :: name.toList ++ ['>'],
    [],                                   -- the `\n` escape followed by the line break
    leafLine "PublishSafety" (formatDurationChars p.publishSafety),
    leafLine "RetireSafety" (formatDurationChars p.retireSafety),
    leafLine "MaxSignatureValidity" (formatDurationChars p.maxSignatureValidity),
    leafLine "MinSignatureValidity" (formatDurationChars p.minSignatureValidity),
    leafLine "MaxValidityOverlap" (formatDurationChars p.maxValidityOverlap),
    leafLine "MinValidityOverlap" (formatDurationChars p.minValidityOverlap),
    sp4 ++ indent algs,
    '<' :: '/' :: name.toList ++ ['>'],
    []])

/-- `_skr_response_policy_to_xml` -/
def policyXml (r : Response) : Res (List Char) := do
  let ksk ← policy2Xml "KSK" r.kskPolicy
  let zsk ← policy2Xml "ZSK" r.zskPolicy
  pure (joinNl [
    [],
    "<ResponsePolicy>".toList,
    sp4 ++ indent ksk,
    sp4 ++ indent zsk,
    "</ResponsePolicy>".toList,
    []])

/-- first and last instant a Python `datetime` can hold (years 1 … 9999), in µs -/
def minInstant : Int := -62135596800000000
def maxInstant : Int := 253402300799999999

/-- `format_datetime(dt)`; an instant no `datetime` can hold is outside the model -/
def formatDatetimeRes (t : Int) : Res (List Char) :=
  if minInstant ≤ t ∧ t ≤ maxInstant then pure (formatDatetimeChars t) else unsupported

/-- `_skr_key_to_xml` -/
def keyXml (k : Key) : List Char :=
  joinNl [
    [],
    "<Key keyIdentifier=\"".toList ++ k.keyIdentifier.toList ++ "\" keyTag=\"".toList ++ pyIntStr k.keyTag
      ++ "\">".toList,
    leafLine "TTL" (pyIntStr k.ttl),
    leafLine "Flags" (pyIntStr k.flags),
    leafLine "Protocol" (pyIntStr k.protocol),
    leafLine "Algorithm" (natStr k.algorithm),
    leafLine "PublicKey" k.publicKey.toList,
    "</Key>".toList,
    []]

/-- `sorted(bundle.keys, key=lambda x: x.key_tag)` — stable -/
def sortKeys (keys : List Key) : List Key := keys.mergeSort (fun a b => decide (a.keyTag ≤ b.keyTag))

/-- `_skr_keys_to_xml` -/
def keysXml (b : Bundle) : List Char := ((sortKeys b.keys).map keyXml).flatten

/-- `TypeDNSSEC(...).name` (the enum has the single member DNSKEY = 48) -/
def typeCoveredName (t : Nat) : Res (List Char) := if t = 48 then pure "DNSKEY".toList else unsupported

/-- `_skr_signature_to_xml` -/
def sigXml (s : Signature) : Res (List Char) := do
  let tc ← typeCoveredName s.typeCovered
  let exp ← formatDatetimeRes s.expiration
  let inc ← formatDatetimeRes s.inception
  pure (joinNl [
    [],
    "<Signature keyIdentifier=\"".toList ++ s.keyIdentifier.toList ++ "\">".toList,
    leafLine "TTL" (pyIntStr s.ttl),
    leafLine "TypeCovered" tc,
    leafLine "Algorithm" (natStr s.algorithm),
    leafLine "Labels" (pyIntStr s.labels),
    leafLine "OriginalTTL" (pyIntStr s.originalTtl),
    leafLine "SignatureExpiration" exp,
    leafLine "SignatureInception" inc,
    leafLine "KeyTag" (pyIntStr s.keyTag),
    leafLine "SignersName" s.signersName.toList,
    leafLine "SignatureData" s.signatureData.toList,
    "</Signature>".toList,
    []])

/-- `_skr_signatures_to_xml` -/
def sigsXml (b : Bundle) : Res (List Char) := do
  let parts ← b.signatures.mapM sigXml
  pure parts.flatten

/-- `_skr_bundle_to_xml` -/
def bundleXml (b : Bundle) : Res (List Char) := do
  let inc ← formatDatetimeRes b.inception
  let exp ← formatDatetimeRes b.expiration
  let sigs ← sigsXml b
  pure (joinNl [
    [],
    "<ResponseBundle id=\"".toList ++ b.id.toList ++ "\">".toList,
    leafLine "Inception" inc,
    leafLine "Expiration" exp,
    sp4 ++ indent (keysXml b),
    sp4 ++ indent sigs,
    "</ResponseBundle>".toList,
    []])

/-- `_skr_response_bundles_to_xml` -/
def bundlesXml (r : Response) : Res (List Char) := do
  let parts ← r.bundles.mapM bundleXml
  pure parts.flatten

/-- `_skr_response_to_xml` -/
def responseXml (r : Response) : Res (List Char) := do
  let pol ← policyXml r
  let bs ← bundlesXml r
  pure (joinNl [
    [],
    "<Response>".toList,
    sp4 ++ indent pol,
    sp4 ++ indent bs,
    "</Response>".toList,
    []])

def xmlDecl : List Char := "<?xml version=\"1.0\" encoding=\"UTF-8\"?>".toList

/-- `skr_to_xml` on characters -/
def skrToXmlChars (r : Response) : Res (List Char) := do
  if r.timestamp.isSome then err .notImplemented      -- "SKR timestamp is not supported"
  let resp ← responseXml r
  pure (joinNl [
    xmlDecl,
    "<KSR id=\"".toList ++ r.id.toList ++ "\" domain=\"".toList ++ r.domain.toList ++ "\" serial=\"".toList
      ++ pyIntStr r.serial ++ "\">".toList,
    sp4 ++ indent resp,
    "</KSR>".toList,
    []])

/-- `skr_to_xml(response)` -/
def skrToXml (r : Response) : Res String := do
  let cs ← skrToXmlChars r
  pure (String.ofList cs)

/-! ### the same document as the rendering of an element tree -/

/-- An XML element as the schema sees it: a name, attributes in document order, and either child
    elements, or character data, or nothing (`<name …/>`). -/
inductive XTree where
  | node (name : String) (attrs : List (String × String)) (children : List XTree)
  | leaf (name : String) (attrs : List (String × String)) (text : String)
  | empty (name : String) (attrs : List (String × String))
  deriving Repr, Inhabited

def XTree.name : XTree → String
  | .node n _ _ => n
  | .leaf n _ _ => n
  | .empty n _ => n

def XTree.attrs : XTree → List (String × String)
  | .node _ a _ => a
  | .leaf _ a _ => a
  | .empty _ a => a

/-- ` name="value"` for every attribute -/
def renderAttrs : List (String × String) → List Char
  | [] => []
  | (n, v) :: r => ' ' :: n.toList ++ '=' :: '"' :: v.toList ++ '"' :: renderAttrs r

def openTag (name : String) (attrs : List (String × String)) : List Char :=
  '<' :: name.toList ++ renderAttrs attrs ++ ['>']

def closeTag (name : String) : List Char := '<' :: '/' :: name.toList ++ ['>']

mutual
/-- the lines of an element, children indented by four blanks per level -/
def renderLines : XTree → List (List Char)
  | .node n a cs => openTag n a :: (renderLinesList cs).map (fun l => sp4 ++ l) ++ [closeTag n]
  | .leaf n a t => [openTag n a ++ t.toList ++ closeTag n]
  | .empty n a => ['<' :: n.toList ++ renderAttrs a ++ ['/', '>']]
def renderLinesList : List XTree → List (List Char)
  | [] => []
  | t :: ts => renderLines t ++ renderLinesList ts
end

/-- the whole file: XML declaration, the element, a final newline -/
def renderDoc (t : XTree) : List Char := joinNl (xmlDecl :: renderLines t ++ [[]])

def str (cs : List Char) : String := String.ofList cs

def algTree (a : AlgPolicy) : XTree :=
  .node "SignatureAlgorithm" [("algorithm", str (natStr a.algorithm))]
    [.empty "RSA" [("size", str (pyIntStr a.bits)), ("exponent", str (pyIntStr (a.exponent.getD 0)))]]

def policyTree (name : String) (p : SigPolicy) : XTree :=
  .node name [] ([
    .leaf "PublishSafety" [] (formatDuration p.publishSafety),
    .leaf "RetireSafety" [] (formatDuration p.retireSafety),
    .leaf "MaxSignatureValidity" [] (formatDuration p.maxSignatureValidity),
    .leaf "MinSignatureValidity" [] (formatDuration p.minSignatureValidity),
    .leaf "MaxValidityOverlap" [] (formatDuration p.maxValidityOverlap),
    .leaf "MinValidityOverlap" [] (formatDuration p.minValidityOverlap)]
    ++ p.algorithms.map algTree)

def keyTree (k : Key) : XTree :=
  .node "Key" [("keyIdentifier", k.keyIdentifier), ("keyTag", str (pyIntStr k.keyTag))] [
    .leaf "TTL" [] (str (pyIntStr k.ttl)),
    .leaf "Flags" [] (str (pyIntStr k.flags)),
    .leaf "Protocol" [] (str (pyIntStr k.protocol)),
    .leaf "Algorithm" [] (str (natStr k.algorithm)),
    .leaf "PublicKey" [] k.publicKey]

def sigTree (s : Signature) : XTree :=
  .node "Signature" [("keyIdentifier", s.keyIdentifier)] [
    .leaf "TTL" [] (str (pyIntStr s.ttl)),
    .leaf "TypeCovered" [] "DNSKEY",
    .leaf "Algorithm" [] (str (natStr s.algorithm)),
    .leaf "Labels" [] (str (pyIntStr s.labels)),
    .leaf "OriginalTTL" [] (str (pyIntStr s.originalTtl)),
    .leaf "SignatureExpiration" [] (formatDatetime s.expiration),
    .leaf "SignatureInception" [] (formatDatetime s.inception),
    .leaf "KeyTag" [] (str (pyIntStr s.keyTag)),
    .leaf "SignersName" [] s.signersName,
    .leaf "SignatureData" [] s.signatureData]

def bundleTree (b : Bundle) : XTree :=
  .node "ResponseBundle" [("id", b.id)] ([
    .leaf "Inception" [] (formatDatetime b.inception),
    .leaf "Expiration" [] (formatDatetime b.expiration)]
    ++ (sortKeys b.keys).map keyTree ++ b.signatures.map sigTree)

/-- the element tree `skr_to_xml` writes -/
def treeOf (r : Response) : XTree :=
  .node "KSR" [("id", r.id), ("domain", r.domain), ("serial", str (pyIntStr r.serial))] [
    .node "Response" [] (
      .node "ResponsePolicy" [] [policyTree "KSK" r.kskPolicy, policyTree "ZSK" r.zskPolicy]
        :: r.bundles.map bundleTree)]

end Kskm
