/-
  Kskm.SkrXml — kskm/skr/output.py: `skr_to_xml` and its helpers, as text.

  Text is `List Char` inside (the proofs are about lists); `skrToXml` packs the result into a `String`.

  Every f-string template of output.py is written here LINE BY LINE and glued with `joinNl`
  (= `"\n".join`): a triple-quoted f-string is the "\n"-join of its lines, its first and last lines
  being empty (the template starts and ends with a newline).  Within a line the literal pieces of a tag
  are produced by `openTag` / `closeTag` / `emptyTag` (`<Key keyIdentifier="{…}" keyTag="{…}">` is
  `openTag "Key" [("keyIdentifier", …), ("keyTag", …)]`); that the resulting text is the implementation's,
  character for character, is what harness/corr_C11.py compares on every case.  A hole `{_indent(x)}` standing after
  four blanks is the "line" `sp4 ++ indent x` (which may itself contain newlines).

  `indent` is `_indent` exactly: split on "\n", drop the EMPTY pieces (a whitespace-only line is
  kept), prefix four blanks, join with "\n", `str.lstrip()` the result.

  Set-valued fields (`keys`, `signatures`, `algorithms`) are lists in iteration order; keys are
  written after Python's stable `sorted(..., key=key_tag)`.

  The second half of the file gives the same document as the rendering of an element tree
  (`treeOf`, `renderDoc`); `KskmProofs/C11.lean` proves the two agree on `WriterDomain`.
-/
import Kskm.Duration
import Kskm.Time
import Kskm.Base64
namespace Kskm

/-! ### Python string helpers -/

/-- `"\n".join(lines)` -/
def joinNl : List (List Char) → List Char
  | [] => []
  | [l] => l
  | l :: l' :: ls => l ++ '\n' :: joinNl (l' :: ls)

/-- `s.split("\n")` -/
def splitNl : List Char → List (List Char)
  | [] => [[]]
  | c :: r =>
    if c = '\n' then [] :: splitNl r
    else
      match splitNl r with
      | l :: ls => (c :: l) :: ls
      | [] => [[c]]

/-- `str.isspace()` of one character in CPython 3.12 (Unicode 15: White_Space plus the
    information separators U+001C…U+001F); checked against the running interpreter over all code
    points by harness/corr_C11.py. -/
def pyIsSpace (c : Char) : Bool :=
  let n := c.toNat
  (9 ≤ n && n ≤ 13) || (28 ≤ n && n ≤ 32) || n = 133 || n = 160 || n = 5760
    || (8192 ≤ n && n ≤ 8202) || n = 8232 || n = 8233 || n = 8239 || n = 8287 || n = 12288

/-- `str.lstrip()` -/
def lstrip (s : List Char) : List Char := s.dropWhile pyIsSpace

def sp4 : List Char := [' ', ' ', ' ', ' ']

/-- `_indent` -/
def indent (data : List Char) : List Char :=
  lstrip (joinNl (((splitNl data).filter (fun l => !l.isEmpty)).map (fun l => sp4 ++ l)))

def natStr (n : Nat) : List Char := Nat.toDigits 10 n

/-! ### tags -/

/-- ` name="value"` for every attribute -/
def renderAttrs : List (String × String) → List Char
  | [] => []
  | (n, v) :: r => ' ' :: n.toList ++ '=' :: '"' :: v.toList ++ '"' :: renderAttrs r

/-- `<name a="…" b="…">` -/
def openTag (name : String) (attrs : List (String × String)) : List Char :=
  '<' :: name.toList ++ renderAttrs attrs ++ ['>']

/-- `</name>` -/
def closeTag (name : String) : List Char := '<' :: '/' :: name.toList ++ ['>']

/-- `<name a="…"/>` -/
def emptyTag (name : String) (attrs : List (String × String)) : List Char :=
  '<' :: name.toList ++ renderAttrs attrs ++ ['/', '>']

def str (cs : List Char) : String := String.ofList cs

/-- a template line indented by four blanks -/
def ind (l : List Char) : List Char := sp4 ++ l

/-! ### the templates -/

/-- `<name>text</name>` preceded by four blanks: one line of a template -/
def leafLine (name : String) (text : List Char) : List Char :=
  ind (openTag name [] ++ text ++ closeTag name)

/-- one pass of the loop of `_signature_algorithms_to_xml` -/
def algXml (a : AlgPolicy) : Res (List Char) :=
  match a.kind, a.exponent with
  | .rsa, some e =>
    pure (joinNl [
      [],
      openTag "SignatureAlgorithm" [("algorithm", str (natStr a.algorithm))],
      ind (emptyTag "RSA" [("size", str (pyIntStr a.bits)), ("exponent", str (pyIntStr e))]),
      closeTag "SignatureAlgorithm",
      []])
  | .rsa, none => unsupported            -- an `AlgorithmPolicyRSA` always has an exponent
  | _, _ => err .notImplemented          -- "Can only output RSA at the moment"

/-- `_signature_algorithms_to_xml` -/
def algsXml (algs : List AlgPolicy) : Res (List Char) := do
  let parts ← algs.mapM algXml
  pure parts.flatten

/-- `_skr_response_policy_to_xml2` -/
def policy2Xml (name : String) (p : SigPolicy) : Res (List Char) := do
  let algs ← algsXml p.algorithms
  pure (joinNl [
    [],
    openTag name [],
    [],                                   -- the `\n` escape followed by the line break
    leafLine "PublishSafety" (formatDurationChars p.publishSafety),
    leafLine "RetireSafety" (formatDurationChars p.retireSafety),
    leafLine "MaxSignatureValidity" (formatDurationChars p.maxSignatureValidity),
    leafLine "MinSignatureValidity" (formatDurationChars p.minSignatureValidity),
    leafLine "MaxValidityOverlap" (formatDurationChars p.maxValidityOverlap),
    leafLine "MinValidityOverlap" (formatDurationChars p.minValidityOverlap),
    sp4 ++ indent algs,
    closeTag name,
    []])

/-- `_skr_response_policy_to_xml` -/
def policyXml (r : Response) : Res (List Char) := do
  let ksk ← policy2Xml "KSK" r.kskPolicy
  let zsk ← policy2Xml "ZSK" r.zskPolicy
  pure (joinNl [
    [],
    openTag "ResponsePolicy" [],
    sp4 ++ indent ksk,
    sp4 ++ indent zsk,
    closeTag "ResponsePolicy",
    []])

/-- first and last instant a Python `datetime` can hold (years 1 … 9999), in µs -/
def minInstant : Int := -62135596800000000
def maxInstant : Int := 253402300799999999

/-- `format_datetime(dt)`; an instant no `datetime` can hold is outside the model -/
def formatDatetimeRes (t : Int) : Res (List Char) :=
  if minInstant ≤ t ∧ t ≤ maxInstant then pure (formatDatetimeChars t) else unsupported

/-- `_skr_key_to_xml` -/
def keyXml (k : Key) : List Char :=
  joinNl [
    [],
    openTag "Key" [("keyIdentifier", k.keyIdentifier), ("keyTag", str (pyIntStr k.keyTag))],
    leafLine "TTL" (pyIntStr k.ttl),
    leafLine "Flags" (pyIntStr k.flags),
    leafLine "Protocol" (pyIntStr k.protocol),
    leafLine "Algorithm" (natStr k.algorithm),
    leafLine "PublicKey" k.publicKey.toList,
    closeTag "Key",
    []]

/-- `sorted(bundle.keys, key=lambda x: x.key_tag)` — stable -/
def sortKeys (keys : List Key) : List Key := keys.mergeSort (fun a b => decide (a.keyTag ≤ b.keyTag))

/-- `_skr_keys_to_xml` -/
def keysXml (b : Bundle) : List Char := ((sortKeys b.keys).map keyXml).flatten

/-- `TypeDNSSEC(...).name` (the enum has the single member DNSKEY = 48) -/
def typeCoveredName (t : Nat) : Res (List Char) := if t = 48 then pure "DNSKEY".toList else unsupported

/-- `_skr_signature_to_xml` -/
def sigXml (s : Signature) : Res (List Char) := do
  let tc ← typeCoveredName s.typeCovered
  let exp ← formatDatetimeRes s.expiration
  let inc ← formatDatetimeRes s.inception
  pure (joinNl [
    [],
    openTag "Signature" [("keyIdentifier", s.keyIdentifier)],
    leafLine "TTL" (pyIntStr s.ttl),
    leafLine "TypeCovered" tc,
    leafLine "Algorithm" (natStr s.algorithm),
    leafLine "Labels" (pyIntStr s.labels),
    leafLine "OriginalTTL" (pyIntStr s.originalTtl),
    leafLine "SignatureExpiration" exp,
    leafLine "SignatureInception" inc,
    leafLine "KeyTag" (pyIntStr s.keyTag),
    leafLine "SignersName" s.signersName.toList,
    leafLine "SignatureData" s.signatureData.toList,
    closeTag "Signature",
    []])

/-- `_skr_signatures_to_xml` -/
def sigsXml (b : Bundle) : Res (List Char) := do
  let parts ← b.signatures.mapM sigXml
  pure parts.flatten

/-- `_skr_bundle_to_xml` -/
def bundleXml (b : Bundle) : Res (List Char) := do
  let inc ← formatDatetimeRes b.inception
  let exp ← formatDatetimeRes b.expiration
  let sigs ← sigsXml b
  pure (joinNl [
    [],
    openTag "ResponseBundle" [("id", b.id)],
    leafLine "Inception" inc,
    leafLine "Expiration" exp,
    sp4 ++ indent (keysXml b),
    sp4 ++ indent sigs,
    closeTag "ResponseBundle",
    []])

/-- `_skr_response_bundles_to_xml` -/
def bundlesXml (r : Response) : Res (List Char) := do
  let parts ← r.bundles.mapM bundleXml
  pure parts.flatten

/-- `_skr_response_to_xml` -/
def responseXml (r : Response) : Res (List Char) := do
  let pol ← policyXml r
  let bs ← bundlesXml r
  pure (joinNl [
    [],
    openTag "Response" [],
    sp4 ++ indent pol,
    sp4 ++ indent bs,
    closeTag "Response",
    []])

def xmlDecl : List Char := "<?xml version=\"1.0\" encoding=\"UTF-8\"?>".toList

/-- CPython refuses to convert an `int` of more than 4300 decimal digits to `str` (ValueError) -/
def printable (i : Int) : Bool := decide (i.natAbs < 10 ^ maxStrDigits)

/-- every integer `skr_to_xml` formats -/
def printedInts (r : Response) : List Int :=
  r.serial :: ((r.kskPolicy.algorithms ++ r.zskPolicy.algorithms).flatMap
      (fun a => [(a.algorithm : Int), a.bits, a.exponent.getD 0]))
    ++ r.bundles.flatMap (fun b =>
      b.keys.flatMap (fun k => [k.keyTag, k.ttl, k.flags, k.protocol, (k.algorithm : Int)])
        ++ b.signatures.flatMap (fun s => [s.ttl, (s.algorithm : Int), s.labels, s.originalTtl, s.keyTag]))

/-- `skr_to_xml` on characters -/
def skrToXmlChars (r : Response) : Res (List Char) := do
  if r.timestamp.isSome then err .notImplemented      -- "SKR timestamp is not supported"
  if !(printedInts r).all printable then err .value   -- int → str above 4300 digits (any error class agrees)
  let resp ← responseXml r
  pure (joinNl [
    xmlDecl,
    openTag "KSR" [("id", r.id), ("domain", r.domain), ("serial", str (pyIntStr r.serial))],
    sp4 ++ indent resp,
    closeTag "KSR",
    []])

/-- `skr_to_xml(response)` -/
def skrToXml (r : Response) : Res String := do
  let cs ← skrToXmlChars r
  pure (String.ofList cs)

/-! ### the same document as the rendering of an element tree -/

/-- An XML element as the schema sees it: a name, attributes in document order, and either child
    elements, or character data, or nothing (`<name …/>`). -/
inductive XTree where
  | node (name : String) (attrs : List (String × String)) (children : List XTree)
  | leaf (name : String) (attrs : List (String × String)) (text : String)
  | empty (name : String) (attrs : List (String × String))
  deriving Repr, Inhabited

def XTree.name : XTree → String
  | .node n _ _ => n
  | .leaf n _ _ => n
  | .empty n _ => n

def XTree.attrs : XTree → List (String × String)
  | .node _ a _ => a
  | .leaf _ a _ => a
  | .empty _ a => a

mutual
/-- the lines of an element, children indented by four blanks per level -/
def renderLines : XTree → List (List Char)
  | .node n a cs => openTag n a :: (renderLinesList cs).map ind ++ [closeTag n]
  | .leaf n a t => [openTag n a ++ t.toList ++ closeTag n]
  | .empty n a => [emptyTag n a]
def renderLinesList : List XTree → List (List Char)
  | [] => []
  | t :: ts => renderLines t ++ renderLinesList ts
end

/-- the whole file: XML declaration, the element, a final newline -/
def renderDoc (t : XTree) : List Char := joinNl (xmlDecl :: renderLines t ++ [[]])

def algTree (a : AlgPolicy) : XTree :=
  .node "SignatureAlgorithm" [("algorithm", str (natStr a.algorithm))]
    [.empty "RSA" [("size", str (pyIntStr a.bits)), ("exponent", str (pyIntStr (a.exponent.getD 0)))]]

def policyTree (name : String) (p : SigPolicy) : XTree :=
  .node name [] ([
    .leaf "PublishSafety" [] (formatDuration p.publishSafety),
    .leaf "RetireSafety" [] (formatDuration p.retireSafety),
    .leaf "MaxSignatureValidity" [] (formatDuration p.maxSignatureValidity),
    .leaf "MinSignatureValidity" [] (formatDuration p.minSignatureValidity),
    .leaf "MaxValidityOverlap" [] (formatDuration p.maxValidityOverlap),
    .leaf "MinValidityOverlap" [] (formatDuration p.minValidityOverlap)]
    ++ p.algorithms.map algTree)

def keyTree (k : Key) : XTree :=
  .node "Key" [("keyIdentifier", k.keyIdentifier), ("keyTag", str (pyIntStr k.keyTag))] [
    .leaf "TTL" [] (str (pyIntStr k.ttl)),
    .leaf "Flags" [] (str (pyIntStr k.flags)),
    .leaf "Protocol" [] (str (pyIntStr k.protocol)),
    .leaf "Algorithm" [] (str (natStr k.algorithm)),
    .leaf "PublicKey" [] k.publicKey]

def sigTree (s : Signature) : XTree :=
  .node "Signature" [("keyIdentifier", s.keyIdentifier)] [
    .leaf "TTL" [] (str (pyIntStr s.ttl)),
    .leaf "TypeCovered" [] "DNSKEY",
    .leaf "Algorithm" [] (str (natStr s.algorithm)),
    .leaf "Labels" [] (str (pyIntStr s.labels)),
    .leaf "OriginalTTL" [] (str (pyIntStr s.originalTtl)),
    .leaf "SignatureExpiration" [] (formatDatetime s.expiration),
    .leaf "SignatureInception" [] (formatDatetime s.inception),
    .leaf "KeyTag" [] (str (pyIntStr s.keyTag)),
    .leaf "SignersName" [] s.signersName,
    .leaf "SignatureData" [] s.signatureData]

def bundleTree (b : Bundle) : XTree :=
  .node "ResponseBundle" [("id", b.id)] ([
    .leaf "Inception" [] (formatDatetime b.inception),
    .leaf "Expiration" [] (formatDatetime b.expiration)]
    ++ (sortKeys b.keys).map keyTree ++ b.signatures.map sigTree)

/-- the element tree `skr_to_xml` writes -/
def treeOf (r : Response) : XTree :=
  .node "KSR" [("id", r.id), ("domain", r.domain), ("serial", str (pyIntStr r.serial))] [
    .node "Response" [] (
      .node "ResponsePolicy" [] [policyTree "KSK" r.kskPolicy, policyTree "ZSK" r.zskPolicy]
        :: r.bundles.map bundleTree)]

/-! ### the writer's domain

  What the signer emits from a plain KSR (DESIGN §4-C11, harness/corr_C11.py `in_domain`): the same
  predicate, evaluated by the driver on every generated response and compared with the harness's. -/

/-- a character that a plain XML document carries verbatim and the repository's reader returns
    unchanged: no markup / quote / entity character, no control character -/
def plainChar (c : Char) : Bool :=
  c != '"' && c != '<' && c != '>' && c != '&' && decide (32 ≤ c.toNat) && !(decide (127 ≤ c.toNat) && decide (c.toNat ≤ 159))
    && c.toNat != 65534 && c.toNat != 65535

/-- an attribute value: plain and not empty -/
def attrTextOk (s : String) : Bool := !s.toList.isEmpty && s.toList.all plainChar

/-- an element text: plain and stripped (`s == s.strip()`) -/
def elemTextOk (s : String) : Bool :=
  s.toList.all plainChar && !(s.toList.head?.any pyIsSpace) && !(s.toList.getLast?.any pyIsSpace)

/-- a whole-second duration between 0 s and 400 d -/
def durationOk (d : Int) : Bool := decide (0 ≤ d) && decide (d % 1000000 = 0) && decide (d ≤ 400 * usPerDay)

/-- a whole-second instant of the years 1000 … 9999 -/
def instantOk (t : Int) : Bool :=
  decide (t % 1000000 = 0) && decide (minInstant ≤ t) && decide (t ≤ maxInstant) && decide (1000 ≤ yearOf t)
    && decide (yearOf t ≤ 9999)

def algOk (a : AlgPolicy) : Bool :=
  a.kind == .rsa && a.exponent.isSome && (a.algorithm == 5 || a.algorithm == 8 || a.algorithm == 10)
    && decide (0 ≤ a.bits) && decide (0 ≤ a.exponent.getD 0) && printable a.bits && printable (a.exponent.getD 0)

def policyOk (p : SigPolicy) : Bool :=
  durationOk p.publishSafety && durationOk p.retireSafety && durationOk p.maxSignatureValidity
    && durationOk p.minSignatureValidity && durationOk p.maxValidityOverlap && durationOk p.minValidityOverlap
    && !p.algorithms.isEmpty && p.algorithms.all algOk

def keyOk (k : Key) : Bool :=
  attrTextOk k.keyIdentifier && elemTextOk k.publicKey && !k.publicKey.toList.isEmpty
    && (Base64.decode k.publicKey).isSome          -- canonical base64 text (xsd:base64Binary)
    && decide (0 ≤ k.keyTag) && decide (k.keyTag ≤ 65535) && decide (0 ≤ k.ttl) && decide (0 ≤ k.flags)
    && decide (k.flags ≤ 65535) && decide (k.protocol = 3) && decide (k.algorithm ≤ 255) && printable k.ttl

def sigOk (s : Signature) : Bool :=
  attrTextOk s.keyIdentifier && s.typeCovered == 48 && instantOk s.expiration && instantOk s.inception
    && elemTextOk s.signersName && !s.signersName.toList.isEmpty
    && elemTextOk s.signatureData && !s.signatureData.toList.isEmpty && (Base64.decode s.signatureData).isSome
    && decide (0 ≤ s.keyTag) && decide (s.keyTag ≤ 65535) && decide (0 ≤ s.ttl) && decide (0 ≤ s.originalTtl)
    && decide (0 ≤ s.labels) && decide (s.labels ≤ 255) && decide (s.algorithm ≤ 255)
    && printable s.ttl && printable s.originalTtl

def bundleOk (b : Bundle) : Bool :=
  attrTextOk b.id && b.signers.isNone && instantOk b.inception && instantOk b.expiration
    && !b.keys.isEmpty && b.keys.all keyOk && !b.signatures.isEmpty && b.signatures.all sigOk

/-- the sort key of `responsebundles_from_list_of_dicts` (and of the request loader): bundles are read
    back in non-decreasing (expiration, inception, id) order; Python compares `str` by code points -/
def loaderKeyLe (a b : Bundle) : Bool :=
  decide (a.expiration < b.expiration) ||
    (decide (a.expiration = b.expiration) &&
      (decide (a.inception < b.inception) || (decide (a.inception = b.inception) && !decide (b.id < a.id))))

/-- the bundles are already in the order the loader establishes (the signer emits them in the order of
    the request's bundles, which the request loader sorted the same way) -/
def bundlesSorted (bs : List Bundle) : Bool := (adjacent bs).all (fun p => loaderKeyLe p.1 p.2)

def writerDomain (r : Response) : Bool :=
  r.timestamp.isNone && attrTextOk r.id && attrTextOk r.domain && decide (0 ≤ r.serial)
    && printable r.serial
    && policyOk r.kskPolicy && policyOk r.zskPolicy && !r.bundles.isEmpty && r.bundles.all bundleOk
    && bundlesSorted r.bundles

/-- the decidable domain of `skr_to_xml` that C11 speaks of -/
def WriterDomain (r : Response) : Prop := writerDomain r = true

instance (r : Response) : Decidable (WriterDomain r) := by unfold WriterDomain; infer_instance

end Kskm
