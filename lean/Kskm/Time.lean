/-
  Kskm.Time — civil calendar arithmetic and the two timestamp codecs of /repo:

  * `parseDatetime`  = kskm/common/parse_utils.py:parse_datetime   (reader)
  * `formatDatetime` = kskm/skr/output.py:format_datetime          (writer)

  Instants are `Int` microseconds since 1970-01-01T00:00:00Z.

  ## parse_datetime

      while date.endswith("Z"): date = date[:-1]
      dt = datetime.fromisoformat(date)
      if dt.tzinfo and dt.tzinfo is not timezone.utc: raise ValueError
      return dt.replace(tzinfo=timezone.utc)

  `datetime.fromisoformat` is CPython 3.12's C implementation (Modules/_datetimemodule.c:
  `datetime_fromisoformat`, `_find_isoformat_datetime_separator`, `parse_isoformat_date`,
  `parse_isoformat_time`, `parse_hh_mm_ss_ff`, `tzinfo_from_isoformat_results`), transcribed
  statement by statement, reading a NUL-terminated buffer (`peek` of an exhausted list is NUL).

  Supported grammar (everything else that the model answers is a `ValueError`):
      text      := date | date SEP time            (at least 7 characters)
      date      := YYYY "-" MM "-" DD | YYYYMMDD | YYYY "-W" ww ["-" d] | YYYY "W" ww [d]   (week dates: Kskm.TimeWeek)
      SEP       := any single character (also a non-ASCII one)
      time      := hms [tz]                        (tz starts at the first "Z", "+" or "-" of `time`)
      hms       := HH [":" MM [":" SS [("."|","|":") f+ ]]] | HH [MM [SS [ ("."|",")? f+ ]]]
                   (fraction: the first ≤ 6 digits count, further digits are skipped; and all the
                    oddities of the C code, e.g. a dangling ":" / "." right before the offset is
                    accepted, text after an embedded NUL that follows the fraction is ignored)
      tz        := "Z" | ("+"|"-") hms
  Observed on CPython 3.12.1 and modelled: an offset whose whole seconds are zero ("+00:00",
  "-00:00", "+0000", "+00", "+00:00:00.5", "Z") yields the singleton `timezone.utc`, which passes
  the identity test; every other offset is a different `timezone` object or out of range: ValueError.
  A naive result is taken as UTC.  Field ranges as in `datetime.__new__` (year 1…9999, real
  calendar days, 0…23, 0…59, 0…59).

  Nothing is declined: ISO week dates and texts with a non-ASCII character anywhere but at the usual
  separator position go through `fromIsoGeneral`, the same transcription on the UTF-8 octets of the text
  (surrogates are not Lean `Char`s; the harness never sends them to the model).

  ## format_datetime

      dt.astimezone(timezone.utc).strftime("%Y-%m-%dT%H:%M:%S+00:00")

  glibc's `%Y` is the plain decimal year — NOT zero-padded below 1000 (finding F7); the other
  fields are two digits; microseconds are dropped.
-/
import Kskm.Data
import Kskm.TimeWeek
namespace Kskm

/-! ### civil ↔ day number (proleptic Gregorian; day 0 = 1970-01-01) -/

def isLeap (y : Int) : Bool := (y % 4 = 0 && y % 100 ≠ 0) || y % 400 = 0

def daysInMonth (y : Int) (m : Nat) : Nat :=
  if m = 2 then (if isLeap y then 29 else 28)
  else if m = 4 || m = 6 || m = 9 || m = 11 then 30
  else 31

structure Civil where
  year : Int
  month : Nat
  day : Nat
  deriving DecidableEq, Repr, Inhabited

/-- a real calendar date -/
def Civil.valid (c : Civil) : Bool :=
  decide (1 ≤ c.month) && decide (c.month ≤ 12) && decide (1 ≤ c.day) &&
    decide (c.day ≤ daysInMonth c.year c.month)

/-- days since 1970-01-01 of a civil date (years counted from March; 400-year eras) -/
def daysOfCivil (c : Civil) : Int :=
  let y : Int := if c.month ≤ 2 then c.year - 1 else c.year
  let era : Int := y / 400
  let yoe : Int := y % 400
  let mp : Int := if c.month ≤ 2 then (c.month : Int) + 9 else (c.month : Int) - 3
  let doy : Int := (153 * mp + 2) / 5 + (c.day : Int) - 1
  let doe : Int := yoe * 365 + yoe / 4 - yoe / 100 + doy
  era * 146097 + doe - 719468

/-- the civil date of a day number -/
def civilOfDays (z : Int) : Civil :=
  let z1 : Int := z + 719468
  let era : Int := z1 / 146097
  let doe : Int := z1 % 146097
  let yoe : Int := (doe - doe / 1460 + doe / 36524 - doe / 146096) / 365
  let doy : Int := doe - (365 * yoe + yoe / 4 - yoe / 100)
  let mp : Int := (5 * doy + 2) / 153
  let d : Int := doy - (153 * mp + 2) / 5 + 1
  let m : Int := if mp < 10 then mp + 3 else mp - 9
  let y : Int := yoe + era * 400
  { year := if m ≤ 2 then y + 1 else y, month := m.toNat, day := d.toNat }

/-! ### the writer -/

def digitChar (n : Nat) : Char := Nat.digitChar n

/-- `%m`, `%d`, `%H`, `%M`, `%S`: two digits -/
def pad2 (n : Nat) : List Char := [Nat.digitChar (n / 10 % 10), Nat.digitChar (n % 10)]

/-- glibc `%Y`: the decimal year without padding (a leading "-" below year 0 never arises:
    `datetime` has 1 ≤ year) -/
def yearStr (y : Int) : List Char :=
  if y < 0 then '-' :: Nat.toDigits 10 y.natAbs else Nat.toDigits 10 y.toNat

/-- seconds since the epoch, rounded down (the `datetime` fields of an instant; `%S` ignores µs) -/
def epochSeconds (t : Int) : Int := t / usPerSecond

/-- the civil (UTC) year of an instant -/
def yearOf (t : Int) : Int := (civilOfDays (epochSeconds t / 86400)).year

def formatDatetimeChars (t : Int) : List Char :=
  let s := epochSeconds t
  let c := civilOfDays (s / 86400)
  let sod : Nat := (s % 86400).toNat
  yearStr c.year ++ ['-'] ++ pad2 c.month ++ ['-'] ++ pad2 c.day ++ ['T'] ++ pad2 (sod / 3600) ++ [':']
    ++ pad2 (sod / 60 % 60) ++ [':'] ++ pad2 (sod % 60) ++ "+00:00".toList

/-- `format_datetime(dt)` for the aware instant `t` (µs); meaningful for years 1…9999 where a
    `datetime` exists. -/
def formatDatetime (t : Int) : String := String.ofList (formatDatetimeChars t)

/-! ### the reader: CPython 3.12 `datetime.fromisoformat`, C level -/

/-- `*p` of a NUL-terminated buffer -/
def peek (r : List Char) : Char := r.headD '\x00'

/-- `parse_digits(p, &var, n)` with `var` holding `acc`: exactly `n` ASCII digits -/
def parseDigitsN : Nat → List Char → Nat → Option (Nat × List Char)
  | 0, r, acc => some (acc, r)
  | _ + 1, [], _ => none
  | n + 1, c :: r, acc => if c.isDigit then parseDigitsN n r (acc * 10 + (c.toNat - 48)) else none

/-- result of `parse_hh_mm_ss_ff`: the fields parsed so far (`[h]`, `[h, m]` or `[h, m, s]`), the
    microseconds, and the return value 0 / 1 ("not at the end of the string") as a `Bool` -/
structure Hms where
  vals : List Nat
  us : Nat
  more : Bool
  deriving DecidableEq, Repr, Inhabited

/-- the fractional part of `parse_hh_mm_ss_ff`; `rem = p_end - p ≥ 1` whenever it is reached -/
def hmsFrac (r : List Char) (rem : Int) (vals : List Nat) : Option Hms :=
  let toParse : Nat := if 6 ≤ rem then 6 else rem.toNat
  match parseDigitsN toParse r 0 with
  | none => none
  | some (v, r') =>
    let us := v * 10 ^ (6 - toParse)
    let r'' := r'.dropWhile Char.isDigit
    some { vals, us, more := peek r'' ≠ '\x00' }

/-- the `for (i = 0; i < 3; ++i)` loop of `parse_hh_mm_ss_ff` with `k = 3 - i` rounds to go;
    `rem = p_end - p`. -/
def hmsLoop : Nat → List Char → Int → Bool → List Nat → Option Hms
  | 0, r, rem, _, vals => hmsFrac r rem vals
  | k + 1, r, rem, hasSep, vals =>
    match parseDigitsN 2 r 0 with
    | none => none
    | some (v, r1) =>
      let c := peek r1
      let r2 := r1.drop 1
      let hasSep' := if vals.isEmpty then c == ':' else hasSep
      let vals' := vals ++ [v]
      if rem - 3 ≤ 0 then some { vals := vals', us := 0, more := c ≠ '\x00' }
      else if hasSep' && c == ':' then hmsLoop k r2 (rem - 3) hasSep' vals'
      else if c == '.' || c == ',' then hmsFrac r2 (rem - 3) vals'
      else if !hasSep' then hmsLoop k r1 (rem - 2) hasSep' vals'
      else none

def parseHms (r : List Char) (len : Nat) : Option Hms := hmsLoop 3 r len false []

def isTzStart (c : Char) : Bool := c = 'Z' || c = '+' || c = '-'

structure TimeOfDay where
  hour : Nat
  minute : Nat
  second : Nat
  us : Nat
  /-- `none`: naive; `some b`: an offset was given and `b` says whether it is the UTC singleton -/
  tzUtc : Option Bool
  deriving DecidableEq, Repr, Inhabited

/-- `parse_isoformat_time` on the text after the separator (`none` = ValueError) -/
def parseIsoTime (r : List Char) : Option TimeOfDay :=
  if r.isEmpty then none
  else
    let pre := r.takeWhile (fun c => !isTzStart c)
    let k := pre.length
    match parseHms r k with
    | none => none
    | some t =>
      let h := t.vals.getD 0 0
      let mi := t.vals.getD 1 0
      let s := t.vals.getD 2 0
      match r.drop k with
      | [] => if t.more then none else some { hour := h, minute := mi, second := s, us := t.us, tzUtc := none }
      | tzc :: after =>
        if tzc = 'Z' then
          if peek after ≠ '\x00' then none
          else some { hour := h, minute := mi, second := s, us := t.us, tzUtc := some true }
        else
          match parseHms after after.length with
          | none => none
          | some z =>
            if z.more then none
            else
              let off := z.vals.getD 0 0 * 3600 + z.vals.getD 1 0 * 60 + z.vals.getD 2 0
              some { hour := h, minute := mi, second := s, us := t.us, tzUtc := some (off == 0) }

/-! ### the general path: UTF-8 octets and ISO week dates (`Kskm.TimeWeek`)

  `fromIsoGeneral` transcribes `datetime_fromisoformat` once more, this time on the UTF-8 octets of the
  text (one `Char` below 256 per octet) and with the week-date branch of `parse_isoformat_date`.
  `fromIsoChars` below hands over to it at the two places where the character-level transcription does
  not apply: a non-ASCII character outside the usual separator position, and a `W` after the year. -/

/-- `iso_to_ymd`: the civil date of ISO (year, week, day); `none` for an invalid week or day.  The year
    of the result may be 0 or 10000 (rejected by the range check of the caller). -/
def isoToCivil (year : Int) (week day : Nat) : Option Civil :=
  (isoWeekDayNumber (daysOfCivil { year := year, month := 1, day := 1 }) (isLeap year) week day).map civilOfDays

/-- `parse_isoformat_date(dtstr, len, …)` (`len` = separator location), week dates included; the month/day
    of an ordinary date are returned unchecked -/
def parseIsoDateG (s : List Char) (len : Nat) : Option Civil :=
  match parseDigitsN 4 s 0 with
  | none => none
  | some (year, r0) =>
    let (sep, r1) : Bool × List Char :=
      match r0 with
      | '-' :: t => (true, t)
      | _ => (false, r0)
    if peek r1 = 'W' then
      match parseDigitsN 2 (r1.drop 1) 0 with
      | none => none
      | some (week, r3) =>
        if s.length - r3.length < len then
          if sep && peek r3 ≠ '-' then none
          else
            match parseDigitsN 1 (if sep then r3.drop 1 else r3) 0 with
            | none => none
            | some (day, _) => isoToCivil year week day
        else isoToCivil year week 1
    else
      match parseDigitsN 2 r1 0 with
      | none => none
      | some (month, r2) =>
        if sep && peek r2 ≠ '-' then none
        else
          match parseDigitsN 2 (if sep then r2.drop 1 else r2) 0 with
          | none => none
          | some (day, _) => some { year := year, month := month, day := day }

/-- `datetime.fromisoformat(s)` + the UTC test of `parse_datetime`, on the UTF-8 octets of `cs`
    (`cs.length ≥ 7` has been checked by the caller) -/
def fromIsoGeneral (cs : List Char) : Res Int :=
  let s := utf8OfChars cs
  match findIsoSeparator s with
  | none => err .value
  | some sepLoc =>
    match parseIsoDateG s sepLoc with
    | none => err .value
    | some c =>
      let tod : Option TimeOfDay :=
        if s.length > sepLoc then
          let p := s.drop sepLoc
          parseIsoTime (p.drop (sepWidth (peek p)))
        else some { hour := 0, minute := 0, second := 0, us := 0, tzUtc := none }
      match tod with
      | none => err .value
      | some t =>
        if !(decide (1 ≤ c.year) && decide (c.year ≤ 9999) && c.valid && decide (t.hour ≤ 23)
              && decide (t.minute ≤ 59) && decide (t.second ≤ 59)) then err .value
        else if t.tzUtc = some false then err .value
        else
          pure (daysOfCivil c * usPerDay
            + ((t.hour * 3600 + t.minute * 60 + t.second : Nat) : Int) * usPerSecond + (t.us : Int))

/-- `datetime.fromisoformat(s)` followed by the UTC test of `parse_datetime`, on characters -/
def fromIsoChars (cs : List Char) : Res Int :=
  if cs.length < 7 then err .value
  else
    let sepLoc : Nat := if cs.getD 4 '\x00' = '-' then 10 else 8
    -- the C code works on UTF-8 octets: only the separator may be a multi-octet character
    if (cs.zipIdx.any fun (c, i) => decide (128 ≤ c.toNat) && i != sepLoc) then fromIsoGeneral cs
    else
      match parseDigitsN 4 cs 0 with
      | none => err .value
      | some (year, r0) =>
        let (sep, r1) : Bool × List Char :=
          match r0 with
          | '-' :: t => (true, t)
          | _ => (false, r0)
        if peek r1 = 'W' then fromIsoGeneral cs    -- ISO week date
        else
          match parseDigitsN 2 r1 0 with
          | none => err .value
          | some (month, r2) =>
            if sep && peek r2 ≠ '-' then err .value
            else
              let r3 := if sep then r2.drop 1 else r2
              match parseDigitsN 2 r3 0 with
              | none => err .value
              | some (day, r4) =>
                let tod : Option TimeOfDay :=
                  match r4 with
                  | [] => some { hour := 0, minute := 0, second := 0, us := 0, tzUtc := none }
                  | _ :: timeStr => parseIsoTime timeStr
                match tod with
                | none => err .value
                | some t =>
                  let c : Civil := { year := year, month := month, day := day }
                  if !(decide (1 ≤ year) && c.valid && decide (t.hour ≤ 23) && decide (t.minute ≤ 59)
                        && decide (t.second ≤ 59)) then err .value
                  else if t.tzUtc = some false then err .value     -- "Timestamps MUST be UTC"
                  else
                    pure (daysOfCivil c * usPerDay
                      + ((t.hour * 3600 + t.minute * 60 + t.second : Nat) : Int) * usPerSecond + (t.us : Int))

/-- `while date.endswith("Z"): date = date[:-1]` -/
def stripTrailingZ (cs : List Char) : List Char := (cs.reverse.dropWhile (· = 'Z')).reverse

def parseDatetimeChars (cs : List Char) : Res Int := fromIsoChars (stripTrailingZ cs)

/-- `parse_datetime(s)` as microseconds since the epoch -/
def parseDatetime (s : String) : Res Int := parseDatetimeChars s.toList

end Kskm
