/-
  Kskm.ConfigSchema — the vocabulary shared by the configuration model (Kskm/Config.lean) and the
  schema tables regenerated from /repo (KskmGen/Tables.lean, section `config_schema`):

  * `CVal`  — a YAML / Python value tree (what `yaml.safe_load` hands to `KSKMConfig.from_dict`, and
              also the canonical form of what the loader returns);
  * `Scalar`, `STy`, `Field`, `ObjSchema` — the JSON-schema subset pydantic emits for the
              configuration models (`model_json_schema()`), plus the things the JSON schema
              does not say (strict models, int-keyed mappings, `mode="before"` and `mode="after"`
              field validators).

  Kept apart from Config.lean so that the generated tables can import it without a cycle.
-/
import Kskm.Basic
namespace Kskm

/-- A configuration value tree.
    * `float`: floats only need to be recognised — `trunc` is `int(f)` when `f` is finite,
      `integral` says whether `f == int(f)`;
    * `td` is a `datetime.timedelta` (µs) — produced by `_transform_config`, never by YAML;
    * `ts` is a `datetime.datetime` (`us` = the instant in µs since the epoch, a naive value read as
      if UTC; `offset` = `utcoffset()` in seconds when aware) and `date` a `datetime.date` (days since
      the epoch) — YAML timestamps;
    * `map` keeps insertion order; keys are arbitrary values (YAML allows `1:`). -/
inductive CVal where
  | null
  | bool (b : Bool)
  | int (i : Int)
  | float (trunc : Option Int) (integral : Bool)
  | str (s : String)
  | td (us : Int)
  | ts (us : Int) (offset : Option Int)
  | date (days : Int)
  | list (xs : List CVal)
  | map (kvs : List (CVal × CVal))
  deriving Repr, Inhabited

namespace CVal
def getInt? : CVal → Option Int | .int i => some i | _ => none
def getBool? : CVal → Option Bool | .bool b => some b | _ => none
def getStr? : CVal → Option String | .str s => some s | _ => none
def getTd? : CVal → Option Int | .td u => some u | _ => none
def getList? : CVal → Option (List CVal) | .list l => some l | _ => none
def getMap? : CVal → Option (List (CVal × CVal)) | .map l => some l | _ => none
def isNull : CVal → Bool | .null => true | _ => false

/-- `d[name]` for a string key -/
def lookupStr : List (CVal × CVal) → String → Option CVal
  | [], _ => none
  | (.str k, v) :: r, name => if k = name then some v else lookupStr r name
  | _ :: r, name => lookupStr r name

def get? (v : CVal) (name : String) : Option CVal :=
  match v with
  | .map kvs => lookupStr kvs name
  | _ => none

def getIntList? (v : CVal) : Option (List Int) :=
  match v with
  | .list l => l.mapM getInt?
  | _ => none

def getStrList? (v : CVal) : Option (List String) :=
  match v with
  | .list l => l.mapM getStr?
  | _ => none
end CVal

/-- One alternative of a (possibly one-element) scalar union. -/
inductive Scalar where
  | null
  | bool
  /-- `minimum`, `maximum`, `exclusiveMinimum` of the JSON schema (`ge`, `le`, `gt`) -/
  | int (ge le gt : Option Int)
  | str (pattern : Option String)
  | duration          -- "format": "duration"
  | datetime          -- "format": "date-time"
  | filePath          -- "format": "file-path"   (must exist and be a file)
  | path              -- "format": "path"
  /-- `AlgorithmDNSSEC` behind the `algorithm_by_name` before-validator: looked up by NAME -/
  | algByName
  /-- an enum with no before-validator: only members (never a tree value) are accepted -/
  | enumMember
  deriving DecidableEq, Repr, Inhabited

inductive STy where
  | scalar (alts : List Scalar)
  | anyMap                              -- "additionalProperties": true  (the HSM `env` map)
  | list (item : STy)
  | set (item : STy)                    -- "uniqueItems": true
  | mapOf (intKeys : Bool) (val : STy)  -- Mapping[str | int, …]
  | model (name : String)               -- "$ref"
  deriving DecidableEq, Repr, Inhabited

structure Field where
  name : String
  ty : STy
  required : Bool
  /-- the default as loaded (canonical form), `none` for a required field -/
  default : Option CVal := none
  /-- the `turn_into_list` before-validator applies: a bare string becomes a one-element list -/
  strToList : Bool := false
  /-- the `validity_without_timezone_is_utc` after-validator applies: a validated `datetime` without
      time zone is loaded as the same wall-clock time in UTC (`ts us none` ↦ `ts us (some 0)`: `us`
      already reads a naive value as if UTC); aware values and `None` are left as they are.
      The table generator sets the flag only after PROBING the validator function by execution. -/
  naiveIsUtc : Bool := false
  deriving Repr, Inhabited

structure ObjSchema where
  name : String
  /-- `additionalProperties` of the JSON schema: `false` = `extra="forbid"` -/
  additionalProperties : Bool
  /-- `model_config["strict"]` -/
  strict : Bool
  fields : List Field
  deriving Repr, Inhabited

def ObjSchema.fieldNames (s : ObjSchema) : List String := s.fields.map (·.name)

def findSchema (tbl : List ObjSchema) (name : String) : Option ObjSchema :=
  tbl.find? (fun s => s.name == name)

def ObjSchema.field? (s : ObjSchema) (name : String) : Option Field :=
  s.fields.find? (fun f => f.name == name)

/-- the loaded default of `model.field` according to a schema table -/
def schemaDefault (tbl : List ObjSchema) (model field : String) : Option CVal := do
  let s ← findSchema tbl model
  let f ← s.field? field
  f.default

def schemaFieldTy (tbl : List ObjSchema) (model field : String) : Option STy := do
  let s ← findSchema tbl model
  let f ← s.field? field
  pure f.ty

/-- the field validators of `model.field` according to a schema table: (`strToList`, `naiveIsUtc`) -/
def schemaFieldValidators (tbl : List ObjSchema) (model field : String) : Option (Bool × Bool) := do
  let s ← findSchema tbl model
  let f ← s.field? field
  pure (f.strToList, f.naiveIsUtc)

end Kskm
