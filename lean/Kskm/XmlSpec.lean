/-
  Kskm.XmlSpec — a grammar-level reading of plain XML documents: `stdRead : List Char → R XmlTree`.

  SPECIFICATION side (used by C18): written from the productions of XML 1.0 (Fifth Edition), NOT from any
  writer or reader of the repository.  Nothing here mentions the trust-anchor document.

      [1]  document   ::= prolog element Misc*
      [22] prolog     ::= XMLDecl? Misc*                (Misc: white space only in this subset)
      [23] XMLDecl    ::= '<?xml' VersionInfo EncodingDecl? SDDecl? S? '?>'
      [39] element    ::= EmptyElemTag | STag content ETag     WFC: Element Type Match
      [40] STag       ::= '<' Name (S Attribute)* S? '>'        WFC: Unique Att Spec
      [41] Attribute  ::= Name Eq AttValue
      [10] AttValue   ::= '"' ([^<&"] | Reference)* '"'         WFC: No < in Attribute Values
      [42] ETag       ::= '</' Name S? '>'
      [43] content    ::= CharData? (element CharData?)*
      [14] CharData   ::= [^<&]* - ([^<&]* ']]>' [^<&]*)
      [2]  Char       ::= #x9 | #xA | #xD | [#x20-#xD7FF] | [#xE000-#xFFFD] | [#x10000-#x10FFFF]
      [3]  S          ::= (#x20 | #x9 | #xD | #xA)+
      [4]  NameStartChar / [4a] NameChar: the ASCII part, `:` excluded
      §2.11  line ends:  #xD #xA and a lone #xD are read as #xA
      §3.3.3 attribute-value normalisation (CDATA): white space characters are read as #x20

  The SUBSET: double-quoted attributes, no references (`&…;`), no comments / processing instructions /
  CDATA sections / DOCTYPE, ASCII names without `:` (no namespaces), declaration `version="1.0"` with optional `encoding="UTF-8"`.
  Three answers: a tree; `malformed` — the text is not well-formed XML 1.0 (every such verdict is one
  that the full grammar gives too); `outside` — the text leaves the subset, no verdict.

  Two stages, as in the grammar: tokens (tags and character data, `tokens`), then the element structure
  (`build`: a stack of open elements; an end tag must name the innermost open element).
-/
namespace Kskm.XmlSpec

inductive Bad where
  | malformed
  | outside
  deriving DecidableEq, Repr, Inhabited

abbrev R := Except Bad

abbrev Attrs := List (List Char × List Char)

/-- the document's meaning: text and elements -/
inductive XmlTree where
  | text (s : List Char)
  | elem (name : List Char) (attrs : Attrs) (children : List XmlTree)
  deriving Repr, Inhabited

inductive Token where
  | stag (name : List Char) (attrs : Attrs)
  | etag (name : List Char)
  | empty (name : List Char) (attrs : Attrs)
  | chars (s : List Char)
  deriving Repr, Inhabited, DecidableEq

/-! ### character classes -/

/-- [2] Char -/
def isXmlChar (c : Char) : Bool :=
  c == '\t' || c == '\n' || c == '\r' || (decide (0x20 ≤ c.toNat) && decide (c.toNat ≤ 0xD7FF))
    || (decide (0xE000 ≤ c.toNat) && decide (c.toNat ≤ 0xFFFD)) || decide (0x10000 ≤ c.toNat)

/-- [3] S -/
def isS (c : Char) : Bool := c == ' ' || c == '\t' || c == '\r' || c == '\n'

/-- [4] NameStartChar, ASCII part, without `:` (qualified names — namespaces — are outside the subset) -/
def isNameStart (c : Char) : Bool :=
  (decide ('a'.toNat ≤ c.toNat) && decide (c.toNat ≤ 'z'.toNat)) ||
  (decide ('A'.toNat ≤ c.toNat) && decide (c.toNat ≤ 'Z'.toNat)) || c == '_'

/-- [4a] NameChar, ASCII part -/
def isNameChar (c : Char) : Bool :=
  isNameStart c || (decide ('0'.toNat ≤ c.toNat) && decide (c.toNat ≤ '9'.toNat)) || c == '-' || c == '.'

/-- names with characters beyond ASCII, and qualified names (`:`), are outside the subset -/
def nonAscii (c : Char) : Bool := decide (128 ≤ c.toNat) || c == ':' 

def skipS : List Char → List Char
  | [] => []
  | c :: r => if isS c then skipS r else c :: r

/-! ### names, attribute values, character data -/

/-- the longest run of name characters -/
def nameRest : List Char → List Char × List Char
  | [] => ([], [])
  | c :: r => if isNameChar c then (c :: (nameRest r).1, (nameRest r).2) else ([], c :: r)

/-- [5] Name -/
def readName : List Char → R (List Char × List Char)
  | [] => throw .malformed
  | c :: r =>
    if isNameStart c then
      match (nameRest r).2 with
      | [] => pure (c :: (nameRest r).1, [])
      | d :: t => if nonAscii d then throw .outside else pure (c :: (nameRest r).1, d :: t)
    else if nonAscii c then throw .outside
    else throw .malformed

/-- [10] AttValue after its opening `"`, normalised (§3.3.3, §2.11) -/
def attValue : List Char → R (List Char × List Char)
  | [] => throw .malformed
  | c :: r =>
    if c = '"' then pure ([], r)
    else if c = '<' then throw .malformed
    else if c = '&' then throw .outside
    else if isXmlChar c = false then throw .malformed
    else if c = '\r' ∧ r.head? = some '\n' then attValue r
    else do
      let p ← attValue r
      pure ((if isS c then ' ' else c) :: p.1, p.2)

/-- [14] CharData up to the next `<` (or the end), line ends normalised (§2.11) -/
def charData : List Char → R (List Char × List Char)
  | [] => pure ([], [])
  | c :: r =>
    if c = '<' then pure ([], c :: r)
    else if c = '&' then throw .outside
    else if isXmlChar c = false then throw .malformed
    else if c = '\r' ∧ r.head? = some '\n' then charData r
    else do
      let p ← charData r
      pure ((if c = '\r' then '\n' else c) :: p.1, p.2)

/-- does `]]>` occur -/
def hasCdEnd : List Char → Bool
  | [] => false
  | c :: r => (c == ']' && (r.take 2 == [']', '>'])) || hasCdEnd r

/-- `(S Attribute)* S? ('>' | '/>')` of [40] / [44]; the flag says "empty-element tag" -/
def attrsLoop : Nat → List Char → Attrs → R (Attrs × Bool × List Char)
  | 0, _, _ => throw .malformed
  | fuel + 1, r, acc =>
    match skipS r with
    | [] => throw .malformed
    | c :: t =>
      if c = '>' then pure (acc, false, t)
      else if c = '/' then
        (match t with
         | [] => throw .malformed
         | d :: u => if d = '>' then pure (acc, true, u) else throw .malformed)
      else if (skipS r).length = r.length then throw .malformed      -- an attribute needs S in front
      else do
        let (n, r2) ← readName (c :: t)
        match skipS r2 with                                           -- [25] Eq ::= S? '=' S?
        | [] => throw .malformed
        | e :: r3 =>
          if e ≠ '=' then throw .malformed else
          match skipS r3 with
          | [] => throw .malformed
          | q :: r4 =>
            if q = '\'' then throw .outside
            else if q ≠ '"' then throw .malformed
            else do
              let (v, r5) ← attValue r4
              if acc.any (fun p => p.1 == n) then throw .malformed     -- WFC: Unique Att Spec
              else attrsLoop fuel r5 (acc ++ [(n, v)])

/-- one tag, or one maximal run of character data -/
def nextToken : List Char → R (Token × List Char)
  | [] => throw .malformed
  | c :: r =>
    if c = '<' then
      match r with
      | [] => throw .malformed
      | d :: t =>
        if d = '/' then do                                          -- [42] ETag
          let (n, r1) ← readName t
          match skipS r1 with
          | [] => throw .malformed
          | g :: u => if g = '>' then pure (.etag n, u) else throw .malformed
        else if d = '!' ∨ d = '?' then throw .outside                -- comment, CDATA, DOCTYPE, PI
        else do                                                      -- [40] STag / [44] EmptyElemTag
          let (n, r1) ← readName (d :: t)
          let (a, selfClosing, r2) ← attrsLoop (r1.length + 1) r1 []
          pure (if selfClosing then .empty n a else .stag n a, r2)
    else do
      let (s, r1) ← charData (c :: r)
      if hasCdEnd s then throw .malformed else pure (.chars s, r1)

def tokens : Nat → List Char → R (List Token)
  | 0, _ => throw .malformed
  | _ + 1, [] => pure []
  | fuel + 1, c :: r => do
    let (t, rest) ← nextToken (c :: r)
    let ts ← tokens fuel rest
    pure (t :: ts)

/-! ### element structure -/

/-- an open element: name, attributes, the children read so far (latest first) -/
structure Frame where
  name : List Char
  attrs : Attrs
  kids : List XmlTree

/-- a finished element goes to the innermost open element, or becomes the root -/
def addChild (t : XmlTree) : List Frame → Option XmlTree → R (List Frame × Option XmlTree)
  | [], none => pure ([], some t)
  | [], some _ => throw .malformed                                   -- [1]: one root element
  | f :: fs, root => pure ({ f with kids := t :: f.kids } :: fs, root)

def build : List Token → List Frame → Option XmlTree → R XmlTree
  | [], [], some t => pure t
  | [], _, _ => throw .malformed                                     -- no root / unclosed elements
  | .chars s :: ts, [], root => if s.all isS then build ts [] root else throw .malformed   -- [27] Misc
  | .chars s :: ts, f :: fs, root => build ts ({ f with kids := .text s :: f.kids } :: fs) root
  | .stag n a :: ts, fs, root =>
    if fs.isEmpty ∧ root.isSome then throw .malformed else build ts ({ name := n, attrs := a, kids := [] } :: fs) root
  | .empty n a :: ts, fs, root => do
    let (fs', root') ← addChild (.elem n a []) fs root
    build ts fs' root'
  | .etag _ :: _, [], _ => throw .malformed
  | .etag n :: ts, f :: fs, root =>
    if f.name = n then do                                            -- WFC: Element Type Match
      let (fs', root') ← addChild (.elem f.name f.attrs f.kids.reverse) fs root
      build ts fs' root'
    else throw .malformed

/-! ### the declaration -/

/-- `lit` is a prefix: what follows it -/
def expect : List Char → List Char → Option (List Char)
  | [], s => some s
  | _ :: _, [] => none
  | c :: l, d :: s => if c = d then expect l s else none

def lower (c : Char) : Char := if 'A'.toNat ≤ c.toNat ∧ c.toNat ≤ 'Z'.toNat then Char.ofNat (c.toNat + 32) else c

/-- [23] XMLDecl, optional.  Returns the text after it.  Single quotes, other versions, other encodings,
    a standalone declaration: outside the subset. -/
def xmlDecl (s : List Char) : R (List Char) :=
  match expect ['<', '?', 'x', 'm', 'l'] s with
  | none => pure s
  | some r0 =>
    if (skipS r0).length = r0.length then throw .outside else      -- `<?xml-stylesheet`, `<?xmlfoo`: a PI
    match expect ['v', 'e', 'r', 's', 'i', 'o', 'n'] (skipS r0) with
    | none => throw .malformed
    | some r1 =>
      match expect ['='] (skipS r1) with
      | none => throw .malformed
      | some r2 =>
        match expect ['"', '1', '.', '0', '"'] (skipS r2) with
        | none => throw .outside
        | some r3 =>
          match expect ['?', '>'] (skipS r3) with
          | some r => pure r
          | none =>
            if (skipS r3).length = r3.length then throw .malformed else
            match expect ['e', 'n', 'c', 'o', 'd', 'i', 'n', 'g'] (skipS r3) with
            | none => throw .outside
            | some r4 =>
              match expect ['='] (skipS r4) with
              | none => throw .malformed
              | some r5 =>
                match skipS r5 with
                | '"' :: a :: b :: c :: d :: e :: '"' :: r6 =>
                  if [lower a, lower b, lower c, d, e] = ['u', 't', 'f', '-', '8'] then
                    match expect ['?', '>'] (skipS r6) with
                    | some r => pure r
                    | none => throw .outside
                  else throw .outside
                | _ => throw .outside

/-- [1] document -/
def stdRead (s : List Char) : R XmlTree := do
  let r0 ← xmlDecl s
  let r1 := skipS r0
  let toks ← tokens (r1.length + 1) r1
  build toks [] none

/-! ### the textbook serialisation (what a tree looks like as text; used to STATE theorems) -/

def attrsText : Attrs → List Char
  | [] => []
  | p :: r => ' ' :: (p.1 ++ '=' :: '"' :: (p.2 ++ '"' :: attrsText r))

def tokText : Token → List Char
  | .stag n a => '<' :: (n ++ (attrsText a ++ ['>']))
  | .etag n => '<' :: '/' :: (n ++ ['>'])
  | .empty n a => '<' :: (n ++ (attrsText a ++ ['/', '>']))
  | .chars s => s

def flatText : List Token → List Char
  | [] => []
  | t :: ts => tokText t ++ flatText ts

mutual
def renderS : XmlTree → List Char
  | .text s => s
  | .elem n a cs => '<' :: (n ++ (attrsText a ++ ['>'])) ++ renderL cs ++ ('<' :: '/' :: (n ++ ['>']))
def renderL : List XmlTree → List Char
  | [] => []
  | c :: cs => renderS c ++ renderL cs
end

mutual
def toksT : XmlTree → List Token
  | .text s => [.chars s]
  | .elem n a cs => .stag n a :: (toksL cs ++ [.etag n])
def toksL : List XmlTree → List Token
  | [] => []
  | c :: cs => toksT c ++ toksL cs
end

end Kskm.XmlSpec
