/-
  Kskm.Hsm — kskm/misc/hsm.py: module initialisation, sessions, lookup by label, attribute → public
  key conversion, signing input and mechanism selection.

  The token is a PARAMETER: an oracle `Token` that answers every PyKCS11-level operation, indexed by
  the running count of operations.  A healthy device, a device with an arbitrary fault plan, a
  device holding foreign keys — all are just oracles, so theorems quantified over `Token` cover every
  fault position and kind at once.  All token-facing functions run in `TokM`, which appends every
  operation and its answer to a log; properties such as "no private-key operation" or "the octets
  handed to the token" are properties of that log.
-/
import Kskm.Signature
import KskmGen.Tables
namespace Kskm

/-! ### PKCS#11 constants used by /repo (pinned against the regenerated table in the proofs) -/
def ckoPublic : Nat := 2
def ckoPrivate : Nat := 3
def ckoSecret : Nat := 4
def ckkRsa : Nat := 0
def ckkEc : Nat := 3
def ckkAes : Nat := 31
def ckkDes3 : Nat := 21
def ckmRsaX509 : Nat := 3
def ckmSha1RsaPkcs : Nat := 6
def ckmSha256RsaPkcs : Nat := 64
def ckmSha512RsaPkcs : Nat := 66
def ckmEcdsa : Nat := 4161
def ckmEcdsaSha256 : Nat := 4164
def ckmEcdsaSha384 : Nat := 4165
def ckmEddsa : Nat := 4183
def ckuSo : Nat := 0
def ckuUser : Nat := 1
def ckfRwSession : Nat := 2

/-! ### Operations and answers -/

inductive TmplVal where
  | str (s : String) | num (n : Nat)
  deriving DecidableEq, Repr, Inhabited

inductive TokOp where
  | load (module : String)
  | initialize (module : String)
  | getSlotList (module : String)
  | openSession (module : String) (slot : Nat) (flags : Nat)
  | login (module : String) (slot : Nat) (pin : String) (userType : Nat)
  | getTokenInfo (module : String) (slot : Nat)
  | findObjects (module : String) (slot : Nat) (template : List (String × TmplVal))
  | getAttr (module : String) (slot : Nat) (handle : Nat) (attrs : List String)
  | sign (module : String) (slot : Nat) (handle : Nat) (mechanism : Nat) (data : Bytes)
  | generateKeyPair (module : String) (slot : Nat) (label : String) (bits : Option Nat)
      (exponent : Option Bytes) (privLabel : String)
  | destroyObject (module : String) (slot : Nat) (handle : Nat)
  | closeAllSessions (module : String) (slot : Nat)
  deriving DecidableEq, Repr, Inhabited

inductive AttrAns where
  | none | num (n : Nat) | bytes (b : Bytes) | str (s : String)
  deriving DecidableEq, Repr, Inhabited

inductive TokAns where
  | ok
  | error                         -- PyKCS11Error
  | slots (l : List Nat)
  | handles (l : List Nat)
  | attrs (l : List AttrAns)
  | sig (b : Bytes)
  | pair (a b : Nat)
  | other                         -- an answer of the wrong shape for the question (oracle misuse)
  deriving DecidableEq, Repr, Inhabited

/-- The token (and PyKCS11 under it): n-th operation, what is asked ↦ what is answered. -/
abbrev Token := Nat → TokOp → TokAns

structure TokState where
  count : Nat := 0
  log : List (TokOp × TokAns) := []     -- newest first
  deriving Repr, Inhabited

/-- Effectful computations against a token: the state (operation log) survives failures. -/
abbrev TokM (α : Type) := Token → TokState → (Res α × TokState)

instance : Monad TokM where
  pure a := fun _ s => (.ok a, s)
  bind m f := fun t s =>
    match m t s with
    | (.ok a, s') => f a t s'
    | (.error e, s') => (.error e, s')

def TokM.fail {α} (f : Fail) : TokM α := fun _ s => (.error f, s)
def TokM.err {α} (k : ErrKind) : TokM α := TokM.fail (.error k)
def TokM.lift {α} (r : Res α) : TokM α := fun _ s => (r, s)

/-- Issue one operation: the oracle answers, the pair is logged. -/
def ask (op : TokOp) : TokM TokAns := fun t s =>
  let a := t s.count op
  (.ok a, { count := s.count + 1, log := (op, a) :: s.log })

/-- `try: … except PyKCS11Error` is modelled at the call sites that have it; everywhere else a
    PyKCS11Error answer propagates as `error p11`. -/
def askOk (op : TokOp) : TokM TokAns := do
  let a ← ask op
  match a with
  | .error => TokM.err .p11
  | a => pure a

/-! ### Module state (`KSKM_P11Module`) -/

structure P11Module where
  label : String
  path : String
  soLogin : Bool := false
  rwSession : Bool := false
  pin : Option String := none
  soPin : Option String := none
  /-- `_slots` after failed slots have been dropped -/
  slots : List Nat := []
  /-- `_sessions` keys in insertion order -/
  sessions : List Nat := []
  deriving DecidableEq, Repr, Inhabited

/-- The `sessions` property: when no session is cached, try every slot of `_slots`; a slot whose
    open or login raises PyKCS11Error is dropped from `_slots`. -/
def openSessions (m : P11Module) : List Nat → P11Module → TokM P11Module
  | [], acc => pure acc
  | slot :: rest, acc => do
    let flags := if m.rwSession then ckfRwSession else 0
    let o ← ask (.openSession m.path slot flags)
    match o with
    | .error => openSessions m rest { acc with slots := acc.slots.filter (· != slot) }
    | _ =>
      let pin := if m.soLogin then m.soPin else m.pin
      match pin with
      | none => openSessions m rest { acc with sessions := acc.sessions ++ [slot] }
      | some p =>
        let l ← ask (.login m.path slot p (if m.soLogin then ckuSo else ckuUser))
        match l with
        | .error => openSessions m rest { acc with slots := acc.slots.filter (· != slot) }
        | _ => openSessions m rest { acc with sessions := acc.sessions ++ [slot] }

def P11Module.getSessions (m : P11Module) : TokM P11Module :=
  if m.sessions.isEmpty then openSessions m m.slots m else pure m

/-- `KSKM_P11Module.__init__` after the environment handling: load, initialise, PINs (a missing PIN is
    asked for with `getpass`; the answer is the parameter `typedPin`), slot list, `show_information`. -/
def P11Module.init (label path : String) (pin soPin : Option String) (soLogin rw : Bool)
    (typedPin : String) : TokM P11Module := do
  let _ ← askOk (.load path)
  let _ ← askOk (.initialize path)
  let pin' := match pin with
    | none => if !soLogin then some typedPin else none
    | some p => some p
  let soPin' := match soPin with
    | none => if soLogin then some typedPin else none
    | some p => some p
  let sl ← askOk (.getSlotList path)
  let slots ← match sl with
    | .slots l => pure l
    | _ => TokM.fail .unsupported
  let m : P11Module := { label, path, soLogin, rwSession := rw, pin := pin', soPin := soPin', slots }
  if slots.isEmpty then pure m else do
    let m ← m.getSessions
    match m.slots with
    | [] => TokM.err .index               -- `self._slots[0]` after every slot was dropped
    | s0 :: _ =>
      let _ ← askOk (.getTokenInfo path s0)
      pure m

/-! ### Keys found on the token -/

inductive KeyType where
  | rsa | ec | aes | des3
  deriving DecidableEq, Repr, Inhabited

def keyTypeOf (n : Nat) : Option KeyType :=
  if n = ckkRsa then some .rsa else if n = ckkEc then some .ec
  else if n = ckkAes then some .aes else if n = ckkDes3 then some .des3 else none

structure P11Key where
  label : String
  keyType : KeyType
  keyClass : Nat
  hashUsingHsm : Option Bool := none
  publicKey : Option String := none
  module : String
  slot : Nat
  privHandle : Option Nat := none
  pubHandle : Option Nat := none
  deriving DecidableEq, Repr, Inhabited

def ecOidP256 : Bytes := [0x06, 0x08, 0x2a, 0x86, 0x48, 0xce, 0x3d, 0x03, 0x01, 0x07]
def ecOidP384 : Bytes := [0x06, 0x05, 0x2b, 0x81, 0x04, 0x00, 0x22]

def attr1 (a : TokAns) : TokM AttrAns :=
  match a with
  | .attrs [x] => pure x
  | _ => TokM.fail .unsupported

/-- `bytes(x)` on an attribute value: `None` is a TypeError. -/
def attrBytes (a : AttrAns) : TokM Bytes :=
  match a with
  | .bytes b => pure b
  | .none => TokM.err .type
  | _ => TokM.fail .unsupported

/-- The unwrap rule of `_p11_object_to_public_key` on the octets of CKA_EC_POINT (SoftHSM2 wraps the point
    in a DER OCTET STRING `04 <len> 04 …`), for both behaviours of the code:
    * `checksLength = false` (pinned tree, finding F24): `if ec_point.startswith(bytes([4, len(ec_point) - 2, 4]))`
      — a BARE 65- / 97-octet point whose X starts `3f 04` / `5f 04` loses two octets;
    * `checksLength = true` (repaired): `… and len(ec_point) - 2 in (65, 97)` — only a string whose remainder
      has the length of an uncompressed P-256 / P-384 point is unwrapped.
    (Called with `2 ≤ point.length < 258` only: `bytes([4, len - 2, 4])` raises ValueError outside.) -/
def ecUnwrapWith (checksLength : Bool) (point : Bytes) : Bytes :=
  if point.take 3 = [4, UInt8.ofNat (point.length - 2), 4] ∧
      (checksLength = false ∨ point.length - 2 = 65 ∨ point.length - 2 = 97) then point.drop 2
  else point

/-- the unwrap rule of the tree in /repo now: the switch is tabulated from the code by execution on every run
    (`KskmGen.ecUnwrapChecksLength`, harness/extract_tables.py `hsm_tables`) -/
def ecUnwrap (point : Bytes) : Bytes := ecUnwrapWith KskmGen.ecUnwrapChecksLength point

/-- `_p11_object_to_public_key(session, handle)`: the derived public key text, `none` when an EC
    object has no readable point. -/
def p11ObjectToPublicKey (path : String) (slot handle : Nat) : TokM (Option String) := do
  let kt ← attr1 (← askOk (.getAttr path slot handle ["KEY_TYPE"]))
  match kt with
  | .num n =>
    if n = ckkRsa then do
      let modulus ← attr1 (← askOk (.getAttr path slot handle ["MODULUS"]))
      let exp ← attr1 (← askOk (.getAttr path slot handle ["PUBLIC_EXPONENT"]))
      let e ← attrBytes exp
      let n ← attrBytes modulus
      let txt ← TokM.lift (rsaEncode (beNat e) n)
      pure (some txt)
    else if n = ckkEc then do
      let pt ← attr1 (← askOk (.getAttr path slot handle ["EC_POINT"]))
      match pt with
      | .none => pure none
      | .bytes [] => pure none
      | .bytes point =>
        -- `bytes([4, len(ec_point) - 2, 4])` raises ValueError outside 0..255
        if point.length < 2 ∨ 258 ≤ point.length then TokM.err .value else
        -- SoftHSM2 wraps the point in a DER OCTET STRING: 0x04 <len> 0x04 … (`ecUnwrap`: the tree's rule)
        let point := ecUnwrap point
        let params ← attrBytes (← attr1 (← askOk (.getAttr path slot handle ["EC_PARAMS"])))
        let want ← if params = ecOidP256 then pure 256 else if params = ecOidP384 then pure 384
                   else TokM.err .runtime
        let ecLen := (point.length - 1) * 8 / 2
        if ecLen ≠ want then TokM.err .runtime
        else
          -- KSKM_PublicKey_ECDSA(bits, q = point *including its 0x04 octet*, …).encode_public_key()
          pure (some (Base64.encode point))
      | _ => TokM.fail .unsupported
    else TokM.err .notImplemented
  | .none => TokM.err .notImplemented
  | _ => TokM.fail .unsupported

/-- `find_key_by_label` over the sessions of one module, in session order. -/
def findInSlots (m : P11Module) (label : String) (keyClass : Nat) (hashUsingHsm : Option Bool) :
    List Nat → TokM (Option P11Key)
  | [] => pure none
  | slot :: rest => do
    let r ← askOk (.findObjects m.path slot [("LABEL", .str label), ("CLASS", .num keyClass)])
    match r with
    | .handles [] => findInSlots m label keyClass hashUsingHsm rest
    | .handles [h] => do
      let pk ← if keyClass ≠ ckoSecret then p11ObjectToPublicKey m.path slot h else pure none
      let kt ← attr1 (← askOk (.getAttr m.path slot h ["KEY_TYPE"]))
      match kt with
      | .num n =>
        match keyTypeOf n with
        | none => TokM.err .value
        | some t =>
          pure (some { label, keyType := t, keyClass, hashUsingHsm, publicKey := pk,
                       module := m.path, slot,
                       privHandle := if keyClass ≠ ckoPublic then some h else none,
                       pubHandle := if keyClass ≠ ckoSecret then some h else none })
      | .none => TokM.err .value
      | _ => TokM.fail .unsupported
    | .handles _ => TokM.err .runtime      -- more than one key with that label in the slot
    | _ => TokM.fail .unsupported

/-- `get_p11_key(label, modules, public, hash_using_hsm)`: modules in order; the first hit wins.
    (Module states come from `P11Module.init`, after which `sessions` is no longer recomputed:
    either some session exists, or the slot list is empty and a retry issues no operation.) -/
def getP11Key (label : String) (isPublic : Bool) (hashUsingHsm : Option Bool) :
    List P11Module → TokM (Option P11Key)
  | [] => pure none
  | m :: rest => do
    let cls := if isPublic then ckoPublic else ckoPrivate
    match ← findInSlots m label cls hashUsingHsm m.sessions with
    | some k => pure (some k)
    | none => getP11Key label isPublic hashUsingHsm rest

/-! ### What is handed to the token -/

inductive HashAlg where
  | sha1 | sha256 | sha384 | sha512
  deriving DecidableEq, Repr, Inhabited

/-- The hash functions are parameters (the harness supplies SHA-2 answers; theorems quantify). -/
abbrev Hasher := HashAlg → Bytes → Option Bytes

def digestInfoSha1 : Bytes :=
  [0x30, 0x21, 0x30, 0x09, 0x06, 0x05, 0x2b, 0x0e, 0x03, 0x02, 0x1a, 0x05, 0x00, 0x04, 0x14]
def digestInfoSha256 : Bytes :=
  [0x30, 0x31, 0x30, 0x0d, 0x06, 0x09, 0x60, 0x86, 0x48, 0x01, 0x65, 0x03, 0x04, 0x02, 0x01, 0x05,
   0x00, 0x04, 0x20]
def digestInfoSha512 : Bytes :=
  [0x30, 0x51, 0x30, 0x0d, 0x06, 0x09, 0x60, 0x86, 0x48, 0x01, 0x65, 0x03, 0x04, 0x02, 0x03, 0x05,
   0x00, 0x04, 0x40]

/-- mechanism selection of `_format_data_for_signing` -/
def mechanismFor (hashOnHsm : Bool) (algorithm : Nat) : Option Nat :=
  if hashOnHsm then
    if algorithm = algRSASHA1 then some ckmSha1RsaPkcs
    else if algorithm = algRSASHA256 then some ckmSha256RsaPkcs
    else if algorithm = algRSASHA512 then some ckmSha512RsaPkcs
    else if algorithm = algECDSAP256 then some ckmEcdsaSha256
    else if algorithm = algECDSAP384 then some ckmEcdsaSha384
    else if algorithm = algED25519 ∨ algorithm = algED448 then some ckmEddsa
    else none
  else
    if algorithm = algRSASHA1 ∨ algorithm = algRSASHA256 ∨ algorithm = algRSASHA512 then some ckmRsaX509
    else if algorithm = algECDSAP256 ∨ algorithm = algECDSAP384 then some ckmEcdsa
    else if algorithm = algED25519 ∨ algorithm = algED448 then some ckmEddsa
    else none

/-- the host-side EMSA-PKCS1-v1_5 block exactly as the code builds it:
    `00 01 | FF × (k − |T| − 3) | 00 | T`, `k = bits // 8`; Python's `b"\xff" * negative` is empty -/
def emsaBlock (k : Nat) (t : Bytes) : Bytes :=
  [0x00, 0x01] ++ List.replicate (k - t.length - 3) 0xff ++ [0x00] ++ t

structure DataToSign where
  data : Bytes
  mechanism : Nat
  hashUsingHsm : Bool
  deriving DecidableEq, Repr

def hashOrUnknown (hash : Hasher) (h : HashAlg) (d : Bytes) : Res Bytes :=
  match hash h d with
  | some x => pure x
  | none => unsupported

/-- digest and DigestInfo prefix used for raw RSA, by algorithm -/
def rsaDigestFor (algorithm : Nat) : Option (HashAlg × Bytes) :=
  if algorithm = algRSASHA1 then some (.sha1, digestInfoSha1)
  else if algorithm = algRSASHA256 then some (.sha256, digestInfoSha256)
  else if algorithm = algRSASHA512 then some (.sha512, digestInfoSha512)
  else none

/-- digest used for raw ECDSA, by algorithm (`none`: data passed on unhashed) -/
def ecdsaHashFor (algorithm : Nat) : Option HashAlg :=
  if algorithm = algECDSAP256 then some .sha256
  else if algorithm = algECDSAP384 then some .sha384
  else none

/-- `_format_data_for_signing(key, data, algorithm)` -/
def formatDataForSigning (hash : Hasher) (key : P11Key) (data : Bytes) (algorithm : Nat) :
    Res DataToSign :=
  let onHsm := key.hashUsingHsm == some true
  match mechanismFor onHsm algorithm with
  | none => err .runtime
  | some mech =>
    if mech = ckmEcdsaSha256 ∨ mech = ckmEcdsaSha384 ∨ mech = ckmSha1RsaPkcs ∨ mech = ckmSha256RsaPkcs
        ∨ mech = ckmSha512RsaPkcs then
      .ok { data, mechanism := mech, hashUsingHsm := onHsm }
    else if mech = ckmRsaX509 then
      match rsaDigestFor algorithm with
      | none => err .runtime
      | some (h, oid) =>
        match hash h data with
        | none => unsupported
        | some digest =>
          match key.publicKey with
          | none => err .runtime
          | some pk =>
            if pk.isEmpty then err .runtime else
            match rsaDecode pk algorithm with
            | .error e => .error e
            | .ok pub =>
              .ok { data := emsaBlock (pub.bits / 8) (oid ++ digest), mechanism := mech, hashUsingHsm := onHsm }
    else if mech = ckmEcdsa then
      match ecdsaHashFor algorithm with
      | none => .ok { data, mechanism := mech, hashUsingHsm := onHsm }
      | some h =>
        match hash h data with
        | none => unsupported
        | some d => .ok { data := d, mechanism := mech, hashUsingHsm := onHsm }
    else if mech = ckmEddsa then
      if onHsm then err .notImplemented else unsupported   -- EdDSA signing is outside the model
    else err .runtime

/-- `sign_using_p11(key, data, algorithm)`: symmetric key types never sign. -/
def signUsingP11 (hash : Hasher) (key : P11Key) (data : Bytes) (algorithm : Nat) : TokM Bytes := do
  match key.keyType with
  | .aes => TokM.err .value
  | .des3 => TokM.err .value
  | _ => pure ()
  let d ← TokM.lift (formatDataForSigning hash key data algorithm)
  match key.privHandle with
  | none => TokM.err .runtime
  | some h =>
    match ← askOk (.sign key.module key.slot h d.mechanism d.data) with
    | .sig b => pure b
    | _ => TokM.fail .unsupported

/-! ### Environment handling of `KSKM_P11Module.__init__`

`os.environ` is a mapping: modelled extensionally as a function from names to optional values. -/

abbrev Env := String → Option String

def Env.set (e : Env) (k v : String) : Env := fun x => if x = k then some v else e x
def Env.del (e : Env) (k : String) : Env := fun x => if x = k then none else e x

/-- `old_env[key] = os.environ.get(key)` for every key of `hsm.env` -/
def envSaved (e : Env) (hsmEnv : List (String × String)) : List (String × Option String) :=
  hsmEnv.map (fun p => (p.1, e p.1))

/-- `os.environ.update(hsm.env)` -/
def envUpdate (e : Env) (hsmEnv : List (String × String)) : Env :=
  hsmEnv.foldl (fun acc p => acc.set p.1 p.2) e

/-- the reset loop: `del os.environ[key]` when the saved value is None, else assign it back -/
def envRestore (e : Env) (saved : List (String × Option String)) : Env :=
  saved.foldl (fun acc p => match p.2 with | none => acc.del p.1 | some v => acc.set p.1 v) e

end Kskm
