/-
  Kskm.XmlGlue — the dict → data-class glue:

    kskm/ksr/load.py        request_from_xml, load_ksr (size gate, decode, validate)
    kskm/ksr/parse_utils.py request_bundles_from_list_of_dicts (incl. the stable sort by expiration)
    kskm/skr/load.py        response_from_xml, load_skr
    kskm/skr/parse_utils.py responsebundles_from_list_of_dicts
    kskm/common/parse_utils.py  signature_policy_from_dict, _parse_signature_algorithms, signers_from_list,
                                keys_from_dict, signature_from_dict
    kskm/common/rsa_utils.py / ecdsa_utils.py / eddsa_utils.py  parse_signature_policy_*

  The reader hands over a tree of `str` / `dict` / `list` (`XVal`); the glue code indexes it with
  Python's dynamic operations, and which exception comes out when a value has the "wrong" shape is part
  of the behaviour (F11, F12, F13 are exactly such cases).  So the dynamic operations are modelled:

    v[k]          dict: the value or KeyError;  str / list: TypeError
    v.get(k, d)   dict only; str / list: AttributeError
    k in v        dict: key membership;  str: SUBSTRING test;  list: some element == k
    not v         empty str / dict / list
    for x in v    list: elements;  dict: its KEYS (strings);  str: its characters
    isinstance(v, list)
    int(v)        str: Python's `int()` (Kskm.pyInt: surrounding whitespace, sign, underscores, the
                  4300-digit limit; a non-ASCII digit/space makes the model answer `unsupported`);
                  dict / list: TypeError

  pydantic (strict) then validates the constructed objects: a field typed `str` must be a `str`
  (`ValidationError`), `Key` runs its two validators (`Key.validate` of Kskm/Dnssec.lean).  Python `set`
  fields are duplicate-free lists in first-occurrence order.
-/
import Kskm.Xml
import Kskm.XmlGlueTime
import Kskm.KsrPolicy
import Kskm.SkrValidate
namespace Kskm.Xml

/-- Behaviour switches of the glue, tabulated from the code by harness/extract_tables.py: whether a
    repeated element that occurs exactly once (and is therefore stored as a dict, not a list) is wrapped
    into a one-element list before it is iterated.  `Key`, `Signature`, `SignatureAlgorithm` and
    `RequestBundle` always were; `Signer` (finding F11) and `ResponseBundle` (finding F12) were not on the
    pinned tree. -/
structure GlueSwitches where
  wrapsSingleSigner : Bool
  wrapsSingleResponseBundle : Bool
  /-- request bundles sorted by (expiration, inception, id) (true) or, stably, by expiration only
      (false: pinned tree, finding F8) -/
  sortsRequestBundlesByTriple : Bool := true
  /-- response bundles sorted by (expiration, inception, id) (true) or left in document order
      (false: pinned tree, finding F8) -/
  sortsResponseBundles : Bool := true
  deriving DecidableEq, Repr

/-- the glue of /repo's working tree -/
def pyGlueSwitches : GlueSwitches :=
  { wrapsSingleSigner := KskmGen.wrapsSingleSigner
    wrapsSingleResponseBundle := KskmGen.wrapsSingleResponseBundle
    sortsRequestBundlesByTriple := KskmGen.sortsRequestBundlesByTriple
    sortsResponseBundles := KskmGen.sortsResponseBundles }

/-! ### Python's dynamic operations on the parsed tree -/

/-- `v[k]` -/
def XVal.getItem (v : XVal) (k : String) : Res XVal :=
  match v with
  | .dict d => match d.lookup k.toList with
    | some x => pure x
    | none => err .key
  | .str _ => err .type
  | .list _ => err .type

/-- `v.get(k)` (`none` = the default) -/
def XVal.get? (v : XVal) (k : String) : Res (Option XVal) :=
  match v with
  | .dict d => pure (d.lookup k.toList)
  | .str _ => err .attribute
  | .list _ => err .attribute

/-- `k in v` -/
def XVal.contains (v : XVal) (k : String) : Bool :=
  match v with
  | .dict d => d.any (fun p => p.1 = k.toList)
  | .str s => decide (k.toList <:+: s)
  | .list l => l.any (fun x => x = .str k.toList)

/-- `bool(v)` -/
def XVal.truthy (v : XVal) : Bool :=
  match v with
  | .str s => !s.isEmpty
  | .dict d => !d.isEmpty
  | .list l => !l.isEmpty

/-- `for x in v` -/
def XVal.iter (v : XVal) : List XVal :=
  match v with
  | .list l => l
  | .dict d => d.map (fun p => .str p.1)
  | .str s => s.map (fun c => .str [c])

/-- `v if isinstance(v, list) else [v]` — the single-vs-list idiom of the glue -/
def XVal.asList (v : XVal) : List XVal :=
  match v with
  | .list l => l
  | x => [x]

/-- `int(v)` -/
def intOf (v : XVal) : Res Int :=
  match v with
  | .str s => do
    match ← pyInt s with
    | some i => pure i
    | none => err .value
  | _ => err .type

/-- a value handed to a pydantic field typed `str` under `strict=True` -/
def strictStr (v : XVal) : Res String :=
  match v with
  | .str s => pure (String.ofList s)
  | _ => err .validation

/-- `bytes(v, "utf-8")`, kept as text -/
def bytesOf (v : XVal) : Res String :=
  match v with
  | .str s => pure (String.ofList s)
  | _ => err .type

/-- `parse_datetime(v)` -/
def datetimeOf (v : XVal) : Res Int :=
  match v with
  | .str s => parseDatetimeChars s
  | _ => err .attribute          -- `.endswith` of a dict / list

/-- `duration_to_timedelta(v)`: anything falsy is zero -/
def durationOf (v : XVal) : Res Int :=
  if !v.truthy then pure 0
  else match v with
    | .str s => parseDurationChars s
    | _ => err .attribute        -- `.startswith` of a dict / list

/-- `AlgorithmDNSSEC(int(v))`: ValueError unless the number is a member of the enum -/
def algorithmOf (v : XVal) : Res Nat := do
  let i ← intOf v
  if 0 ≤ i ∧ KskmGen.algorithmDNSSEC.any (fun p => p.2 = i.toNat) then pure i.toNat else err .value

/-- `TypeDNSSEC[v]`: by NAME -/
def typeCoveredOf (v : XVal) : Res Nat :=
  match v with
  | .str s => match KskmGen.typeDNSSEC.lookup (String.ofList s) with
    | some n => pure n
    | none => err .key
  | _ => err .type               -- unhashable

def dedup {α} [DecidableEq α] : List α → List α
  | [] => []
  | a :: r => a :: (dedup r).filter (fun x => x ≠ a)

/-! ### common/parse_utils.py -/

/-- one round of `_parse_signature_algorithms` + `parse_signature_policy_{rsa,ecdsa,eddsa}` -/
def algPolicyOf (this : XVal) : Res AlgPolicy := do
  let alg ← algorithmOf (← (← this.getItem "attrs").getItem "algorithm")
  if isAlgorithmRsa alg then
    let attrs ← (← (← this.getItem "value").getItem "RSA").getItem "attrs"
    let bits ← intOf (← attrs.getItem "size")
    let exponent ← intOf (← attrs.getItem "exponent")
    pure { kind := .rsa, bits := bits, algorithm := alg, exponent := some exponent }
  else if isAlgorithmEcdsa alg then
    let attrs ← (← (← this.getItem "value").getItem "ECDSA").getItem "attrs"
    let bits ← intOf (← attrs.getItem "size")
    pure { kind := .ecdsa, bits := bits, algorithm := alg }
  else if isAlgorithmEddsa alg then
    let attrs ← (← (← this.getItem "value").getItem "EdDSA").getItem "attrs"
    let bits ← intOf (← attrs.getItem "size")
    pure { kind := .eddsa, bits := bits, algorithm := alg }
  else err .notImplemented

/-- `_parse_signature_algorithms(algorithms)` — copes with the single and the list shape -/
def signatureAlgorithmsOf (v : XVal) : Res (List AlgPolicy) := do
  let l ← v.asList.mapM algPolicyOf
  pure (dedup l)

/-- `signature_policy_from_dict(policy)` -/
def signaturePolicyOf (policy : XVal) : Res SigPolicy := do
  let publishSafety ← durationOf (← policy.getItem "PublishSafety")
  let retireSafety ← durationOf (← policy.getItem "RetireSafety")
  let maxSignatureValidity ← durationOf (← policy.getItem "MaxSignatureValidity")
  let minSignatureValidity ← durationOf (← policy.getItem "MinSignatureValidity")
  let maxValidityOverlap ← durationOf (← policy.getItem "MaxValidityOverlap")
  let minValidityOverlap ← durationOf (← policy.getItem "MinValidityOverlap")
  let algorithms ← signatureAlgorithmsOf (← policy.getItem "SignatureAlgorithm")
  pure { publishSafety, retireSafety, maxSignatureValidity, minSignatureValidity, maxValidityOverlap,
         minValidityOverlap, algorithms }

/-- one `Key(…)` of `_keys_from_list`, argument by argument, then the pydantic validation -/
def keyOf (key : XVal) : Res Key := do
  let kid ← (← key.getItem "attrs").getItem "keyIdentifier"
  let keyTag ← intOf (← (← key.getItem "attrs").getItem "keyTag")
  let ttl ← intOf (← (← key.getItem "value").getItem "TTL")
  let flags ← intOf (← (← key.getItem "value").getItem "Flags")
  let protocol ← intOf (← (← key.getItem "value").getItem "Protocol")
  let algorithm ← algorithmOf (← (← key.getItem "value").getItem "Algorithm")
  let publicKey ← bytesOf (← (← key.getItem "value").getItem "PublicKey")
  let keyIdentifier ← strictStr kid
  let k : Key := { keyIdentifier, keyTag, ttl, flags, protocol, algorithm, publicKey }
  k.validate
  pure k

/-- `keys_from_dict(keys)` — copes with the single and the list shape -/
def keysOf (v : XVal) : Res (List Key) := do
  let l ← v.asList.mapM keyOf
  pure (dedup l)

/-- one `Signature(…)` of `_signature_from_list` -/
def signatureOf (sig : XVal) : Res Signature := do
  let kid ← (← sig.getItem "attrs").get? "keyIdentifier"
  let ttl ← intOf (← (← sig.getItem "value").getItem "TTL")
  let typeCovered ← typeCoveredOf (← (← sig.getItem "value").getItem "TypeCovered")
  let algorithm ← algorithmOf (← (← sig.getItem "value").getItem "Algorithm")
  let labels ← intOf (← (← sig.getItem "value").getItem "Labels")
  let originalTtl ← intOf (← (← sig.getItem "value").getItem "OriginalTTL")
  let expiration ← datetimeOf (← (← sig.getItem "value").getItem "SignatureExpiration")
  let inception ← datetimeOf (← (← sig.getItem "value").getItem "SignatureInception")
  let keyTag ← intOf (← (← sig.getItem "value").getItem "KeyTag")
  let signersNameV ← (← sig.getItem "value").getItem "SignersName"
  let signatureData ← bytesOf (← (← sig.getItem "value").getItem "SignatureData")
  let keyIdentifier ← match kid with
    | some v => strictStr v
    | none => err .validation                    -- `None` for a field typed `str`
  let signersName ← strictStr signersNameV
  pure { keyIdentifier, ttl, typeCovered, algorithm, labels, originalTtl, expiration, inception, keyTag,
         signersName, signatureData }

/-- `signature_from_dict(signatures)` — copes with the single and the list shape -/
def signaturesOf (v : XVal) : Res (List Signature) := do
  let l ← v.asList.mapM signatureOf
  pure (dedup l)

/-- `signers_from_list(signers)`.  On the pinned tree there is NO single-vs-list handling (finding
    F11): a single `<Signer …/>` arrives as the dict `{"attrs": …, "value": ""}` and the loop runs over
    its KEYS.  The repaired function wraps a non-list after the emptiness test. -/
def signersOf (gs : GlueSwitches) (v : XVal) : Res (Option (List (Option String))) :=
  if !v.truthy then pure none
  else do
    let l ← (if gs.wrapsSingleSigner then v.asList else v.iter).mapM fun this => do
      let s ← strictStr (← (← this.getItem "attrs").getItem "keyIdentifier")
      pure (some s)
    pure (some (dedup l))

/-! ### ksr/parse_utils.py, ksr/load.py -/

def mandatoryBundleParts : List String := ["Inception", "Expiration", "Key", "Signature"]

/-- one round of the loop of `request_bundles_from_list_of_dicts` -/
def requestBundleOf (gs : GlueSwitches) (bundle : XVal) : Res Bundle := do
  let id? ← (← bundle.getItem "attrs").get? "id"
  match id? with
  | none => err .value                              -- "Bundle missing ID"
  | some idv =>
    if !idv.truthy then err .value
    mandatoryBundleParts.forM fun name => do
      if !(← bundle.getItem "value").contains name then err .value
    let idv ← (← bundle.getItem "attrs").getItem "id"
    let inception ← datetimeOf (← (← bundle.getItem "value").getItem "Inception")
    let expiration ← datetimeOf (← (← bundle.getItem "value").getItem "Expiration")
    let keys ← keysOf (← (← bundle.getItem "value").getItem "Key")
    let signatures ← signaturesOf (← (← bundle.getItem "value").getItem "Signature")
    let signers ← signersOf gs ((← (← bundle.getItem "value").get? "Signer").getD (.list []))
    let id ← strictStr idv
    pure { id, inception, expiration, keys, signatures, signers }

/-- `sorted(res, key=lambda x: x.expiration)` — stable -/
def sortByExpiration (l : List Bundle) : List Bundle :=
  l.mergeSort (fun a b => decide (a.expiration ≤ b.expiration))

/-- the sort key `(x.expiration, x.inception, x.id)` compared as Python compares tuples:
    lexicographically, strings by code point -/
def bundleKeyLe (a b : Bundle) : Bool :=
  decide (a.expiration < b.expiration) ||
    (decide (a.expiration = b.expiration) &&
      (decide (a.inception < b.inception) ||
        (decide (a.inception = b.inception) && decide (a.id ≤ b.id))))

/-- `sorted(res, key=lambda x: (x.expiration, x.inception, x.id))` — stable -/
def sortByKey (l : List Bundle) : List Bundle := l.mergeSort bundleKeyLe

/-- `request_bundles_from_list_of_dicts(bundles)` -/
def requestBundlesOf (gs : GlueSwitches) (bundles : List XVal) : Res (List Bundle) := do
  let l ← bundles.mapM (requestBundleOf gs)
  pure (if gs.sortsRequestBundlesByTriple then sortByKey l else sortByExpiration l)

/-- the optional `timestamp` — looked for among the attributes of `KSR` (finding F13) -/
def timestampOf (attrs : XVal) : Res (Option Int) :=
  if attrs.contains "timestamp" then do
    let t ← datetimeOf (← attrs.getItem "timestamp")
    pure (some t)
  else pure none

/-- `request_from_xml` after `parse_ksr` -/
def requestFromDict (gs : GlueSwitches) (data : XVal) : Res Request := do
  let bl := (← (← (← (← data.getItem "KSR").getItem "value").getItem "Request").get? "RequestBundle").getD (.list [])
  let bundles ← requestBundlesOf gs bl.asList
  let zskPolicy ← signaturePolicyOf
    (← (← (← (← (← data.getItem "KSR").getItem "value").getItem "Request").getItem "RequestPolicy").getItem "ZSK")
  let attrs ← (← data.getItem "KSR").getItem "attrs"
  let timestamp ← timestampOf attrs
  let idv ← attrs.getItem "id"
  let serial ← intOf (← attrs.getItem "serial")
  let domainv ← attrs.getItem "domain"
  let id ← strictStr idv
  let domain ← strictStr domainv
  pure { id, serial, domain, timestamp, zskPolicy, bundles }

/-! ### skr/parse_utils.py, skr/load.py -/

/-- one `ResponseBundle(…)` -/
def responseBundleOf (bundle : XVal) : Res Bundle := do
  let idv ← (← bundle.getItem "attrs").getItem "id"
  let inception ← datetimeOf (← (← bundle.getItem "value").getItem "Inception")
  let expiration ← datetimeOf (← (← bundle.getItem "value").getItem "Expiration")
  let keys ← keysOf (← (← bundle.getItem "value").getItem "Key")
  let signatures ← signaturesOf (← (← bundle.getItem "value").getItem "Signature")
  let id ← strictStr idv
  pure { id, inception, expiration, keys, signatures, signers := none }

/-- `responsebundles_from_list_of_dicts(…)` as `response_from_xml` calls it.  On the pinned tree there is
    NO single-vs-list handling (finding F12): the list comprehension runs over whatever it is given — the
    KEYS of a single bundle's dict.  The repaired `response_from_xml` wraps a non-list first. -/
def responseBundlesOf (gs : GlueSwitches) (v : XVal) : Res (List Bundle) := do
  let l ← (if gs.wrapsSingleResponseBundle then v.asList else v.iter).mapM responseBundleOf
  pure (if gs.sortsResponseBundles then sortByKey l else l)

/-- `response_from_xml` after `parse_ksr` -/
def responseFromDict (gs : GlueSwitches) (data : XVal) : Res Response := do
  let bundles ← responseBundlesOf gs
    (← (← (← (← data.getItem "KSR").getItem "value").getItem "Response").getItem "ResponseBundle")
  let kskPolicy ← signaturePolicyOf
    (← (← (← (← (← data.getItem "KSR").getItem "value").getItem "Response").getItem "ResponsePolicy").getItem "KSK")
  let zskPolicy ← signaturePolicyOf
    (← (← (← (← (← data.getItem "KSR").getItem "value").getItem "Response").getItem "ResponsePolicy").getItem "ZSK")
  let attrs ← (← data.getItem "KSR").getItem "attrs"
  let timestamp ← timestampOf attrs
  let idv ← attrs.getItem "id"
  let serial ← intOf (← attrs.getItem "serial")
  let domainv ← attrs.getItem "domain"
  let id ← strictStr idv
  let domain ← strictStr domainv
  pure { id, serial, domain, timestamp, zskPolicy, kskPolicy, bundles }

/-! ### text in, object out -/

/-- an outcome that can also be "still running" -/
inductive Load (α : Type) where
  | done (r : Res α)
  | hang
  deriving Repr, Inhabited

def fromXmlWith {α} (cls : Classes) (sw : Switches) (glue : XVal → Res α) (xml : List Char) : Load α :=
  match parseKsr cls sw xml with
  | .ok d => .done (glue (.dict d))
  | .err k => .done (err k)
  | .outOfFuel => .hang

/-- `request_from_xml(xml)` -/
def requestFromXmlL (cls : Classes) (sw : Switches) (gs : GlueSwitches) (xml : List Char) : Load Request :=
  fromXmlWith cls sw (requestFromDict gs) xml

/-- `response_from_xml(xml)` -/
def responseFromXmlL (cls : Classes) (sw : Switches) (gs : GlueSwitches) (xml : List Char) : Load Response :=
  fromXmlWith cls sw (responseFromDict gs) xml

def Load.toRes {α} : Load α → Res α
  | .done r => r
  | .hang => unsupported       -- `Res` has no word for "does not terminate"; see `requestFromXmlL`

/-- `request_from_xml` of the tree in /repo's working tree under the running Python's character
    classes.  A document on which the attribute loop does not terminate (F1) answers `unsupported`
    here; use `requestFromXmlL` to see the hang. -/
def requestFromXml (s : String) : Res Request := (requestFromXmlL pyClasses pySwitches pyGlueSwitches s.toList).toRes

/-- `response_from_xml`, likewise -/
def responseFromXml (s : String) : Res Response := (responseFromXmlL pyClasses pySwitches pyGlueSwitches s.toList).toRes

/-! ### `load_ksr` / `load_skr`: size gate, read, decode, parse, validate -/

/-- What the file system and the codec answer: the size `fstat` reports, the octets `read(n)` returns,
    and `bytes.decode()` (strict UTF-8; `none` = UnicodeDecodeError). -/
structure FileOracle where
  statSize : Nat
  read : Nat → Bytes
  decode : Bytes → Option (List Char)

/-- result of a load plus whether `read` was called at all -/
structure Loaded (α : Type) where
  result : Load α
  readCalled : Bool

/-- `load_ksr(filename, policy, raise_original)` -/
def loadKsr (cls : Classes) (sw : Switches) (gs : GlueSwitches) (verify : Verifier) (now : Int) (f : FileOracle)
    (pol : RequestPolicy) (raiseOriginal : Bool := false) : Loaded Request :=
  if f.statSize > KskmGen.maxKsrSize then { result := .done (err .runtime), readCalled := false }
  else
    let bytes := f.read KskmGen.maxKsrSize
    let result : Load Request :=
      match f.decode bytes with
      | none => .done (err .unicode)
      | some xml =>
        match requestFromXmlL cls sw gs xml with
        | .hang => .hang
        | .done (.error e) => .done (.error e)
        | .done (.ok req) =>
          match validateRequest verify now req pol with
          | .ok () => .done (pure req)
          | .error (.violation r) => .done (if raiseOriginal then violation r else err .runtime)
          | .error e => .done (.error e)
    { result, readCalled := true }

/-- `load_skr(filename, policy)` -/
def loadSkr (cls : Classes) (sw : Switches) (gs : GlueSwitches) (verify : Verifier) (f : FileOracle)
    (pol : ResponsePolicy) :
    Loaded Response :=
  if f.statSize > KskmGen.maxSkrSize then { result := .done (err .runtime), readCalled := false }
  else
    let bytes := f.read KskmGen.maxSkrSize
    let result : Load Response :=
      match f.decode bytes with
      | none => .done (err .unicode)
      | some xml =>
        match responseFromXmlL cls sw gs xml with
        | .hang => .hang
        | .done (.error e) => .done (.error e)
        | .done (.ok resp) =>
          match loadSkrGate verify resp pol with
          | .ok () => .done (pure resp)
          | .error e => .done (.error e)
    { result, readCalled := true }

end Kskm.Xml
