/-
  Kskm.Wordlist — kskm/common/wordlist.py and kskm/common/integrity.py.

  `pgp_wordlist` walks the octets with a flag `odd` that starts `False` and flips after every octet:
  octets at even positions (0, 2, …) take the first column of `WORDS[byte]`, octets at odd positions
  the second.  The table is the REGENERATED `KskmGen.WORDS` (harness/extract_tables.py reads
  `kskm.common.wordlist.WORDS` from /repo's working tree on every run), so every theorem about this
  file is re-checked against what the code's table says now.

  The hash is a parameter (`hash : Bytes → Bytes`); nothing here knows SHA-256.
-/
import Kskm.Basic
import KskmGen.Tables
namespace Kskm

/-- first column: the words for octets at even positions -/
def evenWords : List String := KskmGen.WORDS.map (·.1)
/-- second column: the words for octets at odd positions -/
def oddWords : List String := KskmGen.WORDS.map (·.2)

/-- `WORDS[byte][1 if odd else 0]`.  Python would raise `IndexError` on a table shorter than 256
    rows; `C17.words_table_shape` proves the regenerated table has exactly 256, so the `""` default
    is never taken. -/
def wordAt (odd : Bool) (b : UInt8) : String :=
  (if odd then oddWords else evenWords).getD b.toNat ""

/-- the loop of `pgp_wordlist` with its `odd` flag made explicit -/
def pgpWordlistFrom : Bool → Bytes → List String
  | _, [] => []
  | odd, b :: r => wordAt odd b :: pgpWordlistFrom (!odd) r

/-- `pgp_wordlist(data)`: `odd = False` at position 0 -/
def pgpWordlist (data : Bytes) : List String := pgpWordlistFrom false data

/-- the decoder: position parity selects the column, the word's row number is the octet;
    a word that is not in its column (or a row beyond 255) makes the whole rendering undecodable -/
def unwordsFrom : Bool → List String → Option Bytes
  | _, [] => some []
  | odd, w :: r =>
    let col := if odd then oddWords else evenWords
    let i := col.idxOf w
    if i < col.length ∧ i < 256 then
      match unwordsFrom (!odd) r with
      | some t => some (UInt8.ofNat i :: t)
      | none => none
    else none

def unwords (ws : List String) : Option Bytes := unwordsFrom false ws

/-! ### `binascii.hexlify(...).decode()` — lower-case hex, two characters per octet -/

def hexNibble (n : Nat) : Char := if n < 10 then Char.ofNat (48 + n) else Char.ofNat (87 + n)

def hexlify : Bytes → List Char
  | [] => []
  | b :: r => hexNibble (b.toNat / 16) :: hexNibble (b.toNat % 16) :: hexlify r

/-! ### `' '.join(words)` and `_format_digest` / `checksum_bytes2str` / `sha2wordlist` -/

/-- `' '.join(ws)` on character lists -/
def joinSp : List (List Char) → List Char
  | [] => []
  | [w] => w
  | w :: r => w ++ ' ' :: joinSp r

def wordsLine (digest : Bytes) : List Char := joinSp ((pgpWordlist digest).map String.toList)

/-- `_format_digest(digest)` = `f"SHA-256 {hexdigest} WORDS {' '.join(words)}"` -/
def formatDigest (digest : Bytes) : String :=
  String.ofList ("SHA-256 ".toList ++ hexlify digest ++ " WORDS ".toList ++ wordsLine digest)

/-- `checksum_bytes2str(message)` with the hash a parameter -/
def checksumBytes2str (hash : Bytes → Bytes) (message : Bytes) : String := formatDigest (hash message)

/-- `sha2wordlist(message)` → (hexdigest, words) -/
def sha2wordlist (hash : Bytes → Bytes) (message : Bytes) : String × List String :=
  (String.ofList (hexlify (hash message)), pgpWordlist (hash message))

/-- the three lines `kskm-sha2wordlist` prints for one input (tools/sha2wordlist.py:words);
    the `Filename:` line and the trailing blank line only in file mode -/
def sha2wordlistTool (hash : Bytes → Bytes) (filename : Option String) (message : Bytes) : List String :=
  let d := hash message
  (match filename with | some f => ["Filename:   " ++ f] | none => []) ++
  ["SHA-256:    " ++ String.ofList (hexlify d), "PGP Words:  " ++ String.ofList (wordsLine d)] ++
  (match filename with | some _ => [""] | none => [])

/-- what `ksrsigner` prints before the confirmation prompt (tools/ksrsigner.py), given the
    `xml_filename` / `xml_hash` the parsed request carries; each `print(a, b)` puts one space between -/
def ksrsignerDisplay (xmlFilename : String) (xmlHash : Option Bytes) : List String :=
  ["", "FILENAME:       " ++ xmlFilename] ++
  (match xmlHash with
   | some h => ["SHA-256 HEX:    " ++ String.ofList (hexlify h), "SHA-256 WORDS:  " ++ String.ofList (wordsLine h)]
   | none => []) ++ [""]

end Kskm
