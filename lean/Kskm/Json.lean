/-
  Kskm.Json — JSON codecs for the line protocol between the Python harness and the model driver.
  Octet strings travel as lower-case hex text.
-/
import Lean.Data.Json
import Kskm.Chain
open Lean
namespace Kskm

def hexVal (c : Char) : Option Nat :=
  if '0' ≤ c ∧ c ≤ '9' then some (c.toNat - 48)
  else if 'a' ≤ c ∧ c ≤ 'f' then some (c.toNat - 87)
  else if 'A' ≤ c ∧ c ≤ 'F' then some (c.toNat - 55) else none

def unhex : List Char → Option Bytes
  | [] => some []
  | a :: b :: r => do
    let x ← hexVal a; let y ← hexVal b; let t ← unhex r
    pure (UInt8.ofNat (16 * x + y) :: t)
  | _ => none

def hexDigit (n : Nat) : Char := if n < 10 then Char.ofNat (48 + n) else Char.ofNat (87 + n)

def hex (l : Bytes) : String :=
  String.ofList (l.flatMap fun b => [hexDigit (b.toNat / 16), hexDigit (b.toNat % 16)])

instance : FromJson Bytes where
  fromJson? j := do
    let s ← j.getStr?
    match unhex s.toList with
    | some b => pure b
    | none => throw "bad hex"
instance : ToJson Bytes where toJson b := Json.str (hex b)

deriving instance FromJson, ToJson for Rule
deriving instance FromJson, ToJson for ErrKind
deriving instance FromJson, ToJson for AlgKind
deriving instance FromJson, ToJson for Key
deriving instance FromJson, ToJson for Signature
deriving instance FromJson, ToJson for AlgPolicy
deriving instance FromJson, ToJson for SigPolicy
deriving instance FromJson, ToJson for Bundle
deriving instance FromJson, ToJson for Request
deriving instance FromJson, ToJson for Response
deriving instance FromJson, ToJson for RequestPolicy
deriving instance FromJson, ToJson for ResponsePolicy
deriving instance FromJson, ToJson for RsaPub

instance : ToJson Fail where
  toJson
    | .violation r => Json.mkObj [("violation", toJson r)]
    | .error k => Json.mkObj [("error", toJson k)]
    | .unsupported => Json.str "unsupported"

instance {α} [ToJson α] : ToJson (Res α) where
  toJson
    | .ok a => Json.mkObj [("ok", toJson a)]
    | .error f => toJson f

instance : ToJson Unit where toJson _ := Json.null

instance : FromJson VerifyResult where
  fromJson? j := do
    let s ← j.getStr?
    if s = "valid" then pure .valid
    else if s = "invalid" then pure .invalid
    else if s = "unknown" then pure .unknown
    else match (fromJson? (Json.str s) : Except String ErrKind) with
      | .ok k => pure (.error k)
      | .error _ => pure (.error .other)

/-- One recorded answer of the real verifier. -/
structure VerifyEntry where
  algorithm : Nat
  publicKey : String
  message : Bytes
  signature : Bytes
  result : VerifyResult
deriving instance FromJson for VerifyEntry

/-- A verifier that replays recorded answers; anything not recorded is `unknown`. -/
def tableVerifier (t : List VerifyEntry) : Verifier := fun a pk m s =>
  match t.find? (fun e => e.algorithm = a ∧ e.publicKey = pk ∧ e.message = m ∧ e.signature = s) with
  | some e => e.result
  | none => .unknown

end Kskm
