/-
  Kskm.Wksr — kskm/wksr/server.py (save_ksr, ClientCertificateWhitelist.dispatch, validate_ksr) and
  kskm/wksr/peercert.py (C20).

  Text that comes from the client (the upload's file name) is a list of CODE POINTS (`Nat`), not
  `List Char`: a Python `str` may hold lone surrogates, which `Char` cannot represent, and the
  theorems are meant for every Python string.  Hash, certificate parser, clock and the signature
  verifier are parameters.
-/
import Kskm.Chain
namespace Kskm.Wksr

/-! ### `re.sub(r"[^a-zA-Z0-9_\-]+", "_", str(filename))` -/

/-- the character class `[a-zA-Z0-9_\-]` of a `str` pattern without flags: ASCII literals only
    (no `re.IGNORECASE`, so no Unicode case folding; `\-` is a literal hyphen) -/
def isSafeCp (c : Nat) : Bool :=
  (97 ≤ c && c ≤ 122) || (65 ≤ c && c ≤ 90) || (48 ≤ c && c ≤ 57) || c == 95 || c == 45

/-- left-to-right scan; `inRun` = the previous character was unsafe (its run already produced the
    one underscore).  `+` is greedy and matches are non-overlapping, so every MAXIMAL run of unsafe
    characters is replaced by a single `_`. -/
def washFrom : Bool → List Nat → List Nat
  | _, [] => []
  | inRun, c :: r =>
    if isSafeCp c then c :: washFrom false r
    else if inRun then washFrom true r
    else 95 :: washFrom true r

def wash (s : List Nat) : List Nat := washFrom false s

/-- `str(upload_file.filename)`; a missing file name is `None`, whose `str` is `"None"` -/
def pyStrOpt : Option (List Nat) → List Nat
  | none => [78, 111, 110, 101]
  | some s => s

def dotXml : List Nat := [46, 120, 109, 108]

/-! ### `pathlib.PurePosixPath`: parse, `/`, `.parent`, `.name`, `str` -/

structure WPath where
  absolute : Bool
  parts : List (List Nat)
  deriving DecidableEq, Repr, Inhabited

/-- `s.split(sep)`: always at least one piece -/
def splitOn (sep : Nat) : List Nat → List (List Nat)
  | [] => [[]]
  | c :: r =>
    if c = sep then [] :: splitOn sep r
    else match splitOn sep r with
      | [] => [[c]]
      | w :: ws => (c :: w) :: ws

/-- `Path(s)`: components are separated by `/`; empty components and `.` components are dropped;
    `..` is KEPT (pathlib does not resolve it).  (A string starting with exactly two slashes keeps a
    `//` root in pathlib; the driver answers `unsupported` for those.) -/
def parsePath (s : List Nat) : WPath :=
  { absolute := s.head? == some 47,
    parts := (splitOn 47 s).filter (fun p => !(p == []) && !(p == [46])) }

/-- `a / b`: an absolute right operand replaces the left one -/
def WPath.join (a b : WPath) : WPath :=
  if b.absolute then b else { absolute := a.absolute, parts := a.parts ++ b.parts }

def WPath.parent (p : WPath) : WPath := { p with parts := p.parts.dropLast }
def WPath.name (p : WPath) : List Nat := p.parts.getLast?.getD []

def WPath.render (p : WPath) : List Nat :=
  match p.absolute, p.parts with
  | false, [] => [46]
  | true, [] => [47]
  | abs, w :: ws => (if abs then [47] else []) ++ ws.foldl (fun acc x => acc ++ 47 :: x) w

/-- `app.config.ksr.upload_path / Path(filename_washed + filename_suffix + ".xml")` -/
def savePath (uploadDir : WPath) (washed suffix : List Nat) : WPath :=
  uploadDir.join (parsePath (washed ++ suffix ++ dotXml))

/-! ### `save_ksr` as an effect sequence -/

inductive WEffect where
  /-- `await upload_file.read()` -/
  | readBody
  /-- `datetime.now(UTC)` -/
  | now
  /-- `open(filename, "wb")` -/
  | openWrite (p : WPath)
  /-- `ksr_file.write(contents)` -/
  | write (p : WPath) (data : Bytes)
  /-- the "Saved filename=…" log record -/
  | logSaved
  deriving DecidableEq, Repr

def WEffect.isRead : WEffect → Bool | .readBody => true | _ => false
def WEffect.touchesDisk : WEffect → Bool | .openWrite _ => true | .write .. => true | _ => false

inductive SaveFail where
  /-- `HTTPException(status_code=code)` -/
  | http (code : Nat)
  /-- `open(..., "wb")` raised (`OSError`: missing directory, permissions, …) -/
  | osError
  deriving DecidableEq, Repr

structure Upload where
  contentType : Option String
  size : Option Int
  filename : Option (List Nat)
  body : Bytes
  deriving Repr

structure KsrCfg where
  contentType : String
  maxSize : Int
  uploadPath : WPath
  deriving Repr

/-- `save_ksr(app, upload_file)`.  `suffix` is what `datetime.now(UTC).strftime("_%Y%m%d_%H%M%S_%f")`
    returned; `openOk` says whether `open(filename, "wb")` succeeded.  The three gates come first, in
    this order, each before the body is read or anything is opened. -/
def saveKsr (cfg : KsrCfg) (hashHex : Bytes → String) (suffix : List Nat) (openOk : Bool) (u : Upload) :
    Except SaveFail (WPath × String) × List WEffect :=
  if u.contentType != some cfg.contentType then (.error (.http 400), [])
  else match u.size with
  | none => (.error (.http 400), [])
  | some size =>
    if size > cfg.maxSize then (.error (.http 413), [])
    else
      let contents := u.body
      let filehash := hashHex contents
      let filename := savePath cfg.uploadPath (wash (pyStrOpt u.filename)) suffix
      if !openOk then (.error .osError, [.readBody, .now, .openWrite filename])
      else (.ok (filename, filehash), [.readBody, .now, .openWrite filename, .write filename contents, .logSaved])

/-! ### the client-certificate whitelist -/

/-- what `request.scope["transport"].get_extra_info("ssl_object")` and its `getpeercert(True)` yield -/
inductive Peer where
  /-- no TLS object on the transport: `None.getpeercert` → `AttributeError` -/
  | noTls
  /-- TLS, but the client presented no certificate: `getpeercert(binary_form=True)` is `None`,
      `load_der_x509_certificate(None)` → `TypeError` -/
  | noCert
  | der (b : Bytes)
  deriving DecidableEq, Repr

/-- `request_peercert`: `parseOk` = `load_der_x509_certificate` accepts the octets -/
def requestPeercert (parseOk : Bytes → Bool) : Peer → Res Bytes
  | .noTls => err .attribute
  | .noCert => err .type
  | .der b => if parseOk b then pure b else err .value

/-- `request_peercert_digest`: `if peercert := request_peercert(request): return hexlify(fingerprint)`
    else `None`.  `truthy` is `bool(certificate)`; `fingerprint` = lower-case hex of SHA-256 of the DER. -/
def requestPeercertDigest (parseOk truthy : Bytes → Bool) (fingerprint : Bytes → String) (p : Peer) :
    Res (Option String) := do
  let cert ← requestPeercert parseOk p
  if truthy cert then pure (some (fingerprint cert)) else pure none

inductive Dispatch where
  /-- `return await call_next(request)`: the request reaches the handler -/
  | callNext
  /-- `raise HTTPException(status_code=code)` -/
  | http (code : Nat)
  deriving DecidableEq, Repr

/-- `ClientCertificateWhitelist.dispatch` — exactly as written, including the `digest is None`
    pass-through branch (see `C20.digest_never_none`: it is unreachable). -/
def dispatch (parseOk truthy : Bytes → Bool) (fingerprint : Bytes → String) (whitelist : List String)
    (p : Peer) : Res Dispatch := do
  let digest ← requestPeercertDigest parseOk truthy fingerprint p
  match digest with
  | none => pure .callNext
  | some d => if !whitelist.contains d then pure (.http 403) else pure .callNext

/-! ### `validate_ksr`: the signer's own functions, token-less -/

inductive KsrStatus where
  | OK | ERROR
  deriving DecidableEq, Repr

/-- the body of the `try:` block.  `prev` is `None` when the ksrsigner configuration names no
    previous SKR, otherwise the outcome of `load_skr` (which has ALREADY turned an SKR policy
    violation into `RuntimeError`, see `Kskm.loadSkr`); `parsed` is the outcome of reading and parsing
    the uploaded file; validation is `validate_request` with the configured policy (the
    `raise_original=True` path of `load_ksr`: violations stay violations), then — only with a previous
    SKR — `check_skr_and_ksr(..., p11modules=None)`. -/
def validateKsrBody (verify : Verifier) (now : Int) (pol : RequestPolicy)
    (prev : Option (Res Response)) (parsed : Res Request) : Res Unit := do
  let previous ← match prev with
    | none => pure none
    | some r => do let s ← r; pure (some s)
  let ksr ← parsed
  validateRequest verify now ksr pol
  match previous with
  | some skr => checkSkrAndKsr ksr skr pol none
  | none => pure ()

/-- `validate_ksr(app, filename)["status"]`.  `get_config` runs OUTSIDE the `try`; only
    `PolicyViolation` is caught (→ "ERROR"); every other exception propagates to the caller. -/
def validateKsr (verify : Verifier) (now : Int) (cfg : Res RequestPolicy)
    (prev : Option (Res Response)) (parsed : Res Request) : Res KsrStatus :=
  match cfg with
  | .error e => .error e
  | .ok pol =>
    match validateKsrBody verify now pol prev parsed with
    | .ok () => .ok .OK
    | .error (.violation _) => .ok .ERROR
    | .error e => .error e

end Kskm.Wksr
