/-
  Kskm.Base64 — RFC 4648 base64 with the standard alphabet.
  `decode` accepts exactly the canonical encodings (what `base64.b64encode` produces); Python's
  lenient decoder also accepts other spellings, for which the model answers `none` and the harness
  classifies the case as outside the modelled domain.
-/
import Kskm.Basic
namespace Kskm.Base64

def alphabet : List Char :=
  "ABCDEFGHIJKLMNOPQRSTUVWXYZabcdefghijklmnopqrstuvwxyz0123456789+/".toList

def encChar (n : Nat) : Char :=
  if n < 26 then Char.ofNat (65 + n)
  else if n < 52 then Char.ofNat (97 + (n - 26))
  else if n < 62 then Char.ofNat (48 + (n - 52))
  else if n = 62 then '+' else '/'

def decChar (c : Char) : Option Nat :=
  let n := c.toNat
  if 65 ≤ n ∧ n ≤ 90 then some (n - 65)
  else if 97 ≤ n ∧ n ≤ 122 then some (n - 97 + 26)
  else if 48 ≤ n ∧ n ≤ 57 then some (n - 48 + 52)
  else if n = 43 then some 62
  else if n = 47 then some 63
  else none

def encodeChars : Bytes → List Char
  | [] => []
  | [a] =>
    let n := a.toNat
    [encChar (n / 4), encChar (n % 4 * 16), '=', '=']
  | [a, b] =>
    let n := a.toNat * 256 + b.toNat
    [encChar (n / 1024), encChar (n / 16 % 64), encChar (n % 16 * 4), '=']
  | a :: b :: c :: r =>
    let n := a.toNat * 65536 + b.toNat * 256 + c.toNat
    encChar (n / 262144) :: encChar (n / 4096 % 64) :: encChar (n / 64 % 64) :: encChar (n % 64)
      :: encodeChars r

def encode (b : Bytes) : String := String.ofList (encodeChars b)

def decodeChars : List Char → Option Bytes
  | [] => some []
  | [a, b, '=', '='] => do
    let x ← decChar a; let y ← decChar b
    if y % 16 = 0 then some [UInt8.ofNat (x * 4 + y / 16)] else none
  | [a, b, c, '='] => do
    let x ← decChar a; let y ← decChar b; let z ← decChar c
    if z % 4 = 0 then
      let n := x * 4096 + y * 64 + z
      some [UInt8.ofNat (n / 1024), UInt8.ofNat (n / 4 % 256)]
    else none
  | a :: b :: c :: d :: r => do
    let x ← decChar a; let y ← decChar b; let z ← decChar c; let w ← decChar d
    let n := x * 262144 + y * 4096 + z * 64 + w
    let t ← decodeChars r
    some (UInt8.ofNat (n / 65536) :: UInt8.ofNat (n / 256 % 256) :: UInt8.ofNat (n % 256) :: t)
  | _ => none

def decode (s : String) : Option Bytes := decodeChars s.toList

end Kskm.Base64
