/-
  Kskm.Config — kskm/common/config.py (`KSKMConfig.from_dict`, `_transform_config`), the pydantic
  validation of the configuration models of common/config_misc.py, and the exception → exit status
  mapping of tools/ksrsigner.py:main.

  Same order of steps as the code: `_transform_config` (ksk_policy split, keys → ksk_keys, dns_ttl
  0 → ksk_policy.ttl), then `model_validate` of the WHOLE tree, then the three positivity checks.

  pydantic is modelled, not verified (DESIGN.md §6): the validator below interprets the schema table
  regenerated from `model_json_schema()` (`KskmGen.configSchema`) with pydantic 2's lax-mode coercion
  table for the field types used, established by experiment and re-checked on every run by
  harness/corr_C16.py.  Where exact modelling is out of reach the model answers `unsupported`.

  Parameters (never axioms): the schema table, the `AlgorithmDNSSEC` name table, `fileExists`
  (pydantic `FilePath`), and — for `main` — whether a schema-validation error is caught (F3 switch).
-/
import Kskm.Data
import Kskm.Duration
import Kskm.ConfigSchema
namespace Kskm.Config
open Kskm

/-- pydantic validation outcome: `ok (some v)` valid, `ok none` one or more validation errors were
    collected (→ `ValidationError`), `error e` an exception escaped / the model declines to judge. -/
-- (written out as `Res (Option α)` below)

structure Env where
  tbl : List ObjSchema
  algNames : List (String × Nat)
  fileExists : String → Bool
  /-- behaviour switch (finding F15): what `_transform_config` substitutes for `request_policy.dns_ttl
      == 0` when the `ksk_policy` section has no `ttl` — `none`: it raises `KeyError` (the pinned
      behaviour), `some t`: it falls back to `t` (the default TTL).  Tabulated by execution. -/
  kskTtlFallback : Option CVal := none

/-! ### characters, patterns -/

def isAsciiDigit (c : Char) : Bool := '0' ≤ c && c ≤ '9'
def isAsciiAlpha (c : Char) : Bool := ('a' ≤ c && c ≤ 'z') || ('A' ≤ c && c ≤ 'Z')
/-- `\w` restricted to ASCII: letters, digits, underscore -/
def isAsciiWord (c : Char) : Bool := isAsciiAlpha c || isAsciiDigit c || c == '_'
def isHexDigit (c : Char) : Bool := isAsciiDigit c || ('a' ≤ c && c ≤ 'f') || ('A' ≤ c && c ≤ 'F')
def isAscii (c : Char) : Bool := c.toNat < 128
def digitVal (c : Char) : Nat := c.toNat - 48

/-- the three pydantic `pattern=` literals of common/config_misc.py (pinned against
    `KskmGen.regexLiterals` and the regenerated schema table in KskmProofs/C16.lean) -/
def patDomain : String := "^[\\w\\.]+$"
def patHex : String := "^[0-9a-fA-F]+$"
def patKeyName : String := "^[\\w_]+$"

/-- `^[C]+$` for a character class given on ASCII as `cls` and possibly containing non-ASCII
    characters (`unicodeOpen`): pydantic-core matches with the Rust `regex` crate, where `$` is the
    end of the text only (no allowance for a trailing newline) and `\w` is the Unicode class.
    ASCII is decided exactly; a string whose only doubtful characters are non-ASCII is `unsupported`. -/
def matchClassPlus (cls : Char → Bool) (unicodeOpen : Bool) (s : List Char) : Res Bool :=
  if s.isEmpty then pure false
  else if s.any (fun c => isAscii c && !cls c) then pure false
  else if s.any (fun c => !isAscii c) then (if unicodeOpen then unsupported else pure false)
  else pure true

def matchPattern (pat : String) (s : String) : Res Bool :=
  if pat == patDomain then matchClassPlus (fun c => isAsciiWord c || c == '.') true s.toList
  else if pat == patKeyName then matchClassPlus isAsciiWord true s.toList
  else if pat == patHex then matchClassPlus isHexDigit false s.toList
  else unsupported

/-! ### integers out of strings -/

def digitsVal (l : List Char) : Nat := l.foldl (fun acc c => acc * 10 + digitVal c) 0

/-- `[+-]?[0-9]+` -/
def parseCleanInt (l : List Char) : Option Int :=
  match l with
  | '-' :: r => if !r.isEmpty && r.all isAsciiDigit then some (-(digitsVal r : Int)) else none
  | '+' :: r => if !r.isEmpty && r.all isAsciiDigit then some (digitsVal r : Int) else none
  | r => if !r.isEmpty && r.all isAsciiDigit then some (digitsVal r : Int) else none

/-- integer value of a string for both Python `int(s)` and pydantic's lax `int`:
    `some (some i)` a clean decimal, `some none` certainly not an integer (ASCII with no digit at
    all, or with a letter: neither accepts `1e3`, `0x10`, `1x`),
    `none` anything else (whitespace, underscores, `12.0`, non-ASCII digits …) — not modelled. -/
def strInt (s : String) : Option (Option Int) :=
  let l := s.toList
  match parseCleanInt l with
  | some i => some (some i)
  | none => if l.all isAscii && (!l.any isAsciiDigit || l.any isAsciiAlpha) then some none else none

/-! ### durations -/

def usPerSec : Int := 1000000
def maxTdDays : Int := 999999999
/-- `datetime.timedelta` range: `-999999999 d ≤ td < 1000000000 d` -/
def tdRangeOk (us : Int) : Bool := decide (-(maxTdDays * usPerDay) ≤ us) && decide (us < (maxTdDays + 1) * usPerDay)

/-- state of the one-pass scan of pydantic's (speedate's) ISO 8601 duration grammar
    `[+-]?P(nY|nM|nW|nD)*(T(nH|nM|nS)*)?` with integer components -/
structure PydState where
  inTime : Bool := false
  cur : Option Nat := none       -- digits read since the last unit
  days : Nat := 0
  secs : Nat := 0                -- the time section, a `u32` in speedate
  comps : Nat := 0
  deriving Repr, DecidableEq

def pydStep (st : Option PydState) (c : Char) : Option PydState := do
  let s ← st
  if isAsciiDigit c then pure { s with cur := some (s.cur.getD 0 * 10 + digitVal c) }
  else if c == 'T' then
    if s.inTime || s.cur.isSome then none else pure { s with inTime := true }
  else
    let n ← s.cur
    if !s.inTime then
      let mul ← (if c == 'Y' then some 365 else if c == 'M' then some 30 else if c == 'W' then some 7
                 else if c == 'D' then some 1 else none)
      pure { s with cur := none, days := s.days + n * mul, comps := s.comps + 1 }
    else
      let mul ← (if c == 'H' then some 3600 else if c == 'M' then some 60 else if c == 'S' then some 1
                 else none)
      let secs := s.secs + n * mul
      if secs ≥ 4294967296 then none else pure { s with cur := none, secs := secs, comps := s.comps + 1 }

/-- magnitude in µs of `P…` (after the sign), `none` = not in the grammar / out of range -/
def pydMagnitude (l : List Char) : Option Int :=
  match l with
  | 'P' :: r =>
    match r.foldl pydStep (some {}) with
    | some st =>
      if st.cur.isSome || st.comps == 0 then none
      else
        let total : Int := (st.days : Int) * 86400 + (st.secs : Int)
        if total ≥ (maxTdDays + 1) * 86400 then none else some (total * usPerSec)
    | none => none
  | _ => none

def pydDurationChars : List Char := ['P', 'T', 'Y', 'M', 'W', 'D', 'H', 'S', '+', '-']
/-- the characters speedate's other spellings (`3d`, `1 day`, `2 days, 10:20:30.5`, `95:13`, `4DAY`) are made of -/
def pydDayTimeChars : List Char := [':', '.', ',', ' ', 'd', 'D', 'a', 'A', 'y', 'Y', 's', 'S']

/-- the text after one optional sign -/
def signedBody (l : List Char) : List Char :=
  match l with
  | '+' :: r => r
  | '-' :: r => r
  | r => r

/-- pydantic's (speedate's) `timedelta` from a string, established by experiment.  After one optional sign:
    * `P…` is the ISO form: every character is consumed as `T`, as part of a number (digits with a
      `.`/`,` fraction) or as a unit, so any other character — white space, lower case, a second sign —
      is refused; without a fraction the value is decided exactly (`pydMagnitude`); a fraction goes
      through `f64` arithmetic and is `unsupported`;
    * anything else is one of the `[N [ ]d[ay[s]][,][ ]][[H]:MM[:SS[.f]]]` spellings: a character outside
      `pydDayTimeChars`, or neither a `d`/`D` nor a `:` anywhere, is refused (so a bare number is not
      seconds: refused); the spellings themselves are `unsupported`.
    No trimming: leading / trailing white space is refused in both forms. -/
def pydDuration (s : String) : Res (Option Int) :=
  let l := s.toList
  if l.isEmpty then pure none else
  let body := signedBody l
  if body.head? == some 'P' then
    if body.any (fun c => !(isAsciiDigit c || pydDurationChars.contains c || c == '.' || c == ',')) then pure none
    else if body.any (fun c => c == '.' || c == ',') then unsupported
    else if l.head? == some '-' then
      match pydMagnitude body with
      | some m => if tdRangeOk (-m) then pure (some (-m)) else err .overflow
      | none => pure none
    else pure (pydMagnitude body)
  else
    if body.any (fun c => !(isAsciiDigit c || pydDayTimeChars.contains c)) then pure none
    else if !body.any (fun c => c == 'd' || c == 'D' || c == ':') then pure none
    else unsupported

def i64Limit : Int := 9223372036854775808     -- 2^63

/-- whole seconds given as an `int` (or `bool`) as a pydantic `timedelta`, established by experiment:
    the magnitude must fit an `i64` (`-2^63` included); it is split into days and seconds and the DAY
    COUNT IS A `u32` THAT WRAPS (`2^32 · 86400` seconds load as a zero duration); more than 999 999 999
    days after wrapping are refused; a negative value whose Python `timedelta` would have
    `days < -999999999` raises `OverflowError` instead. -/
def pydDurationOfSeconds (i : Int) : Res (Option Int) :=
  if i < -i64Limit || i ≥ i64Limit then pure none else
  let a := i.natAbs
  let d := (a / 86400) % 4294967296
  let tot : Int := ((d * 86400 + a % 86400 : Nat) : Int)
  if d > 999999999 then pure none
  else if i < 0 then (if tdRangeOk (-(tot * usPerSec)) then pure (some (-(tot * usPerSec))) else err .overflow)
  else pure (some (tot * usPerSec))

/-- whole seconds given as an integral `float`: no wrapping (the cast to the day count saturates), so
    everything from 10^9 days on is refused; the negative `OverflowError` sliver as for `int` -/
def pydDurationOfFloat (i : Int) : Res (Option Int) :=
  if i ≥ (maxTdDays + 1) * 86400 || i ≤ -((maxTdDays + 1) * 86400) then pure none
  else if tdRangeOk (i * usPerSec) then pure (some (i * usPerSec)) else err .overflow

def splitDigits (l : List Char) : List Char × List Char := (l.takeWhile isAsciiDigit, l.dropWhile isAsciiDigit)

/-- Python truthiness of a tree value (`if not duration`) -/
def truthy : CVal → Bool
  | .null => false
  | .bool b => b
  | .int i => i != 0
  | .float t integral => !(t == some 0 && integral)
  | .str s => !s.isEmpty
  | .td u => u != 0
  | .ts _ _ => true
  | .date _ => true
  | .list xs => !xs.isEmpty
  | .map kvs => !kvs.isEmpty

/-- `duration_to_timedelta(v)` as `_transform_config` applies it to whatever the YAML held -/
def durationToTimedelta (v : CVal) : Res Int :=
  if !truthy v then pure 0 else
  match v with
  | .str s => parseDuration s               -- Kskm/Duration.lean (work package E)
  | _ => err .attribute                     -- `'int' object has no attribute 'startswith'`

/-! ### date-times -/

def isLeap (y : Int) : Bool := (y % 4 == 0 && y % 100 != 0) || y % 400 == 0

def daysInMonth (y m : Int) : Int :=
  if m == 2 then (if isLeap y then 29 else 28)
  else if m == 4 || m == 6 || m == 9 || m == 11 then 30 else 31

/-- days since 1970-01-01 of a proleptic Gregorian date (Howard Hinnant's `days_from_civil`) -/
def daysFromCivil (y m d : Int) : Int :=
  let y' := if m ≤ 2 then y - 1 else y
  let era := y' / 400                      -- floor division
  let yoe := y' - era * 400
  let mp := (m + 9) % 12
  let doy := (153 * mp + 2) / 5 + d - 1
  let doe := yoe * 365 + yoe / 4 - yoe / 100 + doy
  era * 146097 + doe - 719468

def num2 (a b : Char) : Option Int :=
  if isAsciiDigit a && isAsciiDigit b then some ((digitVal a * 10 + digitVal b : Nat) : Int) else none

def parseDate (l : List Char) : Option (Int × Int × Int × List Char) :=
  match l with
  | y1 :: y2 :: y3 :: y4 :: '-' :: m1 :: m2 :: '-' :: d1 :: d2 :: rest => do
    let yh ← num2 y1 y2; let yl ← num2 y3 y4; let m ← num2 m1 m2; let d ← num2 d1 d2
    pure (yh * 100 + yl, m, d, rest)
  | _ => none

/-- `Z`, `z`, `±HH:MM`, `±HHMM` (hours ≤ 23, minutes ≤ 59) or nothing: `some none` naive, `some (some secs)` aware -/
def parseTz (l : List Char) : Option (Option Int) :=
  let hm (sign : Int) (h1 h2 m1 m2 : Char) : Option (Option Int) := do
    let h ← num2 h1 h2; let m ← num2 m1 m2
    if h > 23 || m > 59 then none else pure (some (sign * (h * 3600 + m * 60)))
  match l with
  | [] => some none
  | ['Z'] => some (some 0)
  | ['z'] => some (some 0)
  | ['+', h1, h2, ':', m1, m2] => hm 1 h1 h2 m1 m2
  | ['-', h1, h2, ':', m1, m2] => hm (-1) h1 h2 m1 m2
  | ['+', h1, h2, m1, m2] => hm 1 h1 h2 m1 m2
  | ['-', h1, h2, m1, m2] => hm (-1) h1 h2 m1 m2
  | ['\u2212', h1, h2, ':', m1, m2] => hm (-1) h1 h2 m1 m2     -- U+2212 MINUS SIGN is accepted too
  | ['\u2212', h1, h2, m1, m2] => hm (-1) h1 h2 m1 m2
  | _ => none

/-- `HH:MM[:SS[(.|,)f+]]` then the zone: (µs of day, zone).  Fraction digits beyond the sixth are
    dropped (speedate's default `MicrosecondsPrecisionOverflowBehavior::Truncate`). -/
def parseTimeTz (l : List Char) : Option (Int × Option Int) :=
  let fraction (h m s : Int) (rest3 : List Char) : Option (Int × Option Int) :=
    let (fs, rest4) := splitDigits rest3
    if fs.isEmpty then none else do
      let fs6 := fs.take 6
      let frac : Int := (digitsVal fs6 * 10 ^ (6 - fs6.length) : Nat)
      let tz ← parseTz rest4
      pure ((h * 3600 + m * 60 + s) * usPerSec + frac, tz)
  match l with
  | h1 :: h2 :: ':' :: m1 :: m2 :: rest => do
    let h ← num2 h1 h2; let m ← num2 m1 m2
    if h > 23 || m > 59 then none else
    match rest with
    | ':' :: s1 :: s2 :: rest2 => do
      let s ← num2 s1 s2
      if s > 59 then none else
      match rest2 with
      | '.' :: rest3 => fraction h m s rest3
      | ',' :: rest3 => fraction h m s rest3
      | _ => do
        let tz ← parseTz rest2
        pure ((h * 3600 + m * 60 + s) * usPerSec, tz)
    | _ => do
      let tz ← parseTz rest
      pure ((h * 3600 + m * 60) * usPerSec, tz)
  | _ => none

/-- pydantic's `datetime` from a string, for the ISO shapes
    `YYYY-MM-DD` and `YYYY-MM-DD[T t_ ]HH:MM[:SS[.f{1,6}]][Z|z|±HH:MM|±HHMM]`.
    A string with no digit is certainly refused; any other shape (unix timestamps as text, more
    than six fraction digits …) is `unsupported`.  Result: (UTC instant µs — a naive value read as
    UTC —, offset). -/
def pydDatetime (s : String) : Res (Option (Int × Option Int)) :=
  let l := s.toList
  if !l.any isAsciiDigit then pure none else
  match parseDate l with
  | none =>
    -- not `YYYY-MM-DD…`: speedate falls back to a unix timestamp, `[+-]?[0-9]*[.]?[0-9]*` with a digit
    -- (clean integers are handled by the caller; a fraction goes through f64 arithmetic: not modelled),
    -- and refuses everything else — no trimming, no underscores, no exponent
    if l.all (fun c => isAsciiDigit c || c == '+' || c == '-' || c == '.') && l.contains '.' then unsupported
    else pure none
  | some (y, m, d, rest) =>
    let dateOk := decide (1 ≤ y) && decide (1 ≤ m) && decide (m ≤ 12) && decide (1 ≤ d) && decide (d ≤ daysInMonth y m)
    let day := daysFromCivil y m d * usPerDay
    match rest with
    | [] => if dateOk then pure (some (day, none)) else pure none    -- year 0: refused by `datetime`
    | sep :: t =>
      if !(sep == 'T' || sep == 't' || sep == ' ' || sep == '_') then pure none else
      match parseTimeTz t with
      | none => pure none
      | some (tod, tz) =>
        if y == 0 then pure none
        else if !dateOk then pure none
        else
          let inst := day + tod - (tz.getD 0) * usPerSec
          -- the year 1 / 9999 edges where the zone pushes the instant out of range
          if y == 1 || y == 9999 then (if tz.isSome && tz != some 0 then unsupported else pure (some (inst, tz)))
          else pure (some (inst, tz))

def msWatershed : Int := 20000000000
/-- first / last instant (µs) pydantic makes out of a number: 0001-01-01T00:00:00Z … 9999-12-31T23:59:59.999999Z -/
def minTimestampUs : Int := -62135596800000000
def maxTimestampUs : Int := 253402300799999999

/-- pydantic's `datetime` from a whole number (speedate `from_timestamp`): seconds since the epoch when
    `|i| ≤ 2·10^10`, otherwise MILLISECONDS; outside the years 1–9999 refused.  The result is aware, UTC. -/
def pydDatetimeOfNumber (i : Int) : Option (Int × Option Int) :=
  let us := if -msWatershed ≤ i && i ≤ msWatershed then i * usPerSec else i * 1000
  if minTimestampUs ≤ us && us ≤ maxTimestampUs then some (us, some 0) else none

/-! ### paths -/

def splitOn (c : Char) : List Char → List (List Char)
  | [] => [[]]
  | x :: r =>
    if x == c then [] :: splitOn c r
    else match splitOn c r with
      | [] => [[x]]
      | h :: t => (x :: h) :: t

/-- `str(Path(s)) == s`: no empty, `.` or trailing segments that `PurePosixPath` would normalise away -/
def pathIsClean (s : String) : Bool :=
  let l := s.toList
  if l.isEmpty then false
  else if l == ['/'] then true
  else
    let segs := splitOn '/' l
    let body := match segs with
      | [] :: r => r          -- absolute
      | r => r
    !body.isEmpty && body.all (fun seg => !seg.isEmpty && seg != ['.']) && !l.contains '\x00'

/-- `str(PurePosixPath(s))`: empty and `.` segments dropped, slashes collapsed (exactly two leading
    slashes are kept), no trailing slash, the empty path is `.`; `..` is kept -/
def posixPathNorm (s : String) : String :=
  let l := s.toList
  let root : List Char :=
    if l.take 2 == ['/', '/'] && l.take 3 != ['/', '/', '/'] then ['/', '/']
    else if l.take 1 == ['/'] then ['/'] else []
  let segs := (splitOn '/' l).filter fun seg => !seg.isEmpty && seg != ['.']
  let body := List.intercalate ['/'] segs
  if root.isEmpty && body.isEmpty then "." else String.ofList (root ++ body)

/-! ### scalars -/

def boolTrueWords : List String := ["1", "on", "t", "true", "y", "yes"]
def boolFalseWords : List String := ["0", "off", "f", "false", "n", "no"]

def asciiLower (s : String) : String :=
  String.ofList (s.toList.map fun c => if 'A' ≤ c && c ≤ 'Z' then Char.ofNat (c.toNat + 32) else c)

def inBounds (ge le gt : Option Int) (i : Int) : Bool :=
  (match ge with | some b => decide (b ≤ i) | none => true) &&
  (match le with | some b => decide (i ≤ b) | none => true) &&
  (match gt with | some b => decide (b < i) | none => true)

def floatExactLimit : Int := 9007199254740992     -- 2^53

/-- Rust `char::is_whitespace` (the Unicode `White_Space` property): what `str::trim` strips.
    (Not Python's `str.isspace`: U+001C–U+001F are not in it.) -/
def isRustWhitespace (c : Char) : Bool :=
  let n := c.toNat
  (9 ≤ n && n ≤ 13) || n == 32 || n == 0x85 || n == 0xA0 || n == 0x1680 || (0x2000 ≤ n && n ≤ 0x200A) ||
  n == 0x2028 || n == 0x2029 || n == 0x202F || n == 0x205F || n == 0x3000

def trimBy (p : Char → Bool) (l : List Char) : List Char :=
  ((l.dropWhile p).reverse.dropWhile p).reverse

/-- `[0-9]+(_[0-9]+)*`: the digits, underscores removed (`none`: not of that shape) -/
def underscoredDigits (l : List Char) : Option (List Char) :=
  let gs := splitOn '_' l
  if gs.all (fun g => !g.isEmpty && g.all isAsciiDigit) then some gs.flatten else none

/-- a `.0+` suffix removed (pydantic-core `strip_decimal_zeros`); anything else unchanged -/
def stripDecimalZeros (l : List Char) : List Char :=
  let r := l.reverse
  match r.dropWhile (· == '0') with
  | '.' :: rest => if (r.takeWhile (· == '0')).isEmpty then l else rest.reverse
  | _ => l

/-- CPython's / pydantic-core's limit on the length of a decimal integer string -/
def maxIntStrLen : Nat := 4300

/-- pydantic-core `str_as_int` (lax `int` from a `str`), established by experiment (pydantic 2.13 /
    pydantic-core 2.46; exhaustively over `[0_5+-. ]{1,6}`): Unicode white space trimmed, one optional
    sign, an optional `.0+` suffix, then decimal digits in groups separated by single underscores, of any
    magnitude (big integers) — except that after a LEADING ZERO any run of zeros and underscores is skipped
    first (`0__5` is 5 although `1__5` is refused), provided the text neither starts nor ends with an
    underscore.  No other character is accepted — in particular no non-ASCII digit.
    `unsupported`: strings beyond the 4300-character limit (refused or not depending on leading zeros),
    and text over `[0-9_+-]` with a sign somewhere after a leading zero (`0_-5` is read as -5, `0-05` is
    refused: not modelled; with any other character it is refused). -/
def pydStrInt (s : String) : Res (Option Int) :=
  let l := trimBy isRustWhitespace s.toList
  if l.length > maxIntStrLen then unsupported else
  let b := stripDecimalZeros (signedBody l)
  let signed (n : Nat) : Int := if l.head? == some '-' then -(n : Int) else (n : Int)
  if b.any (fun c => !(isAsciiDigit c || c == '_' || c == '+' || c == '-')) then pure none
  else if b.head? == some '0' && b.any (fun c => c == '+' || c == '-') then unsupported
  else if b.head? == some '_' || b.getLast? == some '_' then pure none
  else
    let b' := if b.head? == some '0' then b.dropWhile (fun c => c == '0' || c == '_') else b
    if b.head? == some '0' && b'.isEmpty then pure (some 0)
    else match underscoredDigits b' with
      | some ds => pure (some (signed (digitsVal ds)))
      | none => pure none

/-- the integer a lax pydantic `int` makes of a value: `ok (some i)`, `ok none` = refused -/
def laxInt (v : CVal) : Res (Option Int) :=
  match v with
  | .int i => pure (some i)
  | .bool b => pure (some (if b then 1 else 0))
  | .float t integral =>
    if !integral then pure none      -- int_from_float / finite_number
    else match t with
      -- `float_as_int`: strictly between `i64::MIN as f64` and `i64::MAX as f64` (= ±2^63), else int_parsing_size
      | some i => pure (if -i64Limit < i && i < i64Limit then some i else none)
      | none => pure none
  | .str s => pydStrInt s
  | _ => pure none

/-- one scalar alternative, in strict or lax mode -/
def valScalar (env : Env) (strict : Bool) (sc : Scalar) (v : CVal) : Res (Option CVal) :=
  match sc with
  | .null => pure (match v with | .null => some .null | _ => none)
  | .bool =>
    match v with
    | .bool b => pure (some (.bool b))
    | .int i => pure (if strict then none else if i == 0 then some (.bool false) else if i == 1 then some (.bool true) else none)
    | .float t integral =>
      pure (if strict || !integral then none
            else if t == some 0 then some (.bool false) else if t == some 1 then some (.bool true) else none)
    | .str s =>
      pure (if strict then none
            else let w := asciiLower s
              if boolTrueWords.contains w then some (.bool true)
              else if boolFalseWords.contains w then some (.bool false) else none)
    | _ => pure none
  | .int ge le gt => do
    let cand ← (match v with
      | .int i => pure (some i)
      | _ => if strict then pure none else laxInt v : Res (Option Int))
    pure (match cand with
      | some i => if inBounds ge le gt i then some (.int i) else none
      | none => none)
  | .str pat =>
    match v with
    | .str s =>
      match pat with
      | none => pure (some (.str s))
      | some p => do
        let m ← matchPattern p s
        pure (if m then some (.str s) else none)
    | _ => pure none
  | .duration =>
    match v with
    | .td u => pure (some (.td u))
    | _ =>
      if strict then pure none else
      match v with
      | .int i => do let r ← pydDurationOfSeconds i; pure (r.map .td)
      | .bool b => pure (some (.td (if b then usPerSec else 0)))
      | .float t integral =>
        match t with
        | none => pure none                       -- inf / nan
        | some i => if integral then do let r ← pydDurationOfFloat i; pure (r.map .td)
                    else unsupported               -- a fraction is not in the tree encoding
      | .str s => do let r ← pydDuration s; pure (r.map .td)
      | _ => pure none
  | .datetime =>
    match v with
    | .ts us off => pure (some (.ts us off))
    | _ =>
      if strict then pure none else
      match v with
      | .date d => pure (some (.ts (d * usPerDay) none))
      | .int i => pure ((pydDatetimeOfNumber i).map fun (us, off) => .ts us off)
      | .float t integral =>
        match t with
        -- an integral float is the same number as the int (from 2^53 on it is out of range either way);
        -- a fraction is not in the tree encoding
        | some i => if integral
                    then pure ((pydDatetimeOfNumber i).map fun (us, off) => .ts us off) else unsupported
        | none => pure none                        -- inf / nan
      | .str s =>
        match parseCleanInt s.toList with
        | some i =>
          -- speedate reads the digits as an `i64`; beyond it the float fallback decides (always refused: not modelled)
          if -i64Limit < i && i < i64Limit then pure ((pydDatetimeOfNumber i).map fun (us, off) => .ts us off)
          else unsupported
        | none => do let r ← pydDatetime s; pure (r.map fun (us, off) => .ts us off)
      | _ => pure none
  | .filePath =>
    match v with
    | .str s =>
      if strict then pure none
      else if !env.fileExists s then pure none
      else if pathIsClean s then pure (some (.str s)) else unsupported
    | _ => pure none
  | .path =>
    match v with
    | .str s => if strict then pure none else pure (some (.str (posixPathNorm s)))
    | _ => pure none
  | .algByName =>
    -- `algorithm_by_name` (mode="before"): `AlgorithmDNSSEC[v]`; KeyError → ValueError → collected;
    -- an unhashable value raises TypeError, which pydantic does not catch
    match v with
    | .str s =>
      match List.lookup s env.algNames with
      | some n => pure (some (.int n))
      | none => pure none
    | .list _ => err .type
    | .map _ => err .type
    | _ => pure none
  | .enumMember => if strict then pure none else unsupported

def firstSome : List (Res (Option CVal)) → Res (Option CVal)
  | [] => pure none
  | x :: r => do
    match ← x with
    | some v => pure (some v)
    | none => firstSome r

/-- a (possibly one-element) union in pydantic's "smart" mode: every alternative strictly first,
    then — unless the model is strict — every alternative in lax mode -/
def valUnion (env : Env) (strict : Bool) (alts : List Scalar) (v : CVal) : Res (Option CVal) :=
  firstSome (alts.map (fun a => valScalar env true a v) ++
    (if strict then [] else alts.map (fun a => valScalar env false a v)))

/-! ### containers and models -/

/-- run the validators in order: the first escaping exception wins, otherwise any collected
    validation error makes the whole `none` -/
def sequenceV {α : Type} : List (Res (Option α)) → Res (Option (List α))
  | [] => pure (some [])
  | x :: xs => do
    let a ← x
    let r ← sequenceV xs
    pure (match a, r with
      | some a, some r => some (a :: r)
      | _, _ => none)

def hasDupInt : List Int → Bool
  | [] => false
  | x :: r => r.contains x || hasDupInt r

def keyIsStr : CVal → Bool | .str _ => true | _ => false

/-- a key of the input object that the model does not declare (or that is not a string at all) -/
def isExtraKey (s : ObjSchema) (k : CVal) : Bool :=
  match k with
  | .str name => !s.fieldNames.contains name
  | _ => true

/-- the `turn_into_list` before-validator -/
def applyStrToList (f : Field) (v : CVal) : CVal :=
  if f.strToList then (match v with | .str s => .list [.str s] | _ => v) else v

/-- a key of a `Mapping[str | int, …]`: int keys go through the lax `int`, str keys must be strings -/
def valKey (intKeys : Bool) (k : CVal) : Res (Option CVal) :=
  if intKeys then do
    let i ← laxInt k
    pure (i.map .int)
  else pure (if keyIsStr k then some k else none)

/-- one entry of a mapping: key, then value -/
def valEntry (intKeys : Bool) (rec : CVal → Res (Option CVal)) (kv : CVal × CVal) :
    Res (Option (CVal × CVal)) := do
  let k ← valKey intKeys kv.1
  let x ← rec kv.2
  pure (match k, x with
    | some k, some x => some (k, x)
    | _, _ => none)

/-- the `validity_without_timezone_is_utc` after-validator (`KSKKey.valid_from` / `valid_until`), run on
    the VALIDATED value: `v.replace(tzinfo=timezone.utc)` when `v` is a datetime without time zone —
    the same wall-clock fields, offset 0 (`us` already reads a naive value as if UTC, so it is kept) —,
    anything else (`None`, an aware datetime) returned as it is.  It cannot raise. -/
def applyNaiveIsUtc (f : Field) (v : CVal) : CVal :=
  if f.naiveIsUtc then (match v with | .ts us none => .ts us (some 0) | _ => v) else v

/-- the value of one PRESENT option: before-validators, the field type in the given mode, then — only
    when that succeeded — the after-validators (pydantic's `function-after` schema) -/
def valFieldValue (rec : Bool → STy → CVal → Res (Option CVal)) (strict : Bool) (f : Field) (x : CVal) :
    Res (Option CVal) := do
  let y ← rec strict f.ty (applyStrToList f x)
  pure (y.map (applyNaiveIsUtc f))

/-- one declared option of a model: absent → its default, NOT validated and so not passed through
    the after-validators either (a required one is an error);
    present → validated (`valFieldValue`) in the MODEL's own mode -/
def valField (rec : Bool → STy → CVal → Res (Option CVal)) (s : ObjSchema) (kvs : List (CVal × CVal))
    (f : Field) : Res (Option (CVal × CVal)) :=
  match CVal.lookupStr kvs f.name with
  | none => pure (if f.required then none else f.default.map fun d => (CVal.str f.name, d))
  | some x => do
    let y ← valFieldValue rec s.strict f x
    pure (y.map fun y => (CVal.str f.name, y))

/-- unknown / non-string keys: refused unless the model allows extras (then they are dropped) -/
def hasExtras (s : ObjSchema) (kvs : List (CVal × CVal)) : Bool :=
  kvs.any fun kv => if s.additionalProperties then !keyIsStr kv.1 else isExtraKey s kv.1

/-- `model_validate` against a schema type, with the recursion depth as fuel (the schema table is
    finite and not recursive: depth 8 is never reached by `KSKMConfig`). -/
def validate (env : Env) : Nat → Bool → STy → CVal → Res (Option CVal)
  | 0, _, _, _ => unsupported
  | fuel + 1, strict, ty, v =>
    match ty with
    | .scalar alts => valUnion env strict alts v
    | .anyMap =>
      match v with
      | .map kvs => pure (if kvs.all (fun kv => keyIsStr kv.1) then some (.map kvs) else none)
      | _ => pure none
    | .list item =>
      match v with
      | .list xs => do
        let r ← sequenceV (xs.map (validate env fuel strict item))
        pure (r.map .list)
      | _ => pure none
    | .set _ => if strict then pure none else unsupported     -- no tree value is a Python `set`
    | .mapOf intKeys val =>
      match v with
      | .map kvs => do
        let r ← sequenceV (kvs.map (valEntry intKeys (validate env fuel strict val)))
        match r with
        | none => pure none
        | some out =>
          if intKeys && hasDupInt (out.filterMap fun kv => kv.1.getInt?) then unsupported
          else pure (some (.map out))
      | _ => pure none
    | .model name =>
      match findSchema env.tbl name with
      | none => unsupported
      | some s =>
        match v with
        | .map kvs => do
          let r ← sequenceV (s.fields.map (valField (validate env fuel) s kvs))
          pure (if hasExtras s kvs then none else r.map .map)
        | _ => pure none

/-! ### `_transform_config` -/

/-- `d[name] = v` on an insertion-ordered dict -/
def setKey : List (CVal × CVal) → String → CVal → List (CVal × CVal)
  | [], name, v => [(.str name, v)]
  | (k, x) :: r, name, v =>
    match k with
    | .str s => if s = name then (k, v) :: r else (k, x) :: setKey r name v
    | _ => (k, x) :: setKey r name v

def isStrKey (name : String) (k : CVal) : Bool :=
  match k with
  | .str s => s == name
  | _ => false

/-- Python `needle in haystack` for strings -/
def isInfix (needle : List Char) : List Char → Bool
  | [] => needle.isEmpty
  | c :: r => needle.isPrefixOf (c :: r) || isInfix needle r

def delKey (kvs : List (CVal × CVal)) (name : String) : List (CVal × CVal) :=
  kvs.filter fun kv => !isStrKey name kv.1

/-- Python `int(x)` -/
def pyIntOf (v : CVal) : Res Int :=
  match v with
  | .int i => pure i
  | .bool b => pure (if b then 1 else 0)
  | .float (some t) _ => pure t
  | .float none _ => unsupported
  | .str s =>
    match strInt s with
    | some (some i) => pure i
    | some none => err .value
    | none => unsupported
  | _ => err .type

def mapDurations : List (CVal × CVal) → Res (List (CVal × CVal))
  | [] => pure []
  | (k, v) :: r => do
    let d ← durationToTimedelta v
    let r' ← mapDurations r
    pure ((k, .td d) :: r')

/-- step 1: `ksk_policy` without a `signature_policy` key is split into `ttl`, `signers_name` and a
    `signature_policy` whose every other entry goes through `duration_to_timedelta` -/
def transformKskPolicy (kvs : List (CVal × CVal)) : Res (List (CVal × CVal)) :=
  match CVal.lookupStr kvs "ksk_policy" with
  | none => pure kvs
  | some kp =>
    match kp with
    | .map pk =>
      if (CVal.lookupStr pk "signature_policy").isSome then pure kvs else do
        let moved := ["ttl", "signers_name"].filterMap fun n => (CVal.lookupStr pk n).map fun v => (CVal.str n, v)
        let rest := delKey (delKey pk "ttl") "signers_name"
        let sp ← mapDurations rest
        pure (setKey kvs "ksk_policy" (.map (moved ++ [(.str "signature_policy", .map sp)])))
    -- `"signature_policy" not in x` on a str is a substring test, on a list a membership test; then
    -- `.pop` / `.items()` raise AttributeError (TypeError for `list.pop("ttl")`)
    | .str t => if isInfix "signature_policy".toList t.toList then pure kvs else err .attribute
    | .list xs => if xs.any (isStrKey "signature_policy") then pure kvs else err .attribute
    | _ => err .type            -- `argument of type 'NoneType' is not iterable`

/-- step 2: `keys` → `ksk_keys` -/
def transformKeys (kvs : List (CVal × CVal)) : List (CVal × CVal) :=
  match CVal.lookupStr kvs "keys" with
  | none => kvs
  | some k => setKey (delKey kvs "keys") "ksk_keys" k

/-- step 3: `request_policy.dns_ttl == 0` is replaced by `ksk_policy["ttl"]` when both sections are
    present (a `KeyError` when the ksk_policy section has no `ttl`) -/
def transformDnsTtl (fallback : Option CVal) (kvs : List (CVal × CVal)) : Res (List (CVal × CVal)) :=
  match CVal.lookupStr kvs "ksk_policy", CVal.lookupStr kvs "request_policy" with
  | some kp, some rp =>
    match rp with
    | .map rpk =>
      match CVal.lookupStr rpk "dns_ttl" with
      | none => pure kvs
      | some d => do
        let i ← pyIntOf d
        if i != 0 then pure kvs else
        match kp with
        | .map kpk =>
          match (CVal.lookupStr kpk "ttl").or fallback with
          | none => err .key
          | some t => pure (setKey kvs "request_policy" (.map (setKey rpk "dns_ttl" t)))
        | _ => err .type        -- `str` / `list` indexed with "ttl"
    | .str t => if isInfix "dns_ttl".toList t.toList then err .type else pure kvs
    | .list xs => if xs.any (isStrKey "dns_ttl") then err .type else pure kvs
    | _ => err .type
  | _, _ => pure kvs

/-- is the tree value hashable (usable as a `dict` key)?  lists and mappings are not -/
def hashable : CVal → Bool
  | .list _ => false
  | .map _ => false
  | _ => true

/-- one element of the sequence given to `dict(…)`: it must be iterable (else TypeError) with exactly
    two items (else ValueError), the first of them hashable (else TypeError).  A two-character string
    gives its characters, a two-entry mapping its two keys. -/
def dictPairOf (x : CVal) : Res (CVal × CVal) :=
  match x with
  | .list [k, v] => if hashable k then pure (k, v) else err .type
  | .list _ => err .value
  | .str s =>
    match s.toList with
    | [a, b] => pure (.str (String.ofList [a]), .str (String.ofList [b]))
    | _ => err .value
  | .map [(k1, _), (k2, _)] => pure (k1, k2)
  | .map _ => err .value
  | _ => err .type              -- `cannot convert dictionary update sequence element #i to a sequence`

/-- `dict(list)`: the elements in order, the first bad one raises.  When every element is a pair the
    result is decided only for distinct string keys (no overwriting, no int-vs-bool key folding). -/
def dictOfPairs : List CVal → Res (List (CVal × CVal))
  | [] => pure []
  | x :: r => do
    let kv ← dictPairOf x
    let rest ← dictOfPairs r
    match kv.1 with
    | .str name => if rest.any (fun q => isStrKey name q.1) then unsupported else pure (kv :: rest)
    | _ => unsupported

/-- `dict(config)` -/
def topLevelDict (c : CVal) : Res (List (CVal × CVal)) :=
  match c with
  | .map kvs => pure kvs
  -- a non-empty string: element #0 is a one-character string, `length 1; 2 is required`
  | .str s => if s.isEmpty then pure [] else err .value
  | .list xs => dictOfPairs xs
  | _ => err .type              -- `'NoneType' object is not iterable`

def transformConfig (fallback : Option CVal) (c : CVal) : Res (List (CVal × CVal)) := do
  let kvs ← topLevelDict c
  let kvs ← transformKskPolicy kvs
  transformDnsTtl fallback (transformKeys kvs)

/-! ### `KSKMConfig.from_dict` -/

def validateFuel : Nat := 8

def intAt (loaded : CVal) (sect field : String) : Option Int := do
  let s ← loaded.get? sect
  let v ← s.get? field
  v.getInt?

/-- the three load-time positivity checks -/
def positivityChecks (loaded : CVal) : Res Unit :=
  match intAt loaded "request_policy" "signature_horizon_days",
        intAt loaded "request_policy" "num_bundles",
        intAt loaded "request_policy" "num_different_keys_in_all_bundles" with
  | some h, some n, some k =>
    if h < 1 then err .configuration
    else if n < 1 then err .configuration
    else if k < 1 then err .configuration
    else pure ()
  | _, _, _ => unsupported

def fromDict (env : Env) (c : CVal) : Res CVal := do
  let kvs ← transformConfig env.kskTtlFallback c
  match ← validate env validateFuel false (.model "KSKMConfig") (.map kvs) with
  | none => err .validation
  | some loaded =>
    positivityChecks loaded
    pure loaded

/-! ### the loaded sections as the policy records of Kskm/Data.lean -/

def boolField (m : CVal) (n : String) : Option Bool := (m.get? n).bind CVal.getBool?
def intField (m : CVal) (n : String) : Option Int := (m.get? n).bind CVal.getInt?
def tdField (m : CVal) (n : String) : Option Int := (m.get? n).bind CVal.getTd?
def intListField (m : CVal) (n : String) : Option (List Int) := (m.get? n).bind CVal.getIntList?
def strListField (m : CVal) (n : String) : Option (List String) := (m.get? n).bind CVal.getStrList?

/-- `RequestPolicy` out of a loaded `request_policy` section (`approved_algorithms` resolved to
    numbers as harness/lib.py:request_policy_j does) -/
def toRequestPolicy (algNames : List (String × Nat)) (m : CVal) : Option RequestPolicy := do
  pure {
    acceptableDomains := ← strListField m "acceptable_domains"
    numBundles := ← intField m "num_bundles"
    validateSignatures := ← boolField m "validate_signatures"
    keysMatchZskPolicy := ← boolField m "keys_match_zsk_policy"
    rsaExponentMatchZskPolicy := ← boolField m "rsa_exponent_match_zsk_policy"
    enableUnsupportedEcdsa := ← boolField m "enable_unsupported_ecdsa"
    enableUnsupportedEdwardsDsa := ← boolField m "enable_unsupported_edwards_dsa"
    checkCycleLength := ← boolField m "check_cycle_length"
    minCycleInceptionLength := ← tdField m "min_cycle_inception_length"
    maxCycleInceptionLength := ← tdField m "max_cycle_inception_length"
    minBundleInterval := ← tdField m "min_bundle_interval"
    maxBundleInterval := ← tdField m "max_bundle_interval"
    checkBundleOverlap := ← boolField m "check_bundle_overlap"
    signatureAlgorithmsMatchZskPolicy := ← boolField m "signature_algorithms_match_zsk_policy"
    approvedAlgorithms := (← strListField m "approved_algorithms").map (fun n => List.lookup n algNames)
    rsaApprovedExponents := ← intListField m "rsa_approved_exponents"
    rsaApprovedKeySizes := ← intListField m "rsa_approved_key_sizes"
    signatureValidityMatchZskPolicy := ← boolField m "signature_validity_match_zsk_policy"
    checkKeysMatchKskOperatorPolicy := ← boolField m "check_keys_match_ksk_operator_policy"
    numKeysPerBundle := ← intListField m "num_keys_per_bundle"
    numDifferentKeysInAllBundles := ← intField m "num_different_keys_in_all_bundles"
    dnsTtl := ← intField m "dns_ttl"
    signatureCheckExpireHorizon := ← boolField m "signature_check_expire_horizon"
    signatureHorizonDays := ← intField m "signature_horizon_days"
    checkBundleIntervals := ← boolField m "check_bundle_intervals"
    checkChainKeys := ← boolField m "check_chain_keys"
    checkChainKeysInHsm := ← boolField m "check_chain_keys_in_hsm"
    checkChainOverlap := ← boolField m "check_chain_overlap"
    checkKeysPublishSafety := ← boolField m "check_keys_publish_safety"
    checkKeysRetireSafety := ← boolField m "check_keys_retire_safety" }

def toResponsePolicy (m : CVal) : Option ResponsePolicy := do
  pure { numBundles := ← intField m "num_bundles", validateSignatures := ← boolField m "validate_signatures" }

/-- the default instance `Model()` according to a schema table -/
def defaultInstance (tbl : List ObjSchema) (model : String) : Option CVal := do
  let s ← findSchema tbl model
  let fs ← s.fields.mapM fun f => f.default.map fun d => (CVal.str f.name, d)
  pure (.map fs)

/-! ### tools/ksrsigner.py:main — loader outcome → exit status -/

inductive LoaderOutcome where
  | loaded                      -- `get_config` returned
  | fileNotFound                -- FileNotFoundError (caught in `ksrsigner`, which returns False)
  | configurationError          -- kskm.common.config.ConfigurationError
  | validationError             -- pydantic.ValidationError
  | otherException              -- TypeError, KeyError, ValueError, yaml.YAMLError, … (uncaught)
  | keyboardInterrupt
  deriving DecidableEq, Repr, Inhabited

structure ExitCodes where
  success : Int
  interrupt : Int
  config : Int
  fatal : Int
  deriving DecidableEq, Repr

def exitCodesOf (t : List (String × Nat)) : Option ExitCodes := do
  let get (k : String) : Option Int := (List.lookup k t).map Int.ofNat
  pure { success := ← get "success", interrupt := ← get "interrupt",
         config := ← get "config", fatal := ← get "fatal" }

/-- the status CPython exits with when an exception leaves `main()` uncaught -/
def uncaughtExceptionStatus : Int := 1

/-- `main()`: `validationCaught` is the behaviour switch (F3): does `main` map the loader's
    `ValidationError` to the configuration status, or does it escape?  `restOk` is what the rest of
    `ksrsigner()` returns once a configuration is loaded (other properties' subject). -/
def mainStatus (codes : ExitCodes) (validationCaught : Bool) (o : LoaderOutcome) (restOk : Bool) : Int :=
  match o with
  | .loaded => if restOk then codes.success else codes.fatal
  | .fileNotFound => codes.fatal
  | .configurationError => codes.config
  | .validationError => if validationCaught then codes.config else uncaughtExceptionStatus
  | .otherException => uncaughtExceptionStatus
  | .keyboardInterrupt => codes.interrupt

/-- the F3 behaviour switch, from the exit statuses observed by running the real `main()`:
    does a schema-invalid configuration exit with the configuration status? -/
def validationCaughtOf (observed : List (String × Int)) (codes : List (String × Nat)) : Bool :=
  List.lookup "validation_error" observed == (List.lookup "config" codes).map Int.ofNat

/-- what `get_config` did, from the model's `fromDict` answer (`none`: the model declines) -/
def outcomeOf (r : Res CVal) : Option LoaderOutcome :=
  match r with
  | .ok _ => some .loaded
  | .error (.error .configuration) => some .configurationError
  | .error (.error .validation) => some .validationError
  | .error (.error _) => some .otherException
  | .error (.violation _) => some .otherException
  | .error .unsupported => none

end Kskm.Config
