/-
  Kskm.FileEffects — the file-facing steps of the loaders and writers, as effect sequences (C17).

      ksr/load.py:load_ksr / request_from_xml_file      skr/load.py:load_skr
      signer/__init__.py:output_skr_xml                  tools/trustanchor.py:output_trustanchor_xml
      common/config.py:get_config

  The file system is adversarial: the content of the path is a FUNCTION OF THE OPERATION INDEX
  (`content : Nat → Bytes`).  Every file operation (open, fstat, read) consumes one tick of a counter
  and observes `content tick`, so a `content` is exactly one schedule of replacements / in-place edits
  between successive opens and reads during a run; theorems quantify over all of them.

  The hash, the XML parser and the validator are parameters.
-/
import Kskm.Wordlist
namespace Kskm

inductive FileEffect where
  /-- `open(path, "rb")` at tick `t` -/
  | openRead (path : String) (t : Nat)
  /-- `os.fstat(fd.fileno()).st_size` at tick `t` -/
  | fstat (path : String) (t : Nat) (size : Nat)
  /-- `fd.read(...)` at tick `t`, returning `data` -/
  | read (path : String) (t : Nat) (data : Bytes)
  /-- `fd.seek(0)` on the open descriptor -/
  | seek0 (path : String)
  | close (path : String)
  /-- `open(path, "wb")` -/
  | openWrite (path : String)
  /-- `fd.write(data)` -/
  | write (path : String) (data : Bytes)
  /-- a log record carrying `checksum_bytes2str(...)`; `digest` is the hash value it renders -/
  | logDigest (what : String) (path : String) (digest : Bytes)
  /-- `print(xml)` when no output file name is given -/
  | print (text : Bytes)
  deriving DecidableEq, Repr

def FileEffect.isRead : FileEffect → Bool | .read .. => true | _ => false
def FileEffect.isOpenRead : FileEffect → Bool | .openRead .. => true | _ => false
def FileEffect.isWrite : FileEffect → Bool | .write .. => true | _ => false
def FileEffect.isOpenWrite : FileEffect → Bool | .openWrite .. => true | _ => false
def FileEffect.isLogDigest : FileEffect → Bool | .logDigest .. => true | _ => false

/-- what `request_from_xml_file` adds to the parsed body -/
structure LoadedRequest (α : Type) where
  body : α
  xmlFilename : String
  xmlHash : Option Bytes

/-- `request_from_xml_file(filename, xml_bytes)`: hash and parse the SAME argument -/
def requestFromXmlFile {α} (hash : Bytes → Bytes) (parse : Bytes → Res α) (filename : String)
    (xmlBytes : Bytes) : Res (LoadedRequest α) := do
  let xmlHash := hash xmlBytes
  let body ← parse xmlBytes          -- `xml_bytes.decode()` + `request_from_xml`
  pure { body, xmlFilename := filename, xmlHash := some xmlHash }

/-- `load_ksr(filename, policy, raise_original)`: one open, the size gate on `fstat`, ONE read of at
    most `maxSize` octets, then log line, parse and validation all from that buffer. -/
def loadKsr {α} (maxSize : Nat) (hash : Bytes → Bytes) (parse : Bytes → Res α)
    (validate : α → Res Unit) (raiseOriginal : Bool)
    (path : String) (content : Nat → Bytes) (t0 : Nat) : Res (LoadedRequest α) × List FileEffect :=
  let size := (content (t0 + 1)).length
  if size > maxSize then
    (err .runtime, [.openRead path t0, .fstat path (t0 + 1) size, .close path])
  else
    let xmlBytes := (content (t0 + 2)).take maxSize
    let effs : List FileEffect :=
      [.openRead path t0, .fstat path (t0 + 1) size, .read path (t0 + 2) xmlBytes, .close path,
       .logDigest "Loaded KSR from file" path (hash xmlBytes)]
    match requestFromXmlFile hash parse path xmlBytes with
    | .error e => (.error e, effs)
    | .ok request =>
      match validate request.body with
      | .ok () => (.ok request, effs)
      | .error (.violation r) => (if raiseOriginal then violation r else err .runtime, effs)
      | .error e => (.error e, effs)

/-- `load_skr(filename, policy)`: the same shape; a policy violation always becomes `RuntimeError` -/
def loadSkr {α} (maxSize : Nat) (hash : Bytes → Bytes) (parse : Bytes → Res α)
    (validate : α → Res Unit)
    (path : String) (content : Nat → Bytes) (t0 : Nat) : Res α × List FileEffect :=
  let size := (content (t0 + 1)).length
  if size > maxSize then
    (err .runtime, [.openRead path t0, .fstat path (t0 + 1) size, .close path])
  else
    let xmlBytes := (content (t0 + 2)).take maxSize
    let effs : List FileEffect :=
      [.openRead path t0, .fstat path (t0 + 1) size, .read path (t0 + 2) xmlBytes, .close path,
       .logDigest "Loaded SKR from file" path (hash xmlBytes)]
    match parse xmlBytes with
    | .error e => (.error e, effs)
    | .ok response =>
      match validate response with
      | .ok () => (.ok response, effs)
      | .error (.violation _) => (err .runtime, effs)
      | .error e => (.error e, effs)

/-- the digests the operator is shown in log records -/
def shownDigests (effs : List FileEffect) : List Bytes :=
  effs.filterMap fun | .logDigest _ _ d => some d | _ => none

/-- the buffers returned by read effects -/
def readBuffers (effs : List FileEffect) : List Bytes :=
  effs.filterMap fun | .read _ _ d => some d | _ => none

/-- the buffers handed to write effects -/
def writtenBuffers (effs : List FileEffect) : List (String × Bytes) :=
  effs.filterMap fun | .write p d => some (p, d) | _ => none

/-- `output_skr_xml(skr, output_filename)` / `output_trustanchor_xml(ta, output_filename, logger)`
    after rendering: `xml_bytes = xml.encode()`, one open-for-write, one write, then the log record
    with `checksum_bytes2str(xml_bytes)`; without a file name the text is printed and nothing logged. -/
def outputXml (what : String) (hash : Bytes → Bytes) (xmlBytes : Bytes) (outputFilename : Option String) :
    List FileEffect :=
  match outputFilename with
  | some path => [.openWrite path, .write path xmlBytes, .close path, .logDigest what path (hash xmlBytes)]
  | none => [.print xmlBytes]

def outputSkrXml := outputXml "Wrote SKR to file"
def outputTrustanchorXml := outputXml "Wrote trust anchor to file"

/-- `get_config(filename)` AS IT IS: one open; `fd.read()` (no size gate) gives the bytes whose
    checksum is logged; `fd.seek(0)`; `KSKMConfig.from_yaml(fd)` reads the SAME open descriptor a
    second time and parses what it gets then.  (`filename = None` gives the default configuration
    without touching any file.) -/
def getConfig {α} (hash : Bytes → Bytes) (parse : Bytes → Res α) (dflt : α)
    (filename : Option String) (content : Nat → Bytes) (t0 : Nat) : Res α × List FileEffect :=
  match filename with
  | none => (.ok dflt, [])
  | some path =>
    let configBytes := content (t0 + 1)
    let second := content (t0 + 2)
    (parse second,
     [.openRead path t0, .read path (t0 + 1) configBytes,
      .logDigest "Loaded configuration from file" path (hash configBytes),
      .seek0 path, .read path (t0 + 2) second, .close path])

end Kskm
