/-
  Kskm.Signer — kskm/signer/key.py, kskm/common/config_ksk.py, kskm/signer/sign.py and
  kskm/signer/__init__.py (create_skr): from a validated request, a schema and a token to the
  response bundles.  Token, hash functions and the software verifier are parameters.
-/
import Kskm.Hsm
import Kskm.Chain
import Kskm.SkrValidate
namespace Kskm

/-- `KSKKey` of common/config_misc.py (one entry of the `keys:` section). -/
structure KskKey where
  label : String
  keyTag : Option Int := none
  algorithm : Nat
  validFrom : Int
  validUntil : Option Int := none
  rsaSize : Option Int := none
  rsaExponent : Option Int := none
  dsSha256 : Option String := none
  hashUsingHsm : Option Bool := none
  deriving DecidableEq, Repr, Inhabited

structure KskPolicy where
  signaturePolicy : SigPolicy := {}
  ttl : Int := 172800
  signersName : String := "."
  deriving DecidableEq, Repr, Inhabited

structure SchemaAction where
  publish : List String
  sign : List String
  revoke : List String := []
  deriving DecidableEq, Repr, Inhabited

/-- What the signer reads from `KSKMConfig`. -/
structure SignerConfig where
  kskKeys : List (String × KskKey)
  kskPolicy : KskPolicy := {}
  responsePolicy : ResponsePolicy := {}
  /-- `schema.actions`: slot number (1-based) ↦ action -/
  actions : List (Nat × SchemaAction)
  deriving DecidableEq, Repr, Inhabited

structure CompositeKey where
  p11 : P11Key
  dns : Key
  deriving DecidableEq, Repr, Inhabited

/-- external functions the signer relies on -/
structure Externals where
  hash : Hasher
  verify : Verifier

def upperHex (b : Bytes) : String :=
  String.ofList (b.flatMap fun x =>
    let d (n : Nat) : Char := if n < 10 then Char.ofNat (48 + n) else Char.ofNat (55 + n)
    [d (x.toNat / 16), d (x.toNat % 16)])

/-- `validate_dnskey_matches_ksk(ksk, dnskey)`: DS SHA-256 (compared upper-case) and key tag, each
    only where configured. -/
def validateDnskeyMatchesKsk (ext : Externals) (ksk : KskKey) (dnskey : Key) : Res Unit := do
  match ksk.dsSha256 with
  | none => pure ()
  | some ds =>
    if ds.isEmpty then pure () else do
    let inp ← dsInput dnskey
    let digest ← hashOrUnknown ext.hash .sha256 inp
    if ds.toUpper != upperHex digest then err .runtime
  match ksk.keyTag with
  | none => pure ()
  | some t => if dnskey.keyTag != t then err .runtime else pure ()

/-- `load_pkcs11_key(ksk, p11modules, ksk_policy, bundle, public)` -/
def loadPkcs11Key (mods : List P11Module) (ksk : KskKey) (pol : KskPolicy) (bundle : Bundle)
    (isPublic : Bool) : TokM (Option CompositeKey) := do
  if ksk.validFrom > bundle.inception then TokM.fail (.violation .keyUsage)
  else match ksk.validUntil with
    | some u => if u < bundle.expiration then TokM.fail (.violation .keyUsage) else pure ()
    | none => pure ()
  match ← getP11Key ksk.label isPublic ksk.hashUsingHsm mods with
  | none => pure none
  | some found => do
    let found ←
      if found.publicKey.isNone && !isPublic then do
        match ← getP11Key ksk.label true ksk.hashUsingHsm mods with
        | some fp => pure { found with publicKey := fp.publicKey }
        | none => pure found
      else pure found
    match found.publicKey with
    | none => pure none
    | some pk =>
      if pk.isEmpty then pure none else do
      match found.keyType with
      | .rsa =>
        if !isAlgorithmRsa ksk.algorithm then TokM.err .value
        else do
          let pub ← TokM.lift (rsaDecode pk ksk.algorithm)
          if some (pub.bits : Int) != ksk.rsaSize then TokM.err .value
          else if some (pub.exponent : Int) != ksk.rsaExponent then TokM.err .value
          else pure ()
      | .ec =>
        if !isAlgorithmEcdsa ksk.algorithm && !isAlgorithmEddsa ksk.algorithm then TokM.err .value
        else pure ()
      | _ => pure ()
      match found.keyType with
      | .aes => pure none
      | .des3 => pure none
      | _ => do
        let key ← TokM.lift (publicKeyToDnssecKey pk ksk.label ksk.algorithm pol.ttl 257)
        pure (some { p11 := found, dns := key })

/-- `_fetch_keys(key_names, bundle, …, public)` -/
def fetchKeys (ext : Externals) (mods : List P11Module) (cfg : SignerConfig) (bundle : Bundle)
    (isPublic : Bool) : List String → TokM (List CompositeKey)
  | [] => pure []
  | name :: rest => do
    match cfg.kskKeys.lookup name with
    | none => TokM.err .key
    | some ksk =>
      match ← loadPkcs11Key mods ksk cfg.kskPolicy bundle isPublic with
      | none => TokM.err .configuration
      | some ck => do
        TokM.lift (validateDnskeyMatchesKsk ext ksk ck.dns)
        let more ← fetchKeys ext mods cfg bundle isPublic rest
        pure (ck :: more)

/-! ### `KeysToSign` -/

/-- `_add_unique`: skip when a key with the same public key text is present; otherwise normalise
    the TTL to the KSK policy TTL and add. -/
def ktsAdd (ttl : Int) (keys : List Key) (k : Key) : List Key :=
  if keys.any (fun x => x.publicKey = k.publicKey) then keys
  else keys ++ [if k.ttl != ttl then { k with ttl := ttl } else k]

/-- `update`: remove the (first) key with the same public key text, then `_add_unique`. -/
def ktsUpdate (ttl : Int) (keys : List Key) (k : Key) : List Key :=
  ktsAdd ttl (keys.eraseP (fun x => x.publicKey = k.publicKey)) k

/-- `get(key_identifier)`; with two keys under one identifier the result would depend on set
    iteration order, which the model declines to predict -/
def ktsGet (keys : List Key) (id : String) : Res (Option Key) :=
  match keys.filter (fun k => k.keyIdentifier = id) with
  | [] => pure none
  | [k] => pure (some k)
  | _ => unsupported

/-! ### signing -/

/-- `_sign_keys(bundle, keys_to_sign, signing_key, ksk_policy)` -/
def signKeys (ext : Externals) (bundle : Bundle) (keys : List Key) (sk : CompositeKey)
    (pol : KskPolicy) : TokM Signature := do
  if keys.any (fun k => k.ttl != pol.ttl) then TokM.err .createSignature
  match ← TokM.lift (ktsGet keys sk.dns.keyIdentifier) with
  | none => TokM.err .createSignature
  | some dnsKey => do
    let labels ← TokM.lift (dndepth pol.signersName)
    let sig : Signature :=
      { keyIdentifier := sk.dns.keyIdentifier, ttl := pol.ttl, typeCovered := 48,
        algorithm := sk.dns.algorithm, labels := labels, originalTtl := pol.ttl,
        expiration := bundle.expiration, inception := bundle.inception, keyTag := dnsKey.keyTag,
        signersName := pol.signersName, signatureData := "" }
    let raw ← TokM.lift (makeRawRrsig sig keys)
    let sigData ← signUsingP11 ext.hash sk.p11 raw sk.dns.algorithm
    -- `_verify_using_crypto`: software re-verification before the signature is used
    match sk.p11.publicKey with
    | none => TokM.err .runtime
    | some pk =>
      -- KSKM_PublicKey.from_bytes(public_key, algorithm)
      TokM.lift (publicKeyFromKey { sk.dns with publicKey := pk, algorithm := sk.dns.algorithm })
      match ext.verify sk.dns.algorithm pk raw sigData with
      | .valid => pure { sig with signatureData := Base64.encode sigData }
      | .invalid => TokM.err .skrVerify
      | .error k => TokM.err k
      | .unknown => TokM.fail .unsupported

/-- the signing loop of `sign_bundles`: a key already represented among the signatures (a name
    repeated under `sign`) is skipped -/
def signAll (ext : Externals) (bundle : Bundle) (keys : List Key) (pol : KskPolicy) :
    List CompositeKey → List Signature → TokM (List Signature)
  | [], acc => pure acc
  | sk :: rest, acc =>
    if acc.any (fun s => s.keyIdentifier = sk.dns.keyIdentifier) then signAll ext bundle keys pol rest acc
    else do
      let s ← signKeys ext bundle keys sk pol
      signAll ext bundle keys pol rest (acc ++ [s])

def dedupNat : List Nat → List Nat
  | [] => []
  | a :: r => a :: (dedupNat r).filter (· != a)

def sameSet (a b : List Nat) : Bool := a.all (b.contains ·) && b.all (a.contains ·)

-- `check_valid_signatures` is `checkValidSignatures` of Kskm/SkrValidate.lean

/-- one iteration of the loop in `sign_bundles` -/
def signBundle (ext : Externals) (mods : List P11Module) (cfg : SignerConfig) (slot : Nat)
    (bundle : Bundle) : TokM Bundle := do
  match cfg.actions.lookup slot with
  | none => TokM.err .key
  | some act => do
    let ttl := cfg.kskPolicy.ttl
    let pub ← fetchKeys ext mods cfg bundle true act.publish
    let keys := pub.foldl (fun acc ck => ktsAdd ttl acc ck.dns) []
    let rev ← fetchKeys ext mods cfg bundle true act.revoke
    let revoked ← TokM.lift (rev.mapM (fun ck => ck.dns.asRevoked))
    let keys := revoked.foldl (fun acc k => ktsUpdate ttl acc k) keys
    let signing ← fetchKeys ext mods cfg bundle false act.sign
    let keys := signing.foldl (fun acc ck => ktsAdd ttl acc ck.dns) keys
    let keys := bundle.keys.foldl (fun acc k => ktsAdd ttl acc k) keys
    let sigs ← signAll ext bundle keys cfg.kskPolicy signing []
    if !sameSet (bundle.keys.map (·.algorithm)) (sigs.map (·.algorithm)) then TokM.err .createSignature
    let rb : Bundle := { id := bundle.id, inception := bundle.inception, expiration := bundle.expiration,
                         keys := keys, signatures := sigs }
    TokM.lift (checkValidSignatures ext.verify rb cfg.responsePolicy)
    pure rb

/-- `sign_bundles(request, schema, p11modules, ksk_policy, config)` -/
def signBundlesFrom (ext : Externals) (mods : List P11Module) (cfg : SignerConfig) :
    Nat → List Bundle → TokM (List Bundle)
  | _, [] => pure []
  | n, b :: rest => do
    let rb ← signBundle ext mods cfg n b
    let more ← signBundlesFrom ext mods cfg (n + 1) rest
    pure (rb :: more)

def signBundles (ext : Externals) (mods : List P11Module) (cfg : SignerConfig) (req : Request) :
    TokM (List Bundle) :=
  signBundlesFrom ext mods cfg 1 req.bundles

/-- `to_algorithm_policy()` of the parsed public key: only RSA is implemented -/
def algorithmPolicyOfKey (k : Key) : Res AlgPolicy :=
  if isAlgorithmRsa k.algorithm then do
    let pub ← rsaDecode k.publicKey k.algorithm
    pure { kind := .rsa, bits := pub.bits, algorithm := k.algorithm, exponent := some pub.exponent }
  else if isAlgorithmEcdsa k.algorithm then
    match Base64.decode k.publicKey with
    | none => unsupported
    | some _ => err .runtime
  else if isAlgorithmEddsa k.algorithm then err .runtime
  else err .runtime

/-- `_ksk_signature_policy`: configured durations + the algorithm set of every published key -/
def kskSignaturePolicy (pol : KskPolicy) (bundles : List Bundle) : Res SigPolicy := do
  let algs ← ((bundles.map (·.keys)).flatten).mapM algorithmPolicyOfKey
  let algs := algs.foldl (fun acc a => if acc.contains a then acc else acc ++ [a]) []
  pure { pol.signaturePolicy with algorithms := algs }

/-- `create_skr(request, schema, p11modules, config)` -/
def createSkr (ext : Externals) (mods : List P11Module) (cfg : SignerConfig) (req : Request) :
    TokM Response := do
  let bundles ← signBundles ext mods cfg req
  let kp ← TokM.lift (kskSignaturePolicy cfg.kskPolicy bundles)
  pure { id := req.id, serial := req.serial, domain := req.domain, timestamp := none,
         zskPolicy := req.zskPolicy, kskPolicy := kp, bundles := bundles }

end Kskm
