/-
  Kskm.Chain — kskm/signer/policy.py and kskm/signer/verify_chain.py:
  the KSR(n) ↔ SKR(n-1) chain rules (C08) and the publish / retire safety rules (C09).
  The token is a parameter: `TokenLookup label` is `get_p11_key(label, modules, public=True)`
  reduced to what these rules use (found?, public key text?).
-/
import Kskm.KsrPolicy
namespace Kskm

/-- result of a public-object lookup: `none` = no such object; `some pk?` = found, with its
    derived public key text if one could be read -/
abbrev TokenLookup := String → Res (Option (Option String))

def checkUniqueRequest (ksr : Request) (last : Response) : Res Unit :=
  if ksr.id = last.id then violation .ksrId else pure ()

def checkUniqueBundleIds (ksr : Request) (last : Response) : Res Unit :=
  forEach ksr.bundles fun kb =>
    forEach last.bundles fun sb =>
      if kb.id = sb.id then violation .bundleUnique else pure ()

def checkChainKeys (ksr : Request) (last : Response) (pol : RequestPolicy) : Res Unit :=
  if !pol.checkChainKeys then pure () else
  match last.bundles.getLast?, ksr.bundles.head? with
  | none, _ => err .index
  | _, none => err .index
  | some lb, some fb =>
    forEach fb.keys fun k => if lb.keys.contains k then pure () else violation .chainKeys

def checkChainOverlap (ksr : Request) (last : Response) (pol : RequestPolicy) : Res Unit :=
  if !pol.checkChainOverlap then pure () else
  match last.bundles.getLast?, ksr.bundles.head? with
  | none, _ => err .index
  | _, none => err .index
  | some previous, some first =>
    if first.inception > previous.expiration then violation .chainOverlap   -- a gap is never acceptable
    else
    let overlap := previous.expiration - first.inception
    if overlap < ksr.zskPolicy.minValidityOverlap then violation .chainOverlap
    else if overlap > ksr.zskPolicy.maxValidityOverlap then violation .chainOverlap
    else pure ()

/-- `check_last_skr_key_present`; `tok = none` is "no modules passed" (`None` or an empty list). -/
def checkLastSkrKeyPresent (last : Response) (pol : RequestPolicy) (tok : Option TokenLookup) :
    Res Unit :=
  match tok with
  | none => pure ()
  | some lookup =>
    if !pol.checkChainKeysInHsm then pure () else
    match last.bundles.getLast? with
    | none => err .index
    | some lb => do
      forEach lb.signatures fun sig => do
        match ← lookup sig.keyIdentifier with
        | none => violation .chainKeys
        | some none => violation .chainKeys
        | some (some pk) =>
          if pk.isEmpty then violation .chainKeys else do
          let hsmkey ← publicKeyToDnssecKey pk sig.keyIdentifier sig.algorithm sig.ttl 257
          match lb.keys.find? (fun k => k.keyIdentifier = sig.keyIdentifier) with
          | none => err .index
          | some key => if key.publicKey != hsmkey.publicKey then violation .chainKeys else pure ()
      if lb.signatures.isEmpty then violation .chainKeys else pure ()

/-- `check_skr_and_ksr` -/
def checkSkrAndKsr (ksr : Request) (last : Response) (pol : RequestPolicy)
    (tok : Option TokenLookup) : Res Unit := do
  checkUniqueRequest ksr last
  checkUniqueBundleIds ksr last
  checkChainKeys ksr last pol
  checkChainOverlap ksr last pol
  checkLastSkrKeyPresent last pol tok

/-! ### publish / retire safety -/

/-- `is_revoked_key`: `bool(key.flags & 0x80)`.  Python's `&` on an `int` of either sign is the
    two's-complement bit test, i.e. the floor residue modulo 256 is at least 128 (`Int.emod` by a
    positive literal is that residue). -/
def isRevokedKey (k : Key) : Bool := decide (128 ≤ k.flags % 256)

def hasKeyId (b : Bundle) (id : String) : Bool := b.keys.any (fun k => k.keyIdentifier = id)

def checkPublishSafety (last new : Response) (pol : RequestPolicy) : Res Unit :=
  if !pol.checkKeysPublishSafety then pure () else
  match last.bundles.getLast?, new.bundles.head? with
  | none, _ => err .index
  | _, none => err .index
  | some lastB, some first => do
    forEach first.signatures fun sig =>
      if hasKeyId lastB sig.keyIdentifier then pure () else violation .policySafety
    let publishDt := first.inception - new.kskPolicy.publishSafety
    if publishDt < lastB.inception then violation .policySafety
    else if publishDt > lastB.expiration then violation .policySafety
    else pure ()

/-- second half of `check_retire_safety`: every non-revoked signer of a bundle stays published in
    all later bundles -/
def retireLater : List Bundle → Res Unit
  | [] => pure ()
  | curr :: later => do
    let revoked := (curr.keys.filter isRevokedKey).map (·.keyIdentifier)
    forEach later fun b =>
      forEach curr.signatures fun sig =>
        if revoked.contains sig.keyIdentifier then pure ()
        else if hasKeyId b sig.keyIdentifier then pure () else violation .policySafety
    retireLater later

def checkRetireSafety (last new : Response) (pol : RequestPolicy) : Res Unit :=
  if !pol.checkKeysRetireSafety then pure () else
  match last.bundles.getLast?, new.bundles.head? with
  | none, _ => err .index
  | _, none => err .index
  | some lastB, some first => do
    let retireAt := first.inception + new.kskPolicy.retireSafety
    forEach new.bundles fun b =>
      if b.inception ≤ retireAt then
        forEach lastB.signatures fun sig =>
          if hasKeyId b sig.keyIdentifier then pure () else violation .policySafety
      else pure ()
    retireLater new.bundles

/-- `check_last_skr_and_new_skr` -/
def checkLastSkrAndNewSkr (last new : Response) (pol : RequestPolicy) : Res Unit := do
  checkPublishSafety last new pol
  checkRetireSafety last new pol

end Kskm
