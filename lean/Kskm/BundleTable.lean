/-
  Kskm.BundleTable — kskm/common/display.py:format_bundles_for_humans / _fmt_fields (C17: "the bundle
  table shown lists the inception, expiration and key tags of exactly what was parsed").

  The loop over `this.keys` is mirrored as it is (one pass, appending to `zsk_info` or `ksk_info`);
  `C17.table_rows` relates it to the filter-style specification.  `fmtTime` stands for
  `dt.isoformat().split("+")[0]`; `isoUtc` is its executable instance for UTC datetimes (used by the
  driver, compared with Python in harness/corr_C17.py).
-/
import Kskm.Data
namespace Kskm

/-- `bool(key.flags & FlagsDNSKEY.SEP.value)` (bit 0; Python `&` on negative ints is two's complement,
    which is what Euclidean `%` gives) -/
def isSepKey (k : Key) : Bool := k.flags % 2 == 1
/-- `bool(key.flags & FlagsDNSKEY.REVOKE.value)` (bit 7) -/
def isRevokedFlag (k : Key) : Bool := (k.flags / 128) % 2 == 1

def tagStr (k : Key) : String := toString k.keyTag

/-- `f"{key.key_tag}({key.key_identifier})/{usage}"`, usage = `R`? then `S` (a signature of the
    bundle carries the key's identifier) or `P` -/
def kskEntry (b : Bundle) (k : Key) : String :=
  let signed := b.signatures.any (fun s => s.keyIdentifier == k.keyIdentifier)
  tagStr k ++ "(" ++ k.keyIdentifier ++ ")/" ++ (if isRevokedFlag k then "R" else "") ++
    (if signed then "S" else "P")

/-- the `for key in this.keys` loop: (zsk_info, ksk_info) -/
def splitKeys (b : Bundle) : List Key → List String × List String
  | [] => ([], [])
  | k :: r =>
    let (z, s) := splitKeys b r
    if !isSepKey k then (tagStr k :: z, s) else (z, kskEntry b k :: s)

structure Row where
  num : String
  inception : String
  expiration : String
  zskTags : List String
  kskEntries : List String
  deriving DecidableEq, Repr

/-- Python `format(s, "<w")` / `"{:w}"` for `str`: pad with spaces on the right up to width `w` -/
def ljust (w : Nat) (s : String) : String := s ++ String.ofList (List.replicate (w - s.length) ' ')

/-- `"{num:<2} {inception:19} {expiration:20} {zsk_tags:13} {ksk_tag}".format(...)` -/
def fmtFields (num inception expiration zskTags kskTag : String) : String :=
  ljust 2 num ++ " " ++ ljust 19 inception ++ " " ++ ljust 20 expiration ++ " " ++ ljust 13 zskTags ++
    " " ++ kskTag

def Row.render (r : Row) : String :=
  fmtFields r.num r.inception r.expiration (",".intercalate r.zskTags) (",".intercalate r.kskEntries)

def headerLine : String := fmtFields "#" "Inception" "Expiration" "ZSK Tags" "KSK(CKA_LABEL)"

/-- rows for `enumerate(bundles, start)` -/
def tableRowsFrom (fmtTime : Int → String) : Nat → List Bundle → List Row
  | _, [] => []
  | n, b :: r =>
    let (z, s) := splitKeys b b.keys
    { num := toString n, inception := fmtTime b.inception, expiration := fmtTime b.expiration,
      zskTags := z, kskEntries := s } :: tableRowsFrom fmtTime (n + 1) r

def tableRows (fmtTime : Int → String) (bundles : List Bundle) : List Row := tableRowsFrom fmtTime 1 bundles

/-- `format_bundles_for_humans(bundles)` -/
def formatBundlesForHumans (fmtTime : Int → String) (bundles : List Bundle) : List String :=
  headerLine :: (tableRows fmtTime bundles).map Row.render

/-! ### `datetime.isoformat().split("+")[0]` for UTC datetimes given as µs since the epoch -/

/-- days since 1970-01-01 → (year, month, day), proleptic Gregorian (Hinnant's `civil_from_days`) -/
def civilFromDays (z0 : Int) : Int × Int × Int :=
  let z := z0 + 719468
  let era := z / 146097
  let doe := z - era * 146097
  let yoe := (doe - doe / 1460 + doe / 36524 - doe / 146096) / 365
  let y := yoe + era * 400
  let doy := doe - (365 * yoe + yoe / 4 - yoe / 100)
  let mp := (5 * doy + 2) / 153
  let d := doy - (153 * mp + 2) / 5 + 1
  let m := if mp < 10 then mp + 3 else mp - 9
  (if m ≤ 2 then y + 1 else y, m, d)

def pad0 (w : Nat) (n : Int) : String :=
  let s := toString n.toNat
  String.ofList (List.replicate (w - s.length) '0') ++ s

def isoUtc (us : Int) : String :=
  let days := us / 86400000000
  let rem := us % 86400000000
  let (y, m, d) := civilFromDays days
  let secs := rem / 1000000
  let micro := rem % 1000000
  pad0 4 y ++ "-" ++ pad0 2 m ++ "-" ++ pad0 2 d ++ "T" ++ pad0 2 (secs / 3600) ++ ":" ++
    pad0 2 (secs / 60 % 60) ++ ":" ++ pad0 2 (secs % 60) ++ (if micro = 0 then "" else "." ++ pad0 6 micro)

end Kskm
