/-
  Kskm.Xml — kskm/common/xml_parser.py, the hand-written reader, over ALL strings (`List Char`).

  Mirrors, function by function:  parse_ksr, parse, _parse_recursively, parse_first_element, _parse_tag,
  _parse_attrs, _find_end_of_element, _store_element;  plus the Python built-ins they use
  (`str.strip`, `str.index(sub, start)`, slicing, `re.match` on the three literals pinned in
  `KskmGen.regexLiterals`).

  * The character classes are PARAMETERS (`Classes`): `\w`, `\s` of `re` and the whitespace of
    `str.strip()`.  The executable instance `pyClasses` is built from the range tables that
    harness/extract_tables.py tabulates from the running Python (`KskmGen.wordRanges` …).
  * The two `while` loops that the code does not obviously advance carry explicit FUEL and answer
    `outOfFuel` when it runs out (KskmProofs/C13.lean shows when that can happen).
  * `Switches.attrsLoopFailsOnNoMatch` is the behaviour switch of finding F1 (tabulated from the code):
    false = the pinned `_parse_attrs` (no match ⇒ the loop goes round again with the same string),
    true  = the repaired one (no match ⇒ ValueError).  `attrsBlankFails` says what the repaired
    function does with an all-whitespace attribute string (pinned: returns `{}`).

  The three regular expressions, as matched by Python's backtracking engine (validated against `re`
  by harness/regex_diff.py on every run):

    `<(\w+?)(\s+?)(.+?)(/*)>`   name = the maximal word run after "<" (≥ 1; the lazy `+?` is forced to
        the maximal run because the next character must be whitespace — the classes are disjoint);
        ws = the SHORTEST whitespace prefix (≥ 1) after which the rest matches; attrs/slash: the rest
        must not start with "\n", the first ">" at index ≥ 1 must come before any "\n"; the text up to
        it minus its maximal run of trailing "/" (but at least one character) is attrs, the run is slash.
    `<(\w+)>`                   "<", maximal word run (≥ 1), ">" immediately.
    `^(\w+)="(.+?)"\s*(.*)`     maximal word run (≥ 1), `="`, value = up to the first `"` at index ≥ 1
        with no "\n" before it, all following whitespace skipped, rest = remainder of the LINE.
-/
import Kskm.Basic
import KskmGen.Tables
namespace Kskm.Xml

/-! ### parameters -/

structure Classes where
  /-- regex `\w` -/
  isWord : Char → Bool
  /-- regex `\s` -/
  isSpace : Char → Bool
  /-- what `str.strip()` removes -/
  isStrip : Char → Bool

structure Switches where
  /-- `_parse_attrs`: a remainder the attribute regex does not match raises ValueError (true) or is
      looked at again forever (false, finding F1) -/
  attrsLoopFailsOnNoMatch : Bool
  /-- `_parse_attrs` on an all-whitespace (non-empty) string raises (true) or returns `{}` (false) -/
  attrsBlankFails : Bool
  deriving DecidableEq, Repr

def inRanges (t : List (Nat × Nat)) (c : Char) : Bool :=
  t.any fun r => decide (r.1 ≤ c.toNat) && decide (c.toNat ≤ r.2)

/-- the character classes of the Python that runs the implementation (regenerated tables) -/
def pyClasses : Classes :=
  { isWord := inRanges KskmGen.wordRanges
    isSpace := inRanges KskmGen.spaceRanges
    isStrip := inRanges KskmGen.stripRanges }

/-- the behaviour of the code in /repo's working tree -/
def pySwitches : Switches :=
  { attrsLoopFailsOnNoMatch := KskmGen.attrsLoopFailsOnNoMatch
    attrsBlankFails := KskmGen.attrsBlankFails }

/-! ### outcomes -/

/-- what a reader function does: returns, raises (class), or is still running when the fuel is gone -/
inductive Out (α : Type) where
  | ok (a : α)
  | err (k : ErrKind)
  | outOfFuel
  deriving Repr, Inhabited

instance {α} [DecidableEq α] : DecidableEq (Out α)
  | .ok a, .ok b => if h : a = b then isTrue (by rw [h]) else isFalse (by intro h'; cases h'; exact h rfl)
  | .err a, .err b => if h : a = b then isTrue (by rw [h]) else isFalse (by intro h'; cases h'; exact h rfl)
  | .outOfFuel, .outOfFuel => isTrue rfl
  | .ok _, .err _ => isFalse (by intro h; cases h)
  | .ok _, .outOfFuel => isFalse (by intro h; cases h)
  | .err _, .ok _ => isFalse (by intro h; cases h)
  | .err _, .outOfFuel => isFalse (by intro h; cases h)
  | .outOfFuel, .ok _ => isFalse (by intro h; cases h)
  | .outOfFuel, .err _ => isFalse (by intro h; cases h)

def Out.bind {α β} (x : Out α) (f : α → Out β) : Out β :=
  match x with
  | .ok a => f a
  | .err k => .err k
  | .outOfFuel => .outOfFuel

instance : Monad Out where
  pure := .ok
  bind := Out.bind

/-! ### the parsed tree (what `parse` returns) -/

/-- Python values the reader produces: `str`, `dict` (insertion-ordered, unique keys), `list`. -/
inductive XVal where
  | str (s : List Char)
  | dict (kvs : List (List Char × XVal))
  | list (l : List XVal)
  deriving Repr, Inhabited

abbrev Dict := List (List Char × XVal)

mutual
def XVal.decEq : (a b : XVal) → Decidable (a = b)
  | .str a, .str b => if h : a = b then isTrue (by rw [h]) else isFalse (by intro h'; cases h'; exact h rfl)
  | .dict a, .dict b =>
    match decEqKvs a b with
    | isTrue h => isTrue (by rw [h])
    | isFalse h => isFalse (by intro h'; cases h'; exact h rfl)
  | .list a, .list b =>
    match decEqList a b with
    | isTrue h => isTrue (by rw [h])
    | isFalse h => isFalse (by intro h'; cases h'; exact h rfl)
  | .str _, .dict _ => isFalse (by intro h; cases h)
  | .str _, .list _ => isFalse (by intro h; cases h)
  | .dict _, .str _ => isFalse (by intro h; cases h)
  | .dict _, .list _ => isFalse (by intro h; cases h)
  | .list _, .str _ => isFalse (by intro h; cases h)
  | .list _, .dict _ => isFalse (by intro h; cases h)
def decEqKvs : (a b : List (List Char × XVal)) → Decidable (a = b)
  | [], [] => isTrue rfl
  | [], _ :: _ => isFalse (by intro h; cases h)
  | _ :: _, [] => isFalse (by intro h; cases h)
  | (k, v) :: r, (k', v') :: r' =>
    if hk : k = k' then
      match XVal.decEq v v' with
      | isTrue hv =>
        match decEqKvs r r' with
        | isTrue hr => isTrue (by rw [hk, hv, hr])
        | isFalse hr => isFalse (by intro h; cases h; exact hr rfl)
      | isFalse hv => isFalse (by intro h; cases h; exact hv rfl)
    else isFalse (by intro h; cases h; exact hk rfl)
def decEqList : (a b : List XVal) → Decidable (a = b)
  | [], [] => isTrue rfl
  | [], _ :: _ => isFalse (by intro h; cases h)
  | _ :: _, [] => isFalse (by intro h; cases h)
  | v :: r, v' :: r' =>
    match XVal.decEq v v' with
    | isTrue hv =>
      match decEqList r r' with
      | isTrue hr => isTrue (by rw [hv, hr])
      | isFalse hr => isFalse (by intro h; cases h; exact hr rfl)
    | isFalse hv => isFalse (by intro h; cases h; exact hv rfl)
end

instance : DecidableEq XVal := XVal.decEq

/-! ### Python built-ins on `str` -/

/-- `s.strip()` with `p` the whitespace class -/
def lstrip (p : Char → Bool) (s : List Char) : List Char := s.dropWhile p
def rstrip (p : Char → Bool) (s : List Char) : List Char := (s.reverse.dropWhile p).reverse
def strip (p : Char → Bool) (s : List Char) : List Char := rstrip p (lstrip p s)

/-- first position `i + k` (k ≥ 0) at which `pat` is a prefix of the remaining text -/
def findAux (pat : List Char) : List Char → Nat → Option Nat
  | [], i => if pat.isEmpty then some i else none
  | c :: r, i => if pat.isPrefixOf (c :: r) then some i else findAux pat r (i + 1)

/-- `hay.index(pat, start)`: index of the first occurrence at or after `start`; `none` = ValueError -/
def indexFrom (pat hay : List Char) (start : Nat) : Option Nat :=
  if start > hay.length then none else findAux pat (hay.drop start) start

/-- `s[a:b]` for `0 ≤ a`, `0 ≤ b` -/
def slice (s : List Char) (a b : Nat) : List Char := (s.take b).drop a

/-! ### the three regular expressions -/

/-- `(.+?)(/*)>` at the start of `q`: (attrs, slash) -/
def matchAttrsSlash (q : List Char) : Option (List Char × List Char) :=
  match q with
  | [] => none
  | c :: r =>
    if c = '\n' then none
    else
      let stop : Char → Bool := fun x => x ≠ '>' && x ≠ '\n'
      match r.dropWhile stop with
      | '>' :: _ =>
        let body := c :: r.takeWhile stop
        let slashes := (body.reverse.takeWhile (· = '/')).length
        let k := max 1 (body.length - slashes)
        some (body.take k, body.drop k)
      | _ => none

/-- `(\s+?)(.+?)(/*)>`: the shortest whitespace prefix after which the rest matches -/
def findWs (cls : Classes) : List Char → List Char → Option (List Char × List Char × List Char)
  | _, [] => none
  | wsAcc, c :: q =>
    if cls.isSpace c then
      match matchAttrsSlash q with
      | some (a, s) => some (wsAcc ++ [c], a, s)
      | none => findWs cls (wsAcc ++ [c]) q
    else none

/-- `re.match(r"<(\w+?)(\s+?)(.+?)(/*)>", xml)`: (name, ws, attrs, slash) -/
def matchTag1 (cls : Classes) (xml : List Char) : Option (List Char × List Char × List Char × List Char) :=
  match xml with
  | '<' :: r =>
    let name := r.takeWhile cls.isWord
    if name.isEmpty then none
    else
      match findWs cls [] (r.dropWhile cls.isWord) with
      | some (ws, a, s) => some (name, ws, a, s)
      | none => none
  | _ => none

/-- `re.match(r"<(\w+)>", xml)`: name -/
def matchTag2 (cls : Classes) (xml : List Char) : Option (List Char) :=
  match xml with
  | '<' :: r =>
    let name := r.takeWhile cls.isWord
    if name.isEmpty then none
    else
      match r.dropWhile cls.isWord with
      | '>' :: _ => some name
      | _ => none
  | _ => none

/-- `re.match(r'^(\w+)="(.+?)"\s*(.*)', attrs)`: (name, value, rest) -/
def matchAttr (cls : Classes) (a : List Char) : Option (List Char × List Char × List Char) :=
  let name := a.takeWhile cls.isWord
  if name.isEmpty then none
  else
    match a.dropWhile cls.isWord with
    | '=' :: '"' :: c :: r =>
      if c = '\n' then none
      else
        let stop : Char → Bool := fun x => x ≠ '"' && x ≠ '\n'
        match r.dropWhile stop with
        | '"' :: after =>
          some (name, c :: r.takeWhile stop, (after.dropWhile cls.isSpace).takeWhile (· ≠ '\n'))
        | _ => none
    | _ => none

/-! ### `_parse_attrs` -/

abbrev Attrs := List (List Char × List Char)

/-- `d[k] = v` on an insertion-ordered dict -/
def dictSet {β} (d : List (List Char × β)) (k : List Char) (v : β) : List (List Char × β) :=
  if d.any (fun p => p.1 = k) then d.map (fun p => if p.1 = k then (k, v) else p) else d ++ [(k, v)]

/-- `_parse_attrs(attrs)`: the `while attrs:` loop, one unit of fuel per iteration.

        while attrs:
            attrs = attrs.strip()
            m = re.match(…, attrs)
            if m:  name, value, attrs = m.groups();  res[name] = value
            [repaired tree only]  else: raise ValueError                                   -/
def parseAttrs (cls : Classes) (sw : Switches) : Nat → List Char → Attrs → Out Attrs
  | 0, a, acc => if a.isEmpty then .ok acc else .outOfFuel
  | fuel + 1, a, acc =>
    if a.isEmpty then .ok acc
    else
      let s := strip cls.isStrip a
      match matchAttr cls s with
      | some (n, v, rest) => parseAttrs cls sw fuel rest (dictSet acc n v)
      | none =>
        if s.isEmpty then (if sw.attrsBlankFails then .err .value else parseAttrs cls sw fuel s acc)
        else if sw.attrsLoopFailsOnNoMatch then .err .value
        else parseAttrs cls sw fuel s acc

/-! ### `_parse_tag` -/

/-- `_parse_tag(xml)`: (name, attrs or None, index of whatever follows the tag) -/
def parseTag (cls : Classes) (sw : Switches) (xml : List Char) : Out (List Char × Option Attrs × Nat) :=
  match matchTag1 cls xml with
  | some (name, ws, attrs, slash) =>
    match parseAttrs cls sw (attrs.length + 1) attrs [] with
    | .ok a => .ok (name, some a, name.length + ws.length + attrs.length + slash.length + 2)
    | .err k => .err k
    | .outOfFuel => .outOfFuel
  | none =>
    match matchTag2 cls xml with
    | some name => .ok (name, none, name.length + 2)
    | none => .err .value

/-! ### `_find_end_of_element` -/

def endTag (name : List Char) : List Char := '<' :: '/' :: (name ++ ['>'])

/-- one round of the `for nested_tag in […]` loop: a start tag of the same name found by
    `xml.index(nested_tag)` (from index 0!) at a non-zero index before the end tag moves the end tag
    on to the next occurrence; every `ValueError` inside the `try` leaves `end_idx` as it is. -/
def nestedStep (xml : List Char) (et nested : List Char) (e : Nat) : Nat :=
  match indexFrom nested xml 0 with
  | some i =>
    if i ≠ 0 && i < e then
      match indexFrom et xml (e + et.length) with
      | some e' => e'
      | none => e
    else e
  | none => e

/-- `_find_end_of_element(xml, start_idx, name)`: (end of value, end of element); `none` = ValueError -/
def findEndOfElement (xml : List Char) (startIdx : Nat) (name : List Char) : Option (Nat × Nat) :=
  let et := endTag name
  match indexFrom et xml startIdx with
  | none => none
  | some e0 =>
    let e1 := nestedStep xml et ('<' :: (name ++ ['>'])) e0
    let e2 := nestedStep xml et ('<' :: (name ++ [' '])) e1
    some (e2, e2 + et.length)

/-! ### `parse_first_element` -/

structure Element where
  name : List Char
  attrs : Option Attrs
  /-- the stripped text between the tags ("" for a self-closing tag) -/
  value : List Char
  deriving DecidableEq, Repr

/-- `parse_first_element(xml)`: the element and the index of its end -/
def parseFirstElement (cls : Classes) (sw : Switches) (xml : List Char) : Out (Element × Nat) :=
  match parseTag cls sw xml with
  | .err k => .err k
  | .outOfFuel => .outOfFuel
  | .ok (name, attrs, tagEnd) =>
    if slice xml (tagEnd - 2) tagEnd = ['/', '>'] then
      .ok ({ name, attrs, value := [] }, tagEnd)
    else
      match findEndOfElement xml tagEnd name with
      | none => .err .value
      | some (valueEnd, elementEnd) =>
        .ok ({ name, attrs, value := strip cls.isStrip (slice xml tagEnd valueEnd) }, elementEnd)

/-! ### `_store_element` -/

def kAttrs : List Char := "attrs".toList
def kValue : List Char := "value".toList

/-- the value stored for an element: `{"attrs": …, "value": …}` when the tag had attributes -/
def elementValue (attrs : Option Attrs) (v : XVal) : XVal :=
  match attrs with
  | some a => .dict [(kAttrs, .dict (a.map fun p => (p.1, .str p.2))), (kValue, v)]
  | none => v

/-- `_store_element`: first occurrence stored as the value itself, later ones turn it into a list -/
def storeElement (res : Dict) (name : List Char) (v : XVal) : Dict :=
  match res.lookup name with
  | some (.list l) => dictSet res name (.list (l ++ [v]))
  | some old => dictSet res name (.list [old, v])
  | none => res ++ [(name, v)]

/-! ### `_parse_recursively`, `parse`, `parse_ksr` -/

/-- the value of an element: text, or — when the stripped text starts with "<" — the dict the
    recursive call returns (`inner`; at `recurse = 0` it raises) -/
def elementContent (inner : List Char → Out Dict) (value : List Char) : Out XVal :=
  match value with
  | '<' :: _ =>
    match inner value with
    | .ok d => .ok (.dict d)
    | .err k => .err k
    | .outOfFuel => .outOfFuel
  | _ => .ok (.str value)

/-- what one iteration of the `while xml:` loop does -/
inductive Step where
  | done (r : Out Dict)
  | next (xml : List Char) (res : Dict)

/-- the body of the `while xml:` loop of `_parse_recursively` (for a non-empty `xml`) -/
def parseStep (cls : Classes) (sw : Switches) (inner : List Char → Out Dict) (xml : List Char) (res : Dict) :
    Step :=
  match strip cls.isStrip xml with
  | [] => .done (.err .index)                      -- `xml[0]` on an all-whitespace string
  | c :: t =>
    if c ≠ '<' then .done (.err .value)             -- "XML parser got lost"
    else
      match parseFirstElement cls sw (c :: t) with
      | .err k => .done (.err k)
      | .outOfFuel => .done .outOfFuel
      | .ok (el, endIdx) =>
        match elementContent inner el.value with
        | .err k => .done (.err k)
        | .outOfFuel => .done .outOfFuel
        | .ok v => .next ((c :: t).drop endIdx) (storeElement res el.name (elementValue el.attrs v))

/-- the `while xml:` loop of `_parse_recursively` at one nesting level; `inner` is the recursive call
    for a value that starts with "<".  One unit of fuel per iteration. -/
def parseLoop (cls : Classes) (sw : Switches) (inner : List Char → Out Dict) :
    Nat → List Char → Dict → Out Dict
  | 0, xml, res => if xml.isEmpty then .ok res else .outOfFuel
  | fuel + 1, xml, res =>
    if xml.isEmpty then .ok res
    else
      match parseStep cls sw inner xml res with
      | .done r => r
      | .next xml' res' => parseLoop cls sw inner fuel xml' res'

/-- `_parse_recursively(xml, recurse, res = {})`; the loop gets `len(xml) + 1` units of fuel -/
def parseRec (cls : Classes) (sw : Switches) : Nat → List Char → Out Dict
  | 0, xml => parseLoop cls sw (fun _ => .err .value) (xml.length + 1) xml []
  | d + 1, xml => parseLoop cls sw (parseRec cls sw d) (xml.length + 1) xml []

/-- `parse(xml, recurse=5)` -/
def parse (cls : Classes) (sw : Switches) (xml : List Char) (recurse : Nat := 5) : Out Dict :=
  parseRec cls sw recurse xml

def kKSRopen : List Char := "<KSR".toList

/-- `parse_ksr(xml)`: everything before the first "<KSR" is ignored -/
def parseKsr (cls : Classes) (sw : Switches) (xml : List Char) : Out Dict :=
  match indexFrom kKSRopen xml 0 with
  | none => .err .value
  | some i => parse cls sw (xml.drop i)

end Kskm.Xml
