/-
  Kskm.Dnssec — kskm/common/dnssec.py, kskm/common/rsa_utils.py (codec), kskm/common/ecdsa_utils.py
  (prefix/size), the validators of `Key` in kskm/common/data.py and `Key.as_revoked`.
-/
import Kskm.Data
import Kskm.Base64
namespace Kskm

/-! ### DNSKEY RDATA and key tag -/

/-- RFC 4034 §2.1 DNSKEY RDATA: flags(2) protocol(1) algorithm(1) public key. -/
def rdataOf (flags protocol algorithm : Nat) (pk : Bytes) : Bytes :=
  be16 flags ++ be8 protocol ++ be8 algorithm ++ pk

/-- `key_to_rdata`: `struct.pack("!HBB", …)` raises outside the field ranges, then the text is decoded. -/
def keyToRdata (k : Key) : Res Bytes :=
  if !(inRange 16 k.flags && inRange 8 k.protocol && decide (k.algorithm < 256)) then err .struct
  else match Base64.decode k.publicKey with
    | none => unsupported
    | some pk => pure (rdataOf k.flags.toNat k.protocol.toNat k.algorithm pk)

/-- The accumulation loop of `calculate_key_tag`: even offsets are the high octet. -/
def keyTagAcc : Bytes → Bool → Nat → Nat
  | [], _, s => s
  | b :: r, odd, s => keyTagAcc r (!odd) (if odd then s + b.toNat else s + b.toNat * 256)

/-- `calculate_key_tag` on RDATA: `((sum & 0xFFFF) + (sum >> 16)) & 0xFFFF`. -/
def keyTagOfRdata (rdata : Bytes) : Nat :=
  let s := keyTagAcc rdata false 0
  ((s % 65536) + (s / 65536)) % 65536

def calculateKeyTag (k : Key) : Res Nat := do
  let r ← keyToRdata k
  pure (keyTagOfRdata r)

/-! ### RSA public keys, RFC 3110 -/

structure RsaPub where
  bits : Nat
  exponent : Nat
  n : Bytes
  deriving DecidableEq, Repr

def isAlgorithmRsa (a : Nat) : Bool := a == algRSASHA1 || a == algRSASHA256 || a == algRSASHA512
def isAlgorithmEcdsa (a : Nat) : Bool := a == algECDSAP256 || a == algECDSAP384
def isAlgorithmEddsa (a : Nat) : Bool := a == algED25519 || a == algED448

/-- `KSKM_PublicKey_RSA.decode_public_key` on the decoded octets (algorithm check done by the caller). -/
def rsaDecodeBytes : Bytes → Res RsaPub
  | [] => err .index
  | b :: rest =>
    if b = 0 then
      match rest with
      | h :: l :: r =>
        let len := h.toNat * 256 + l.toNat
        pure { bits := (r.drop len).length * 8, exponent := beNat (r.take len), n := r.drop len }
      | _ => err .struct
    else
      let len := b.toNat
      pure { bits := (rest.drop len).length * 8, exponent := beNat (rest.take len), n := rest.drop len }

/-- `decode_public_key(key, algorithm)`: base64 text in, pydantic validator on the algorithm. -/
def rsaDecode (pk : String) (algorithm : Nat) : Res RsaPub :=
  match Base64.decode pk with
  | none => unsupported
  | some b => do
    let r ← rsaDecodeBytes b
    if isAlgorithmRsa algorithm then pure r else err .validation

/-- minimal big-endian octets of `e` (`int.to_bytes(e, ceil(bit_length/8), "big")`); `[]` for 0 -/
def natToBytes (e : Nat) : Bytes :=
  if _h : e = 0 then [] else natToBytes (e / 256) ++ [UInt8.ofNat e]
termination_by e
decreasing_by omega

/-- `KSKM_PublicKey_RSA.encode_public_key` before base64. -/
def rsaEncodeBytes (exponent : Nat) (n : Bytes) : Res Bytes :=
  let exp := natToBytes exponent
  let len := exp.length
  if len > 255 then
    if len < 65536 then pure ([0] ++ be16 len ++ exp ++ n) else err .struct
  else pure (be8 len ++ exp ++ n)

def rsaEncode (exponent : Nat) (n : Bytes) : Res String := do
  let b ← rsaEncodeBytes exponent n
  pure (Base64.encode b)

/-! ### ECDSA public keys, RFC 6605 -/

def getEcdsaPubkeySize (pk : Bytes) : Nat := pk.length * 8 / 2

def expectedEcdsaKeySize (a : Nat) : Res Nat :=
  if a == algECDSAP256 then pure 256 else if a == algECDSAP384 then pure 384 else err .value

/-- `ecdsa_public_key_without_prefix` -/
def ecdsaWithoutPrefix (pk : Bytes) (a : Nat) : Res Bytes := do
  let want ← expectedEcdsaKeySize a
  if getEcdsaPubkeySize pk != want then
    match pk with
    | [] => err .index
    | b :: r => if b = 4 then pure r else pure pk
  else pure pk

/-! ### `Key` construction validators -/

/-- pydantic validators that run when a `Key` is *constructed* (not on `replace`):
    the flags combination, then for ECDSA the size of the point. -/
def Key.validate (k : Key) : Res Unit := do
  if isAlgorithmEcdsa k.algorithm then
    match Base64.decode k.publicKey with
    | none => unsupported
    | some b =>
      let p ← ecdsaWithoutPrefix b k.algorithm
      let want ← expectedEcdsaKeySize k.algorithm
      if getEcdsaPubkeySize p != want then err .validation
  if k.flags = 257 ∨ k.flags = 385 ∨ k.flags = 256 then pure () else err .validation

/-- `public_key_to_dnssec_key` -/
def publicKeyToDnssecKey (publicKey : String) (keyIdentifier : String) (algorithm : Nat)
    (ttl : Int) (flags : Int) : Res Key := do
  let k : Key := { keyIdentifier, keyTag := 0, ttl, flags, protocol := 3, algorithm, publicKey }
  k.validate
  let tag ← calculateKeyTag k
  pure { k with keyTag := tag }

/-- `n | 0x80` in arithmetic form (bit 7 set ⇒ unchanged, else add 128); the harness compares it
    with Python's `|` on every 16-bit value. -/
def setRevokeBit (n : Nat) : Nat := if n / 128 % 2 = 1 then n else n + 128

/-- `n & 0x80 != 0` -/
def hasRevokeBit (n : Nat) : Bool := n / 128 % 2 = 1

/-- `Key.as_revoked`: `flags | 0x80`, tag recomputed; nothing else changes (no re-validation). -/
def Key.asRevoked (k : Key) : Res Key := do
  if k.flags < 0 then unsupported   -- Python `|` on negative ints; never constructed (validators)
  let k' := { k with flags := ((setRevokeBit k.flags.toNat : Nat) : Int) }
  let tag ← calculateKeyTag k'
  pure { k' with keyTag := tag }

/-- DS digest input (RFC 4034 §5.1.4 / RFC 4509): owner name in wire form ‖ DNSKEY RDATA. -/
def dsInput (k : Key) : Res Bytes := do
  let r ← keyToRdata k
  pure ([0] ++ r)

end Kskm
