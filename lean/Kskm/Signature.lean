/-
  Kskm.Signature — kskm/common/signature.py: the RRSIG to-be-signed octets and per-bundle
  signature validation.  Signature verification itself is a parameter (`Verifier`).
-/
import Kskm.Dnssec
namespace Kskm

/-- `int(dt.timestamp())`: truncation toward zero of the seconds since the epoch. -/
def tsSeconds (us : Int) : Int := Int.tdiv us 1000000

/-- `dn2wire` — only the root is implemented. -/
def dn2wire (dn : String) : Res Bytes := if dn = "." then pure [0] else err .notImplemented
def dndepth (dn : String) : Res Int := if dn = "." then pure 0 else err .notImplemented

/-- RFC 4034 §3.1 RRSIG RDATA up to and including the key tag. -/
def rrsigHeader (typeCovered algorithm labels originalTtl expiration inception keyTag : Nat) : Bytes :=
  be16 typeCovered ++ be8 algorithm ++ be8 labels ++ be32 originalTtl ++ be32 expiration
    ++ be32 inception ++ be16 keyTag

/-- One RR of the covered RRset in canonical wire form: owner, type, class IN, TTL, RDLENGTH, RDATA. -/
def rrWire (owner : Bytes) (typeCovered originalTtl : Nat) (rdata : Bytes) : Bytes :=
  owner ++ be16 typeCovered ++ be16 1 ++ be32 originalTtl ++ be16 rdata.length ++ rdata

/-- The pure part of `make_raw_rrsig` once all field values are known to be in range. -/
def rawRrsigOf (typeCovered algorithm labels originalTtl expiration inception keyTag : Nat)
    (rdatas : List Bytes) : Bytes :=
  rrsigHeader typeCovered algorithm labels originalTtl expiration inception keyTag ++ [0]
    ++ ((rdatas.mergeSort bytesLe).map (rrWire [0] typeCovered originalTtl)).flatten

/-- `make_raw_rrsig(sig, keys)` with Python's failure points in order. -/
def makeRawRrsig (sig : Signature) (keys : List Key) : Res Bytes := do
  let exp := tsSeconds sig.expiration
  let inc := tsSeconds sig.inception
  if !(decide (sig.typeCovered < 65536) && decide (sig.algorithm < 256) && inRange 8 sig.labels
        && inRange 32 sig.originalTtl && inRange 32 exp && inRange 32 inc && inRange 16 sig.keyTag) then
    err .struct
  let _ ← dn2wire sig.signersName
  let rdatas ← keys.mapM keyToRdata
  if rdatas.any (fun r => decide (65536 ≤ r.length)) then err .struct
  pure (rawRrsigOf sig.typeCovered sig.algorithm sig.labels.toNat sig.originalTtl.toNat exp.toNat
    inc.toNat sig.keyTag.toNat rdatas)

/-- Outcome of the software verifier on one (key, message, signature). -/
inductive VerifyResult where
  | valid | invalid | error (k : ErrKind) | unknown
  deriving DecidableEq, Repr, Inhabited

/-- The cryptographic verifier: algorithm number, public-key text, message, signature octets. -/
abbrev Verifier := Nat → String → Bytes → Bytes → VerifyResult

/-- `KSKM_PublicKey.from_key` as far as it can fail before verification is attempted. -/
def publicKeyFromKey (k : Key) : Res Unit :=
  if isAlgorithmRsa k.algorithm then do let _ ← rsaDecode k.publicKey k.algorithm; pure ()
  else if isAlgorithmEcdsa k.algorithm then
    match Base64.decode k.publicKey with | none => unsupported | some _ => pure ()
  else if isAlgorithmEddsa k.algorithm then pure ()
  else err .runtime

def lookupKey (keys : List Key) (id : String) : Option Key := keys.find? (fun k => k.keyIdentifier = id)

/-- first repeated identifier check of `validate_signatures` -/
def hasDupIds : List Key → Bool
  | [] => false
  | k :: r => r.any (fun k' => k'.keyIdentifier = k.keyIdentifier) || hasDupIds r

/-- `validate_signatures(bundle)`; `.error (.error .invalidSignature)` is `InvalidSignature`. -/
def validateSignatures (verify : Verifier) (b : Bundle) : Res Unit := do
  if b.keys.isEmpty then err .value
  if b.signatures.isEmpty then err .value
  if hasDupIds b.keys then err .value
  forEach b.signatures fun sig => do
    match lookupKey b.keys sig.keyIdentifier with
    | none => err .value
    | some key =>
      publicKeyFromKey key
      match Base64.decode sig.signatureData with
      | none => unsupported
      | some sigBytes =>
        let raw ← makeRawRrsig sig b.keys
        match verify key.algorithm key.publicKey raw sigBytes with
        | .valid => pure ()
        | .invalid => err .invalidSignature
        | .error k => err k
        | .unknown => unsupported

end Kskm
