/-
  Kskm.Keymaster — kskm/tools/keymaster.py (`keygen`, `keydel`, `inventory`), kskm/keymaster/keygen.py,
  delete.py, inventory.py, common.py and the parts of kskm/misc/hsm.py they use (`get_p11_key`,
  `find_key_by_label`, `_p11_object_to_public_key`, `get_key_inventory`).

  The model mirrors the code AS REPAIRED by /verif/proposed_fixes/F9a_keygen_private_only.diff,
  F9b_delete_session.diff and F14_inventory_unpaired_public.diff (DESIGN §5):
    F9a  `generate_key_from_templates` looks for an existing object of EITHER class before generating;
    F9b  `key_delete` destroys each object through the session it was found in;
    F14  `_format_keys` removes the public entry from the listing only when it was paired.

  ## One program text, two interpretations

  Every token-facing function is written ONCE, as a program `Prog α` (a free monad over the token
  operations `TokOp` of Kskm/Hsm.lean), and interpreted twice:

    * `Prog.runTok : Prog α → TokM α`   against a token ORACLE (answers indexed by operation count, every
                                        operation logged) — this is what the correspondence check
                                        replays against the emulator's recorded log;
    * `Prog.runSt  : Prog α → StM α`    against a STORE `Store` with the pure semantics `storeStep`
                                        (objects per module and slot, per-slot handle counters, a pool of
                                        keys `generateKeyPair` hands out — as harness/p11emu.py).

  C19's invariants are proved about `runSt`, by induction over all operation sequences, and carried to
  oracles by `refines` (KskmProofs/Lemmas/C19Prog.lean): for EVERY token whose logged answers are those
  a store would give, `runTok` returns the result `runSt` returns and the store ends where `runSt`
  leaves it.  (DESIGN C19 option (a), obtained through a free monad instead of hand-mirrored S-versions.)

  Parameters: the token / the store, SHA-256 (`Externals.hash`), the prompt answer, the configuration.
  Not modelled: `generate_key_label` (label from the clock; `--label` is always given: `none` is
  `unsupported`), `time.sleep(4)`, log messages other than the inventory lines and the key-generation
  report (tags, DS, DNS records, PGP words).
-/
import Kskm.TrustAnchor
import Kskm.Wordlist
import KskmGen.Tables
namespace Kskm.Km

/-! ### Programs over token operations -/

inductive Prog (α : Type) where
  | ret (a : α)
  | fail (f : Fail)
  | ask (op : TokOp) (k : TokAns → Prog α)

def Prog.bind {α β} : Prog α → (α → Prog β) → Prog β
  | .ret a, f => f a
  | .fail e, _ => .fail e
  | .ask op k, f => .ask op (fun a => (k a).bind f)

instance : Monad Prog where
  pure := .ret
  bind := Prog.bind

/-- against an oracle: every `ask` is one logged token operation -/
def Prog.runTok {α} : Prog α → TokM α
  | .ret a => pure a
  | .fail f => TokM.fail f
  | .ask op k => Kskm.ask op >>= fun a => (k a).runTok

def askP (op : TokOp) : Prog TokAns := .ask op .ret
def errP {α} (k : ErrKind) : Prog α := .fail (.error k)
def liftP {α} (r : Res α) : Prog α :=
  match r with
  | .ok a => .ret a
  | .error e => .fail e

/-- a PyKCS11Error answer propagates -/
def askOkP (op : TokOp) : Prog TokAns := do
  let a ← askP op
  match a with
  | .error => errP .p11
  | a => pure a

/-! ### The store (harness/p11emu.py: `EmuObject`, `EmuSlot`, `World.keygen_pool`) -/

structure Obj where
  handle : Nat
  cls : Nat
  label : String
  keyType : Option Nat := none
  id : Bytes := []
  /-- MODULUS, PUBLIC_EXPONENT, EC_POINT, EC_PARAMS where present -/
  attrs : List (String × Bytes) := []
  deriving DecidableEq, Repr, Inhabited

structure SlotSt where
  /-- in handle order (= insertion order) -/
  objects : List Obj := []
  /-- the next handle this slot hands out -/
  next : Nat := 1
  deriving DecidableEq, Repr, Inhabited

/-- a key `generateKeyPair` can hand out -/
structure PoolKey where
  bits : Nat
  e : Nat
  modulus : Bytes
  exponent : Bytes
  deriving DecidableEq, Repr, Inhabited

structure Store where
  /-- module path ↦ slot ↦ state (`none`: no such slot) -/
  slots : String → Nat → Option SlotSt
  pool : List PoolKey := []

def Store.setSlot (st : Store) (path : String) (slot : Nat) (s : SlotSt) : Store :=
  { st with slots := fun p n => if p = path ∧ n = slot then some s else st.slots p n }

/-- the objects of a slot (`[]` when there is no such slot) -/
def Store.objs (st : Store) (path : String) (slot : Nat) : List Obj :=
  match st.slots path slot with
  | some s => s.objects
  | none => []

/-- `EmuObject.attr` as PyKCS11 returns it -/
def Obj.attr (o : Obj) (name : String) : AttrAns :=
  if name = "CLASS" then .num o.cls
  else if name = "LABEL" then .str o.label
  else if name = "KEY_TYPE" then (match o.keyType with | some n => .num n | none => .none)
  else if name = "ID" then .bytes o.id
  else match o.attrs.lookup name with
    | some b => .bytes b
    | none => .none

/-- does the object satisfy one template entry -/
def Obj.matches1 (o : Obj) (t : String × TmplVal) : Bool :=
  match t with
  | ("LABEL", .str s) => o.label == s
  | ("CLASS", .num n) => o.cls == n
  | ("KEY_TYPE", .num n) => o.keyType == some n
  | _ => false

def Obj.matchesTmpl (o : Obj) (tmpl : List (String × TmplVal)) : Bool := tmpl.all o.matches1

/-- the exponent `generateKeyPair` is asked for (the emulator's default is 65537) -/
def wantedE (exponent : Option Bytes) : Nat :=
  match exponent with
  | some e => beNat e
  | none => 65537

/-- `generateKeyPair`: the first pool key of the requested size and exponent -/
def pickPool (bits : Option Nat) (exponent : Option Bytes) : List PoolKey → Option (PoolKey × List PoolKey)
  | [] => none
  | k :: rest =>
    if some k.bits = bits ∧ k.e = wantedE exponent then some (k, rest)
    else match pickPool bits exponent rest with
      | some (x, r) => some (x, k :: r)
      | none => none

def rsaObj (handle cls : Nat) (label : String) (k : PoolKey) : Obj :=
  { handle, cls, label, keyType := some ckkRsa, id := [],
    attrs := [("MODULUS", k.modulus), ("PUBLIC_EXPONENT", k.exponent)] }

/-- the slot after a key pair was generated in it -/
def SlotSt.addPair (s : SlotSt) (label privLabel : String) (k : PoolKey) : SlotSt :=
  { objects := s.objects ++ [rsaObj s.next ckoPublic label k, rsaObj (s.next + 1) ckoPrivate privLabel k],
    next := s.next + 2 }

/-- the slot after the object with this handle was destroyed -/
def SlotSt.remove (s : SlotSt) (h : Nat) : SlotSt := { s with objects := s.objects.filter (·.handle != h) }

/-- **The store semantics of one token operation** (what harness/p11emu.py does). -/
def storeStep (st : Store) : TokOp → TokAns × Store
  | .findObjects p n tmpl =>
    match st.slots p n with
    | none => (.error, st)
    | some s => (.handles ((s.objects.filter (·.matchesTmpl tmpl)).map (·.handle)), st)
  | .getAttr p n h names =>
    match st.slots p n with
    | none => (.error, st)
    | some s =>
      match s.objects.find? (·.handle == h) with
      | none => (.error, st)
      | some o => (.attrs (names.map o.attr), st)
  | .generateKeyPair p n label bits exponent privLabel =>
    match st.slots p n with
    | none => (.error, st)
    | some s =>
      match pickPool bits exponent st.pool with
      | none => (.error, st)
      | some (k, pool') =>
        (.pair s.next (s.next + 1), { (st.setSlot p n (s.addPair label privLabel k)) with pool := pool' })
  | .destroyObject p n h =>
    match st.slots p n with
    | none => (.error, st)
    | some s =>
      if s.objects.any (·.handle == h) then (.ok, st.setSlot p n (s.remove h)) else (.error, st)
  | .openSession p n _ => (if (st.slots p n).isSome then .ok else .error, st)
  | .login .. => (.ok, st)
  | .load _ => (.ok, st)
  | .initialize _ => (.ok, st)
  | .getTokenInfo .. => (.ok, st)
  | .closeAllSessions .. => (.ok, st)
  | .getSlotList _ => (.other, st)
  | .sign .. => (.other, st)

/-- computations against a store; the store survives failures (as the token does an exception) -/
abbrev StM (α : Type) := Store → (Res α × Store)

/-- against a store: every `ask` is one `storeStep` -/
def Prog.runSt {α} : Prog α → StM α
  | .ret a, st => (.ok a, st)
  | .fail f, st => (.error f, st)
  | .ask op k, st => (k (storeStep st op).1).runSt (storeStep st op).2

/-! ### kskm/misc/hsm.py lookups, as programs (same text as Kskm/Hsm.lean's `TokM` versions) -/

def attr1P (a : TokAns) : Prog AttrAns :=
  match a with
  | .attrs [x] => pure x
  | _ => .fail .unsupported

def attrBytesP (a : AttrAns) : Prog Bytes :=
  match a with
  | .bytes b => pure b
  | .none => errP .type
  | _ => .fail .unsupported

/-- `_p11_object_to_public_key(session, handle)` -/
def p11ObjectToPublicKeyP (path : String) (slot handle : Nat) : Prog (Option String) := do
  let kt ← attr1P (← askOkP (.getAttr path slot handle ["KEY_TYPE"]))
  match kt with
  | .num n =>
    if n = ckkRsa then do
      let modulus ← attr1P (← askOkP (.getAttr path slot handle ["MODULUS"]))
      let exp ← attr1P (← askOkP (.getAttr path slot handle ["PUBLIC_EXPONENT"]))
      let e ← attrBytesP exp
      let n ← attrBytesP modulus
      let txt ← liftP (rsaEncode (beNat e) n)
      pure (some txt)
    else if n = ckkEc then do
      let pt ← attr1P (← askOkP (.getAttr path slot handle ["EC_POINT"]))
      match pt with
      | .none => pure none
      | .bytes [] => pure none
      | .bytes point =>
        if point.length < 2 ∨ 258 ≤ point.length then errP .value else
        let point := ecUnwrap point
        let params ← attrBytesP (← attr1P (← askOkP (.getAttr path slot handle ["EC_PARAMS"])))
        let want ← if params = ecOidP256 then pure 256 else if params = ecOidP384 then pure 384
                   else errP .runtime
        let ecLen := (point.length - 1) * 8 / 2
        if ecLen ≠ want then errP .runtime
        else pure (some (Base64.encode point))
      | _ => .fail .unsupported
    else errP .notImplemented
  | .none => errP .notImplemented
  | _ => .fail .unsupported

/-- the end of `find_key_by_label`: read the key type, build the key record -/
def foundKeyTailP (m : P11Module) (label : String) (keyClass : Nat) (hashUsingHsm : Option Bool)
    (slot h : Nat) (pk : Option String) : Prog (Option P11Key) := do
  let kt ← attr1P (← askOkP (.getAttr m.path slot h ["KEY_TYPE"]))
  match kt with
  | .num n =>
    match keyTypeOf n with
    | none => errP .value
    | some t =>
      pure (some { label, keyType := t, keyClass, hashUsingHsm, publicKey := pk,
                   module := m.path, slot,
                   privHandle := if keyClass ≠ ckoPublic then some h else none,
                   pubHandle := if keyClass ≠ ckoSecret then some h else none })
  | .none => errP .value
  | _ => .fail .unsupported

/-- what `find_key_by_label` does once exactly one handle `h` was returned for `slot` -/
def foundKeyP (m : P11Module) (label : String) (keyClass : Nat) (hashUsingHsm : Option Bool)
    (slot h : Nat) : Prog (Option P11Key) :=
  if keyClass ≠ ckoSecret then
    p11ObjectToPublicKeyP m.path slot h >>= foundKeyTailP m label keyClass hashUsingHsm slot h
  else foundKeyTailP m label keyClass hashUsingHsm slot h none

/-- `find_key_by_label` over the sessions of one module, in session order -/
def findInSlotsP (m : P11Module) (label : String) (keyClass : Nat) (hashUsingHsm : Option Bool) :
    List Nat → Prog (Option P11Key)
  | [] => pure none
  | slot :: rest => do
    let r ← askOkP (.findObjects m.path slot [("LABEL", .str label), ("CLASS", .num keyClass)])
    match r with
    | .handles [] => findInSlotsP m label keyClass hashUsingHsm rest
    | .handles [h] => foundKeyP m label keyClass hashUsingHsm slot h
    | .handles _ => errP .runtime      -- more than one key with that label in the slot
    | _ => .fail .unsupported

/-- `get_p11_key(label, modules, public, hash_using_hsm)` -/
def getP11KeyP (label : String) (isPublic : Bool) (hashUsingHsm : Option Bool) :
    List P11Module → Prog (Option P11Key)
  | [] => pure none
  | m :: rest => do
    let cls := if isPublic then ckoPublic else ckoPrivate
    match ← findInSlotsP m label cls hashUsingHsm m.sessions with
    | some k => pure (some k)
    | none => getP11KeyP label isPublic hashUsingHsm rest

/-! ### kskm/keymaster/common.py -/

/-- `sorted(l)[0]` -/
def minSlot : List Nat → Option Nat
  | [] => none
  | a :: r => match minSlot r with
    | none => some a
    | some b => some (if a ≤ b then a else b)

/-- `get_session(p11modules, logger)`: first module; first of `sorted(slots)`; its session -/
def getSession (mods : List P11Module) : Res (String × Nat) :=
  match mods with
  | [] => err .index
  | first :: _ =>
    if first.sessions.isEmpty then err .runtime
    else match minSlot first.slots with
      | none => err .index
      | some s => if first.sessions.contains s then pure (first.path, s) else err .key

/-! ### kskm/keymaster/keygen.py -/

/-- the existing-label check of `generate_key_from_templates` (F9a repaired):
    `get_p11_key(label, public=True) or get_p11_key(label, public=False)` -/
def existingKeyP (mods : List P11Module) (label : String) : Prog (Option P11Key) := do
  match ← getP11KeyP label true none mods with
  | some k => pure (some k)
  | none => getP11KeyP label false none mods

/-- `generate_key_from_templates`: refuse when the label exists, else generate on `get_session()` and
    look the new public object up -/
def generateKeyFromTemplatesP (mods : List P11Module) (label : String) (bits : Option Nat)
    (exponent : Option Bytes) : Prog (Option P11Key) := do
  match ← existingKeyP mods label with
  | some _ => pure none                      -- "A key with label … already exists"; sleep(4)
  | none => do
    let (path, slot) ← liftP (getSession mods)
    let _ ← askOkP (.generateKeyPair path slot label bits exponent label)
    getP11KeyP label true none mods

/-- `public_key_template`'s exponent octets: `int.to_bytes(e, ceil(bit_length / 8), "big")` -/
def exponentOctets (e : Nat) : Bytes := natToBytes e

/-- `generate_rsa_key(flags, bits, p11modules, exponent=65537, label)` -/
def generateRsaKeyP (mods : List P11Module) (bits : Nat) (label : Option String) : Prog (Option P11Key) :=
  match label with
  | none => .fail .unsupported                -- `generate_key_label(flags)`: from the clock, not modelled
  | some l => generateKeyFromTemplatesP mods l (some bits) (some (exponentOctets 65537))

/-! ### text helpers (`str.format`, `_chunks`, `_id_to_str`) -/

def spaces (n : Nat) : String := String.ofList (List.replicate n ' ')

/-- `f"{s:7s}"` -/
def ljust7 (s : String) : String := s ++ spaces (7 - s.length)

def lowerHex (b : Bytes) : String := String.ofList (hexlify b)

/-- `_id_to_str(key_id)` -/
def idToStr (id : Option Bytes) : String :=
  match id with
  | some b => if b.isEmpty then "" else "id=0x" ++ lowerHex b ++ " "
  | none => ""

def chunksAux (indent length : Nat) : Nat → List Char → List String
  | 0, _ => []
  | fuel + 1, d =>
    if d.isEmpty then [] else
    (spaces indent ++ String.ofList (d.take length)) :: chunksAux indent length fuel (d.drop length)

/-- `_chunks(data, indent, length)` for `length ≥ 1` (the callers pass 80, 79, 92) -/
def chunks (data : String) (indent length : Nat) : List String :=
  chunksAux indent length data.length data.toList

def joinNl (l : List String) : String := String.intercalate "\n" l

/-! ### kskm/keymaster/inventory.py: `DNSRecords` -/

structure DnsRecords where
  key : Key
  dsDigest : Bytes
  deriving DecidableEq, Repr, Inhabited

/-- `DNSRecords.from_key(key)`: a temporary `KSKKey` is built (its `key_tag` field allows
    `KskmGen.kskKeyTagMin`…65535 only — the lower bound is tabulated from the code on every run: 1 on
    the pinned tree, where a key with tag 0 could not be reported; 0 after /repo b0ed181),
    then `create_trustanchor_keydigest` -/
def DnsRecords.fromKey (hash : Hasher) (key : Key) : Res DnsRecords := do
  if key.keyTag < (KskmGen.kskKeyTagMin : Int) ∨ 65535 < key.keyTag then err .validation
  let tmp : KskKey := { label := "temp_" ++ toString key.keyTag, keyTag := some key.keyTag,
                        algorithm := key.algorithm, validFrom := 0, validUntil := some 0 }
  let ds ← createTrustanchorKeydigest hash tmp key "."
  pure { key, dsDigest := ds.digest }

/-- `DNSRecords.format(indent, max_length)`: the DS line and the DNSKEY block -/
def DnsRecords.format (d : DnsRecords) (indent maxLength : Nat) : List String :=
  let pad := spaces indent
  let ds := pad ++ ". IN DS " ++ toString d.key.keyTag ++ " " ++ toString d.key.algorithm ++ " 2 "
    ++ upperHex d.dsDigest
  let pk := joinNl (chunks d.key.publicKey (indent + 4) (maxLength - indent - 4))
  let dnskey := pad ++ ". IN DNSKEY " ++ toString d.key.flags ++ " " ++ toString d.key.protocol ++ " "
    ++ toString d.key.algorithm ++ " (\n" ++ pk ++ "\n" ++ pad ++ ")"
  [ds, dnskey]

/-! ### configuration -/

/-- a `keys:` entry as the keymaster reads it: `KSKKey` plus the two fields only messages use -/
structure KmKsk where
  ksk : KskKey
  description : String := ""
  /-- `ksk.algorithm.name` -/
  algName : String := ""
  deriving DecidableEq, Repr, Inhabited

structure KmConfig where
  /-- `config.ksk_keys` in configuration order -/
  ksks : List KmKsk
  /-- `config.ksk_policy.ttl` -/
  ttl : Int := 172800
  deriving DecidableEq, Repr, Inhabited

/-! ### kskm/tools/keymaster.py: `keygen` -/

/-- what `keygen` reports through `logger.info` -/
structure KeygenReport where
  label : String
  keyTag : Int
  revokedTag : Int
  /-- `dns.format(indent=4, max_length=100)` -/
  dnsLines : List String
  /-- `pgp_wordlist(dns.ds.digest)` -/
  words : List String
  dsDigest : Bytes
  deriving DecidableEq, Repr, Inhabited

/-- the part of `keygen` after key generation: tags, collision check, DS.  Pure. -/
def keygenReport (ext : Externals) (cfg : KmConfig) (alg : Nat) (label pk : String) : Res KeygenReport := do
  let key ← publicKeyToDnssecKey pk label alg cfg.ttl 257
  let revoked ← publicKeyToDnssecKey pk label alg cfg.ttl 385
  let tags := [key.keyTag, revoked.keyTag]
  if cfg.ksks.any (fun k => match k.ksk.keyTag with | some t => tags.contains t | none => false) then
    err .runtime                                -- "Key tag collision detected"
  let dns ← DnsRecords.fromKey ext.hash key
  pure { label, keyTag := key.keyTag, revokedTag := revoked.keyTag, dnsLines := dns.format 4 100,
         words := pgpWordlist dns.dsDigest, dsDigest := dns.dsDigest }

/-- the end of `keygen`: "No public key returned by key generation", else the report -/
def keygenTail (ext : Externals) (cfg : KmConfig) (alg : Nat) (p11key : Option P11Key) : Res KeygenReport :=
  match p11key with
  | none => err .runtime
  | some k =>
    match k.publicKey with
    | none => err .runtime
    | some pk => if pk.isEmpty then err .runtime else keygenReport ext cfg alg k.label pk

/-- the key generation step of `keygen` -/
def keygenGenerateP (mods : List P11Module) (alg : Nat) (keySize : Option Nat) (label : Option String) :
    Prog (Option P11Key) :=
  if isAlgorithmRsa alg then
    match keySize with
    | none => errP .other                     -- argparse.ArgumentError
    | some bits => generateRsaKeyP mods bits label
  else if isAlgorithmEcdsa alg then errP .notImplemented
  else errP .value

/-- `keygen(args, config, p11modules, logger)`.  NOTE the order: the key pair is generated on the
    token BEFORE the tag collision test; a collision leaves the new pair on the token. -/
def keygenP (ext : Externals) (cfg : KmConfig) (mods : List P11Module) (alg : Nat) (keySize : Option Nat)
    (label : Option String) : Prog KeygenReport := do
  let p11key ← keygenGenerateP mods alg keySize label
  liftP (keygenTail ext cfg alg p11key)

/-! ### kskm/keymaster/delete.py -/

/-- first destroy of `key_delete`: the public object, through the session it was found in, when the
    key has a public key and a handle -/
def destroyPublicP (pub : P11Key) : Prog Unit :=
  match pub.publicKey, pub.pubHandle with
  | some pk, some h =>
    if pk.isEmpty then pure () else do
      let _ ← askOkP (.destroyObject pub.module pub.slot h)
      pure ()
  | _, _ => pure ()

/-- second half of `key_delete`: look the private object up again, destroy it where it was found -/
def destroyPrivateP (mods : List P11Module) (label : String) : Prog Bool := do
  match ← getP11KeyP label false none mods with
  | none => pure false
  | some priv =>
    match priv.privHandle with
    | none => pure false
    | some h => do
      let _ ← askOkP (.destroyObject priv.module priv.slot h)
      pure true

/-- `key_delete(label, p11modules, force)` (F9b repaired); `answer` is what `input()` returns -/
def keyDeleteP (mods : List P11Module) (label : String) (force : Bool) (answer : String) : Prog Bool := do
  match ← getP11KeyP label true none mods with
  | none => pure false                          -- "No key with label … found"
  | some pub =>
    if !force && !confirmed answer then pure true      -- "aborted" — returns True
    else do
      destroyPublicP pub
      destroyPrivateP mods label

/-- `keydel(args, config, p11modules, logger)`: the result of `key_delete` is dropped -/
def keydelP (mods : List P11Module) (label : String) (force : Bool) (answer : String) : Prog Bool := do
  let _ ← keyDeleteP mods label force answer
  pure true

/-! ### kskm/misc/hsm.py `get_key_inventory`, kskm/keymaster/inventory.py -/

structure KeyInfo where
  keyClass : Nat
  keyId : Option Bytes := none
  label : String
  pubkey : Option String := none
  deriving DecidableEq, Repr, Inhabited

/-- the dictionary key `f"{label}+{key_id!r}"`.  Modelled as the pair: the text is an injective
    function of the pair (a `bytes` repr starts `b'`/`b"`, ends with its quote and contains that quote
    only escaped, `None` ends in `e`; so the suffix after the last possible `+` is determined). -/
def KeyInfo.key (k : KeyInfo) : String × Option Bytes := (k.label, k.keyId)

/-- `key_id = None if _key_id == () else bytes(_key_id)` -/
def keyIdOfP (i : AttrAns) : Prog (Option Bytes) :=
  match i with
  | .bytes [] => pure none
  | .bytes b => pure (some b)
  | .none => errP .type
  | _ => .fail .unsupported

/-- the `label: str` field of `KeyInfo` (validated when the model is built) -/
def labelOfP (l : AttrAns) : Prog String :=
  match l with
  | .str s => pure s
  | .none => errP .validation
  | _ => .fail .unsupported

/-- the class dispatch of `get_key_inventory`: SECRET / PUBLIC (with its public key) / PRIVATE; anything
    else is skipped -/
def keyInfoOfP (path : String) (slot h : Nat) (c l : AttrAns) (keyId : Option Bytes) : Prog (Option KeyInfo) :=
  match c with
  | .num n =>
    if n = ckoSecret then do
      let lab ← labelOfP l
      pure (some { keyClass := ckoSecret, label := lab, keyId })
    else if n = ckoPublic then do
      let pub ← p11ObjectToPublicKeyP path slot h
      let lab ← labelOfP l
      pure (some { keyClass := ckoPublic, label := lab, keyId, pubkey := pub })
    else if n = ckoPrivate then do
      let lab ← labelOfP l
      pure (some { keyClass := ckoPrivate, label := lab, keyId })
    else pure none
  | .none => pure none
  | _ => .fail .unsupported

/-- one object of `get_key_inventory`: CLASS, LABEL, ID in one read -/
def inventoryOneP (path : String) (slot h : Nat) : Prog (Option KeyInfo) := do
  let a ← askOkP (.getAttr path slot h ["CLASS", "LABEL", "ID"])
  match a with
  | .attrs [c, l, i] => do
    let keyId ← keyIdOfP i
    keyInfoOfP path slot h c l keyId
  | _ => .fail .unsupported

def inventoryLoopP (path : String) (slot : Nat) : List Nat → Prog (List KeyInfo)
  | [] => pure []
  | h :: rest => do
    let this ← inventoryOneP path slot h
    let more ← inventoryLoopP path slot rest
    pure (match this with | some k => k :: more | none => more)

/-- `KSKM_P11Module.get_key_inventory(session)`: `findObjects` with an EMPTY template -/
def getKeyInventoryP (path : String) (slot : Nat) : Prog (List KeyInfo) := do
  match ← askOkP (.findObjects path slot []) with
  | .handles hs => inventoryLoopP path slot hs
  | _ => .fail .unsupported

/-- `keys: dict[KeyClass, dict[str, KeyInfo]]` — both levels in insertion order -/
abbrev KeyTable := List (Nat × List KeyInfo)

def KeyTable.get (t : KeyTable) (cls : Nat) : Option (List KeyInfo) := t.lookup cls

def KeyTable.set (t : KeyTable) (cls : Nat) (v : List KeyInfo) : KeyTable :=
  t.map (fun p => if p.1 = cls then (cls, v) else p)

/-- one round of the collection loop of `key_inventory`: a second object with the same class and
    label+id is skipped ("already seen in slot") -/
def KeyTable.add (t : KeyTable) (this : KeyInfo) : KeyTable :=
  let t := if (t.get this.keyClass).isSome then t else t ++ [(this.keyClass, [])]
  match t.get this.keyClass with
  | some l => if l.any (·.key = this.key) then t else t.set this.keyClass (l ++ [this])
  | none => t

inductive KskInfo where
  | notFound
  | bad (label description msg : String)
  | good (label description : String) (keyTag : Option Int) (algName : String)
  deriving DecidableEq, Repr, Inhabited

def pyOptInt : Option Int → String
  | some n => toString n
  | none => "None"

def KskInfo.text : KskInfo → String
  | .notFound => "Matching KSK not found in configuration"
  | .bad l d m => "BAD KSK '" ++ l ++ "/" ++ d ++ "': " ++ m
  | .good l d t a => "KSK '" ++ l ++ "/" ++ d ++ "', key tag " ++ pyOptInt t ++ ", algorithm=" ++ a

/-- `validate_dnskey_matches_ksk(ksk, dnskey)` with the message of the RuntimeError it raises
    (`some msg`), `none` when the key matches.  Same tests, same order as `validateDnskeyMatchesKsk`
    (Kskm/Signer.lean); `C19.validateMsg_agrees` proves the verdicts equal. -/
def validateDnskeyMsg (ext : Externals) (ksk : KskKey) (dnskey : Key) : Res (Option String) := do
  let dsMsg : Option String ← match ksk.dsSha256 with
    | none => pure none
    | some ds =>
      if ds.isEmpty then pure none else do
      let inp ← dsInput dnskey
      let digest ← hashOrUnknown ext.hash .sha256 inp
      if ds.toUpper != upperHex digest then
        pure (some ("Key " ++ ksk.label ++ " has unexpected DS (" ++ upperHex digest ++ ", not " ++ ds.toUpper ++ ")"))
      else pure none
  match dsMsg with
  | some m => pure (some m)
  | none =>
    match ksk.keyTag with
    | none => pure none
    | some t =>
      if dnskey.keyTag != t then
        pure (some ("Key " ++ ksk.label ++ " has unexpected key tag (" ++ toString dnskey.keyTag ++ ", not "
          ++ toString t ++ ")"))
      else pure none

/-- the loop `for _name, ksk in config.ksk_keys.items(): if ksk.label == this.label: …` -/
def kskInfoLoop (ext : Externals) (label pk : String) :
    List KmKsk → (KskInfo × Option DnsRecords) → Res (KskInfo × Option DnsRecords)
  | [], acc => pure acc
  | k :: rest, acc =>
    if k.ksk.label = label then do
      let dnskey ← publicKeyToDnssecKey pk label k.ksk.algorithm 0 257
      let dns ← DnsRecords.fromKey ext.hash dnskey
      match ← validateDnskeyMsg ext k.ksk dnskey with
      | some msg => pure (.bad k.ksk.label k.description msg, some dns)          -- `break`
      | none => kskInfoLoop ext label pk rest (.good k.ksk.label k.description k.ksk.keyTag k.algName, some dns)
    else kskInfoLoop ext label pk rest acc

structure PairEntry where
  pub : KeyInfo
  info : KskInfo
  dns : Option DnsRecords
  deriving DecidableEq, Repr, Inhabited

structure PairState where
  pubs : List KeyInfo
  privs : List KeyInfo
  pairs : List PairEntry := []
  deriving DecidableEq, Repr, Inhabited

/-- the pairing loop of `_format_keys` over `initial_keylist` (F14 repaired: both `del`s are inside
    `if label_and_id in data[KeyClass.PRIVATE]`) -/
def pairLoop (ext : Externals) (cfg : KmConfig) : List KeyInfo → PairState → Res PairState
  | [], st => pure st
  | this :: rest, st =>
    match this.pubkey with
    | none => err .runtime                                  -- "Invalid public key"
    | some pk => do
      let (info, dns) ← kskInfoLoop ext this.label pk cfg.ksks (.notFound, none)
      if st.privs.any (·.key = this.key) then
        pairLoop ext cfg rest
          { pubs := st.pubs.filter (·.key ≠ this.key), privs := st.privs.filter (·.key ≠ this.key),
            pairs := st.pairs ++ [{ pub := this, info, dns }] }
      else pairLoop ext cfg rest st

/-- what `_format_keys` lists for one slot, before it is turned into text -/
structure SlotListing where
  pairs : List PairEntry
  /-- per class, in the order the classes were first seen -/
  leftovers : List (Nat × List KeyInfo)
  deriving DecidableEq, Repr, Inhabited

def formatKeysStruct (ext : Externals) (cfg : KmConfig) (data : KeyTable) : Res SlotListing :=
  match data.get ckoPublic, data.get ckoPrivate with
  | some pubs, some privs => do
    let st ← pairLoop ext cfg pubs { pubs, privs }
    pure { pairs := st.pairs, leftovers := (data.set ckoPublic st.pubs).set ckoPrivate st.privs }
  | _, _ => pure { pairs := [], leftovers := data }

def className (cls : Nat) : String :=
  if cls = ckoPublic then "PUBLIC" else if cls = ckoPrivate then "PRIVATE" else if cls = ckoSecret then "SECRET"
  else "?"

def PairEntry.lines (dnsRecords : Bool) (p : PairEntry) : List String :=
  let head := "      " ++ ljust7 p.pub.label ++ " -- " ++ p.info.text
  match dnsRecords, p.dns with
  | true, some dns => [head, spaces 17 ++ idToStr p.pub.keyId] ++ dns.format 17 100
  | _, _ =>
    let pk := joinNl (chunks ("public_key=" ++ p.pub.pubkey.getD "") 17 80)
    [head, spaces 17 ++ idToStr p.pub.keyId ++ "\n" ++ pk]

def leftoverLines : List (Nat × List KeyInfo) → List String
  | [] => []
  | (cls, l) :: rest =>
    (if l.isEmpty then [] else
      ("    " ++ className cls ++ " keys:") :: l.map (fun k => "      " ++ ljust7 k.label ++ " " ++ idToStr k.keyId))
    ++ leftoverLines rest

def SlotListing.lines (dnsRecords : Bool) (s : SlotListing) : List String :=
  (if s.pairs.isEmpty then [] else "    Signing key pairs:" :: (s.pairs.map (PairEntry.lines dnsRecords)).flatten)
  ++ leftoverLines s.leftovers

/-- `_format_keys(data, config, dns_records)` -/
def formatKeys (ext : Externals) (cfg : KmConfig) (dnsRecords : Bool) (data : KeyTable) : Res (List String) := do
  let s ← formatKeysStruct ext cfg data
  pure (s.lines dnsRecords)

/-- `sorted(module.sessions.items())` -/
def sortSlots (l : List Nat) : List Nat := l.mergeSort (fun a b => decide (a ≤ b))

/-- one slot of `key_inventory`: collect, de-duplicate, list -/
def slotListingP (ext : Externals) (cfg : KmConfig) (path : String) (slot : Nat) : Prog SlotListing := do
  let infos ← getKeyInventoryP path slot
  liftP (formatKeysStruct ext cfg (infos.foldl KeyTable.add []))

def inventorySlotsP (ext : Externals) (cfg : KmConfig) (dnsRecords : Bool) (path : String) :
    List Nat → Prog (List String)
  | [] => pure []
  | slot :: rest => do
    let listing ← slotListingP ext cfg path slot
    let formatted := listing.lines dnsRecords
    let more ← inventorySlotsP ext cfg dnsRecords path rest
    pure ((if formatted.isEmpty then [] else ("  Slot " ++ toString slot ++ ":") :: formatted) ++ more)

/-- `key_inventory(p11modules, config, dns_records)` -/
def keyInventoryP (ext : Externals) (cfg : KmConfig) (dnsRecords : Bool) : List P11Module → Prog (List String)
  | [] => pure []
  | m :: rest => do
    let here ← inventorySlotsP ext cfg dnsRecords m.path (sortSlots m.sessions)
    let more ← keyInventoryP ext cfg dnsRecords rest
    pure (("HSM " ++ m.label ++ ":") :: here ++ more)

/-- `inventory(args, config, p11modules, logger)`: the lines joined into the one message logged -/
def inventoryP (ext : Externals) (cfg : KmConfig) (mods : List P11Module) (dnsRecords : Bool) :
    Prog (List String) :=
  keyInventoryP ext cfg dnsRecords mods

end Kskm.Km
