/-
  Kskm.SkrValidate — kskm/skr/validate.py (`validate_response`, `check_valid_signatures`) and the
  validation gate of kskm/skr/load.py:`load_skr`.  Same order of steps as the code: the bundle count
  first, then every bundle in document order under the `validate_signatures` flag.  The signature
  verifier is a parameter.
-/
import Kskm.Signature
namespace Kskm

/-- `check_valid_signatures(bundle, policy)`: `InvalidSignature` (and only it) becomes
    `InvalidSignatureViolation`; every other exception of `validate_signatures` propagates.
    (`validate_signatures` returns `True` or raises, so the "unknown result" branch is dead.) -/
def checkValidSignatures (verify : Verifier) (b : Bundle) (pol : ResponsePolicy) : Res Unit :=
  if !pol.validateSignatures then pure () else
  match validateSignatures verify b with
  | .error (.error .invalidSignature) => violation .skrInvalidSignature
  | .error e => .error e
  | .ok () => pure ()

/-- `validate_response(response, policy)` -/
def validateResponse (verify : Verifier) (resp : Response) (pol : ResponsePolicy) : Res Unit := do
  if (resp.bundles.length : Int) != pol.numBundles then violation .skrPolicy
  forEach resp.bundles fun b => checkValidSignatures verify b pol

/-- The gate inside `load_skr`: a `PolicyViolation` from `validate_response` is re-raised as
    `RuntimeError`; anything else propagates unchanged. -/
def loadSkrGate (verify : Verifier) (resp : Response) (pol : ResponsePolicy) : Res Unit :=
  match validateResponse verify resp pol with
  | .error (.violation _) => err .runtime
  | r => r

end Kskm
