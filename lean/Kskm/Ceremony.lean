/-
  Kskm.Ceremony — kskm/tools/ksrsigner.py: the `ksrsigner()` pipeline and `main()`'s exit status.

  get schema → load + validate previous SKR → load + validate KSR → initialise tokens → chain checks
  → show digest → confirmation unless forced → create SKR → publish/retire checks → ONE write.

  Parsing of the two documents is outside this model (it is C12/C13's subject): the parse OUTCOMES
  are inputs.  Everything after parsing — validation, token work, prompts, the write — is modelled,
  as a computation in `CerM`, which layers an event log (prompt, display, write) over the token log.
-/
import Kskm.Signer
import Kskm.SkrValidate
namespace Kskm

inductive Event where
  | display                      -- FILENAME / SHA-256 HEX / WORDS printed
  | prompt                       -- `input(…)` was called
  | write (skr : Response)       -- `output_skr_xml`: the single write of the new SKR
  deriving Repr, Inhabited

structure CerState where
  tok : TokState := {}
  events : List Event := []      -- newest first
  deriving Repr, Inhabited

abbrev CerM (α : Type) := Token → CerState → (Res α × CerState)

instance : Monad CerM where
  pure a := fun _ s => (.ok a, s)
  bind m f := fun t s =>
    match m t s with
    | (.ok a, s') => f a t s'
    | (.error e, s') => (.error e, s')

def CerM.liftTok {α} (m : TokM α) : CerM α := fun t s =>
  let r := m t s.tok
  (r.1, { s with tok := r.2 })

def CerM.lift {α} (r : Res α) : CerM α := fun _ s => (r, s)
def CerM.emit (e : Event) : CerM Unit := fun _ s => (.ok (), { s with events := e :: s.events })

/-- `try: … except Exception: return False` around HSM initialisation -/
def CerM.catchAll {α} (m : CerM α) (onFail : α) : CerM α := fun t s =>
  match m t s with
  | (.ok a, s') => (.ok a, s')
  | (.error .unsupported, s') => (.error .unsupported, s')
  | (.error _, s') => (.ok onFail, s')

structure HsmConfig where
  label : String
  path : String
  pin : Option String
  soPin : Option String
  deriving DecidableEq, Repr, Inhabited

/-- `init_pkcs11_modules(config, name, so_login=False, rw_session=False)` -/
def initPkcs11Modules (all : List HsmConfig) (name : Option String) (typedPin : String) :
    List HsmConfig → TokM (List P11Module)
  | [] =>
    if (name.isSome && name != some "") && all.all (fun h => some h.label != name)
    then TokM.err .runtime else pure []
  | h :: rest =>
    if (name.isSome && name != some "") && some h.label != name then initPkcs11Modules all name typedPin rest
    else do
      let m ← P11Module.init h.label h.path h.pin h.soPin false false typedPin
      let more ← initPkcs11Modules all name typedPin rest
      pure (m :: more)

/-- token lookup used by `check_last_skr_key_present`, as a `TokM` action -/
def lookupPublic (mods : List P11Module) (label : String) : TokM (Option (Option String)) := do
  match ← getP11Key label true none mods with
  | none => pure none
  | some k => pure (some k.publicKey)

/-- `check_last_skr_key_present` against live modules (an empty module list is falsy: skipped). -/
def checkLastSkrKeyPresentTok (last : Response) (pol : RequestPolicy) (mods : List P11Module) :
    TokM Unit :=
  if mods.isEmpty then pure () else
  if !pol.checkChainKeysInHsm then pure () else
  match last.bundles.getLast? with
  | none => TokM.err .index
  | some lb => do
    let rec go : List Signature → TokM Unit
      | [] => pure ()
      | sig :: rest => do
        match ← lookupPublic mods sig.keyIdentifier with
        | none => TokM.fail (.violation .chainKeys)
        | some none => TokM.fail (.violation .chainKeys)
        | some (some pk) =>
          if pk.isEmpty then TokM.fail (.violation .chainKeys) else do
          let hsmkey ← TokM.lift (publicKeyToDnssecKey pk sig.keyIdentifier sig.algorithm sig.ttl 257)
          match lb.keys.find? (fun k => k.keyIdentifier = sig.keyIdentifier) with
          | none => TokM.err .index
          | some key =>
            if key.publicKey != hsmkey.publicKey then TokM.fail (.violation .chainKeys) else go rest
    go lb.signatures
    if lb.signatures.isEmpty then TokM.fail (.violation .chainKeys) else pure ()

structure CeremonyArgs where
  /-- `config.get_schema(args.schema)`: `none` when the name is not configured (KeyError) -/
  actions : Option (List (Nat × SchemaAction))
  /-- previous SKR: `none` = no file configured; otherwise the outcome of reading + parsing it -/
  prev : Option (Res Response)
  /-- KSR: `none` = no file name; otherwise the outcome of reading + parsing it -/
  ksr : Option (Res Request)
  hsm : List HsmConfig
  hsmName : Option String := none
  typedPin : String := ""
  force : Bool := false
  /-- what `input()` returns if it is called -/
  answer : String := ""
  kskKeys : List (String × KskKey)
  kskPolicy : KskPolicy
  requestPolicy : RequestPolicy
  responsePolicy : ResponsePolicy
  now : Int

/-- `load_ksr`'s gate: a PolicyViolation is re-raised as RuntimeError -/
def loadKsrGate (verify : Verifier) (now : Int) (req : Request) (pol : RequestPolicy) : Res Unit :=
  match validateRequest verify now req pol with
  | .error (.violation _) => err .runtime
  | r => r

/-- `ack.strip("\n") != "Yes"`: newlines stripped at both ends, nothing else -/
def stripNewlines (s : String) : String :=
  String.ofList ((s.toList.dropWhile (· = '\n')).reverse.dropWhile (· = '\n')).reverse

def confirmed (answer : String) : Bool := stripNewlines answer = "Yes"

/-- stage: load the previous SKR (if configured) — parse outcome, then `validate_response` -/
def stagePrev (ext : Externals) (a : CeremonyArgs) : Res (Option Response) :=
  match a.prev with
  | none => .ok none
  | some r => do
    let resp ← r
    loadSkrGate ext.verify resp a.responsePolicy
    pure (some resp)

/-- stage: load the KSR — parse outcome, then `validate_request` -/
def stageKsr (ext : Externals) (a : CeremonyArgs) (r : Res Request) : Res Request := do
  let req ← r
  loadKsrGate ext.verify a.now req a.requestPolicy
  pure req

/-- stage: `check_skr_and_ksr(request, skr, policy, p11modules)` when a previous SKR was loaded -/
def stageChain (a : CeremonyArgs) (req : Request) (skr : Option Response) (mods : List P11Module) :
    TokM Unit :=
  match skr with
  | none => pure ()
  | some last => do
    TokM.lift (checkUniqueRequest req last)
    TokM.lift (checkUniqueBundleIds req last)
    TokM.lift (checkChainKeys req last a.requestPolicy)
    TokM.lift (checkChainOverlap req last a.requestPolicy)
    checkLastSkrKeyPresentTok last a.requestPolicy mods

/-- stage: the confirmation prompt (skipped when forced) -/
def stageConfirm (a : CeremonyArgs) : CerM Bool :=
  if a.force then pure true else do
    CerM.emit .prompt
    pure (confirmed a.answer)

/-- stage: `check_last_skr_and_new_skr` on the freshly signed SKR -/
def stagePost (a : CeremonyArgs) (skr : Option Response) (newSkr : Response) : Res Unit :=
  match skr with
  | none => pure ()
  | some last => checkLastSkrAndNewSkr last newSkr a.requestPolicy

/-- `skr_to_xml(skr)` is computed BEFORE the output file is opened; it refuses (NotImplementedError)
    an SKR with a timestamp or with a non-RSA entry in either algorithm policy. -/
def skrSerialisable (r : Response) : Res Unit :=
  if r.timestamp.isSome then err .notImplemented
  else if (r.kskPolicy.algorithms ++ r.zskPolicy.algorithms).any (fun a => a.kind != .rsa) then
    err .notImplemented
  else pure ()

def signerConfigOf (a : CeremonyArgs) (actions : List (Nat × SchemaAction)) : SignerConfig :=
  { kskKeys := a.kskKeys, kskPolicy := a.kskPolicy, responsePolicy := a.responsePolicy, actions }

/-- what the stages before signing hand over to the signing stage -/
structure PreSign where
  actions : List (Nat × SchemaAction)
  skr : Option Response
  req : Request
  mods : List P11Module

/-- Everything up to and including the confirmation — schema, previous SKR, KSR, token
    initialisation, chain checks, display, prompt.  `ok none` = the function returns False. -/
def preSign (ext : Externals) (a : CeremonyArgs) : CerM (Option PreSign) :=
  match a.actions with
  | none => pure none
  | some actions => do
    let skr ← CerM.lift (stagePrev ext a)
    match a.ksr with
    | none => pure none
    | some r => do
      let req ← CerM.lift (stageKsr ext a r)
      let mods? ← CerM.catchAll
        (do let m ← CerM.liftTok (initPkcs11Modules a.hsm a.hsmName a.typedPin a.hsm); pure (some m)) none
      match mods? with
      | none => pure none
      | some mods => do
        CerM.liftTok (stageChain a req skr mods)
        CerM.emit .display
        let go ← stageConfirm a
        if !go then pure none else pure (some { actions, skr, req, mods })

/-- The signing stage: `create_skr`, the publish / retire checks on the result, serialisation. -/
def signStage (ext : Externals) (a : CeremonyArgs) (p : PreSign) : CerM Response := do
  let newSkr ← CerM.liftTok (createSkr ext p.mods (signerConfigOf a p.actions) p.req)
  CerM.lift (stagePost a p.skr newSkr)
  CerM.lift (skrSerialisable newSkr)
  pure newSkr

/-- Everything `ksrsigner()` does before the write: `ok (some skr)` = every gate passed and `skr` is
    about to be written; `ok none` = the function returns False; `error _` = an exception. -/
def ksrsignerCore (ext : Externals) (a : CeremonyArgs) : CerM (Option Response) := do
  match ← preSign ext a with
  | none => pure none
  | some p => do
    let newSkr ← signStage ext a p
    pure (some newSkr)

/-- `ksrsigner(logger, args, config)`: `ok true` = returned True (success), `ok false` = returned
    False, `error _` = an exception left the function.  The write is the last step. -/
def ksrsigner (ext : Externals) (a : CeremonyArgs) : CerM Bool := do
  match ← ksrsignerCore ext a with
  | none => pure false
  | some newSkr => do
    CerM.emit (.write newSkr)
    pure true

/-- `_previous_skr_filename` / `_ksr_filename` / `_skr_filename`: a (non-empty) command-line value
    takes precedence over the configured file name. -/
def pickFile (cli cfg : Option String) : Option String :=
  match cli with
  | some f => if f.isEmpty then cfg else some f
  | none => cfg

/-- `main()`: success 0, returned False 3 ("fatal"), ConfigurationError 2, KeyboardInterrupt 1;
    any other exception leaves `main` uncaught: the interpreter exits with status 1. -/
def exitStatus (r : Res Bool) : Nat :=
  match r with
  | .ok true => 0
  | .ok false => 3
  | .error (.error .configuration) => 2
  | .error _ => 1

end Kskm
