/-
  Driver operations for the trust-anchor exporter (C18) and the keymaster (C19).

  C18 `trustanchor`: log replay — the model runs against the token that answers the n-th operation with
  the n-th recorded answer; result, complete operation log and the rendered document (header, entries,
  footer) go back.

  C19 `km_keygen` / `km_keydel` / `km_inventory`: the SAME program (`Kskm.Km.Prog`) is run twice —
  `runTok` by log replay (result + operation log) and `runSt` on the emulator's object table as it was
  before the operation (result + object table afterwards).
-/
import Kskm.Json
import Kskm.Ops.Core
import Kskm.Ops.Signer
import Kskm.Keymaster
import Kskm.XmlSpec
open Lean
namespace Kskm.Ops

/-! ### C18 -/

deriving instance ToJson for KeyDigest

structure TaArgsJ where
  id : Option String
  uuid : String
  trustanchor : Option String
  hsm : Option String
deriving instance FromJson for TaArgsJ

def trustanchorOp : Op := fun j => do
  let hsm : List HsmCfg ← arg j "hsm"
  let keys : List NamedKsk ← arg j "kskKeys"
  let a : TaArgsJ ← arg j "args"
  let ext ← externalsOf j
  let cfg : TaConfig := {
    hsm := hsm.map (fun h => { label := h.label, path := h.path, pin := h.pin, soPin := h.soPin }),
    kskKeys := keys.map (fun k => (k.name, k.key)),
    ttl := (← arg j "ttl"),
    outputTrustanchor := (← optArg j "outputTrustanchor"),
    typedPin := (j.getObjValAs? String "typedPin").toOption.getD "" }
  let args : TaArgs := { id := a.id, uuid := a.uuid, trustanchor := a.trustanchor, hsm := a.hsm }
  let rec_ ← recordedLog j
  let (r, s) := trustanchor ext args cfg (replayToken rec_) {}
  let out : Json := match r with
    | .ok res =>
      let (kind, path, content) := match res.output with
        | .file p c => ("file", some p, c)
        | .stdout t => ("stdout", none, t)
      Json.mkObj [("ok", Json.mkObj [
        ("digests", toJson res.ta.keyDigests), ("header", .str (xmlDeclLine ++ res.ta.header)),
        ("entries", toJson res.ta.entries), ("footer", .str taFooter),
        ("output", .str kind), ("path", toJson path), ("content", .str content)])]
    | .error f => toJson f
  pure (Json.mkObj [("result", out), ("log", logToJson s.log)])

/-! ### C18: the specification reader `XmlSpec.stdRead` on a document text -/

partial def specTreeJson : XmlSpec.XmlTree → Json
  | .text s => Json.mkObj [("text", .str (String.ofList s))]
  | .elem n a cs => Json.mkObj [
      ("name", .str (String.ofList n)),
      ("attrs", .arr (a.map (fun p => Json.arr #[.str (String.ofList p.1), .str (String.ofList p.2)])).toArray),
      ("children", .arr (cs.map specTreeJson).toArray)]

/-- `{"op":"std_read","text":…}` → `{"tree":…}` | `"malformed"` | `"outside"` -/
def stdReadOp : Op := fun j => do
  let text : String ← arg j "text"
  pure (match XmlSpec.stdRead text.toList with
    | .ok t => Json.mkObj [("tree", specTreeJson t)]
    | .error .malformed => .str "malformed"
    | .error .outside => .str "outside")

deriving instance FromJson for KeyDigest

/-- `{"op":"ta_doc","id":…,"source":…,"zone":…,"keyDigests":[…]}`: the model's `TrustAnchor.to_xml_doc()` for a
    given anchor, and the specification reader's answer on that text -/
def taDocOp : Op := fun j => do
  let ta : TrustAnchorDoc :=
    { id := (← arg j "id"), source := (← arg j "source"), zone := (← arg j "zone"), keyDigests := (← arg j "keyDigests") }
  let doc := ta.toXmlDoc
  let read : Json := match XmlSpec.stdRead doc.toList with
    | .ok t => Json.mkObj [("tree", specTreeJson t)]
    | .error .malformed => .str "malformed"
    | .error .outside => .str "outside"
  pure (Json.mkObj [("doc", .str doc), ("read", read)])

/-! ### C19: store codec -/

open Km in
structure ObjJ where
  handle : Nat
  cls : Nat
  label : String
  keyType : Option Nat
  id : Bytes
  attrs : List (String × Bytes)
deriving instance FromJson, ToJson for ObjJ

structure SlotJ where
  slot : Nat
  next : Nat
  objects : List ObjJ
deriving instance FromJson, ToJson for SlotJ

structure ModJ where
  module : String
  slots : List SlotJ
deriving instance FromJson, ToJson for ModJ

deriving instance FromJson, ToJson for Km.PoolKey

structure StoreJ where
  modules : List ModJ
  pool : List Km.PoolKey
deriving instance FromJson, ToJson for StoreJ

def ObjJ.toObj (o : ObjJ) : Km.Obj :=
  { handle := o.handle, cls := o.cls, label := o.label, keyType := o.keyType, id := o.id, attrs := o.attrs }
def ObjJ.ofObj (o : Km.Obj) : ObjJ :=
  { handle := o.handle, cls := o.cls, label := o.label, keyType := o.keyType, id := o.id, attrs := o.attrs }

def StoreJ.toStore (s : StoreJ) : Km.Store :=
  { slots := fun p n =>
      match s.modules.find? (·.module = p) with
      | none => none
      | some m =>
        match m.slots.find? (·.slot = n) with
        | none => none
        | some sl => some { objects := sl.objects.map ObjJ.toObj, next := sl.next },
    pool := s.pool }

/-- the store read back over the (module, slot) grid of the input -/
def StoreJ.ofStore (shape : StoreJ) (st : Km.Store) : StoreJ :=
  { modules := shape.modules.map (fun m =>
      { module := m.module,
        slots := m.slots.filterMap (fun sl =>
          match st.slots m.module sl.slot with
          | some x => some { slot := sl.slot, next := x.next, objects := x.objects.map ObjJ.ofObj }
          | none => none) }),
    pool := st.pool }

/-! ### C19: configuration codec -/

structure KmKskJ where
  key : KskKey
  description : String
  algName : String
deriving instance FromJson for KmKskJ

structure KmCfgJ where
  ksks : List KmKskJ
  ttl : Int
deriving instance FromJson for KmCfgJ

def KmCfgJ.toCfg (c : KmCfgJ) : Km.KmConfig :=
  { ksks := c.ksks.map (fun k => { ksk := k.key, description := k.description, algName := k.algName }), ttl := c.ttl }

deriving instance ToJson for Km.KeygenReport

/-- run one keymaster program both ways: by log replay against the oracle, and on the store -/
def runBoth {α} [ToJson α] (j : Json) (f : List P11Module → Km.Prog α) : Except String Json := do
  let hsm : List HsmCfg ← arg j "hsm"
  let name : Option String ← optArg j "hsmName"
  let so : Bool := (j.getObjValAs? Bool "soLogin").toOption.getD false
  let rw : Bool := (j.getObjValAs? Bool "rwSession").toOption.getD true
  let typed : String := (j.getObjValAs? String "typedPin").toOption.getD ""
  let rec_ ← recordedLog j
  let tok := replayToken rec_
  let shape : StoreJ ← arg j "store"
  let (rm, s1) := initModules hsm name so rw typed hsm tok {}
  match rm with
  | .error f => pure (Json.mkObj [("result", toJson f), ("log", logToJson s1.log), ("init", "failed")])
  | .ok mods =>
    let (r, s2) := (f mods).runTok tok s1
    let (rs, st') := (f mods).runSt shape.toStore
    pure (Json.mkObj [("result", toJson r), ("log", logToJson s2.log),
      ("storeResult", toJson rs), ("store", toJson (StoreJ.ofStore shape st')),
      ("mods", toJson mods)])

def pkgIOps : List (String × Op) := [
  ("trustanchor", trustanchorOp),
  ("std_read", stdReadOp),
  ("ta_doc", taDocOp),
  ("km_keygen", fun j => do
      let cfg : KmCfgJ ← arg j "config"; let ext ← externalsOf j
      let alg : Nat ← arg j "algorithm"; let size : Option Nat ← optArg j "keySize"
      let label : Option String ← optArg j "label"
      runBoth j (fun mods => Km.keygenP ext cfg.toCfg mods alg size label)),
  ("km_keydel", fun j => do
      let label : String ← arg j "label"; let force : Bool ← arg j "force"; let answer : String ← arg j "answer"
      runBoth j (fun mods => Km.keydelP mods label force answer)),
  ("km_key_delete", fun j => do
      let label : String ← arg j "label"; let force : Bool ← arg j "force"; let answer : String ← arg j "answer"
      runBoth j (fun mods => Km.keyDeleteP mods label force answer)),
  ("km_inventory", fun j => do
      let cfg : KmCfgJ ← arg j "config"; let ext ← externalsOf j
      let dns : Bool ← arg j "dns"
      runBoth j (fun mods => Km.inventoryP ext cfg.toCfg mods dns))
]

end Kskm.Ops
