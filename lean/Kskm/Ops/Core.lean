/-
  Driver operations for the wire-format primitives (C14) and the KSR / chain rules (C05–C09).
  Each operation takes the JSON object of one input line and returns the JSON to print.
-/
import Kskm.Json
open Lean
namespace Kskm.Ops

abbrev Op := Json → Except String Json

def arg {α} [FromJson α] (j : Json) (k : String) : Except String α := j.getObjValAs? α k

def optArg {α} [FromJson α] (j : Json) (k : String) : Except String (Option α) :=
  match j.getObjVal? k with
  | .ok Json.null => pure none
  | .ok v => do let a ← fromJson? v; pure (some a)
  | .error _ => pure none

def verifierOf (j : Json) : Except String Verifier := do
  let t : Option (List VerifyEntry) ← optArg j "verify"
  pure (tableVerifier (t.getD []))

/-- a token lookup table `[[label, found, pk?]]`; a label not in the table is `unsupported` -/
structure LookupEntry where
  label : String
  found : Bool
  publicKey : Option String
  error : Option ErrKind := none
deriving instance FromJson for LookupEntry

def lookupOf (j : Json) : Except String (Option TokenLookup) := do
  let t : Option (List LookupEntry) ← optArg j "token"
  match t with
  | none => pure none
  | some t => pure (some fun label =>
      match t.find? (·.label = label) with
      | none => unsupported
      | some e => match e.error with
        | some k => err k
        | none => if e.found then pure (some e.publicKey) else pure none)

def coreOps : List (String × Op) := [
  ("key_to_rdata", fun j => do let k : Key ← arg j "key"; pure (toJson (keyToRdata k))),
  ("key_tag", fun j => do let k : Key ← arg j "key"; pure (toJson (calculateKeyTag k))),
  ("key_tag_rdata", fun j => do let r : Bytes ← arg j "rdata"; pure (toJson (keyTagOfRdata r))),
  ("ds_input", fun j => do let k : Key ← arg j "key"; pure (toJson (dsInput k))),
  ("as_revoked", fun j => do let k : Key ← arg j "key"; pure (toJson (Key.asRevoked k))),
  ("key_validate", fun j => do let k : Key ← arg j "key"; pure (toJson (Key.validate k))),
  ("public_key_to_dnssec_key", fun j => do
      let pk : String ← arg j "publicKey"; let id : String ← arg j "keyIdentifier"
      let a : Nat ← arg j "algorithm"; let ttl : Int ← arg j "ttl"; let flags : Int ← arg j "flags"
      pure (toJson (publicKeyToDnssecKey pk id a ttl flags))),
  ("rsa_decode", fun j => do
      let pk : String ← arg j "publicKey"; let a : Nat ← arg j "algorithm"
      pure (toJson (rsaDecode pk a))),
  ("rsa_encode", fun j => do
      let e : Nat ← arg j "exponent"; let n : Bytes ← arg j "n"
      pure (toJson (rsaEncode e n))),
  ("ecdsa_without_prefix", fun j => do
      let pk : Bytes ← arg j "publicKey"; let a : Nat ← arg j "algorithm"
      pure (toJson (ecdsaWithoutPrefix pk a))),
  ("b64encode", fun j => do let b : Bytes ← arg j "data"; pure (toJson (Base64.encode b))),
  ("b64decode", fun j => do let s : String ← arg j "text"; pure (toJson (Base64.decode s))),
  ("make_raw_rrsig", fun j => do
      let s : Signature ← arg j "sig"; let ks : List Key ← arg j "keys"
      pure (toJson (makeRawRrsig s ks))),
  ("validate_signatures", fun j => do
      let b : Bundle ← arg j "bundle"; let v ← verifierOf j
      pure (toJson (validateSignatures v b))),
  ("validate_request", fun j => do
      let r : Request ← arg j "request"; let p : RequestPolicy ← arg j "policy"
      let now : Int ← arg j "now"; let v ← verifierOf j
      pure (toJson (validateRequest v now r p))),
  ("ksr_check", fun j => do
      let r : Request ← arg j "request"; let p : RequestPolicy ← arg j "policy"
      let now : Int ← arg j "now"; let v ← verifierOf j
      let name : String ← arg j "check"
      let res : Res Unit ← match name with
        | "check_domain" => pure (checkDomain r p)
        | "check_unique_ids" => pure (checkUniqueIds r)
        | "check_keys_match_zsk_policy" => pure (checkKeysMatchZskPolicy r p)
        | "check_proof_of_possession" => pure (checkProofOfPossession v r p)
        | "check_bundle_count" => pure (checkBundleCount r p)
        | "check_cycle_durations" => pure (checkCycleDurations r p)
        | "check_keys_in_bundles" => pure (checkKeysInBundles r p)
        | "check_zsk_policy_algorithm" => pure (checkZskPolicyAlgorithm r p)
        | "check_bundle_overlaps" => pure (checkBundleOverlaps r p)
        | "check_signature_validity" => pure (checkSignatureValidity r p)
        | "check_signature_horizon" => pure (checkSignatureHorizon now r p)
        | "check_bundle_intervals" => pure (checkBundleIntervals r p)
        | _ => throw s!"unknown check {name}"
      pure (toJson res)),
  ("check_skr_and_ksr", fun j => do
      let r : Request ← arg j "request"; let l : Response ← arg j "last"
      let p : RequestPolicy ← arg j "policy"; let t ← lookupOf j
      pure (toJson (checkSkrAndKsr r l p t))),
  ("check_last_skr_and_new_skr", fun j => do
      let l : Response ← arg j "last"; let n : Response ← arg j "new"
      let p : RequestPolicy ← arg j "policy"
      pure (toJson (checkLastSkrAndNewSkr l n p)))
]

end Kskm.Ops
