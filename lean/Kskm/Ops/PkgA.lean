/-
  Driver operations of work package A (C06 key/algorithm/header rules, C07 proof of possession).
  `c06_all` answers every C06 rule and the composite for one (request, policy) in a single line;
  `c07_bundle` answers `validate_signatures`, the PoP rule on the one-bundle request, and the
  to-be-signed octets the model builds for every signature (in the order of `bundle.signatures`).
-/
import Kskm.Ops.Core
open Lean
namespace Kskm.Ops

def pkgAOps : List (String × Op) := [
  ("c06_all", fun j => do
      let r : Request ← arg j "request"; let p : RequestPolicy ← arg j "policy"
      let now : Int ← arg j "now"; let v ← verifierOf j
      pure (Json.mkObj [
        ("validate_request", toJson (validateRequest v now r p)),
        ("check_domain", toJson (checkDomain r p)),
        ("check_unique_ids", toJson (checkUniqueIds r)),
        ("check_keys_match_zsk_policy", toJson (checkKeysMatchZskPolicy r p)),
        ("check_keys_in_bundles", toJson (checkKeysInBundles r p)),
        ("check_zsk_policy_algorithm", toJson (checkZskPolicyAlgorithm r p))])),
  ("c07_bundle", fun j => do
      let b : Bundle ← arg j "bundle"; let v ← verifierOf j
      let tbs := b.signatures.map (fun s => toJson (makeRawRrsig s b.keys))
      let req : Request := { id := "r", serial := 0, domain := ".", zskPolicy := {}, bundles := [b] }
      pure (Json.mkObj [
        ("validate_signatures", toJson (validateSignatures v b)),
        ("check_proof_of_possession", toJson (checkProofOfPossession v req {})),
        ("tbs", Json.arr tbs.toArray)]))
]

end Kskm.Ops
