/-
  Driver operations for the token layer and the signer (C01–C04, C15): log replay.
  The harness sends the emulator's operation log; the model is run against the token that answers
  the n-th operation with the n-th recorded answer, and returns its own log, which the harness
  compares with the recorded one operation by operation.
-/
import Kskm.Json
import Kskm.Ops.Core
import Kskm.Signer
import Kskm.Ceremony
open Lean
namespace Kskm.Ops

/-! ### codecs for operations and answers (the emulator's record shapes) -/

def byteAttr (name : String) : Bool :=
  name = "MODULUS" || name = "PUBLIC_EXPONENT" || name = "EC_POINT" || name = "EC_PARAMS" || name = "ID"

def attrAnsOfJson (name : String) (j : Json) : Except String AttrAns :=
  match j with
  | .null => pure .none
  | .num _ => do let n : Nat ← fromJson? j; pure (.num n)
  | .str s =>
    if byteAttr name then
      match unhex s.toList with
      | some b => pure (.bytes b)
      | none => throw "bad hex attr"
    else pure (.str s)
  | .arr a => do            -- CKA_ID comes back as a tuple of ints from the emulator when not hex
    let l : List Nat ← a.toList.mapM fromJson?
    pure (.bytes (l.map UInt8.ofNat))
  | _ => throw "bad attr"

def attrAnsToJson : AttrAns → Json
  | .none => .null
  | .num n => toJson n
  | .bytes b => toJson b
  | .str s => .str s

def tmplOfJson (j : Json) : Except String (String × TmplVal) := do
  let a ← j.getArr?
  match a.toList with
  | [n, v] =>
    let name ← n.getStr?
    match v with
    | .str s => pure (name, .str s)
    | _ => do let k : Nat ← fromJson? v; pure (name, .num k)
  | _ => throw "bad template"

def opOfJson (j : Json) : Except String TokOp := do
  let op : String ← arg j "op"
  let module : String := (j.getObjValAs? String "module").toOption.getD ""
  let slot : Nat := (j.getObjValAs? Nat "slot").toOption.getD 0
  match op with
  | "load" => pure (.load module)
  | "C_Initialize" => pure (.initialize module)
  | "getSlotList" => pure (.getSlotList module)
  | "openSession" => do pure (.openSession module slot (← arg j "flags"))
  | "login" => do pure (.login module slot (← arg j "pin") (← arg j "userType"))
  | "getTokenInfo" => pure (.getTokenInfo module slot)
  | "findObjects" => do
    let t ← (← j.getObjVal? "template").getArr?
    pure (.findObjects module slot (← t.toList.mapM tmplOfJson))
  | "getAttributeValue" => do pure (.getAttr module slot (← arg j "handle") (← arg j "attrs"))
  | "sign" => do pure (.sign module slot (← arg j "handle") (← arg j "mechanism") (← arg j "data"))
  | "generateKeyPair" => do
    pure (.generateKeyPair module slot (← arg j "label") (← optArg j "bits") (← optArg j "exponent")
      (← arg j "privLabel"))
  | "destroyObject" => do pure (.destroyObject module slot (← arg j "handle"))
  | "closeAllSessions" => pure (.closeAllSessions module slot)
  | _ => throw s!"unknown token op {op}"

def ansOfJson (op : TokOp) (j : Json) : Except String TokAns := do
  let a ← j.getObjVal? "ans"
  match a with
  | .str "error" => pure .error
  | .str "ok" => pure .ok
  | _ =>
    match op with
    | .getSlotList _ => do pure (.slots (← fromJson? a))
    | .findObjects .. => do pure (.handles (← fromJson? a))
    | .getAttr _ _ _ names => do
      let l ← a.getArr?
      if l.size != names.length then throw "attr count"
      pure (.attrs (← (names.zip l.toList).mapM (fun p => attrAnsOfJson p.1 p.2)))
    | .sign .. => do let b : Bytes ← fromJson? a; pure (.sig b)
    | .generateKeyPair .. => do
      let l : List Nat ← fromJson? a
      match l with
      | [x, y] => pure (.pair x y)
      | _ => throw "pair"
    | _ => pure .other

def opToJson : TokOp → List (String × Json)
  | .load m => [("op", "load"), ("module", .str m)]
  | .initialize m => [("op", "C_Initialize"), ("module", .str m)]
  | .getSlotList m => [("op", "getSlotList"), ("module", .str m)]
  | .openSession m s f => [("op", "openSession"), ("module", .str m), ("slot", toJson s), ("flags", toJson f)]
  | .login m s p u => [("op", "login"), ("module", .str m), ("slot", toJson s), ("pin", .str p), ("userType", toJson u)]
  | .getTokenInfo m s => [("op", "getTokenInfo"), ("module", .str m), ("slot", toJson s)]
  | .findObjects m s t =>
    [("op", "findObjects"), ("module", .str m), ("slot", toJson s),
     ("template", Json.arr (t.map (fun p => Json.arr #[.str p.1, match p.2 with | .str x => .str x | .num n => toJson n])).toArray)]
  | .getAttr m s h a => [("op", "getAttributeValue"), ("module", .str m), ("slot", toJson s), ("handle", toJson h), ("attrs", toJson a)]
  | .sign m s h mech d => [("op", "sign"), ("module", .str m), ("slot", toJson s), ("handle", toJson h), ("mechanism", toJson mech), ("data", toJson d)]
  | .generateKeyPair m s l b e pl =>
    [("op", "generateKeyPair"), ("module", .str m), ("slot", toJson s), ("label", .str l), ("bits", toJson b),
     ("exponent", toJson e), ("privLabel", .str pl)]
  | .destroyObject m s h => [("op", "destroyObject"), ("module", .str m), ("slot", toJson s), ("handle", toJson h)]
  | .closeAllSessions m s => [("op", "closeAllSessions"), ("module", .str m), ("slot", toJson s)]

def ansToJson : TokAns → Json
  | .ok => "ok"
  | .error => "error"
  | .slots l => toJson l
  | .handles l => toJson l
  | .attrs l => Json.arr (l.map attrAnsToJson).toArray
  | .sig b => toJson b
  | .pair a b => toJson [a, b]
  | .other => "other"

def logToJson (log : List (TokOp × TokAns)) : Json :=
  Json.arr (log.reverse.map (fun p => Json.mkObj (opToJson p.1 ++ [("ans", ansToJson p.2)]))).toArray

/-- the replaying token: n-th question must be the n-th recorded one -/
def replayToken (rec : Array (TokOp × TokAns)) : Token := fun n op =>
  match rec[n]? with
  | some (op', a) => if op = op' then a else .other
  | none => .other

def recordedLog (j : Json) : Except String (Array (TokOp × TokAns)) := do
  let l ← (← j.getObjVal? "log").getArr?
  l.mapM fun e => do
    let op ← opOfJson e
    let a ← ansOfJson op e
    pure (op, a)

/-! ### configuration codecs -/

deriving instance FromJson, ToJson for KskKey
deriving instance FromJson, ToJson for KskPolicy
deriving instance FromJson, ToJson for SchemaAction
deriving instance FromJson, ToJson for KeyType
deriving instance FromJson, ToJson for P11Key
deriving instance FromJson, ToJson for CompositeKey
deriving instance FromJson, ToJson for DataToSign

structure HsmCfg where
  label : String
  path : String
  pin : Option String
  soPin : Option String
deriving instance FromJson for HsmCfg

structure NamedKsk where
  name : String
  key : KskKey
deriving instance FromJson for NamedKsk

structure SlotAction where
  slot : Nat
  action : SchemaAction
deriving instance FromJson for SlotAction

structure SignerCfgJ where
  kskKeys : List NamedKsk
  kskPolicy : KskPolicy
  responsePolicy : ResponsePolicy
  actions : List SlotAction
deriving instance FromJson for SignerCfgJ

def SignerCfgJ.toCfg (c : SignerCfgJ) : SignerConfig :=
  { kskKeys := c.kskKeys.map (fun k => (k.name, k.key)), kskPolicy := c.kskPolicy,
    responsePolicy := c.responsePolicy, actions := c.actions.map (fun a => (a.slot, a.action)) }

structure HashEntry where
  alg : String
  message : Bytes
  digest : Bytes
deriving instance FromJson for HashEntry

def hashAlgName : HashAlg → String
  | .sha1 => "sha1" | .sha256 => "sha256" | .sha384 => "sha384" | .sha512 => "sha512"

def tableHasher (t : List HashEntry) : Hasher := fun h m =>
  (t.find? (fun e => e.alg = hashAlgName h ∧ e.message = m)).map (·.digest)

def externalsOf (j : Json) : Except String Externals := do
  let v ← verifierOf j
  let h : Option (List HashEntry) ← optArg j "hashes"
  pure { hash := tableHasher (h.getD []), verify := v }

/-- `init_pkcs11_modules(config, name, so_login, rw_session)` -/
def initModules (hsm : List HsmCfg) (name : Option String) (soLogin rw : Bool) (typedPin : String) :
    List HsmCfg → TokM (List P11Module)
  | [] => if name.isSome && name != some "" && hsm.all (fun h => some h.label != name) then TokM.err .runtime else pure []
  | h :: rest =>
    if name.isSome && name != some "" && some h.label != name then initModules hsm name soLogin rw typedPin rest
    else do
      let m ← P11Module.init h.label h.path h.pin h.soPin soLogin rw typedPin
      let more ← initModules hsm name soLogin rw typedPin rest
      pure (m :: more)

def runTok {α} [ToJson α] (j : Json) (m : TokM α) : Except String Json := do
  let rec_ ← recordedLog j
  let (r, s) := m (replayToken rec_) {}
  pure (Json.mkObj [("result", toJson r), ("log", logToJson s.log)])

def withModules {α} (j : Json) (f : List P11Module → TokM α) : Except String (TokM α) := do
  let hsm : List HsmCfg ← arg j "hsm"
  let name : Option String ← optArg j "hsmName"
  let so : Bool := (j.getObjValAs? Bool "soLogin").toOption.getD false
  let rw : Bool := (j.getObjValAs? Bool "rwSession").toOption.getD false
  let typed : String := (j.getObjValAs? String "typedPin").toOption.getD ""
  pure (do let mods ← initModules hsm name so rw typed hsm; f mods)

instance : ToJson P11Module where
  toJson m := Json.mkObj [("label", .str m.label), ("path", .str m.path), ("slots", toJson m.slots),
    ("sessions", toJson m.sessions)]

structure EnvPair where
  k : String
  v : String
deriving instance FromJson, ToJson for EnvPair

/-- a parse outcome sent by the harness: `{"ok": obj}` or a failure -/
def resOfJson {α} [FromJson α] (j : Json) : Except String (Res α) :=
  match j.getObjVal? "ok" with
  | .ok v => do let a : α ← fromJson? v; pure (.ok a)
  | .error _ =>
    match j.getObjVal? "violation" with
    | .ok v => do let r : Rule ← fromJson? v; pure (.error (.violation r))
    | .error _ =>
      match j.getObjVal? "error" with
      | .ok v => do
        let k : ErrKind := (fromJson? v : Except String ErrKind).toOption.getD .other
        pure (.error (.error k))
      | .error _ => pure (.error .unsupported)

instance : ToJson Event where
  toJson
    | .display => "display"
    | .prompt => "prompt"
    | .write r => Json.mkObj [("write", toJson r)]

def ceremonyOp : Op := fun j => do
  let actions : Option (List SlotAction) ← optArg j "actions"
  let prev : Option (Res Response) ← match j.getObjVal? "prev" with
    | .ok Json.null => pure none
    | .ok v => do pure (some (← resOfJson v))
    | .error _ => pure none
  let ksr : Option (Res Request) ← match j.getObjVal? "ksr" with
    | .ok Json.null => pure none
    | .ok v => do pure (some (← resOfJson v))
    | .error _ => pure none
  let hsm : List HsmCfg ← arg j "hsm"
  let keys : List NamedKsk ← arg j "kskKeys"
  let ext ← externalsOf j
  let a : CeremonyArgs := {
    actions := actions.map (fun l => l.map (fun x => (x.slot, x.action))),
    prev, ksr,
    hsm := hsm.map (fun h => { label := h.label, path := h.path, pin := h.pin, soPin := h.soPin }),
    hsmName := (← optArg j "hsmName"),
    typedPin := (j.getObjValAs? String "typedPin").toOption.getD "",
    force := (← arg j "force"), answer := (← arg j "answer"),
    kskKeys := keys.map (fun k => (k.name, k.key)), kskPolicy := (← arg j "kskPolicy"),
    requestPolicy := (← arg j "requestPolicy"), responsePolicy := (← arg j "responsePolicy"),
    now := (← arg j "now") }
  let rec_ ← recordedLog j
  let (r, s) := ksrsigner ext a (replayToken rec_) {}
  pure (Json.mkObj [("result", toJson r), ("exit", toJson (exitStatus r)), ("log", logToJson s.tok.log),
    ("events", toJson s.events.reverse)])

def signerOps : List (String × Op) := [
  ("ksrsigner", ceremonyOp),
  ("pick_file", fun j => do
      let cli : Option String ← optArg j "cli"; let cfg : Option String ← optArg j "cfg"
      pure (toJson (pickFile cli cfg))),
  ("p11_init", fun j => do runTok j (← withModules j (fun mods => pure mods))),
  ("get_p11_key", fun j => do
      let label : String ← arg j "label"; let pub : Bool ← arg j "public"
      let h : Option Bool ← optArg j "hashUsingHsm"
      runTok j (← withModules j (fun mods => getP11Key label pub h mods))),
  ("format_data_for_signing", fun j => do
      let key : P11Key ← arg j "key"; let data : Bytes ← arg j "data"; let a : Nat ← arg j "algorithm"
      let ext ← externalsOf j
      pure (toJson (formatDataForSigning ext.hash key data a))),
  ("sign_using_p11", fun j => do
      let label : String ← arg j "label"; let h : Option Bool ← optArg j "hashUsingHsm"
      let data : Bytes ← arg j "data"; let a : Nat ← arg j "algorithm"
      let ext ← externalsOf j
      runTok j (← withModules j (fun mods => do
        match ← getP11Key label false h mods with
        | none => TokM.err .key
        | some k =>
          -- the caller (load_pkcs11_key) supplies the public key when the private object has none
          let k ← if k.publicKey.isNone then do
              match ← getP11Key label true h mods with
              | some p => pure { k with publicKey := p.publicKey }
              | none => pure k
            else pure k
          signUsingP11 ext.hash k data a))),
  ("load_pkcs11_key", fun j => do
      let ksk : KskKey ← arg j "ksk"; let pol : KskPolicy ← arg j "kskPolicy"
      let b : Bundle ← arg j "bundle"; let pub : Bool ← arg j "public"
      runTok j (← withModules j (fun mods => loadPkcs11Key mods ksk pol b pub))),
  ("fetch_keys", fun j => do
      let cfg : SignerCfgJ ← arg j "config"; let b : Bundle ← arg j "bundle"; let pub : Bool ← arg j "public"
      let names : List String ← arg j "names"; let ext ← externalsOf j
      runTok j (← withModules j (fun mods => fetchKeys ext mods cfg.toCfg b pub names))),
  ("sign_bundles", fun j => do
      let cfg : SignerCfgJ ← arg j "config"; let r : Request ← arg j "request"; let ext ← externalsOf j
      runTok j (← withModules j (fun mods => signBundles ext mods cfg.toCfg r))),
  ("create_skr", fun j => do
      let cfg : SignerCfgJ ← arg j "config"; let r : Request ← arg j "request"; let ext ← externalsOf j
      runTok j (← withModules j (fun mods => createSkr ext mods cfg.toCfg r))),
  ("env_cycle", fun j => do
      let env : List EnvPair ← arg j "env"; let hsmEnv : List EnvPair ← arg j "hsmEnv"
      let e : Env := fun x => (env.find? (·.k = x)).map (·.v)
      let h : List (String × String) := hsmEnv.map (fun p => (p.k, p.v))
      let during := envUpdate e h
      let after := envRestore during (envSaved e h)
      let names := ((env.map (·.k)) ++ (hsmEnv.map (·.k))).eraseDups
      let out (x : Env) : Json :=
        toJson (names.filterMap (fun n => (x n).map (fun v => ({ k := n, v := v } : EnvPair))))
      pure (Json.mkObj [("during", out during), ("after", out after)]))
]

end Kskm.Ops
