/-
  Driver operations of work package B1 (C15): `parse_hsmconfig`, `load_hsmconfig`, the helpers of the
  interpolation loop, and `find_key_by_id` by log replay (same conventions as Kskm/Ops/Signer.lean).
  Strings travel IN as JSON strings and OUT as `{"s": [code points]}`; dicts as `[[k, v], …]` in insertion order; outcomes as
  `{"ok": …}` / `{"error": kind}` / `"hang"` (fuel exhausted).
-/
import Kskm.Json
import Kskm.HsmConfig
import Kskm.Ops.Core
import Kskm.Ops.Signer
open Lean
namespace Kskm.Ops
open Kskm.HsmConfig

/-- strings go OUT as arrays of code points: the harness splits the driver's output with `str.splitlines`, which also
    breaks at U+0085 / U+2028 … that `Json.compress` leaves unescaped -/
def hcStr (s : List Char) : Json := Json.mkObj [("s", Json.arr (s.map (fun c => toJson c.toNat)).toArray)]

def hcDict (d : Dict) : Json := Json.arr (d.map (fun p => Json.arr #[hcStr p.1, hcStr p.2])).toArray

def hcOut {α} (f : α → Json) : Xml.Out α → Json
  | .ok a => Json.mkObj [("ok", f a)]
  | .err k => Json.mkObj [("error", toJson k)]
  | .outOfFuel => Json.str "hang"

def hcPairs (j : Json) : Except String (List (Str × Str)) := do
  let a ← j.getArr?
  a.toList.mapM fun p => do
    match p with
    | .arr #[.str k, .str v] => pure (k.toList, v.toList)
    | _ => throw "bad pair"

def hcOptPairs (j : Json) (k : String) : Except String (Option (List (Str × Str))) :=
  match j.getObjVal? k with
  | .ok Json.null => pure none
  | .ok v => do pure (some (← hcPairs v))
  | .error _ => pure none

def hsmConfigOps : List (String × Op) := [
  ("hsmcfg_parse", fun j => do
      -- {"lines": [str], "defaults": [[k, v]], "maxLines": int}
      let lines : List String ← arg j "lines"
      let d ← hcPairs (← j.getObjVal? "defaults")
      let n : Int ← arg j "maxLines"
      pure (hcOut hcDict (parseHsmconfig Xml.pyClasses (fun k => Dict.get d k) n (lines.map String.toList)))),
  ("hsmcfg_load", fun j => do
      -- {"text": str, "defaults": [[k, v]] | null, "environ": [[k, v]], "maxLines": int}
      let text : String ← arg j "text"
      let d ← hcOptPairs j "defaults"
      let e ← hcPairs (← j.getObjVal? "environ")
      let n : Int ← arg j "maxLines"
      pure (hcOut hcDict (loadHsmconfig Xml.pyClasses d (fun k => Dict.get e k) n text.toList))),
  ("hsmcfg_text_lines", fun j => do
      let text : String ← arg j "text"
      pure (Json.arr ((textLines text.toList).map hcStr).toArray)),
  ("hsmcfg_search_var", fun j => do
      let s : String ← arg j "text"
      pure (match searchVar Xml.pyClasses.isWord s.toList with | some k => hcStr k | none => Json.null)),
  ("hsmcfg_replace", fun j => do
      let s : String ← arg j "text"; let p : String ← arg j "pat"; let v : String ← arg j "val"
      if p.isEmpty then throw "empty pattern" else
      pure (hcStr (replaceAll p.toList v.toList s.toList))),
  ("find_key_by_id", fun j => do
      -- {"module": path, "slot": n, "keyId": hex, "log": recorded operations}
      let path : String ← arg j "module"; let slot : Nat ← arg j "slot"; let kid : String ← arg j "keyId"
      runTok j (findKeyById path slot kid)),
  ("init_by_name", fun j => do
      -- `init_pkcs11_modules(config, name)` of the model proper (Kskm/Ceremony.lean); answers the labels initialised
      let hsm : List HsmCfg ← arg j "hsm"
      let name : Option String ← optArg j "hsmName"
      let typed : String := (j.getObjValAs? String "typedPin").toOption.getD ""
      let cfgs : List HsmConfig := hsm.map (fun h => { label := h.label, path := h.path, pin := h.pin, soPin := h.soPin })
      runTok j (do let ms ← initPkcs11Modules cfgs name typed cfgs; pure (ms.map (·.label))))
]

end Kskm.Ops
