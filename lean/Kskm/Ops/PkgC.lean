/-
  Driver operations for C17 (digests / PGP words / single read / bundle table) and C20 (KSR receiver).
  Hashes, parsers, certificate facts and clocks arrive as recorded oracle answers on the JSON line.
-/
import Kskm.Ops.Core
import Kskm.Wordlist
import Kskm.FileEffects
import Kskm.BundleTable
import Kskm.Wksr
import Kskm.WksrConfig
open Lean
namespace Kskm.Ops

/-- oracle table `[[input-hex, output-hex], …]` as a function; inputs not in the table map to `[]` -/
def bytesTable (t : List (Bytes × Bytes)) : Bytes → Bytes := fun b =>
  match t.find? (·.1 = b) with
  | some (_, d) => d
  | none => []

/-- a schedule `contents[t]` (the last entry repeats for later ticks) -/
def schedule (cs : List Bytes) : Nat → Bytes := fun t =>
  match cs[t]? with
  | some b => b
  | none => cs.getLast?.getD []

def effectJ : FileEffect → Json
  | .openRead p t => Json.mkObj [("e", "openRead"), ("path", p), ("t", t)]
  | .fstat p t s => Json.mkObj [("e", "fstat"), ("path", p), ("t", t), ("size", s)]
  | .read p t d => Json.mkObj [("e", "read"), ("path", p), ("t", t), ("len", d.length)]
  | .seek0 p => Json.mkObj [("e", "seek0"), ("path", p)]
  | .close p => Json.mkObj [("e", "close"), ("path", p)]
  | .openWrite p => Json.mkObj [("e", "openWrite"), ("path", p)]
  | .write p d => Json.mkObj [("e", "write"), ("path", p), ("data", toJson d)]
  | .logDigest w p d => Json.mkObj [("e", "logDigest"), ("what", w), ("path", p), ("digest", toJson d)]
  | .print d => Json.mkObj [("e", "print"), ("len", d.length)]

/-- summary the harness compares: counts, the digests shown, the tick whose bytes were read -/
def effectsSummary (effs : List FileEffect) : List (String × Json) :=
  [("opens", toJson (effs.filter FileEffect.isOpenRead).length),
   ("reads", toJson (effs.filter FileEffect.isRead).length),
   ("readTicks", toJson (effs.filterMap fun | .read _ t _ => some t | _ => none)),
   ("shown", toJson (shownDigests effs)),
   ("effects", Json.arr (effs.map effectJ).toArray)]

/-- parse oracle: `[[buffer-hex, tag]]`; `tag` is the id the real parser found in that buffer, or
    `"!error"` when it raised -/
def parseTable (t : List (Bytes × String)) : Bytes → Res String := fun b =>
  match t.find? (·.1 = b) with
  | some (_, tag) => if tag = "!error" then err .value else pure tag
  | none => unsupported

def cpToJson (l : List Nat) : Json := toJson l

def wpathJ (p : Wksr.WPath) : Json :=
  Json.mkObj [("absolute", p.absolute), ("parts", toJson p.parts), ("render", toJson p.render)]

instance : FromJson Wksr.WPath where
  fromJson? j := do
    let a : Bool ← j.getObjValAs? Bool "absolute"
    let p : List (List Nat) ← j.getObjValAs? (List (List Nat)) "parts"
    pure { absolute := a, parts := p }

def weffectJ : Wksr.WEffect → Json
  | .readBody => Json.mkObj [("e", "readBody")]
  | .now => Json.mkObj [("e", "now")]
  | .openWrite p => Json.mkObj [("e", "openWrite"), ("path", toJson p.render)]
  | .write p d => Json.mkObj [("e", "write"), ("path", toJson p.render), ("data", toJson d)]
  | .logSaved => Json.mkObj [("e", "logSaved")]

def peerOf (j : Json) : Except String Wksr.Peer := do
  let kind : String ← arg j "peer"
  match kind with
  | "noTls" => pure .noTls
  | "noCert" => pure .noCert
  | "der" => do let b : Bytes ← arg j "der"; pure (.der b)
  | k => throw s!"unknown peer kind {k}"

def failOf (j : Json) (k : String) : Except String (Option Fail) := do
  match j.getObjVal? k with
  | .error _ => pure none
  | .ok Json.null => pure none
  | .ok v =>
    match v.getObjVal? "violation" with
    | .ok r => do let r : Rule ← fromJson? r; pure (some (.violation r))
    | .error _ =>
      match v.getObjVal? "error" with
      | .ok _ => pure (some (.error .other))
      | .error _ => throw s!"bad failure object under {k}"

def pkgCOps : List (String × Op) := [
  -- ---------------------------------------------------------------- C17: words and digests
  ("pgp_wordlist", fun j => do let d : Bytes ← arg j "data"; pure (toJson (pgpWordlist d))),
  ("unwords", fun j => do let ws : List String ← arg j "words"; pure (toJson (unwords ws))),
  ("hexlify", fun j => do let d : Bytes ← arg j "data"; pure (toJson (String.ofList (hexlify d)))),
  ("format_digest", fun j => do let d : Bytes ← arg j "digest"; pure (toJson (formatDigest d))),
  ("checksum_bytes2str", fun j => do
      let m : Bytes ← arg j "message"; let d : Bytes ← arg j "digest"
      pure (toJson (checksumBytes2str (fun _ => d) m))),
  ("sha2wordlist", fun j => do
      let m : Bytes ← arg j "message"; let d : Bytes ← arg j "digest"
      let (h, ws) := sha2wordlist (fun _ => d) m
      pure (Json.arr #[toJson h, toJson ws])),
  ("sha2wordlist_tool", fun j => do
      let m : Bytes ← arg j "message"; let d : Bytes ← arg j "digest"
      let f : Option String ← optArg j "filename"
      pure (toJson (sha2wordlistTool (fun _ => d) f m))),
  ("ksrsigner_display", fun j => do
      let f : String ← arg j "filename"; let h : Option Bytes ← optArg j "xmlHash"
      pure (toJson (ksrsignerDisplay f h))),
  -- ---------------------------------------------------------------- C17: loaders over a schedule
  ("load_ksr", fun j => do
      let cs : List Bytes ← arg j "contents"; let ht : List (Bytes × Bytes) ← arg j "hash"
      let pt : List (Bytes × String) ← arg j "parse"; let path : String ← arg j "path"
      let maxSize : Nat := (← optArg j "maxSize").getD KskmGen.maxKsrSize
      let (r, effs) := loadKsr maxSize (bytesTable ht) (parseTable pt) (fun _ => pure ()) true path (schedule cs) 0
      let rj : Json := match r with
        | .ok q => Json.mkObj [("ok", Json.mkObj [("tag", q.body), ("xmlFilename", q.xmlFilename),
                                                  ("xmlHash", toJson q.xmlHash)])]
        | .error f => toJson f
      pure (Json.mkObj (("result", rj) :: effectsSummary effs))),
  ("load_skr", fun j => do
      let cs : List Bytes ← arg j "contents"; let ht : List (Bytes × Bytes) ← arg j "hash"
      let pt : List (Bytes × String) ← arg j "parse"; let path : String ← arg j "path"
      let maxSize : Nat := (← optArg j "maxSize").getD KskmGen.maxSkrSize
      let (r, effs) := loadSkr maxSize (bytesTable ht) (parseTable pt) (fun _ => pure ()) path (schedule cs) 0
      let rj : Json := match r with
        | .ok tag => Json.mkObj [("ok", Json.mkObj [("tag", tag)])]
        | .error f => toJson f
      pure (Json.mkObj (("result", rj) :: effectsSummary effs))),
  ("get_config", fun j => do
      let cs : List Bytes ← arg j "contents"; let ht : List (Bytes × Bytes) ← arg j "hash"
      let pt : List (Bytes × String) ← arg j "parse"; let path : Option String ← optArg j "path"
      let (r, effs) := getConfig (bytesTable ht) (parseTable pt) "!default" path (schedule cs) 0
      let rj : Json := match r with
        | .ok tag => Json.mkObj [("ok", Json.mkObj [("tag", tag)])]
        | .error f => toJson f
      pure (Json.mkObj (("result", rj) :: effectsSummary effs))),
  ("output_xml", fun j => do
      let what : String ← arg j "what"; let b : Bytes ← arg j "xmlBytes"; let d : Bytes ← arg j "digest"
      let f : Option String ← optArg j "filename"
      let effs := if what = "skr" then outputSkrXml (fun _ => d) b f else outputTrustanchorXml (fun _ => d) b f
      pure (Json.mkObj [("written", Json.arr ((writtenBuffers effs).map fun (p, d) =>
                          Json.mkObj [("path", p), ("data", toJson d)]).toArray),
                        ("shown", toJson (shownDigests effs)),
                        ("effects", Json.arr (effs.map effectJ).toArray)])),
  -- ---------------------------------------------------------------- C17: the bundle table
  ("format_bundles", fun j => do
      let bs : List Bundle ← arg j "bundles"
      pure (Json.mkObj [("lines", toJson (formatBundlesForHumans isoUtc bs)),
                        ("rows", Json.arr ((tableRows isoUtc bs).map fun r =>
                          Json.mkObj [("num", r.num), ("inception", r.inception), ("expiration", r.expiration),
                                      ("zsk", toJson r.zskTags), ("ksk", toJson r.kskEntries)]).toArray)])),
  ("iso_utc", fun j => do let t : Int ← arg j "us"; pure (toJson (isoUtc t))),
  -- ---------------------------------------------------------------- C20
  ("wash", fun j => do let s : List Nat ← arg j "s"; pure (toJson (Wksr.wash s))),
  ("path_join", fun j => do
      let a : List Nat ← arg j "dir"; let b : List Nat ← arg j "name"
      let dbl (s : List Nat) : Bool := match s with
        | 47 :: 47 :: 47 :: _ => false
        | 47 :: 47 :: _ => true
        | _ => false
      if dbl a || dbl b then pure (Json.str "unsupported") else
      let p := (Wksr.parsePath a).join (Wksr.parsePath b)
      pure (Json.mkObj [("path", wpathJ p), ("parent", toJson p.parent.render), ("name", toJson p.name)])),
  ("save_ksr", fun j => do
      let ct : String ← arg j "cfgContentType"; let mx : Int ← arg j "maxSize"
      let dir : List Nat ← arg j "uploadDir"
      let uct : Option String ← optArg j "contentType"; let size : Option Int ← optArg j "size"
      let fnm : Option (List Nat) ← optArg j "filename"; let body : Bytes ← arg j "body"
      let suffix : List Nat ← arg j "suffix"; let openOk : Bool ← arg j "openOk"
      let hh : String ← arg j "hashHex"
      let cfg : Wksr.KsrCfg := { contentType := ct, maxSize := mx, uploadPath := Wksr.parsePath dir }
      let (r, effs) := Wksr.saveKsr cfg (fun _ => hh) suffix openOk
        { contentType := uct, size := size, filename := fnm, body := body }
      let rj : Json := match r with
        | .ok (p, h) => Json.mkObj [("ok", Json.mkObj [("path", toJson p.render), ("parent", toJson p.parent.render),
                                                      ("name", toJson p.name), ("hash", h)])]
        | .error (.http c) => Json.mkObj [("http", c)]
        | .error .osError => Json.mkObj [("error", "os")]
      pure (Json.mkObj [("result", rj), ("effects", Json.arr (effs.map weffectJ).toArray)])),
  ("dispatch", fun j => do
      let p ← peerOf j; let parseOk : Bool ← arg j "parseOk"; let truthy : Bool ← arg j "truthy"
      let fp : String ← arg j "fingerprint"; let wl : List String ← arg j "whitelist"
      let r := Wksr.dispatch (fun _ => parseOk) (fun _ => truthy) (fun _ => fp) wl p
      pure (match r with
        | .ok .callNext => Json.str "callNext"
        | .ok (.http c) => Json.mkObj [("http", c)]
        | .error f => toJson f))
]

/-- the arguments of one `validate_ksr` call (oracle answers: configuration / parser outcomes, verifier, clock) -/
def validateArgs (j : Json) : Except String (Res Wksr.KsrStatus × Json × Json) := do
  let v ← verifierOf j; let now : Int ← arg j "now"
  let cfgFail ← failOf j "cfgFail"
  let pol : RequestPolicy ← arg j "policy"
  let cfg : Res RequestPolicy := match cfgFail with | some f => .error f | none => .ok pol
  let prevFail ← failOf j "prevFail"
  let prevSkr : Option Response ← optArg j "prev"
  let prev : Option (Res Response) := match prevFail, prevSkr with
    | some f, _ => some (.error f)
    | none, some s => some (.ok s)
    | none, none => none
  let parseFail ← failOf j "parseFail"
  let req : Option Request ← optArg j "request"
  let parsed : Res Request ← match parseFail, req with
    | some f, _ => pure (.error f)
    | none, some r => pure (.ok r)
    | none, none => throw "validate_ksr: neither request nor parseFail"
  let chain : Json := match prevSkr, req with
    | some s, some r => toJson (checkSkrAndKsr r s pol none)
    | _, _ => Json.null
  let own : Json := match req with
    | some r => toJson (validateRequest v now r pol)
    | none => Json.null
  pure (Wksr.validateKsr v now cfg prev parsed, own, chain)

def ksrStatusJ : Res Wksr.KsrStatus → Json
  | .ok .OK => Json.str "OK"
  | .ok .ERROR => Json.str "ERROR"
  | .error f => toJson f

/-- the defaults of config_wksr.py as regenerated from the working tree -/
def wksrDefaults : Wksr.WksrDefaults :=
  { ciphers := KskmGen.wksrCiphersDefault, requireClientCert := KskmGen.wksrRequireClientCertDefault,
    clientWhitelist := KskmGen.wksrClientWhitelistDefault, maxSize := KskmGen.wksrMaxSizeDefault,
    maxSizeGt := KskmGen.wksrMaxSizeGt, contentType := KskmGen.wksrContentTypeDefault,
    uploadPath := KskmGen.wksrUploadPathDefault.toList.map Char.toNat }

/-- a key whose value must name a file: absent / `true` / `false` (= `Path.is_file()`) -/
def fileKeyOf (j : Json) (k : String) : Except String Wksr.FileKey := do
  let b : Option Bool ← optArg j k
  pure (match b with | none => .absent | some b => .present b)

def routeEffectJ : Wksr.RouteEffect → Json
  | .save e => weffectJ e
  | .validate p => Json.mkObj [("e", "validate"), ("path", toJson p.render)]
  | .mail => Json.mkObj [("e", "mail")]
  | .respond => Json.mkObj [("e", "respond")]

def pkgCOps2 : List (String × Op) := [
  ("validate_ksr", fun j => do
      let (st, own, chain) ← validateArgs j
      pure (Json.mkObj [("status", ksrStatusJ st), ("validateRequest", own), ("checkSkrAndKsr", chain)])),
  -- ---------------------------------------------------------------- C20: configuration, TLS options, route
  ("fingerprint_hex", fun j => do
      let d : Bytes ← arg j "digest"
      pure (toJson (Wksr.fingerprintHex (fun _ => d) []))),
  ("is_hex_digest_string", fun j => do let s : String ← arg j "s"; pure (toJson (Wksr.isHexDigestString s))),
  ("wksr_load_tls", fun j => do
      let cert ← fileKeyOf j "cert"; let key ← fileKeyOf j "key"; let ca ← fileKeyOf j "caCert"
      let ciphers : Option (List String) ← optArg j "ciphers"
      let rcc : Option Bool ← optArg j "requireClientCert"
      let wl : Option (List String) ← optArg j "clientWhitelist"
      let r := Wksr.loadTls wksrDefaults
        { cert := cert, key := key, caCert := ca, ciphers := ciphers, requireClientCert := rcc, clientWhitelist := wl }
      pure (match r with
        | .ok c => Json.mkObj [("ok", Json.mkObj [("ciphers", toJson c.ciphers), ("requireClientCert", c.requireClientCert),
                                                ("clientWhitelist", toJson c.clientWhitelist)])]
        | .error f => toJson f)),
  ("wksr_load_ksr", fun j => do
      let mx : Option Int ← optArg j "maxSize"; let ct : Option String ← optArg j "contentType"
      let up : Option (List Nat) ← optArg j "uploadPath"; let kc ← fileKeyOf j "ksrsignerConfigfile"
      let r := Wksr.loadKsrSection wksrDefaults
        { maxSize := mx, contentType := ct, uploadPath := up, ksrsignerConfigfile := kc }
      pure (match r with
        | .ok c => Json.mkObj [("ok", Json.mkObj [("maxSize", c.maxSize), ("contentType", c.contentType),
                                                ("uploadPath", toJson (Wksr.parsePath c.uploadPath).render),
                                                ("hasSignerConfig", c.hasSignerConfig)])]
        | .error f => toJson f)),
  ("wksr_server_args", fun j => do
      let ciphers : List String ← arg j "ciphers"; let rcc : Bool ← arg j "requireClientCert"
      let host : String ← arg j "hostname"; let port : Int ← arg j "port"; let debug : Bool ← arg j "debug"
      let a := Wksr.serverArgs { ciphers := ciphers, requireClientCert := rcc, clientWhitelist := [] } host port debug
      pure (Json.mkObj [("host", a.host), ("port", a.port), ("log_level", a.logLevel), ("ssl_ciphers", a.sslCiphers),
                        ("ssl_cert_reqs", a.sslCertReqs.toNat)])),
  ("upload_route", fun j => do
      -- the middleware
      let p ← peerOf j; let parseOk : Bool ← arg j "parseOk"; let truthy : Bool ← arg j "truthy"
      let fp : String ← arg j "fingerprint"; let wl : List String ← arg j "whitelist"
      -- save_ksr
      let ct : String ← arg j "cfgContentType"; let mx : Int ← arg j "maxSize"
      let dir : List Nat ← arg j "uploadDir"
      let uct : Option String ← optArg j "contentType"; let size : Option Int ← optArg j "size"
      let fnm : Option (List Nat) ← optArg j "filename"; let body : Bytes ← arg j "body"
      let suffix : List Nat ← arg j "suffix"; let openOk : Bool ← arg j "openOk"
      let hh : String ← arg j "hashHex"
      -- validate_ksr (absent when the harness knows the route cannot get there)
      let verdict : Res Wksr.KsrStatus ← match j.getObjVal? "policy" with
        | .ok _ => do let (st, _, _) ← validateArgs j; pure st
        | .error _ => pure unsupported
      -- notify
      let smtp : Option String ← optArg j "smtpServer"; let mailOk : Bool ← arg j "mailOk"
      let cfg : Wksr.KsrCfg := { contentType := ct, maxSize := mx, uploadPath := Wksr.parsePath dir }
      let (out, effs) := Wksr.handleUpload (fun _ => parseOk) (fun _ => truthy) (fun _ => fp) wl p cfg (fun _ => hh)
        suffix openOk (fun _ => verdict) smtp mailOk
        { contentType := uct, size := size, filename := fnm, body := body }
      let oj : Json := match out with
        | .http c => Json.mkObj [("http", c)]
        | .exception f => toJson f
        | .osError => Json.mkObj [("error", "os")]
        | .page st q h dg => Json.mkObj [("page", Json.mkObj [
            ("status", ksrStatusJ (.ok st)), ("filename", toJson q.render), ("parent", toJson q.parent.render),
            ("name", toJson q.name), ("filehash", h), ("client_digest", toJson dg)])]
      pure (Json.mkObj [("out", oj), ("effects", Json.arr (effs.map routeEffectJ).toArray)]))
]

end Kskm.Ops
