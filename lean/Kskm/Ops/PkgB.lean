/-
  Driver operations of work package B (C08 chain to the previous SKR, C09 publish / retire safety):
  `validate_response` / the `load_skr` gate, and every chain / safety rule on its own (so that the
  full set of violated rules is observable, not only the first in code order).
-/
import Kskm.Ops.Core
import Kskm.SkrValidate
open Lean
namespace Kskm.Ops

def pkgBOps : List (String × Op) := [
  ("validate_response", fun j => do
      let r : Response ← arg j "response"; let p : ResponsePolicy ← arg j "policy"
      let v ← verifierOf j
      pure (toJson (validateResponse v r p))),
  ("load_skr_gate", fun j => do
      let r : Response ← arg j "response"; let p : ResponsePolicy ← arg j "policy"
      let v ← verifierOf j
      pure (toJson (loadSkrGate v r p))),
  ("chain_check", fun j => do
      let r : Request ← arg j "request"; let l : Response ← arg j "last"
      let p : RequestPolicy ← arg j "policy"; let t ← lookupOf j
      let name : String ← arg j "check"
      let res : Res Unit ← match name with
        | "check_unique_request" => pure (checkUniqueRequest r l)
        | "check_unique_bundle_ids" => pure (checkUniqueBundleIds r l)
        | "check_chain_keys" => pure (checkChainKeys r l p)
        | "check_chain_overlap" => pure (checkChainOverlap r l p)
        | "check_last_skr_key_present" => pure (checkLastSkrKeyPresent l p t)
        | _ => throw s!"unknown check {name}"
      pure (toJson res)),
  ("safety_check", fun j => do
      let l : Response ← arg j "last"; let n : Response ← arg j "new"
      let p : RequestPolicy ← arg j "policy"
      let name : String ← arg j "check"
      let res : Res Unit ← match name with
        | "check_publish_safety" => pure (checkPublishSafety l n p)
        | "check_retire_safety" => pure (checkRetireSafety l n p)
        | _ => throw s!"unknown check {name}"
      pure (toJson res))
]

end Kskm.Ops
