/-
  Driver operations of work package F (C16): configuration loading, durations, patterns, exit status.
  The value tree travels as JSON: null / true / 12 / "s" / [..] as themselves, everything else tagged:
  {"f":[trunc|null, integral]}  {"td":us}  {"ts":[us, offset|null]}  {"date":days}  {"map":[[k,v],…]}.
-/
import Kskm.Json
import Kskm.Config
import Kskm.Ops.Core
import KskmGen.Tables
open Lean
namespace Kskm.Ops
open Kskm.Config

partial def cvalOfJson (j : Json) : Except String CVal :=
  match j with
  | .null => pure .null
  | .bool b => pure (.bool b)
  | .num _ => match j.getInt? with
    | .ok i => pure (.int i)
    | .error e => throw s!"non-integer number: {e}"
  | .str s => pure (.str s)
  | .arr a => do
    let xs ← a.toList.mapM cvalOfJson
    pure (.list xs)
  | .obj _ =>
    match j.getObjVal? "map" with
    | .ok (.arr a) => do
      let kvs ← a.toList.mapM fun p =>
        match p with
        | .arr #[k, v] => do pure ((← cvalOfJson k), (← cvalOfJson v))
        | _ => throw "bad map entry"
      pure (.map kvs)
    | _ =>
    match j.getObjVal? "td" with
    | .ok v => do pure (.td (← v.getInt?))
    | _ =>
    match j.getObjVal? "date" with
    | .ok v => do pure (.date (← v.getInt?))
    | _ =>
    match j.getObjVal? "ts" with
    | .ok (.arr #[us, off]) => do
      let o ← (match off with | .null => pure none | o => do pure (some (← o.getInt?)) : Except String (Option Int))
      pure (.ts (← us.getInt?) o)
    | _ =>
    match j.getObjVal? "f" with
    | .ok (.arr #[t, i]) => do
      let tr ← (match t with | .null => pure none | o => do pure (some (← o.getInt?)) : Except String (Option Int))
      pure (.float tr (← i.getBool?))
    | _ => throw "bad tagged value"

partial def cvalToJson (v : CVal) : Json :=
  match v with
  | .null => .null
  | .bool b => .bool b
  | .int i => toJson i
  | .float t i => Json.mkObj [("f", .arr #[(match t with | some x => toJson x | none => .null), .bool i])]
  | .str s => .str s
  | .td u => Json.mkObj [("td", toJson u)]
  | .ts u o => Json.mkObj [("ts", .arr #[toJson u, (match o with | some x => toJson x | none => .null)])]
  | .date d => Json.mkObj [("date", toJson d)]
  | .list xs => .arr (xs.map cvalToJson).toArray
  | .map kvs => Json.mkObj [("map", .arr (kvs.map fun kv => Json.arr #[cvalToJson kv.1, cvalToJson kv.2]).toArray)]

instance : FromJson CVal where fromJson? := cvalOfJson
instance : ToJson CVal where toJson := cvalToJson

def envOf (files : List String) : Env :=
  { tbl := KskmGen.configSchema, algNames := KskmGen.algorithmDNSSEC, fileExists := fun s => files.contains s,
    kskTtlFallback := KskmGen.dnsTtlFallback.map CVal.int }

/-- the F3 behaviour switch, from the exit statuses observed by execution -/
def validationCaughtNow : Bool := validationCaughtOf KskmGen.exitStatusObserved KskmGen.exitCodes

def outcomeOfString (s : String) : Except String LoaderOutcome :=
  match s with
  | "loaded" => pure .loaded
  | "fileNotFound" => pure .fileNotFound
  | "configurationError" => pure .configurationError
  | "validationError" => pure .validationError
  | "otherException" => pure .otherException
  | "keyboardInterrupt" => pure .keyboardInterrupt
  | _ => throw s!"unknown outcome {s}"

def outcomeName : LoaderOutcome → String
  | .loaded => "loaded" | .fileNotFound => "fileNotFound" | .configurationError => "configurationError"
  | .validationError => "validationError" | .otherException => "otherException"
  | .keyboardInterrupt => "keyboardInterrupt"

def pkgFOps : List (String × Op) := [
  ("config_from_dict", fun j => do
      let c : CVal ← arg j "config"
      let files : Option (List String) ← optArg j "files"
      pure (toJson (fromDict (envOf (files.getD [])) c))),
  ("config_load_status", fun j => do
      -- from_dict + main's status: {"outcome": …, "status": …} ("unsupported" when the model declines)
      let c : CVal ← arg j "config"
      let files : Option (List String) ← optArg j "files"
      match outcomeOf (fromDict (envOf (files.getD [])) c), exitCodesOf KskmGen.exitCodes with
      | some o, some codes =>
        pure (Json.mkObj [("outcome", Json.str (outcomeName o)),
                          ("status", toJson (mainStatus codes validationCaughtNow o false))])
      | _, _ => pure (Json.str "unsupported")),
  ("config_main_status", fun j => do
      let o ← outcomeOfString (← arg j "outcome")
      let rest : Bool ← arg j "restOk"
      match exitCodesOf KskmGen.exitCodes with
      | some codes => pure (toJson (mainStatus codes validationCaughtNow o rest))
      | none => throw "exit code table incomplete"),
  ("config_validate", fun j => do
      -- one field type against one value: {"model": M, "field": F, "value": v}
      let m : String ← arg j "model"; let f : String ← arg j "field"; let v : CVal ← arg j "value"
      let files : Option (List String) ← optArg j "files"
      let env := envOf (files.getD [])
      match findSchema env.tbl m with
      | none => throw s!"no model {m}"
      | some s => match s.field? f with
        | none => throw s!"no field {m}.{f}"
        | some fld =>
          let r := valFieldValue (validate env validateFuel) s.strict fld v
          pure (toJson (match r with
            | .ok (some x) => (.ok x : Res CVal)
            | .ok none => err .validation
            | .error e => .error e))),
  ("pyd_duration", fun j => do
      let s : String ← arg j "text"
      pure (toJson (match pydDuration s with
        | .ok (some x) => (.ok x : Res Int)
        | .ok none => err .validation
        | .error e => .error e))),
  ("repo_duration", fun j => do
      let v : CVal ← arg j "value"
      pure (toJson (durationToTimedelta v))),
  ("match_pattern", fun j => do
      let p : String ← arg j "pattern"; let s : String ← arg j "text"
      pure (toJson (matchPattern p s))),
  ("request_policy_of", fun j => do
      let v : CVal ← arg j "section"
      match toRequestPolicy KskmGen.algorithmDNSSEC v with
      | some p => pure (toJson p)
      | none => pure (Json.str "unsupported")),
  ("response_policy_of", fun j => do
      let v : CVal ← arg j "section"
      match toResponsePolicy v with
      | some p => pure (toJson p)
      | none => pure (Json.str "unsupported")),
  ("config_defaults", fun j => do
      let m : String ← arg j "model"
      match defaultInstance KskmGen.configSchema m with
      | some v => pure (toJson v)
      | none => pure (Json.str "unsupported"))
]

end Kskm.Ops
