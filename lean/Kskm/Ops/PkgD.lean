/-
  Driver operations of work package D (C12 reader = standard parser, C13 loading terminates):
  the three regular expressions, the reader at every level, the dict → data-class glue, and the
  load → validate composition.  All text travels as the lower-case hex of its UTF-8 octets, so that the
  `bytes.decode()` step of `load_ksr` is inside the model too and no JSON escaping rule is trusted.
-/
import Kskm.Ops.Core
import Kskm.XmlGlue
open Lean
namespace Kskm.Ops
open Kskm.Xml

/-- strict UTF-8 decoding (`bytes.decode()`); `none` = UnicodeDecodeError -/
def utf8Decode (b : Bytes) : Option (List Char) :=
  match String.fromUTF8? (ByteArray.mk b.toArray) with
  | some s => some s.toList
  | none => none

def textArg (j : Json) (k : String) : Except String (List Char) := do
  let b : Bytes ← arg j k
  match utf8Decode b with
  | some s => pure s
  | none => throw s!"argument {k} is not UTF-8"

def strJ (s : List Char) : Json := Json.str (String.ofList s)

partial def xvalJson : XVal → Json
  | .str s => strJ s
  | .dict d => Json.mkObj (d.map fun p => (String.ofList p.1, xvalJson p.2))
  | .list l => Json.arr (l.map xvalJson).toArray

def outJson {α} (f : α → Json) : Out α → Json
  | .ok a => Json.mkObj [("ok", f a)]
  | .err k => Json.mkObj [("error", toJson k)]
  | .outOfFuel => Json.str "hang"

def loadJson {α} [ToJson α] : Load α → Json
  | .done r => toJson r
  | .hang => Json.str "hang"

def attrsJson (a : Attrs) : Json := Json.mkObj (a.map fun p => (String.ofList p.1, strJ p.2))

/-- behaviour switches: the tabulated ones unless the line overrides them -/
def switchesOf (j : Json) : Except String Switches := do
  let a : Option Bool ← optArg j "attrsLoopFailsOnNoMatch"
  let b : Option Bool ← optArg j "attrsBlankFails"
  pure { attrsLoopFailsOnNoMatch := a.getD pySwitches.attrsLoopFailsOnNoMatch,
         attrsBlankFails := b.getD pySwitches.attrsBlankFails }

def glueSwitchesOf (j : Json) : Except String GlueSwitches := do
  let a : Option Bool ← optArg j "wrapsSingleSigner"
  let b : Option Bool ← optArg j "wrapsSingleResponseBundle"
  let c : Option Bool ← optArg j "sortsRequestBundlesByTriple"
  let d : Option Bool ← optArg j "sortsResponseBundles"
  pure { wrapsSingleSigner := a.getD pyGlueSwitches.wrapsSingleSigner,
         wrapsSingleResponseBundle := b.getD pyGlueSwitches.wrapsSingleResponseBundle,
         sortsRequestBundlesByTriple := c.getD pyGlueSwitches.sortsRequestBundlesByTriple,
         sortsResponseBundles := d.getD pyGlueSwitches.sortsResponseBundles }

def fileOracleOf (j : Json) : Except String FileOracle := do
  let b : Bytes ← arg j "bytes"
  let st : Option Nat ← optArg j "statSize"
  pure { statSize := st.getD b.length, read := fun n => b.take n, decode := utf8Decode }

def pkgDOps : List (String × Op) := [
  ("classes", fun j => do
      let c : Nat ← arg j "c"
      let ch := Char.ofNat c
      pure (Json.mkObj [("word", toJson (pyClasses.isWord ch)), ("space", toJson (pyClasses.isSpace ch)),
                        ("strip", toJson (pyClasses.isStrip ch))])),
  ("utf8_decode", fun j => do
      let b : Bytes ← arg j "bytes"
      pure (match utf8Decode b with | some s => Json.mkObj [("ok", strJ s)] | none => Json.null)),
  ("re_tag1", fun j => do
      let s ← textArg j "s"
      pure (match matchTag1 pyClasses s with
        | some (n, w, a, sl) => Json.arr #[strJ n, strJ w, strJ a, strJ sl]
        | none => Json.null)),
  ("re_tag2", fun j => do
      let s ← textArg j "s"
      pure (match matchTag2 pyClasses s with
        | some n => Json.arr #[strJ n]
        | none => Json.null)),
  ("re_attr", fun j => do
      let s ← textArg j "s"
      pure (match matchAttr pyClasses s with
        | some (n, v, r) => Json.arr #[strJ n, strJ v, strJ r]
        | none => Json.null)),
  ("strip", fun j => do
      let s ← textArg j "s"
      pure (strJ (strip pyClasses.isStrip s))),
  ("index", fun j => do
      let s ← textArg j "s"; let p ← textArg j "pat"; let st : Nat ← arg j "start"
      pure (toJson (indexFrom p s st))),
  ("parse_attrs", fun j => do
      let s ← textArg j "s"; let sw ← switchesOf j
      pure (outJson attrsJson (parseAttrs pyClasses sw (s.length + 1) s []))),
  ("find_end", fun j => do
      let s ← textArg j "s"; let n ← textArg j "name"; let st : Nat ← arg j "start"
      pure (match findEndOfElement s st n with
        | some (a, b) => Json.arr #[toJson a, toJson b]
        | none => Json.null)),
  ("parse", fun j => do
      let s ← textArg j "s"; let sw ← switchesOf j
      let r : Option Nat ← optArg j "recurse"
      pure (outJson (fun d => xvalJson (.dict d)) (parse pyClasses sw s (r.getD 5)))),
  ("parse_ksr", fun j => do
      let s ← textArg j "s"; let sw ← switchesOf j
      pure (outJson (fun d => xvalJson (.dict d)) (parseKsr pyClasses sw s))),
  ("request_from_xml", fun j => do
      let s ← textArg j "s"; let sw ← switchesOf j; let gs ← glueSwitchesOf j
      pure (loadJson (requestFromXmlL pyClasses sw gs s))),
  ("response_from_xml", fun j => do
      let s ← textArg j "s"; let sw ← switchesOf j; let gs ← glueSwitchesOf j
      pure (loadJson (responseFromXmlL pyClasses sw gs s))),
  ("load_ksr", fun j => do
      let f ← fileOracleOf j; let sw ← switchesOf j; let gs ← glueSwitchesOf j
      let p : RequestPolicy ← arg j "policy"; let now : Int ← arg j "now"; let v ← verifierOf j
      let ro : Option Bool ← optArg j "raiseOriginal"
      let r := loadKsr pyClasses sw gs v now f p (ro.getD false)
      pure (Json.mkObj [("result", loadJson r.result), ("readCalled", toJson r.readCalled)])),
  ("load_skr", fun j => do
      let f ← fileOracleOf j; let sw ← switchesOf j; let gs ← glueSwitchesOf j
      let p : ResponsePolicy ← arg j "policy"; let v ← verifierOf j
      let r := loadSkr pyClasses sw gs v f p
      pure (Json.mkObj [("result", loadJson r.result), ("readCalled", toJson r.readCalled)]))
]

end Kskm.Ops
