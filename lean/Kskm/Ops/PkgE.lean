/-
  Driver operations of work package E (C11): duration / timestamp codecs, `_indent`, the SKR writer
  (text and element tree).
-/
import Kskm.Ops.Core
import Kskm.SkrXml
import Kskm.TimeIsoCal
open Lean
namespace Kskm.Ops

partial def xtreeToJson : XTree → Json
  | .node n a cs => Json.mkObj [("name", n), ("attrs", Json.arr (a.map fun (k, v) => Json.arr #[k, v]).toArray),
      ("children", Json.arr (cs.map xtreeToJson).toArray)]
  | .leaf n a t => Json.mkObj [("name", n), ("attrs", Json.arr (a.map fun (k, v) => Json.arr #[k, v]).toArray),
      ("text", t)]
  | .empty n a => Json.mkObj [("name", n), ("attrs", Json.arr (a.map fun (k, v) => Json.arr #[k, v]).toArray)]

def pkgEOps : List (String × Op) := [
  ("parse_duration", fun j => do let s : String ← arg j "text"; pure (toJson (parseDuration s))),
  ("format_duration", fun j => do let d : Int ← arg j "us"; pure (toJson (formatDuration d))),
  ("parse_datetime", fun j => do let s : String ← arg j "text"; pure (toJson (parseDatetime s))),
  ("format_datetime", fun j => do
      let t : Int ← arg j "us"
      pure (toJson ((formatDatetimeRes t).map String.ofList))),
  ("py_int", fun j => do let s : String ← arg j "text"; pure (toJson (pyInt s.toList))),
  ("indent", fun j => do let s : String ← arg j "text"; pure (toJson (String.ofList (indent s.toList)))),
  ("is_space", fun j => do
      let cs : List Nat ← arg j "codes"
      pure (toJson (cs.map fun n => pyIsSpace (Char.ofNat n)))),
  ("civil_of_days", fun j => do
      let z : Int ← arg j "days"
      let c := civilOfDays z
      pure (toJson [c.year, (c.month : Int), (c.day : Int)])),
  ("days_of_civil", fun j => do
      let y : Int ← arg j "y"; let m : Nat ← arg j "m"; let d : Nat ← arg j "d"
      pure (toJson (daysOfCivil { year := y, month := m, day := d }))),
  -- work package B2: ISO week dates, `date.isocalendar`, the separator finder and the octets `fromisoformat` reads
  ("parse_datetime_octets", fun j => do
      -- the general transcription (UTF-8 octets, week dates) on EVERY text, also where `fromIsoChars` has its own path
      let s : String ← arg j "text"
      let cs := stripTrailingZ s.toList
      pure (toJson (if cs.length < 7 then (err .value : Res Int) else fromIsoGeneral cs))),
  ("iso_to_civil", fun j => do
      let y : Int ← arg j "y"; let w : Nat ← arg j "w"; let d : Nat ← arg j "d"
      pure (match isoToCivil y w d with
        | some c => toJson [c.year, (c.month : Int), (c.day : Int)]
        | none => Json.null)),
  ("iso_calendar", fun j => do
      let z : Int ← arg j "days"
      let r := isoCalendar z
      pure (toJson [r.1, r.2.1, r.2.2])),
  ("find_iso_separator", fun j => do
      let s : String ← arg j "text"
      pure (match findIsoSeparator (utf8OfChars s.toList) with
        | some n => toJson n
        | none => toJson (-1 : Int))),
  ("utf8_octets", fun j => do
      let s : String ← arg j "text"
      pure (toJson ((utf8OfChars s.toList).map Char.toNat))),
  ("py_decimal", fun j => do
      let cs : List Nat ← arg j "codes"
      pure (toJson (cs.map fun n => match pyDecimal? (Char.ofNat n) with | some d => (d : Int) | none => -1))),
  ("skr_to_xml", fun j => do let r : Response ← arg j "response"; pure (toJson (skrToXml r))),
  ("writer_domain", fun j => do let r : Response ← arg j "response"; pure (toJson (writerDomain r))),
  ("skr_tree", fun j => do
      let r : Response ← arg j "response"
      pure (Json.mkObj [("tree", xtreeToJson (treeOf r)), ("render", String.ofList (renderDoc (treeOf r)))]))
]

end Kskm.Ops
