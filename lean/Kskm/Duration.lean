/-
  Kskm.Duration — the two duration codecs of /repo:

  * `parseDuration`  = kskm/common/parse_utils.py:duration_to_timedelta   (reader)
  * `formatDuration` = kskm/skr/output.py:timedelta_to_duration           (writer)

  Durations are `Int` microseconds (`timedelta // timedelta(microseconds=1)`).

  The reader is mirrored *as it is*, including:
  * `None`/"" ⇒ 0;  "P" alone ⇒ 0;  must start with "P";
  * per loop iteration ONE optional "T" is stripped and switches to the time section for good;
  * the regular expression `^(\d+?)([WDHMS])(.*)`: the lazy `\d+?` followed by a designator class
    can only match the MAXIMAL run of decimal digits, and only when the character right after the run
    is one of `W D H M S`; `.*` stops at the first "\n", so `rest` is the remainder of the *line* and
    everything after a newline is dropped;
  * `M` before any `T` ⇒ NotImplementedError (months);
  * after the unit has been added: `try: res += timedelta(seconds=int(rest)); rest = ""`
    — a trailing Python integer literal (optional surrounding C whitespace, optional sign, single
    underscores between digits) is added as SECONDS and ends the loop ("P1D5" = 1 day 5 s,
    "P0D-86400" = −1 day);  a `ValueError` of `int()` (incl. CPython's 4300-digit limit) is swallowed
    and the loop continues with `rest`;
  * `timedelta` range: every constructed or summed value must have |days| ≤ 999 999 999
    (else OverflowError).

  Non-ASCII text: `\d` (a `str` pattern without `re.ASCII`) and `int()` accept every Unicode decimal digit
  (`Py_UNICODE_ISDECIMAL` / `Py_UNICODE_TODECIMAL`: "P٣D" is three days) and `int()` reads Unicode white
  space as blanks (`_PyUnicode_TransformDecimalAndSpaceToASCII`).  The two character tables are tabulated
  from the running Python over all code points (KskmGen.decimalZeros, KskmGen.intSpaceRanges); nothing is
  declined.  Assumed: the interpreter's `sys.get_int_max_str_digits()` is the default 4300.
-/
import Kskm.Data
import KskmGen.Tables
namespace Kskm

/-! ### Python `int(str)` on ASCII text -/

/-- C `isspace` in the "C" locale (what `PyLong_FromString` skips on a pure-ASCII `str`). -/
def isCSpace (c : Char) : Bool :=
  c = ' ' || c = '\t' || c = '\n' || c = '\x0b' || c = '\x0c' || c = '\r'

/-- characters that can occur anywhere in an accepted decimal `int()` literal (ASCII part) -/
def intCharOk (c : Char) : Bool := c.isDigit || isCSpace c || c = '_' || c = '+' || c = '-'

/-- CPython's default `sys.get_int_max_str_digits()` -/
def maxStrDigits : Nat := 4300

/-- The digit run of an `int()` literal, the cursor standing on a digit or `_`:
    returns (digits without underscores, what follows the run, well-formed?) — an underscore must
    be followed by a digit. -/
def intRun : List Char → List Char × List Char × Bool
  | [] => ([], [], true)
  | c :: r =>
    if c.isDigit then
      let (d, t, ok) := intRun r
      (c :: d, t, ok)
    else if c = '_' then
      match r with
      | d :: _ => if d.isDigit then intRun r else ([], c :: r, false)
      | [] => ([], [c], false)
    else ([], c :: r, true)

/-- `int(s)` for a pure-ASCII `s`: `none` is `ValueError`. -/
def pyIntAscii (s : List Char) : Option Int :=
  let s1 := s.dropWhile isCSpace
  let (neg, s2) : Bool × List Char :=
    match s1 with
    | '+' :: t => (false, t)
    | '-' :: t => (true, t)
    | _ => (false, s1)
  match s2 with
  | [] => none
  | c :: _ =>
    if !c.isDigit then none
    else
      let (ds, t, ok) := intRun s2
      if !ok then none
      else if !(t.dropWhile isCSpace).isEmpty then none
      else if ds.length > maxStrDigits then none
      else
        let v : Int := (Nat.ofDigitChars 10 ds 0 : Nat)
        some (if neg then -v else v)

/-- `Py_UNICODE_TODECIMAL`: the value of a decimal digit of any script (blocks 0 … 9 of the generated table) -/
def pyDecimal? (c : Char) : Option Nat :=
  (KskmGen.decimalZeros.find? fun z => decide (z ≤ c.toNat) && decide (c.toNat < z + 10)).map (c.toNat - ·)

/-- `Py_UNICODE_ISDECIMAL`: what the `\d` of a `str` pattern matches -/
def isPyDecimal (c : Char) : Bool := (pyDecimal? c).isSome

/-- `Py_UNICODE_ISSPACE` of a non-ASCII character -/
def isUniSpace (c : Char) : Bool :=
  KskmGen.intSpaceRanges.any fun r => decide (r.1 ≤ c.toNat) && decide (c.toNat ≤ r.2)

/-- `_PyUnicode_TransformDecimalAndSpaceToASCII`, one character: code points below 127 are kept, white
    space becomes a blank, a decimal digit its ASCII digit, anything else "?" (the C function also drops
    what follows the first "?"; no literal contains "?", so `int()` fails either way). -/
def intTranslit (c : Char) : Char :=
  if c.toNat < 127 then c
  else if isUniSpace c then ' '
  else
    match pyDecimal? c with
    | some d => Nat.digitChar d
    | none => '?'

/-- `int(s)` as far as the model judges it: `.ok none` = `ValueError`.
    An ASCII character that no literal can contain settles the matter (CPython keeps code points
    < 127 unchanged when it transliterates a non-ASCII string); otherwise a non-ASCII character means
    the Unicode database decides: the text is transliterated to ASCII first (`intTranslit`). -/
def pyInt (s : List Char) : Res (Option Int) :=
  if s.any (fun c => decide (c.toNat < 128) && !intCharOk c) then pure none
  else if s.any (fun c => decide (128 ≤ c.toNat)) then pure (pyIntAscii (s.map intTranslit))
  else pure (pyIntAscii s)

/-! ### `timedelta` range -/

def maxDeltaDays : Int := 999999999

/-- a `timedelta` of `us` microseconds exists iff its (floor) day count has magnitude ≤ 999 999 999 -/
def tdInRange (us : Int) : Bool :=
  decide (-maxDeltaDays ≤ us / usPerDay) && decide (us / usPerDay ≤ maxDeltaDays)

/-- construct / sum with the OverflowError of `datetime.timedelta` -/
def tdCheck (us : Int) : Res Int := if tdInRange us then pure us else err .overflow

/-! ### the reader -/

def isDesignator (c : Char) : Bool := c = 'W' || c = 'D' || c = 'H' || c = 'M' || c = 'S'

/-- microseconds of one unit of designator `w` (`M` = minutes: the caller checks the section) -/
def unitUs (w : Char) : Int :=
  if w = 'W' then 7 * usPerDay
  else if w = 'D' then usPerDay
  else if w = 'H' then 3600 * usPerSecond
  else if w = 'M' then 60 * usPerSecond
  else usPerSecond

/-- What one pass of the `while duration:` loop does: either the function is finished with a value,
    or the loop goes round again with (`duration`, `time_section`, `res`). -/
inductive DurStep where
  | done (v : Int)
  | more (rest : List Char) (timeSection : Bool) (acc : Int)
  deriving DecidableEq, Repr, Inhabited

/-- One pass of the loop body when the digit run of `^(\d+?)([WDHMS])(.*)` meets a non-ASCII character:
    the same steps as `durationStep` below, after its "T" handling (`s1`, `ts`), with `\d` = any Unicode
    decimal digit and `int(num_str)` of the transliterated run. -/
def durationStepUni (s1 : List Char) (ts : Bool) (acc : Int) : Res DurStep :=
  let ds := (s1.takeWhile isPyDecimal).map intTranslit
  let r1 := s1.dropWhile isPyDecimal
  match r1 with
  | [] => err .value
  | w :: r2 =>
    if !isDesignator w then err .value
    else if ds.isEmpty then err .value
    else if ds.length > maxStrDigits then err .value
    else do
      let rest := r2.takeWhile (· ≠ '\n')
      let num : Int := (Nat.ofDigitChars 10 ds 0 : Nat)
      if w = 'M' && !ts then err .notImplemented
      let unit ← tdCheck (num * unitUs w)
      let acc1 ← tdCheck (acc + unit)
      match ← pyInt rest with
      | some v =>
        let tail ← tdCheck (v * usPerSecond)
        let total ← tdCheck (acc1 + tail)
        pure (.done total)
      | none => pure (.more rest ts acc1)

/-- One pass of the loop body on a non-empty `duration`. -/
def durationStep (s : List Char) (timeSection : Bool) (acc : Int) : Res DurStep :=
  -- `if duration.startswith("T"): time_section = True; duration = duration[1:]`
  let ts : Bool := if s.head? = some 'T' then true else timeSection
  let s1 : List Char := if s.head? = some 'T' then s.tail else s
  -- `^(\d+?)([WDHMS])(.*)`
  let ds := s1.takeWhile Char.isDigit
  let r1 := s1.dropWhile Char.isDigit
  match r1 with
  | [] => err .value                       -- nothing, or digits with no designator: no match
  | w :: r2 =>
    if !isDesignator w then
      -- a non-ASCII character here may be a Unicode decimal digit continuing `\d+?`
      if 128 ≤ w.toNat then durationStepUni s1 ts acc else err .value
    else if ds.isEmpty then err .value     -- a designator with no number
    else if ds.length > maxStrDigits then err .value   -- `int(num_str)` refuses
    else do
      let rest := r2.takeWhile (· ≠ '\n')
      let num : Int := (Nat.ofDigitChars 10 ds 0 : Nat)
      if w = 'M' && !ts then err .notImplemented
      let unit ← tdCheck (num * unitUs w)
      let acc1 ← tdCheck (acc + unit)
      match ← pyInt rest with
      | some v =>
        let tail ← tdCheck (v * usPerSecond)
        let total ← tdCheck (acc1 + tail)
        pure (.done total)                 -- `rest = ""`: the loop ends
      | none => pure (.more rest ts acc1)

/-- The `while duration:` loop.  `fuel` bounds the number of passes; every pass consumes at least a
    digit and a designator (`durationStep_shrinks`), so `fuel = length` is never exhausted
    (`parseDurationLoop_fuel`, both in KskmProofs/Lemmas/C11Duration.lean): the out-of-fuel answer
    `err .runtime` is unreachable. -/
def parseDurationLoop : Nat → List Char → Bool → Int → Res Int
  | 0, s, _, acc => if s.isEmpty then pure acc else err .runtime
  | fuel + 1, s, timeSection, acc =>
    if s.isEmpty then pure acc
    else
      match durationStep s timeSection acc with
      | .error e => .error e
      | .ok (.done v) => pure v
      | .ok (.more rest ts acc1) => parseDurationLoop fuel rest ts acc1

/-- `duration_to_timedelta` on the characters of the text -/
def parseDurationChars (s : List Char) : Res Int :=
  match s with
  | [] => pure 0
  | 'P' :: r => parseDurationLoop r.length r false 0
  | _ :: _ => err .value

/-- `duration_to_timedelta(s)` in microseconds (`None` and "" both give 0). -/
def parseDuration (s : String) : Res Int := parseDurationChars s.toList

/-! ### the writer -/

/-- Python `str(int)` / `f"{i}"` -/
def pyIntStr (i : Int) : List Char :=
  if i < 0 then '-' :: (Nat.toDigits 10 i.natAbs) else Nat.toDigits 10 i.toNat

/-- the `time` part of `timedelta_to_duration` for `td.seconds = s ≠ 0` (note the strict `>`:
    3600 s prints as "T60M", 60 s as "T60S") -/
def formatTimePart (s : Nat) : List Char :=
  let h : List Char := if s > 3600 then Nat.toDigits 10 (s / 3600) ++ ['H'] else []
  let r1 := if s > 3600 then s % 3600 else s
  let m : List Char := if r1 > 60 then Nat.toDigits 10 (r1 / 60) ++ ['M'] else []
  let r2 := if r1 > 60 then r1 % 60 else r1
  let sec : List Char := if r2 ≠ 0 then Nat.toDigits 10 r2 ++ ['S'] else []
  'T' :: (h ++ m ++ sec)

/-- `timedelta_to_duration` on a duration of `us` microseconds: `td.days` is the floor day count,
    `td.seconds` the whole seconds of the remainder (0 … 86399); the microseconds field is NOT
    written (a sub-second duration prints as "P", which reads back as zero). -/
def formatDurationChars (us : Int) : List Char :=
  if us = 0 then "PT0S".toList
  else
    let days : Int := us / usPerDay
    let secs : Nat := ((us % usPerDay) / usPerSecond).toNat
    let d : List Char := if days ≠ 0 then 'P' :: (pyIntStr days ++ ['D']) else ['P']
    let t : List Char := if secs ≠ 0 then formatTimePart secs else []
    d ++ t

def formatDuration (us : Int) : String := String.ofList (formatDurationChars us)

end Kskm
