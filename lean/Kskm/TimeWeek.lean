/-
  Kskm.TimeWeek — the parts of CPython 3.12's `datetime.fromisoformat` that `Kskm.Time` used to decline:

  * ISO 8601 week dates (`YYYY-Www`, `YYYY-Www-d`, `YYYYWww`, `YYYYWwwd`):
      `_find_isoformat_datetime_separator` (where the date ends) and `iso_to_ymd` / `iso_week1_monday`
      (Modules/_datetimemodule.c; pure-Python reference `_isoweek_to_gregorian`, `_isoweek1monday` of
      Lib/_pydatetime.py), the latter as arithmetic on day numbers (day 0 = 1970-01-01, a Thursday) so
      that this file needs nothing of `Kskm.Time`;
  * the UTF-8 octets the C code reads (`PyUnicode_AsUTF8AndSize`): a list of `Char`s below 256, one per
    octet, on which the statement-by-statement transcriptions of `Kskm.Time` run unchanged, and the
    lead-octet rule by which the separator is skipped as one whole character.

  Week numbers: week 1 of a year is the week (Monday … Sunday) that contains 4 January, equivalently the
  first week with at least four days in the year; a year has week 53 iff it starts on a Thursday, or on a
  Wednesday and is a leap year.  Years 0 and 10000 can come out of the arithmetic (`0001`/`9999` at the
  edges, year `0000` as input): the caller's `datetime` range check 1 … 9999 rejects them, as
  `new_datetime` does.  (For the input year 0 the C code computes with truncating division and gets other
  ordinals than the proleptic calendar; every such ordinal is ≤ 0, i.e. also rejected — tested over all
  `0000-Www-d`.)
-/
import Kskm.Data
namespace Kskm

/-! ### UTF-8 octets as characters below 256 -/

/-- the UTF-8 encoding of a character, one `Char` (< 256) per octet; ASCII is unchanged -/
def utf8Octets (c : Char) : List Char :=
  let n := c.toNat
  if n < 0x80 then [c]
  else if n < 0x800 then [Char.ofNat (0xC0 + n / 64), Char.ofNat (0x80 + n % 64)]
  else if n < 0x10000 then
    [Char.ofNat (0xE0 + n / 4096), Char.ofNat (0x80 + n / 64 % 64), Char.ofNat (0x80 + n % 64)]
  else
    [Char.ofNat (0xF0 + n / 262144), Char.ofNat (0x80 + n / 4096 % 64), Char.ofNat (0x80 + n / 64 % 64),
      Char.ofNat (0x80 + n % 64)]

/-- `PyUnicode_AsUTF8AndSize` of a string without surrogates -/
def utf8OfChars (cs : List Char) : List Char := cs.flatMap utf8Octets

/-- how many octets `datetime_fromisoformat` skips for the separator that starts with octet `b`:
    `if ((p[0] & 0x80) == 0) p += 1; else switch (p[0] & 0xf0) { 0xe0: 3; 0xf0: 4; default: 2 }` -/
def sepWidth (b : Char) : Nat :=
  if b.toNat < 0x80 then 1
  else if b.toNat / 16 = 0xE then 3
  else if b.toNat / 16 = 0xF then 4
  else 2

/-! ### `_find_isoformat_datetime_separator(dtstr, len)` -/

/-- index of the first non-digit at or after `idx` (the `for (; idx < len; ++idx)` scan) -/
def digitRunEnd : List Char → Nat → Nat
  | [], idx => idx
  | c :: r, idx => if c.isDigit then digitRunEnd r (idx + 1) else idx

/-- where the date part ends; `none` is the C function's `-1`.  `s` is the octet buffer, `s.length ≥ 7`. -/
def findIsoSeparator (s : List Char) : Option Nat :=
  let len := s.length
  let ch (i : Nat) : Char := s.getD i '\x00'
  if len = 7 then some 7
  else if ch 4 = '-' then
    if ch 5 = 'W' then
      if len < 8 then none
      else if len > 8 && ch 8 = '-' then
        if len = 9 then none
        else if len > 10 && (ch 10).isDigit then some 8
        else some 10
      else some 8
    else some 10
  else if ch 4 = 'W' then
    let idx := digitRunEnd (s.drop 7) 7
    if idx < 9 then some idx
    else if idx % 2 = 0 then some 7
    else some 8
  else some 8

/-! ### `iso_to_ymd` on day numbers (day 0 = 1970-01-01) -/

/-- `weekday()`: 0 = Monday … 6 = Sunday (1970-01-01 was a Thursday) -/
def weekdayOfDays (z : Int) : Int := (z + 3) % 7

/-- `iso_week1_monday(year)`, given the day number of 1 January of that year -/
def isoWeek1Monday (jan1 : Int) : Int :=
  let wd := weekdayOfDays jan1
  let monday := jan1 - wd
  if wd > 3 then monday + 7 else monday

/-- "ISO years have 53 weeks in them on years starting with a Thursday and leap years starting on a
    Wednesday" -/
def hasWeek53 (jan1 : Int) (leap : Bool) : Bool :=
  weekdayOfDays jan1 = 3 || (weekdayOfDays jan1 = 2 && leap)

/-- `iso_to_ymd(year, week, day)` up to the final `ord_to_ymd`: the day number of the date, `none` for an
    invalid week or day (`jan1`: day number of 1 January of the year, `leap`: whether it is a leap year) -/
def isoWeekDayNumber (jan1 : Int) (leap : Bool) (week day : Nat) : Option Int :=
  if (week = 0 || 53 ≤ week) && !(week = 53 && hasWeek53 jan1 leap) then none
  else if day = 0 || 8 ≤ day then none
  else some (isoWeek1Monday jan1 + ((week : Int) - 1) * 7 + ((day : Int) - 1))

/-! ### `date.isocalendar()` on day numbers (Lib/_pydatetime.py), for the round-trip theorem -/

/-- `isocalendar` of the day `z`, given the day numbers of 1 January of the civil year of `z`, of the year
    before and of the year after: (offset of the ISO year from the civil year, week, day) -/
def isoCalendarRel (jan1Prev jan1 jan1Next z : Int) : Int × Int × Int :=
  let w1 := isoWeek1Monday jan1
  let week := (z - w1) / 7
  let day := (z - w1) % 7
  if week < 0 then
    let w0 := isoWeek1Monday jan1Prev
    (-1, (z - w0) / 7 + 1, (z - w0) % 7 + 1)
  else if week ≥ 52 && z ≥ isoWeek1Monday jan1Next then (1, 1, day + 1)
  else (0, week + 1, day + 1)

end Kskm
