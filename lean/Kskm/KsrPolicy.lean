/-
  Kskm.KsrPolicy — kskm/ksr/verify_header.py, verify_bundles.py, verify_policy.py, validate.py.
  Same order of checks, same comparison operators, same flags.  The clock (`now`) and the
  signature verifier are parameters.
-/
import Kskm.Signature
namespace Kskm

/-! ### verify_header -/

def checkDomain (req : Request) (pol : RequestPolicy) : Res Unit :=
  if pol.acceptableDomains.contains req.domain then pure () else violation .ksrDomain

/-! ### verify_bundles -/

def hasDupBundleIds : List Bundle → Bool
  | [] => false
  | b :: r => r.any (fun b' => b'.id = b.id) || hasDupBundleIds r

def checkUniqueIds (req : Request) : Res Unit :=
  if hasDupBundleIds req.bundles then violation .bundleUnique else pure ()

def matchRsaAlg (algs : List AlgPolicy) (key : Key) (pub : RsaPub) (ignoreExponent : Bool) : Bool :=
  algs.any fun a =>
    a.kind == .rsa && (key.algorithm == a.algorithm && ((pub.bits : Int) == a.bits)
      && (a.exponent == some (pub.exponent : Int) || ignoreExponent))

/-- `_find_matching_zsk_policy_ecdsa_alg`: the prefix is stripped relative to the *policy entry's*
    algorithm, which may raise. -/
def matchEcdsaAlg : List AlgPolicy → Key → Bytes → Res Bool
  | [], _, _ => pure false
  | a :: r, key, pk =>
    if a.kind != .ecdsa then matchEcdsaAlg r key pk else do
      let p ← ecdsaWithoutPrefix pk a.algorithm
      if key.algorithm == a.algorithm && ((getEcdsaPubkeySize p : Int) == a.bits) then pure true
      else matchEcdsaAlg r key pk

def expectedEddsaKeySize (a : Nat) : Res Nat :=
  if a == algED25519 then pure 256 else if a == algED448 then pure 456 else err .value

def eddsaWithoutPrefix (pk : Bytes) (a : Nat) : Res Bytes := do
  let want ← expectedEddsaKeySize a
  if pk.length * 8 != want then
    match pk with
    | [] => err .index
    | b :: r => if b = 4 then pure r else pure pk
  else pure pk

def matchEddsaAlg : List AlgPolicy → Key → Bytes → Res Bool
  | [], _, _ => pure false
  | a :: r, key, pk =>
    if a.kind != .eddsa then matchEddsaAlg r key pk else do
      let p ← eddsaWithoutPrefix pk a.algorithm
      if key.algorithm == a.algorithm && ((p.length * 8 : Nat) : Int) == a.bits then pure true
      else matchEddsaAlg r key pk

/-- The checks applied to a key identifier seen for the first time. -/
def checkNewKey (req : Request) (pol : RequestPolicy) (key : Key) : Res Unit := do
  if isAlgorithmRsa key.algorithm then
    let pub ← rsaDecode key.publicKey key.algorithm
    let m := matchRsaAlg req.zskPolicy.algorithms key pub false
    let m := if !m && !pol.rsaExponentMatchZskPolicy
             then matchRsaAlg req.zskPolicy.algorithms key pub true else m
    if !m then violation .bundleKeys
  else if isAlgorithmEcdsa key.algorithm then
    match Base64.decode key.publicKey with
    | none => unsupported
    | some pk => if !(← matchEcdsaAlg req.zskPolicy.algorithms key pk) then violation .bundleKeys
  else if isAlgorithmEddsa key.algorithm then
    match Base64.decode key.publicKey with
    | none => unsupported
    | some pk => if !(← matchEddsaAlg req.zskPolicy.algorithms key pk) then violation .bundleKeys
  else err .value
  if key.flags != 256 then violation .bundleKeys
  let tag ← calculateKeyTag key
  if (tag : Int) != key.keyTag then violation .bundleKeys

/-- The `seen` dictionary walk of `check_keys_match_zsk_policy` over all keys in visiting order. -/
def keysWalk (req : Request) (pol : RequestPolicy) : List Key → List Key → Res Unit
  | [], _ => pure ()
  | key :: rest, seen =>
    match seen.find? (fun k => k.keyIdentifier = key.keyIdentifier) with
    | some k => if key = k then keysWalk req pol rest seen else violation .bundleKeys
    | none => do
      checkNewKey req pol key
      keysWalk req pol rest (key :: seen)

def allKeys (req : Request) : List Key := (req.bundles.map (·.keys)).flatten

def checkKeysMatchZskPolicy (req : Request) (pol : RequestPolicy) : Res Unit :=
  if !pol.keysMatchZskPolicy then pure () else keysWalk req pol (allKeys req) []

def checkProofOfPossession (verify : Verifier) (req : Request) (pol : RequestPolicy) : Res Unit :=
  if !pol.validateSignatures then pure () else
  forEach req.bundles fun b => do
    match validateSignatures verify b with
    | .error (.error .invalidSignature) => violation .bundlePop
    | .error e => .error e
    | .ok () => pure ()
    forEach b.keys fun k =>
      if b.signatures.any (fun s => s.keyIdentifier = k.keyIdentifier) then pure ()
      else violation .bundlePop

def checkBundleCount (req : Request) (pol : RequestPolicy) : Res Unit :=
  if (req.bundles.length : Int) != pol.numBundles then violation .bundleCount else pure ()

def checkCycleDurations (req : Request) (pol : RequestPolicy) : Res Unit :=
  if !pol.checkCycleLength then pure () else
  match req.bundles.head?, req.bundles.getLast? with
  | some first, some last =>
    let len := last.inception - first.inception
    if len < pol.minCycleInceptionLength then violation .bundleCycleDuration
    else if len > pol.maxCycleInceptionLength then violation .bundleCycleDuration
    else pure ()
  | _, _ => pure ()

def verifyBundles (verify : Verifier) (req : Request) (pol : RequestPolicy) : Res Unit := do
  checkUniqueIds req
  checkKeysMatchZskPolicy req pol
  checkProofOfPossession verify req pol
  checkBundleCount req pol
  checkCycleDurations req pol

/-! ### verify_policy -/

def distinctIds : List Key → List String → List String
  | [], acc => acc
  | k :: r, acc => distinctIds r (if acc.contains k.keyIdentifier then acc else k.keyIdentifier :: acc)

/-- the per-slot loop of `check_keys_in_bundles` -/
def slotCountsOk : List Bundle → List Int → Bool
  | [], _ => true
  | b :: bs, n :: ns => ((b.keys.length : Int) == n) && slotCountsOk bs ns
  | _ :: _, [] => true      -- unreachable: lengths are compared first

def checkKeysInBundles (req : Request) (pol : RequestPolicy) : Res Unit :=
  if !pol.checkKeysMatchKskOperatorPolicy then pure () else
  if req.bundles.length != pol.numKeysPerBundle.length then violation .policyKeys
  else if !slotCountsOk req.bundles pol.numKeysPerBundle then violation .policyKeys
  else if ((distinctIds (allKeys req) []).length : Int) != pol.numDifferentKeysInAllBundles then
    violation .policyKeys
  else pure ()

def deprecatedAlgorithms : List Nat := [1, 3, 6, 12]
def supportedAlgorithms : List Nat := [8, 10, 13, 14, 15, 16]

def checkAlgBasic (pol : RequestPolicy) (a : AlgPolicy) : Res Unit :=
  if deprecatedAlgorithms.contains a.algorithm then violation .policyAlg
  else if !supportedAlgorithms.contains a.algorithm then violation .policyAlg
  else if isAlgorithmEcdsa a.algorithm && !pol.enableUnsupportedEcdsa then violation .policyAlg
  else if isAlgorithmEddsa a.algorithm && !pol.enableUnsupportedEdwardsDsa then violation .policyAlg
  else pure ()

def checkAlgRsaParams (pol : RequestPolicy) (a : AlgPolicy) : Res Unit :=
  if isAlgorithmRsa a.algorithm then
    if a.kind != .rsa then err .assertion
    else if !pol.rsaApprovedKeySizes.contains a.bits then violation .policyAlg
    else match a.exponent with
      | none => err .attribute
      | some e => if !pol.rsaApprovedExponents.contains e then violation .policyAlg else pure ()
  else pure ()

def checkZskPolicyAlgorithm (req : Request) (pol : RequestPolicy) : Res Unit := do
  forEach req.zskPolicy.algorithms (checkAlgBasic pol)
  if !pol.signatureAlgorithmsMatchZskPolicy then pure () else do
  if pol.approvedAlgorithms.any (·.isNone) then err .key
  forEach req.zskPolicy.algorithms fun a =>
    if pol.approvedAlgorithms.contains (some a.algorithm) then pure () else violation .policyAlg
  forEach req.zskPolicy.algorithms (checkAlgRsaParams pol)

def checkOverlapPair (zp : SigPolicy) (p : Bundle × Bundle) : Res Unit :=
  let previous := p.1
  let this := p.2
  if this.inception > previous.expiration then violation .policySigOverlap
  else
    let overlap := previous.expiration - this.inception
    if overlap < zp.minValidityOverlap then violation .policySigOverlap
    else if overlap > zp.maxValidityOverlap then violation .policySigOverlap
    else pure ()

def checkBundleOverlaps (req : Request) (pol : RequestPolicy) : Res Unit :=
  if !pol.checkBundleOverlap then pure () else
  forEach (adjacent req.bundles) (checkOverlapPair req.zskPolicy)

def checkValidityOne (zp : SigPolicy) (b : Bundle) : Res Unit :=
  let validity := b.expiration - b.inception
  if validity < zp.minSignatureValidity then violation .policySigValidity
  else if validity > zp.maxSignatureValidity then violation .policySigValidity
  else pure ()

def checkSignatureValidity (req : Request) (pol : RequestPolicy) : Res Unit :=
  if !pol.signatureValidityMatchZskPolicy then pure () else
  forEach req.bundles (checkValidityOne req.zskPolicy)

def checkHorizonOne (pol : RequestPolicy) (now : Int) (b : Bundle) : Res Unit :=
  let expireDays := tdDays (b.expiration - now)
  if pol.signatureHorizonDays != 0 && expireDays > pol.signatureHorizonDays then
    violation .policySigHorizon
  else if pol.signatureHorizonDays > 0 && expireDays < 0 then violation .policyBase
  else pure ()

def checkSignatureHorizon (now : Int) (req : Request) (pol : RequestPolicy) : Res Unit :=
  if !pol.signatureCheckExpireHorizon then pure () else
  forEach req.bundles (checkHorizonOne pol now)

def checkIntervalPair (pol : RequestPolicy) (p : Bundle × Bundle) : Res Unit :=
  let interval := p.2.inception - p.1.inception
  if interval < pol.minBundleInterval then violation .policyBundleInterval
  else if interval > pol.maxBundleInterval then violation .policyBundleInterval
  else pure ()

def checkBundleIntervals (req : Request) (pol : RequestPolicy) : Res Unit :=
  if !pol.checkBundleIntervals then pure () else
  forEach (adjacent req.bundles) (checkIntervalPair pol)

def verifyPolicy (now : Int) (req : Request) (pol : RequestPolicy) : Res Unit := do
  checkKeysInBundles req pol
  checkZskPolicyAlgorithm req pol
  checkBundleOverlaps req pol
  checkSignatureValidity req pol
  checkSignatureHorizon now req pol
  checkBundleIntervals req pol

/-- `validate_request(request, policy)` -/
def validateRequest (verify : Verifier) (now : Int) (req : Request) (pol : RequestPolicy) : Res Unit := do
  checkDomain req pol
  verifyBundles verify req pol
  verifyPolicy now req pol

end Kskm
