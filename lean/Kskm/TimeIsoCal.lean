/-
  Kskm.TimeIsoCal — `date.isocalendar()` (Lib/_pydatetime.py; C: `date_isocalendar`) on the civil calendar of
  `Kskm.Time`, the inverse of the week-date branch of `fromisoformat` (`isoToCivil`).  Used by the round-trip
  theorem of KskmProofs/C11.lean and compared with `datetime.date.isocalendar` by harness/corr_C11.py.
-/
import Kskm.Time
namespace Kskm

/-- day number of 1 January of year `y` -/
def jan1Of (y : Int) : Int := daysOfCivil { year := y, month := 1, day := 1 }

/-- `date.fromordinal(z + 719163).isocalendar()`: (ISO year, week 1 … 53, day 1 … 7) -/
def isoCalendar (z : Int) : Int × Int × Int :=
  let y := (civilOfDays z).year
  let r := isoCalendarRel (jan1Of (y - 1)) (jan1Of y) (jan1Of (y + 1)) z
  (y + r.1, r.2.1, r.2.2)

end Kskm
