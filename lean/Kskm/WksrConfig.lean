/-
  Kskm.WksrConfig — the rest of the KSR receiver (C20):

  * kskm/common/config_wksr.py: the WKSR configuration model (which keys are required, the defaults,
    `max_size > 0`, the whitelist entry format `HexDigestString`);
  * kskm/tools/wksr.py `main()`: which configuration value feeds which option of the TLS server
    (`ssl_cert_reqs`, `ssl_ciphers`, …);
  * kskm/wksr/peercert.py: the fingerprint text (`hexlify(sha256(DER)).decode()`: lower-case, no separators);
  * kskm/wksr/server.py: the `POST /upload` route behind the whitelist middleware, as a decision
    function over the outcomes of its parts, with its effect log (order of the gates).

  The defaults are PARAMETERS (`WksrDefaults`); the values of the current tree are regenerated into
  KskmGen.Tables and pinned in KskmProofs/C20.lean.  SHA-256, the certificate parser, the clock, `open`,
  the XML parser, the signature verifier and the SMTP hand-off are parameters.
-/
import Kskm.Wksr
import Kskm.Wordlist
namespace Kskm.Wksr

/-! ### `HexDigestString = Annotated[str, StringConstraints(pattern=r"^[0-9a-fA-F]+$")]` -/

/-- `[0-9a-fA-F]`: pydantic-core compiles the pattern with the Rust `regex` crate — ASCII classes,
    `$` matches at the very end only (a trailing newline is NOT tolerated, unlike Python's `re`). -/
def isHexChar (c : Char) : Bool :=
  ('0' ≤ c && c ≤ '9') || ('a' ≤ c && c ≤ 'f') || ('A' ≤ c && c ≤ 'F')

def isHexDigestString (s : String) : Bool := !s.toList.isEmpty && s.toList.all isHexChar

/-! ### the configuration document → configuration objects -/

/-- what a key of the YAML mapping holds, for keys whose value must name an existing FILE
    (`pydantic.FilePath`): absent, or present with the answer of `Path.is_file()` -/
inductive FileKey where
  | absent
  | present (isFile : Bool)
  deriving DecidableEq, Repr

/-- the `tls:` mapping with values already of the declared type (`none` = key absent) -/
structure TlsDoc where
  cert : FileKey
  key : FileKey
  caCert : FileKey
  ciphers : Option (List String)
  requireClientCert : Option Bool
  clientWhitelist : Option (List String)
  deriving Repr

structure TlsCfg where
  ciphers : List String
  requireClientCert : Bool
  clientWhitelist : List String
  deriving DecidableEq, Repr

/-- the `ksr:` mapping -/
structure KsrDoc where
  maxSize : Option Int
  contentType : Option String
  uploadPath : Option (List Nat)
  ksrsignerConfigfile : FileKey
  deriving Repr

structure KsrSection where
  maxSize : Int
  contentType : String
  uploadPath : List Nat
  hasSignerConfig : Bool
  deriving DecidableEq, Repr

/-- the defaults the pydantic models declare (current values: KskmGen.Tables, section `wksr_tables`) -/
structure WksrDefaults where
  ciphers : List String
  /-- `None` = the field has no default: the key is REQUIRED -/
  requireClientCert : Option Bool
  clientWhitelist : List String
  maxSize : Int
  /-- the exclusive lower bound `Field(gt=…)` of `max_size` -/
  maxSizeGt : Int
  contentType : String
  uploadPath : List Nat
  deriving Repr

def FileKey.ok : FileKey → Bool | .present true => true | _ => false

/-- `WKSR_TLS.model_validate`: three existing files, an explicit (or defaulted) `require_client_cert`,
    every whitelist entry a `HexDigestString`.  pydantic collects ALL errors into one
    `ValidationError`; only accept / refuse is modelled. -/
def loadTls (dflt : WksrDefaults) (d : TlsDoc) : Res TlsCfg :=
  if !(d.cert.ok && d.key.ok && d.caCert.ok) then err .validation
  else match d.requireClientCert.orElse (fun _ => dflt.requireClientCert) with
  | none => err .validation
  | some r =>
    let wl := d.clientWhitelist.getD dflt.clientWhitelist
    if !(match d.clientWhitelist with | none => true | some l => l.all isHexDigestString) then err .validation
    else pure { ciphers := d.ciphers.getD dflt.ciphers, requireClientCert := r, clientWhitelist := wl }

/-- `WKSR_KSR.model_validate`: `max_size > 0` (a given value only: defaults are not validated),
    `ksrsigner_configfile` an existing file when given -/
def loadKsrSection (dflt : WksrDefaults) (d : KsrDoc) : Res KsrSection :=
  if (match d.maxSize with | none => false | some m => !(m > dflt.maxSizeGt)) then err .validation
  else if d.ksrsignerConfigfile == .present false then err .validation
  else pure { maxSize := d.maxSize.getD dflt.maxSize,
              contentType := d.contentType.getD dflt.contentType,
              uploadPath := d.uploadPath.getD dflt.uploadPath,
              hasSignerConfig := d.ksrsignerConfigfile == .present true }

/-- the `KsrCfg` `save_ksr` works with -/
def KsrSection.toCfg (s : KsrSection) : KsrCfg :=
  { contentType := s.contentType, maxSize := s.maxSize, uploadPath := parsePath s.uploadPath }

/-! ### tools/wksr.py `main()`: configuration → TLS server options -/

/-- `ssl.VerifyMode` -/
inductive CertReqs where
  | certNone | certOptional | certRequired
  deriving DecidableEq, Repr

/-- `int(ssl.CERT_NONE) = 0`, `CERT_OPTIONAL = 1`, `CERT_REQUIRED = 2` -/
def CertReqs.toNat : CertReqs → Nat | .certNone => 0 | .certOptional => 1 | .certRequired => 2

/-- `ssl.CERT_REQUIRED if app.config.tls.require_client_cert else ssl.CERT_OPTIONAL` -/
def certReqsOf (requireClientCert : Bool) : CertReqs :=
  if requireClientCert then .certRequired else .certOptional

/-- `":".join(xs)` -/
def joinColon : List String → String
  | [] => ""
  | [x] => x
  | x :: r => x ++ ":" ++ joinColon r

structure ServerArgs where
  host : String
  port : Int
  logLevel : String
  sslCiphers : String
  sslCertReqs : CertReqs
  deriving DecidableEq, Repr

/-- the keyword arguments of `uvicorn.run` that do not merely copy a path -/
def serverArgs (tls : TlsCfg) (hostname : String) (port : Int) (debug : Bool) : ServerArgs :=
  { host := hostname, port := port, logLevel := if debug then "debug" else "info",
    sslCiphers := joinColon tls.ciphers, sslCertReqs := certReqsOf tls.requireClientCert }

/-! ### peercert.py: the fingerprint text -/

/-- `hexlify(peercert.fingerprint(hashes.SHA256())).decode()`; the certificate's fingerprint is the
    SHA-256 of its DER encoding (`sha256` is the parameter) -/
def fingerprintHex (sha256 : Bytes → Bytes) (der : Bytes) : String := String.ofList (hexlify (sha256 der))

/-! ### `POST /upload` behind the middleware -/

/-- `notify()` goes on to render and send only with a `notify:` section whose `smtp_server` is not empty
    (`smtp = none`: no `notify:` section) -/
def notifyActive (smtp : Option String) : Bool :=
  match smtp with
  | none => false
  | some s => !s.isEmpty

inductive RouteEffect where
  /-- an effect of `save_ksr` -/
  | save (e : WEffect)
  /-- `validate_ksr(request.app, filename)` -/
  | validate (p : WPath)
  /-- `notify`: the e-mail template rendered and `smtplib.SMTP(...).send_message` called -/
  | mail
  /-- `TemplateResponse(name=templates.result, context=env)` -/
  | respond
  deriving DecidableEq, Repr

inductive RouteOut where
  /-- `HTTPException(status_code)` -/
  | http (code : Nat)
  /-- any other exception leaves the route (the framework answers 500) -/
  | exception (f : Fail)
  /-- `open()` failed in `save_ksr` -/
  | osError
  /-- the result page: `result["status"]`, `filename`, `filehash`, `client_digest` of the context -/
  | page (status : KsrStatus) (filename : WPath) (filehash : String) (clientDigest : Option String)
  deriving DecidableEq, Repr

/-- `upload_post(request, ksr)`: save, then validate THE SAVED FILE, then build the context (which asks
    for the peer certificate again), then `notify`, then the result page.  `validate` is
    `validate_ksr` on a path; `peerDigest` the outcome of `request_peercert_digest`; `mailOk` whether
    template rendering + SMTP went through. -/
def uploadPost (cfg : KsrCfg) (hashHex : Bytes → String) (suffix : List Nat) (openOk : Bool)
    (validate : WPath → Res KsrStatus) (peerDigest : Res (Option String)) (smtp : Option String)
    (mailOk : Bool) (u : Upload) : RouteOut × List RouteEffect :=
  match saveKsr cfg hashHex suffix openOk u with
  | (.error (.http c), effs) => (.http c, effs.map .save)
  | (.error .osError, effs) => (.osError, effs.map .save)
  | (.ok (p, h), effs) =>
    let e1 := effs.map RouteEffect.save ++ [.validate p]
    match validate p with
    | .error f => (.exception f, e1)
    | .ok st =>
      match peerDigest with
      | .error f => (.exception f, e1)
      | .ok dg =>
        if notifyActive smtp then
          if mailOk then (.page st p h dg, e1 ++ [.mail, .respond])
          else (.exception (.error .other), e1 ++ [.mail])
        else (.page st p h dg, e1 ++ [.respond])

/-- one `POST /upload` request: `ClientCertificateWhitelist.dispatch` first, the route only through
    `call_next` -/
def handleUpload (parseOk truthy : Bytes → Bool) (fingerprint : Bytes → String) (whitelist : List String)
    (peer : Peer) (cfg : KsrCfg) (hashHex : Bytes → String) (suffix : List Nat) (openOk : Bool)
    (validate : WPath → Res KsrStatus) (smtp : Option String) (mailOk : Bool) (u : Upload) :
    RouteOut × List RouteEffect :=
  match dispatch parseOk truthy fingerprint whitelist peer with
  | .error f => (.exception f, [])
  | .ok (.http c) => (.http c, [])
  | .ok .callNext =>
    uploadPost cfg hashHex suffix openOk validate (requestPeercertDigest parseOk truthy fingerprint peer)
      smtp mailOk u

def RouteEffect.touchesDisk : RouteEffect → Bool | .save e => e.touchesDisk | _ => false

end Kskm.Wksr
