-- Property theorems, one file per property (helper lemmas under KskmProofs/Lemmas).
import KskmProofs.C05
import KskmProofs.C14
import KskmProofs.C01
import KskmProofs.C02
import KskmProofs.C04
import KskmProofs.C15
import KskmProofs.C08
import KskmProofs.C09
import KskmProofs.C13
import KskmProofs.C03
import KskmProofs.C06
import KskmProofs.C07
import KskmProofs.C10
import KskmProofs.C17
import KskmProofs.C20
