-- Property theorems, one file per property (helper lemmas under KskmProofs/Lemmas).
import KskmProofs.C05
import KskmProofs.C14
