-- Root of the executable model (no Mathlib anywhere below this line).
import Kskm.Basic
