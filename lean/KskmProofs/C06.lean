/-
  C06 — KSR key, algorithm and header rules accept exactly the documented region.

  The clauses below are written from the property text:

    "its domain is in the acceptable list; every declared signature algorithm is neither deprecated
     nor unsupported (ECDSA and EdDSA only when explicitly enabled) and is on the approved list, with
     RSA sizes and exponents from the approved lists; bundle ids are unique; each slot holds the
     configured number of keys and the whole request the configured number of distinct keys; and
     every key has flags 256, a correctly computed key tag, parameters (algorithm, size, and exponent
     unless waived) matching one declared algorithm, and a key identifier that denotes the same key
     everywhere it appears."

  Each theorem says that one rule of the model (which mirrors /repo's loops, dictionaries and
  comparison operators) accepts exactly its clause, for every request and every policy; the composite
  is the plain conjunction of the enabled rules (a switched-off rule never rejects, never masks).
  The algorithm tables used are the ones regenerated from /repo on every run (`KskmGen.Tables`).
-/
import Kskm.KsrPolicy
import KskmGen.Tables
import KskmProofs.Lemmas.Res
import KskmProofs.Lemmas.C06
import KskmProofs.C05
import KskmProofs.C14
set_option linter.unusedSimpArgs false
set_option linter.unusedVariables false
namespace Kskm.C06
open Kskm.C06L

/-! ## KSR-DOMAIN -/

/-- the request's domain is in the acceptable list -/
def DomainClause (req : Request) (pol : RequestPolicy) : Prop := req.domain ∈ pol.acceptableDomains

theorem domain_iff (req : Request) (pol : RequestPolicy) :
    checkDomain req pol = .ok () ↔ DomainClause req pol := by
  unfold checkDomain DomainClause
  rw [ite_ok_viol_iff, List.contains_iff_mem]

/-! ## KSR-BUNDLE-UNIQUE -/

/-- bundle ids are unique (no id occurs at two positions) -/
def UniqueIdsClause (req : Request) : Prop := (req.bundles.map (·.id)).Nodup

theorem uniqueIds_iff (req : Request) : checkUniqueIds req = .ok () ↔ UniqueIdsClause req := by
  unfold checkUniqueIds UniqueIdsClause
  rw [ite_viol_ok_iff, ← hasDupBundleIds_eq_false_iff]
  simp

/-- the same clause, position by position -/
theorem uniqueIds_iff_positions (req : Request) :
    checkUniqueIds req = .ok () ↔
      ∀ (i j : Nat) (a b : Bundle), i < j → req.bundles[i]? = some a → req.bundles[j]? = some b →
        a.id ≠ b.id := by
  rw [uniqueIds_iff]
  unfold UniqueIdsClause List.Nodup
  rw [List.pairwise_map, List.pairwise_iff_getElem]
  constructor
  · intro h i j a b hij ha hb
    obtain ⟨hi, rfl⟩ := List.getElem?_eq_some_iff.mp ha
    obtain ⟨hj, rfl⟩ := List.getElem?_eq_some_iff.mp hb
    exact h i j hi hj hij
  · intro h i j hi hj hij
    exact h i j _ _ hij (List.getElem?_eq_getElem hi) (List.getElem?_eq_getElem hj)

/-! ## KSR-POLICY-KEYS -/

/-- number of distinct key identifiers over the whole request -/
def distinctKeyCount (req : Request) : Nat := ((allKeys req).map (·.keyIdentifier)).eraseDups.length

/-- `eraseDups` really is "the distinct identifiers": duplicate-free, same members. -/
theorem distinctKeyCount_spec (req : Request) :
    ∃ d : List String, d.Nodup ∧ (∀ x, x ∈ d ↔ ∃ k ∈ allKeys req, k.keyIdentifier = x) ∧
      d.length = distinctKeyCount req :=
  ⟨_, nodup_eraseDups _, fun x => by rw [List.mem_eraseDups]; simp, rfl⟩

/-- any duplicate-free enumeration of the identifiers has that length -/
theorem distinctKeyCount_unique (req : Request) (d : List String) (hd : d.Nodup)
    (hm : ∀ x, x ∈ d ↔ ∃ k ∈ allKeys req, k.keyIdentifier = x) : d.length = distinctKeyCount req := by
  apply List.Perm.length_eq
  rw [List.perm_ext_iff_of_nodup hd (nodup_eraseDups _)]
  intro x; rw [hm, List.mem_eraseDups]; simp

/-- each slot holds the configured number of keys, the whole request the configured number of
    distinct keys -/
def KeyCountsClause (req : Request) (pol : RequestPolicy) : Prop :=
  req.bundles.length = pol.numKeysPerBundle.length ∧
  (∀ (i : Nat) (b : Bundle) (n : Int), req.bundles[i]? = some b → pol.numKeysPerBundle[i]? = some n →
    (b.keys.length : Int) = n) ∧
  (distinctKeyCount req : Int) = pol.numDifferentKeysInAllBundles

theorem keysInBundles_iff (req : Request) (pol : RequestPolicy) :
    checkKeysInBundles req pol = .ok () ↔
      (pol.checkKeysMatchKskOperatorPolicy = true → KeyCountsClause req pol) := by
  unfold checkKeysInBundles KeyCountsClause distinctKeyCount
  cases hf : pol.checkKeysMatchKskOperatorPolicy
  · simp
  · simp only [Bool.not_true, Bool.false_eq_true, ↓reduceIte, forall_const, distinctIds_length]
    by_cases hl : req.bundles.length = pol.numKeysPerBundle.length
    · simp only [hl, bne_self_eq_false, Bool.false_eq_true, ↓reduceIte, true_and,
        ← slotCountsOk_iff req.bundles pol.numKeysPerBundle hl]
      by_cases hs : slotCountsOk req.bundles pol.numKeysPerBundle = true
      · simp only [hs, Bool.not_true, Bool.false_eq_true, ↓reduceIte, true_and]
        rw [ite_viol_ok_iff]; simp
      · simp [hs]
    · have : (req.bundles.length != pol.numKeysPerBundle.length) = true := by simpa using hl
      simp [this, hl]

/-! ## KSR-POLICY-ALG -/

/-- the model's lists are the ones /repo has now -/
theorem tables_agree :
    deprecatedAlgorithms = KskmGen.deprecatedAlgorithms ∧
    supportedAlgorithms = KskmGen.supportedAlgorithms := by decide

theorem isRsa_iff_table (n : Nat) : isAlgorithmRsa n = true ↔ n ∈ KskmGen.rsaAlgorithms := by
  simp [isAlgorithmRsa, KskmGen.rsaAlgorithms, algRSASHA1, algRSASHA256, algRSASHA512, or_assoc]
theorem isEcdsa_iff_table (n : Nat) : isAlgorithmEcdsa n = true ↔ n ∈ KskmGen.ecdsaAlgorithms := by
  simp [isAlgorithmEcdsa, KskmGen.ecdsaAlgorithms, algECDSAP256, algECDSAP384]
theorem isEddsa_iff_table (n : Nat) : isAlgorithmEddsa n = true ↔ n ∈ KskmGen.eddsaAlgorithms := by
  simp [isAlgorithmEddsa, KskmGen.eddsaAlgorithms, algED25519, algED448]

/-- neither deprecated nor unsupported; ECDSA / EdDSA only when explicitly enabled -/
def AlgAllowed (pol : RequestPolicy) (n : Nat) : Prop :=
  n ∉ KskmGen.deprecatedAlgorithms ∧ n ∈ KskmGen.supportedAlgorithms ∧
  (n ∈ KskmGen.ecdsaAlgorithms → pol.enableUnsupportedEcdsa = true) ∧
  (n ∈ KskmGen.eddsaAlgorithms → pol.enableUnsupportedEdwardsDsa = true)

/-- on the approved list, RSA sizes and exponents from the approved lists (an RSA algorithm number
    must therefore come with RSA parameters) -/
def AlgApproved (pol : RequestPolicy) (a : AlgPolicy) : Prop :=
  some a.algorithm ∈ pol.approvedAlgorithms ∧
  (a.algorithm ∈ KskmGen.rsaAlgorithms →
    a.kind = .rsa ∧ a.bits ∈ pol.rsaApprovedKeySizes ∧
    ∃ e, a.exponent = some e ∧ e ∈ pol.rsaApprovedExponents)

/-- The algorithm clause.  The first half is *not* guarded by any flag (as in /repo); the second is
    guarded by `signature_algorithms_match_zsk_policy` and presupposes that every configured
    approved-algorithm name is a known algorithm (`none` stands for an unknown name, on which /repo
    raises `KeyError`). -/
def AlgorithmClause (req : Request) (pol : RequestPolicy) : Prop :=
  (∀ a ∈ req.zskPolicy.algorithms, AlgAllowed pol a.algorithm) ∧
  (pol.signatureAlgorithmsMatchZskPolicy = true →
    (∀ x ∈ pol.approvedAlgorithms, x ≠ none) ∧
    ∀ a ∈ req.zskPolicy.algorithms, AlgApproved pol a)

theorem algBasic_iff (pol : RequestPolicy) (a : AlgPolicy) :
    checkAlgBasic pol a = .ok () ↔ AlgAllowed pol a.algorithm := by
  unfold checkAlgBasic AlgAllowed
  rw [← tables_agree.1, ← tables_agree.2, ← isEcdsa_iff_table, ← isEddsa_iff_table]
  by_cases h1 : deprecatedAlgorithms.contains a.algorithm = true
  · simp [h1, List.contains_iff_mem.mp h1]
  · have h1' : a.algorithm ∉ deprecatedAlgorithms := fun h => h1 (List.contains_iff_mem.mpr h)
    by_cases h2 : supportedAlgorithms.contains a.algorithm = true
    · have h2' : a.algorithm ∈ supportedAlgorithms := List.contains_iff_mem.mp h2
      by_cases h3 : isAlgorithmEcdsa a.algorithm = true
      · cases h4 : pol.enableUnsupportedEcdsa
        · simp [h1, h2, h3, h4]
        · by_cases h5 : isAlgorithmEddsa a.algorithm = true
          · cases h6 : pol.enableUnsupportedEdwardsDsa <;> simp [h1, h1', h2, h2', h3, h4, h5, h6]
          · simp [h1, h1', h2, h2', h3, h4, h5]
      · by_cases h5 : isAlgorithmEddsa a.algorithm = true
        · cases h6 : pol.enableUnsupportedEdwardsDsa <;> simp [h1, h1', h2, h2', h3, h5, h6]
        · simp [h1, h1', h2, h2', h3, h5]
    · have h2' : a.algorithm ∉ supportedAlgorithms := fun h => h2 (List.contains_iff_mem.mpr h)
      simp [h1, h2, h2']

theorem algRsaParams_iff (pol : RequestPolicy) (a : AlgPolicy) :
    checkAlgRsaParams pol a = .ok () ↔
      (a.algorithm ∈ KskmGen.rsaAlgorithms →
        a.kind = .rsa ∧ a.bits ∈ pol.rsaApprovedKeySizes ∧
        ∃ e, a.exponent = some e ∧ e ∈ pol.rsaApprovedExponents) := by
  unfold checkAlgRsaParams
  rw [← isRsa_iff_table]
  by_cases h : isAlgorithmRsa a.algorithm = true
  · simp only [h, ↓reduceIte, forall_const]
    by_cases hk : a.kind = .rsa
    · by_cases hb : a.bits ∈ pol.rsaApprovedKeySizes
      · cases he : a.exponent with
        | none => simp [hk, hb]
        | some e =>
          by_cases hc : e ∈ pol.rsaApprovedExponents
          · simp [hk, hb, hc]
          · simp [hk, hb, hc]
      · simp [hk, hb]
    · have : (a.kind != .rsa) = true := by simpa using hk
      simp [this, hk]
  · simp [h]

/-- **KSR-POLICY-ALG accepts exactly the algorithm clause.** -/
theorem zskPolicyAlgorithm_iff (req : Request) (pol : RequestPolicy) :
    checkZskPolicyAlgorithm req pol = .ok () ↔ AlgorithmClause req pol := by
  unfold checkZskPolicyAlgorithm AlgorithmClause AlgApproved
  simp only [seq_ok_iff, forEach_ok_iff, algBasic_iff]
  apply and_congr_right; intro _
  cases hf : pol.signatureAlgorithmsMatchZskPolicy
  · simp
  · simp only [Bool.not_true, Bool.false_eq_true, ↓reduceIte, forall_const]
    by_cases h : pol.approvedAlgorithms.any (·.isNone) = true
    · simp only [h, ↓reduceIte]
      obtain ⟨x, hx, hn⟩ := List.any_eq_true.mp h
      have hnot : ¬ ∀ x ∈ pol.approvedAlgorithms, x ≠ none := fun hall => hall x hx (by simpa using hn)
      simp [err, bind, Except.bind, hnot]
    · have hall : ∀ x ∈ pol.approvedAlgorithms, x ≠ none := by
        intro x hx hn
        exact h (List.any_eq_true.mpr ⟨x, hx, by simp [hn]⟩)
      simp only [h, Bool.false_eq_true, ↓reduceIte, seq_ok_iff, forEach_ok_iff, algRsaParams_iff,
        ite_ok_viol_iff, List.contains_iff_mem]
      constructor
      · rintro ⟨h1, h2⟩; exact ⟨hall, fun a ha => ⟨h1 a ha, h2 a ha⟩⟩
      · rintro ⟨_, h⟩; exact ⟨fun a ha => (h a ha).1, fun a ha => (h a ha).2⟩

/-- allowed algorithm numbers as a Boolean function of the regenerated tables -/
def allowedB (ecdsa eddsa : Bool) (n : Nat) : Bool :=
  !KskmGen.deprecatedAlgorithms.contains n && KskmGen.supportedAlgorithms.contains n &&
  (!KskmGen.ecdsaAlgorithms.contains n || ecdsa) && (!KskmGen.eddsaAlgorithms.contains n || eddsa)

theorem algAllowed_iff_allowedB (pol : RequestPolicy) (n : Nat) :
    AlgAllowed pol n ↔ allowedB pol.enableUnsupportedEcdsa pol.enableUnsupportedEdwardsDsa n = true := by
  unfold AlgAllowed allowedB
  simp only [Bool.and_eq_true, Bool.not_eq_true', Bool.or_eq_true, List.contains_iff_mem,
    ← Bool.not_eq_true, and_assoc]
  constructor
  · rintro ⟨h1, h2, h3, h4⟩
    exact ⟨h1, h2, Decidable.or_iff_not_imp_left.mpr (fun h => h3 (Decidable.not_not.mp h)),
      Decidable.or_iff_not_imp_left.mpr (fun h => h4 (Decidable.not_not.mp h))⟩
  · rintro ⟨h1, h2, h3, h4⟩
    exact ⟨h1, h2, fun h => h3.resolve_left (fun hn => hn h), fun h => h4.resolve_left (fun hn => hn h)⟩

/-- **The accepted algorithm numbers**, by complete tabulation over every octet value against the
    tables regenerated from /repo: RSA-SHA-256 and RSA-SHA-512 always; ECDSA P-256/P-384 only when
    ECDSA is enabled; Ed25519/Ed448 only when EdDSA is enabled; nothing else (in particular none of
    RSA-MD5, DSA, RSA-SHA-1 in either form, ECC-GOST). -/
theorem allowed_numbers : ∀ n < 256, ∀ ecdsa eddsa : Bool,
    allowedB ecdsa eddsa n =
      (n == 8 || n == 10 || ((n == 13 || n == 14) && ecdsa) || ((n == 15 || n == 16) && eddsa)) := by
  decide +kernel

/-! ## KSR-BUNDLE-KEYS -/

/-- RFC 4034 §2.1 RDATA of a zone key: flags 256 = `0x01 0x00`, protocol, algorithm, public key -/
def zoneKeyRdata (protocol algorithm : Nat) (pk : Bytes) : Bytes :=
  1 :: 0 :: UInt8.ofNat protocol :: UInt8.ofNat algorithm :: pk

/-- the stated key tag is the RFC 4034 App. B tag of the key's RDATA (fields within wire range) -/
def TagCorrect (k : Key) (pk : Bytes) : Prop :=
  0 ≤ k.protocol ∧ k.protocol < 256 ∧ k.algorithm < 256 ∧
  k.keyTag = ((C14.rfc4034KeyTag (zoneKeyRdata k.protocol.toNat k.algorithm pk) : Nat) : Int)

/-- flags 256 and a correctly computed key tag -/
def FlagsTagClause (k : Key) : Prop :=
  k.flags = 256 ∧ ∃ pk, Base64.decode k.publicKey = some pk ∧ TagCorrect k pk

theorem keyFlagsTag_iff (k : Key) : keyFlagsTagCheck k = .ok () ↔ FlagsTagClause k := by
  unfold keyFlagsTagCheck FlagsTagClause TagCorrect
  by_cases hfl : k.flags = 256
  · have hne : (k.flags != 256) = false := by simp [hfl]
    simp only [hne, Bool.false_eq_true, ↓reduceIte, hfl, true_and, pure, Except.pure, bind, Except.bind]
    unfold calculateKeyTag keyToRdata
    have h16 : inRange 16 k.flags = true := by rw [hfl]; decide
    simp only [h16, Bool.true_and]
    by_cases hr : (inRange 8 k.protocol && decide (k.algorithm < 256)) = true
    · have hr' := hr
      simp only [inRange, Bool.and_eq_true, decide_eq_true_eq] at hr'
      obtain ⟨⟨hp0, hp1⟩, ha⟩ := hr'
      simp only [hr, Bool.not_true, Bool.false_eq_true, ↓reduceIte]
      cases hd : Base64.decode k.publicKey with
      | none => simp [unsupported, bind, Except.bind]
      | some pk =>
        have hrd : rdataOf k.flags.toNat k.protocol.toNat k.algorithm pk
            = zoneKeyRdata k.protocol.toNat k.algorithm pk := by
          rw [hfl]; rfl
        simp only [bind, Except.bind, pure, Except.pure, hrd, C14.keyTag_eq_rfc4034,
          Option.some.injEq, exists_eq_left']
        have hp1' : k.protocol < 256 := by omega
        by_cases ht : ((C14.rfc4034KeyTag (zoneKeyRdata k.protocol.toNat k.algorithm pk) : Nat) : Int)
            = k.keyTag
        · simp [ht, hp0, hp1', ha, violation]
        · have : ¬ k.keyTag = ((C14.rfc4034KeyTag (zoneKeyRdata k.protocol.toNat k.algorithm pk) : Nat) : Int) :=
            fun h => ht h.symm
          simp [ht, this, violation]
    · simp only [hr, Bool.not_false, ↓reduceIte]
      constructor
      · intro h; simp [err, bind, Except.bind] at h
      · rintro ⟨pk, _, hp0, hp1, ha, _⟩
        exfalso; apply hr
        simp only [inRange, Bool.and_eq_true, decide_eq_true_eq]
        omega
  · have hne : (k.flags != 256) = true := by simpa using hfl
    simp [hne, hfl, violation, bind, Except.bind]

/-- RSA (RFC 3110): the decoded key's algorithm, modulus size and — unless waived — exponent match
    one declared RSA algorithm.  `rsaDecodeBytes` is the RFC 3110 reader characterised in C14
    (`rsa_decode_encode`). -/
def RsaParamsClause (req : Request) (pol : RequestPolicy) (k : Key) : Prop :=
  ∃ pk pub, Base64.decode k.publicKey = some pk ∧ rsaDecodeBytes pk = .ok pub ∧
    ∃ a ∈ req.zskPolicy.algorithms, a.kind = .rsa ∧ a.algorithm = k.algorithm ∧
      a.bits = (pub.bits : Int) ∧
      (a.exponent = some (pub.exponent : Int) ∨ pol.rsaExponentMatchZskPolicy = false)

/-- ECDSA (RFC 6605): algorithm and point size — after removal of at most one SEC 1 `0x04` octet,
    see C14 `ecdsa_strip_prefix` — match one declared ECDSA algorithm. -/
def EcdsaParamsClause (req : Request) (k : Key) : Prop :=
  ∃ pk, Base64.decode k.publicKey = some pk ∧
    ∃ a ∈ req.zskPolicy.algorithms, a.kind = .ecdsa ∧ a.algorithm = k.algorithm ∧
      ∃ p, ecdsaWithoutPrefix pk a.algorithm = .ok p ∧ (getEcdsaPubkeySize p : Int) = a.bits

/-- EdDSA (RFC 8080): algorithm and key size match one declared EdDSA algorithm. -/
def EddsaParamsClause (req : Request) (k : Key) : Prop :=
  ∃ pk, Base64.decode k.publicKey = some pk ∧
    ∃ a ∈ req.zskPolicy.algorithms, a.kind = .eddsa ∧ a.algorithm = k.algorithm ∧
      ∃ p, eddsaWithoutPrefix pk a.algorithm = .ok p ∧ ((p.length * 8 : Nat) : Int) = a.bits

/-- **RSA keys: parameters match a declared algorithm, exponent waived only when
    `rsa_exponent_match_zsk_policy` is off** — for every key text, every declared set. -/
theorem keyParams_rsa_iff (req : Request) (pol : RequestPolicy) (k : Key)
    (hal : isAlgorithmRsa k.algorithm = true) :
    keyParamsCheck req pol k = .ok () ↔ RsaParamsClause req pol k := by
  unfold RsaParamsClause
  cases hd : Base64.decode k.publicKey with
  | none => simp [keyParamsCheck, rsaDecode, hal, hd, unsupported, bind, Except.bind]
  | some pk =>
    cases hp : rsaDecodeBytes pk with
    | error e => simp [keyParamsCheck, rsaDecode, hal, hd, hp, bind, Except.bind]
    | ok pub =>
      simp only [Option.some.injEq]
      have m1 := matchRsaAlg_iff req.zskPolicy.algorithms k pub false
      have m2 := matchRsaAlg_iff req.zskPolicy.algorithms k pub true
      simp only [Bool.false_eq_true, or_false, or_true, and_true] at m1 m2
      have hval : keyParamsCheck req pol k =
          if (matchRsaAlg req.zskPolicy.algorithms k pub false
              || (!pol.rsaExponentMatchZskPolicy && matchRsaAlg req.zskPolicy.algorithms k pub true)) = true
          then pure () else violation .bundleKeys := by
        cases h1 : matchRsaAlg req.zskPolicy.algorithms k pub false <;>
        cases h2 : pol.rsaExponentMatchZskPolicy <;>
        cases h3 : matchRsaAlg req.zskPolicy.algorithms k pub true <;>
        simp [keyParamsCheck, rsaDecode, hal, hd, hp, h1, h2, h3, bind, Except.bind, pure, Except.pure]
      rw [hval, ite_ok_viol_iff]
      simp only [Bool.or_eq_true, Bool.and_eq_true, Bool.not_eq_true', m1, m2]
      constructor
      · rintro (⟨a, ha, hk, hn, hb, he⟩ | ⟨hw, a, ha, hk, hn, hb⟩)
        · exact ⟨pk, pub, rfl, hp, a, ha, hk, hn, hb, Or.inl he⟩
        · exact ⟨pk, pub, rfl, hp, a, ha, hk, hn, hb, Or.inr hw⟩
      · rintro ⟨pk', pub', hpk, hp', a, ha, hk, hn, hb, hx⟩
        subst hpk
        rw [hp] at hp'
        simp only [Except.ok.injEq] at hp'
        subst hp'
        rcases hx with he | hw
        · exact Or.inl ⟨a, ha, hk, hn, hb, he⟩
        · exact Or.inr ⟨hw, a, ha, hk, hn, hb⟩

/-- every declared ECDSA / EdDSA entry carries an algorithm number of its own family -/
def DeclaredWellFormed (req : Request) : Prop :=
  ∀ a ∈ req.zskPolicy.algorithms,
    (a.kind = .ecdsa → a.algorithm ∈ KskmGen.ecdsaAlgorithms) ∧
    (a.kind = .eddsa → a.algorithm ∈ KskmGen.eddsaAlgorithms)

/-
  Full statement (FALSE of model and code alike without `DeclaredWellFormed`):
      keyParamsCheck req pol k = .ok () ↔ EcdsaParamsClause req k        for every ECDSA key.
  /repo strips the SEC 1 prefix relative to each declared *entry's* algorithm while it searches; an
  entry such as `<SignatureAlgorithm algorithm="15"><ECDSA size="256"/>` makes that raise `ValueError`
  if the set iteration reaches it before the matching entry.  `ecdsa_declared_order_witness` below
  proves the order dependence on a concrete input; the correspondence run replays it on /repo.
-/

/-- ECDSA keys, for self-consistent declared policies. -/
theorem keyParams_ecdsa_iff_partial (req : Request) (pol : RequestPolicy) (k : Key)
    (hal : isAlgorithmEcdsa k.algorithm = true) (hwf : DeclaredWellFormed req) :
    keyParamsCheck req pol k = .ok () ↔ EcdsaParamsClause req k := by
  have hr : isAlgorithmRsa k.algorithm = false := by
    simp only [isAlgorithmEcdsa, algECDSAP256, algECDSAP384, Bool.or_eq_true, beq_iff_eq] at hal
    rcases hal with h | h <;> rw [h] <;> decide
  unfold keyParamsCheck EcdsaParamsClause
  simp only [hr, Bool.false_eq_true, ↓reduceIte, hal]
  cases hd : Base64.decode k.publicKey with
  | none => simp [unsupported]
  | some pk =>
    simp only [Option.some.injEq, exists_eq_left']
    have hwf' : ∀ a ∈ req.zskPolicy.algorithms, a.kind = .ecdsa → isAlgorithmEcdsa a.algorithm = true :=
      fun a ha hk => (isEcdsa_iff_table _).mpr ((hwf a ha).1 hk)
    by_cases hpk : pk = []
    · subst hpk
      constructor
      · intro h
        exfalso
        cases hm : matchEcdsaAlg req.zskPolicy.algorithms k [] with
        | error e => simp [hm, bind, Except.bind] at h
        | ok m =>
          cases m with
          | true => exact matchEcdsaAlg_nil_ne_true k _ hm
          | false => simp [hm, bind, Except.bind] at h
      · rintro ⟨a, _, _, _, p, hp, _⟩
        exact absurd hp (ecdsaWithoutPrefix_nil _ p)
    · rw [← matchEcdsaAlg_true_iff k pk hpk _ hwf']
      cases hm : matchEcdsaAlg req.zskPolicy.algorithms k pk with
      | error e => simp [bind, Except.bind]
      | ok m => cases m <;> simp [bind, Except.bind]

/-- EdDSA keys, for self-consistent declared policies. -/
theorem keyParams_eddsa_iff_partial (req : Request) (pol : RequestPolicy) (k : Key)
    (hal : isAlgorithmEddsa k.algorithm = true) (hwf : DeclaredWellFormed req) :
    keyParamsCheck req pol k = .ok () ↔ EddsaParamsClause req k := by
  have hr : isAlgorithmRsa k.algorithm = false ∧ isAlgorithmEcdsa k.algorithm = false := by
    simp only [isAlgorithmEddsa, algED25519, algED448, Bool.or_eq_true, beq_iff_eq] at hal
    rcases hal with h | h <;> rw [h] <;> decide
  unfold keyParamsCheck EddsaParamsClause
  simp only [hr.1, hr.2, Bool.false_eq_true, ↓reduceIte, hal]
  cases hd : Base64.decode k.publicKey with
  | none => simp [unsupported]
  | some pk =>
    simp only [Option.some.injEq, exists_eq_left']
    have hwf' : ∀ a ∈ req.zskPolicy.algorithms, a.kind = .eddsa → isAlgorithmEddsa a.algorithm = true :=
      fun a ha hk => (isEddsa_iff_table _).mpr ((hwf a ha).2 hk)
    by_cases hpk : pk = []
    · subst hpk
      constructor
      · intro h
        exfalso
        cases hm : matchEddsaAlg req.zskPolicy.algorithms k [] with
        | error e => simp [hm, bind, Except.bind] at h
        | ok m =>
          cases m with
          | true => exact matchEddsaAlg_nil_ne_true k _ hm
          | false => simp [hm, bind, Except.bind] at h
      · rintro ⟨a, _, _, _, p, hp, _⟩
        exact absurd hp (eddsaWithoutPrefix_nil _ p)
    · rw [← matchEddsaAlg_true_iff k pk hpk _ hwf']
      cases hm : matchEddsaAlg req.zskPolicy.algorithms k pk with
      | error e => simp [bind, Except.bind]
      | ok m => cases m <;> simp [bind, Except.bind]

/-- a key of any other algorithm family is never accepted -/
theorem keyParams_other_rejects (req : Request) (pol : RequestPolicy) (k : Key)
    (h1 : isAlgorithmRsa k.algorithm = false) (h2 : isAlgorithmEcdsa k.algorithm = false)
    (h3 : isAlgorithmEddsa k.algorithm = false) : keyParamsCheck req pol k = err .value := by
  simp [keyParamsCheck, h1, h2, h3]

/-- The per-key clause of the property: flags 256, correct tag, parameters matching one declared
    algorithm of the key's own family. -/
def KeyClause (req : Request) (pol : RequestPolicy) (k : Key) : Prop :=
  FlagsTagClause k ∧
  ((k.algorithm ∈ KskmGen.rsaAlgorithms ∧ RsaParamsClause req pol k) ∨
   (k.algorithm ∈ KskmGen.ecdsaAlgorithms ∧ EcdsaParamsClause req k) ∨
   (k.algorithm ∈ KskmGen.eddsaAlgorithms ∧ EddsaParamsClause req k))

/-- **New-key checks, RSA keys: exactly the per-key clause** (no hypothesis on the declared set). -/
theorem checkNewKey_rsa_iff (req : Request) (pol : RequestPolicy) (k : Key)
    (hal : k.algorithm ∈ KskmGen.rsaAlgorithms) :
    checkNewKey req pol k = .ok () ↔ FlagsTagClause k ∧ RsaParamsClause req pol k := by
  rw [checkNewKey_eq, seq_ok_iff, keyParams_rsa_iff req pol k ((isRsa_iff_table _).mpr hal),
    keyFlagsTag_iff, and_comm]

/-- **New-key checks, every key family**, for self-consistent declared policies. -/
theorem checkNewKey_iff_partial (req : Request) (pol : RequestPolicy) (k : Key)
    (hwf : DeclaredWellFormed req) :
    checkNewKey req pol k = .ok () ↔ KeyClause req pol k := by
  rw [checkNewKey_eq, seq_ok_iff, keyFlagsTag_iff, and_comm]
  unfold KeyClause
  apply and_congr_right; intro _
  rw [← isRsa_iff_table, ← isEcdsa_iff_table, ← isEddsa_iff_table]
  by_cases h1 : isAlgorithmRsa k.algorithm = true
  · have h2 : isAlgorithmEcdsa k.algorithm = false ∧ isAlgorithmEddsa k.algorithm = false := by
      simp only [isAlgorithmRsa, algRSASHA1, algRSASHA256, algRSASHA512, Bool.or_eq_true, beq_iff_eq] at h1
      rcases h1 with (h | h) | h <;> rw [h] <;> decide
    simp [h1, h2.1, h2.2, keyParams_rsa_iff req pol k h1]
  · have h1f : isAlgorithmRsa k.algorithm = false := by simpa using h1
    by_cases h2 : isAlgorithmEcdsa k.algorithm = true
    · have h3 : isAlgorithmEddsa k.algorithm = false := by
        simp only [isAlgorithmEcdsa, algECDSAP256, algECDSAP384, Bool.or_eq_true, beq_iff_eq] at h2
        rcases h2 with h | h <;> rw [h] <;> decide
      simp [h1f, h2, h3, keyParams_ecdsa_iff_partial req pol k h2 hwf]
    · have h2f : isAlgorithmEcdsa k.algorithm = false := by simpa using h2
      by_cases h3 : isAlgorithmEddsa k.algorithm = true
      · simp [h1f, h2f, h3, keyParams_eddsa_iff_partial req pol k h3 hwf]
      · have h3f : isAlgorithmEddsa k.algorithm = false := by simpa using h3
        simp [h1f, h2f, h3f, keyParams_other_rejects req pol k h1f h2f h3f]

/-- "a key identifier denotes the same key everywhere it appears" -/
def IdentifierConsistent (req : Request) : Prop :=
  ∀ k₁ ∈ allKeys req, ∀ k₂ ∈ allKeys req, k₁.keyIdentifier = k₂.keyIdentifier → k₁ = k₂

/-- **KSR-BUNDLE-KEYS.** The walk with the `seen` dictionary accepts exactly when every key of every
    bundle individually passes the new-key checks and an identifier denotes the same key everywhere. -/
theorem keysMatch_iff (req : Request) (pol : RequestPolicy) (hf : pol.keysMatchZskPolicy = true) :
    checkKeysMatchZskPolicy req pol = .ok () ↔
      (∀ k ∈ allKeys req, checkNewKey req pol k = .ok ()) ∧ IdentifierConsistent req := by
  unfold checkKeysMatchZskPolicy
  simp only [hf, Bool.not_true, Bool.false_eq_true, ↓reduceIte]
  rw [keysWalk_ok_iff req pol (allKeys req) [] (by intro a ha; simp at ha)]
  simp [IdentifierConsistent, IdConsistent]

/-- the same with the per-key clause in the property's vocabulary (self-consistent declared policy) -/
theorem keysMatch_iff_clause_partial (req : Request) (pol : RequestPolicy)
    (hf : pol.keysMatchZskPolicy = true) (hwf : DeclaredWellFormed req) :
    checkKeysMatchZskPolicy req pol = .ok () ↔
      (∀ k ∈ allKeys req, KeyClause req pol k) ∧ IdentifierConsistent req := by
  rw [keysMatch_iff req pol hf]
  apply and_congr_left'
  apply forall_congr'; intro k; apply imp_congr_right; intro _
  exact checkNewKey_iff_partial req pol k hwf

/-- **The verdict does not depend on the visiting order** (Python set iteration order, bundle
    order): any two requests with the same declared policy whose key lists are permutations of each
    other — indeed, that merely contain the same keys — are accepted or rejected together. -/
theorem keysMatch_perm (req req' : Request) (pol : RequestPolicy)
    (hz : req'.zskPolicy = req.zskPolicy) (hp : (allKeys req).Perm (allKeys req')) :
    checkKeysMatchZskPolicy req pol = .ok () ↔ checkKeysMatchZskPolicy req' pol = .ok () := by
  cases hf : pol.keysMatchZskPolicy
  · simp [checkKeysMatchZskPolicy, hf]
  · rw [keysMatch_iff req pol hf, keysMatch_iff req' pol hf]
    have hnk : ∀ k, checkNewKey req' pol k = checkNewKey req pol k := by
      intro k; simp only [checkNewKey, hz]
    unfold IdentifierConsistent
    constructor
    · rintro ⟨h1, h2⟩
      refine ⟨fun k hk => (hnk k) ▸ h1 k (hp.mem_iff.mpr hk), ?_⟩
      intro a ha b hb; exact h2 a (hp.mem_iff.mpr ha) b (hp.mem_iff.mpr hb)
    · rintro ⟨h1, h2⟩
      refine ⟨fun k hk => (hnk k) ▸ h1 k (hp.mem_iff.mp hk), ?_⟩
      intro a ha b hb; exact h2 a (hp.mem_iff.mp ha) b (hp.mem_iff.mp hb)

/-- re-ordering the keys inside each bundle permutes the visiting order -/
theorem allKeys_perm_of_bundles : ∀ (bs bs' : List Bundle), bs.length = bs'.length →
    (∀ (i : Nat) (b b' : Bundle), bs[i]? = some b → bs'[i]? = some b' → b.keys.Perm b'.keys) →
    ((bs.map (·.keys)).flatten).Perm ((bs'.map (·.keys)).flatten)
  | [], [], _, _ => by simp
  | [], _ :: _, h, _ => by simp at h
  | _ :: _, [], h, _ => by simp at h
  | b :: bs, b' :: bs', h, hk => by
    simp only [List.map_cons, List.flatten_cons]
    apply List.Perm.append
    · exact hk 0 b b' (by simp) (by simp)
    · apply allKeys_perm_of_bundles bs bs' (by simpa using h)
      intro i x x' hx hx'
      exact hk (i + 1) x x' (by simpa using hx) (by simpa using hx')

/-- set iteration order inside the bundles is irrelevant to KSR-BUNDLE-KEYS -/
theorem keysMatch_bundle_order (req req' : Request) (pol : RequestPolicy)
    (hz : req'.zskPolicy = req.zskPolicy) (hl : req.bundles.length = req'.bundles.length)
    (hk : ∀ (i : Nat) (b b' : Bundle), req.bundles[i]? = some b → req'.bundles[i]? = some b' →
      b.keys.Perm b'.keys) :
    checkKeysMatchZskPolicy req pol = .ok () ↔ checkKeysMatchZskPolicy req' pol = .ok () :=
  keysMatch_perm req req' pol hz (allKeys_perm_of_bundles _ _ hl hk)

/-! ## The composite -/

/-- the key, algorithm and header rules in the order `validate_request` runs them -/
def keyHeaderChecks (req : Request) (pol : RequestPolicy) : Res Unit := do
  checkDomain req pol
  checkUniqueIds req
  checkKeysMatchZskPolicy req pol
  checkKeysInBundles req pol
  checkZskPolicyAlgorithm req pol

/-- The documented region under a given assignment of the enable flags. -/
def KeyHeaderRegion (req : Request) (pol : RequestPolicy) : Prop :=
  DomainClause req pol ∧ UniqueIdsClause req ∧
  (pol.keysMatchZskPolicy = true →
    (∀ k ∈ allKeys req, checkNewKey req pol k = .ok ()) ∧ IdentifierConsistent req) ∧
  (pol.checkKeysMatchKskOperatorPolicy = true → KeyCountsClause req pol) ∧
  AlgorithmClause req pol

theorem keysMatch_flag_iff (req : Request) (pol : RequestPolicy) :
    checkKeysMatchZskPolicy req pol = .ok () ↔
      (pol.keysMatchZskPolicy = true →
        (∀ k ∈ allKeys req, checkNewKey req pol k = .ok ()) ∧ IdentifierConsistent req) := by
  cases hf : pol.keysMatchZskPolicy
  · simp [checkKeysMatchZskPolicy, hf]
  · simp [keysMatch_iff req pol hf]

/-- **C06.** For every request and every policy: the key, algorithm and header rules accept iff the
    request lies in the documented region (per-key acceptance as characterised by
    `checkNewKey_rsa_iff` / `checkNewKey_iff_partial`). -/
theorem C06_iff (req : Request) (pol : RequestPolicy) :
    keyHeaderChecks req pol = .ok () ↔ KeyHeaderRegion req pol := by
  unfold keyHeaderChecks KeyHeaderRegion
  simp only [seq_ok_iff, domain_iff, uniqueIds_iff, keysMatch_flag_iff, keysInBundles_iff,
    zskPolicyAlgorithm_iff]

/-- the region entirely in the property's vocabulary -/
def KeyHeaderRegionSpec (req : Request) (pol : RequestPolicy) : Prop :=
  DomainClause req pol ∧ UniqueIdsClause req ∧
  (pol.keysMatchZskPolicy = true → (∀ k ∈ allKeys req, KeyClause req pol k) ∧ IdentifierConsistent req) ∧
  (pol.checkKeysMatchKskOperatorPolicy = true → KeyCountsClause req pol) ∧
  AlgorithmClause req pol

/-- C06 with every clause spelled in the property's vocabulary, for self-consistent declared
    policies (every declared ECDSA/EdDSA entry carries an algorithm number of its family; all
    RSA-only requests, i.e. every archived KSR, satisfy this trivially). -/
theorem C06_iff_spec_partial (req : Request) (pol : RequestPolicy) (hwf : DeclaredWellFormed req) :
    keyHeaderChecks req pol = .ok () ↔ KeyHeaderRegionSpec req pol := by
  rw [C06_iff]
  unfold KeyHeaderRegion KeyHeaderRegionSpec
  apply and_congr_right; intro _
  apply and_congr_right; intro _
  apply and_congr_left'
  apply imp_congr_right; intro _
  apply and_congr_left'
  apply forall_congr'; intro k; apply imp_congr_right; intro _
  exact checkNewKey_iff_partial req pol k hwf

/-- **A switched-off check never rejects.** (`check_domain`, `check_unique_ids` and the first half
    of `check_zsk_policy_algorithm` have no switch.) -/
theorem C06_flags (req : Request) (pol : RequestPolicy) :
    (pol.keysMatchZskPolicy = false → checkKeysMatchZskPolicy req pol = .ok ()) ∧
    (pol.checkKeysMatchKskOperatorPolicy = false → checkKeysInBundles req pol = .ok ()) ∧
    (pol.signatureAlgorithmsMatchZskPolicy = false →
      (checkZskPolicyAlgorithm req pol = .ok () ↔ ∀ a ∈ req.zskPolicy.algorithms, AlgAllowed pol a.algorithm)) ∧
    (pol.validateSignatures = false → ∀ verify, checkProofOfPossession verify req pol = .ok ()) := by
  refine ⟨?_, ?_, ?_, ?_⟩ <;> intro h
  · simp [checkKeysMatchZskPolicy, h]
  · simp [checkKeysInBundles, h]
  · rw [zskPolicyAlgorithm_iff]; simp [AlgorithmClause, h]
  · intro v; simp [checkProofOfPossession, h]

/-- **Never masks another / C06 inside the full validation.** Given that the timing rules (C05) and
    proof of possession (C07) accept, the whole of `validate_request` accepts iff the request lies in
    the key/algorithm/header region. -/
theorem C06_in_validateRequest (verify : Verifier) (now : Int) (req : Request) (pol : RequestPolicy)
    (hother : checkProofOfPossession verify req pol = .ok () ∧ checkBundleCount req pol = .ok () ∧
      checkCycleDurations req pol = .ok () ∧ checkBundleOverlaps req pol = .ok () ∧
      checkSignatureValidity req pol = .ok () ∧ checkSignatureHorizon now req pol = .ok () ∧
      checkBundleIntervals req pol = .ok ()) :
    validateRequest verify now req pol = .ok () ↔ KeyHeaderRegion req pol := by
  rw [C05.validateRequest_ok_iff, ← C06_iff]
  unfold keyHeaderChecks
  simp only [seq_ok_iff]
  obtain ⟨h1, h2, h3, h4, h5, h6, h7⟩ := hother
  simp only [h1, h2, h3, h4, h5, h6, h7, true_and, and_true]

/-- and, conversely, an accepted request always lies in the region -/
theorem C06_accepted_in_region (verify : Verifier) (now : Int) (req : Request) (pol : RequestPolicy)
    (h : validateRequest verify now req pol = .ok ()) : KeyHeaderRegion req pol := by
  rw [C05.validateRequest_ok_iff] at h
  rw [← C06_iff]
  unfold keyHeaderChecks
  simp only [seq_ok_iff]
  exact ⟨h.1, h.2.1, h.2.2.1, h.2.2.2.2.2.2.1, h.2.2.2.2.2.2.2.1⟩

/-- the defaults regenerated from /repo: every C06 check on, ECDSA/EdDSA off, RSA-SHA-256 with
    2048 bits and exponent 65537, slots 2-1-1-1-1-1-1-1-2, three distinct keys, domain "." -/
theorem defaults_documented :
    KskmGen.requestPolicyDefaults.acceptableDomains = ["."] ∧
    KskmGen.requestPolicyDefaults.keysMatchZskPolicy = true ∧
    KskmGen.requestPolicyDefaults.rsaExponentMatchZskPolicy = true ∧
    KskmGen.requestPolicyDefaults.enableUnsupportedEcdsa = false ∧
    KskmGen.requestPolicyDefaults.enableUnsupportedEdwardsDsa = false ∧
    KskmGen.requestPolicyDefaults.signatureAlgorithmsMatchZskPolicy = true ∧
    KskmGen.requestPolicyDefaults.approvedAlgorithms = [some 8] ∧
    KskmGen.requestPolicyDefaults.rsaApprovedExponents = [65537] ∧
    KskmGen.requestPolicyDefaults.rsaApprovedKeySizes = [2048] ∧
    KskmGen.requestPolicyDefaults.checkKeysMatchKskOperatorPolicy = true ∧
    KskmGen.requestPolicyDefaults.numKeysPerBundle = [2, 1, 1, 1, 1, 1, 1, 1, 2] ∧
    KskmGen.requestPolicyDefaults.numDifferentKeysInAllBundles = 3 := by decide

/-! ## Non-vacuity -/

/-- a (toy-sized) RSA key: exponent 3, 64-bit modulus, RFC 3110 text `AQPFESIzRFVmdw==`, tag 38684 -/
def exKey (ident : String) : Key :=
  { keyIdentifier := ident, keyTag := 38684, ttl := 172800, flags := 256, protocol := 3,
    algorithm := 8, publicKey := "AQPFESIzRFVmdw==" }

/-- a second key (another modulus), tag computed by /repo's `calculate_key_tag` -/
def exKey2 : Key :=
  { keyIdentifier := "zsk2", keyTag := 38685, ttl := 172800, flags := 256, protocol := 3,
    algorithm := 8, publicKey := "AQPFESIzRFVmeA==" }

def exBundle (i : Nat) (keys : List Key) : Bundle :=
  { id := s!"b{i}", inception := 0, expiration := 0, keys := keys, signatures := [] }

def exReq : Request :=
  { id := "r", serial := 1, domain := ".",
    zskPolicy := { algorithms := [{ kind := .rsa, bits := 64, algorithm := 8, exponent := some 3 }] },
    bundles := [exBundle 0 [exKey "zsk1", exKey2], exBundle 1 [exKey "zsk1"], exBundle 2 [exKey2]] }

def exPol : RequestPolicy :=
  { KskmGen.requestPolicyDefaults with
    rsaApprovedKeySizes := [64], rsaApprovedExponents := [3], numKeysPerBundle := [2, 1, 1],
    numDifferentKeysInAllBundles := 2 }

example : keyHeaderChecks exReq exPol = .ok () := by decide +kernel
example : DeclaredWellFormed exReq := by
  intro a ha; simp [exReq] at ha; subst ha; simp
/-- the same public key under a second identifier in a later bundle is still accepted by
    KSR-BUNDLE-KEYS (an identifier denotes one key; a key may carry two identifiers) but changes the
    distinct-key count -/
example : checkKeysMatchZskPolicy { exReq with bundles := [exBundle 0 [exKey "zsk1"], exBundle 1 [exKey "other"]] } exPol
    = .ok () := by decide +kernel
/-- an identifier re-used for a different key in a later bundle is rejected -/
example : checkKeysMatchZskPolicy
    { exReq with bundles := [exBundle 0 [exKey "zsk1"], exBundle 1 [{ exKey2 with keyIdentifier := "zsk1" }]] } exPol
    = violation .bundleKeys := by decide +kernel
/-- tag off by one, flags 257: rejected -/
example : checkNewKey exReq exPol { exKey "zsk1" with keyTag := 38685 } = violation .bundleKeys := by
  decide +kernel
example : checkNewKey exReq exPol { exKey "zsk1" with flags := 257 } = violation .bundleKeys := by
  decide +kernel

/-- **Witness that `DeclaredWellFormed` cannot be dropped**: the same ECDSA key and the same declared
    *set* {ECDSA-P256/256, an `ECDSA` element carrying the EdDSA number 15}; visiting the proper
    entry first accepts, visiting the malformed entry first ends in an error.  (Replayed on /repo
    by the correspondence run: `ValueError` from `expected_ecdsa_key_size`.) -/
def exEcKey : Key :=
  { keyIdentifier := "ec", keyTag := 0, ttl := 0, flags := 256, protocol := 3, algorithm := 13,
    publicKey := "AAAAAAAAAAAAAAAAAAAAAAAAAAAAAAAAAAAAAAAAAAAAAAAAAAAAAAAAAAAAAAAAAAAAAAAAAAAAAAAAAAAAAA==" }
def exEcGood : AlgPolicy := { kind := .ecdsa, bits := 256, algorithm := 13 }
def exEcBad : AlgPolicy := { kind := .ecdsa, bits := 256, algorithm := 15 }

theorem ecdsa_declared_order_witness :
    keyParamsCheck { exReq with zskPolicy := { algorithms := [exEcGood, exEcBad] } } exPol exEcKey = .ok () ∧
    keyParamsCheck { exReq with zskPolicy := { algorithms := [exEcBad, exEcGood] } } exPol exEcKey = err .value := by
  decide +kernel

end Kskm.C06
