/-
  C06 — KSR key, algorithm and header rules accept exactly the documented region.

  The clauses below are written from the property text:

    "its domain is in the acceptable list; every declared signature algorithm is neither deprecated
     nor unsupported (ECDSA and EdDSA only when explicitly enabled) and is on the approved list, with
     RSA sizes and exponents from the approved lists; bundle ids are unique; each slot holds the
     configured number of keys and the whole request the configured number of distinct keys; and
     every key has flags 256, a correctly computed key tag, parameters (algorithm, size, and exponent
     unless waived) matching one declared algorithm, and a key identifier that denotes the same key
     everywhere it appears."

  Each theorem says that one rule of the model (which mirrors /repo's loops, dictionaries and
  comparison operators) accepts exactly its clause, for every request and every policy; the composite
  is the plain conjunction of the enabled rules (a switched-off rule never rejects, never masks).
  The algorithm tables used are the ones regenerated from /repo on every run (`KskmGen.Tables`).
-/
import Kskm.KsrPolicy
import KskmGen.Tables
import KskmProofs.Lemmas.Res
import KskmProofs.Lemmas.C06
import KskmProofs.Lemmas.C06Ord
import KskmProofs.Lemmas.C06Parsed
import KskmProofs.C05
import KskmProofs.C14
set_option linter.unusedSimpArgs false
set_option linter.unusedVariables false
namespace Kskm.C06
open Kskm.C06L

/-! ## KSR-DOMAIN -/

/-- the request's domain is in the acceptable list -/
def DomainClause (req : Request) (pol : RequestPolicy) : Prop := req.domain ∈ pol.acceptableDomains

theorem domain_iff (req : Request) (pol : RequestPolicy) :
    checkDomain req pol = .ok () ↔ DomainClause req pol := by
  unfold checkDomain DomainClause
  rw [ite_ok_viol_iff, List.contains_iff_mem]

/-! ## KSR-BUNDLE-UNIQUE -/

/-- bundle ids are unique (no id occurs at two positions) -/
def UniqueIdsClause (req : Request) : Prop := (req.bundles.map (·.id)).Nodup

theorem uniqueIds_iff (req : Request) : checkUniqueIds req = .ok () ↔ UniqueIdsClause req := by
  unfold checkUniqueIds UniqueIdsClause
  rw [ite_viol_ok_iff, ← hasDupBundleIds_eq_false_iff]
  simp

/-- the same clause, position by position -/
theorem uniqueIds_iff_positions (req : Request) :
    checkUniqueIds req = .ok () ↔
      ∀ (i j : Nat) (a b : Bundle), i < j → req.bundles[i]? = some a → req.bundles[j]? = some b →
        a.id ≠ b.id := by
  rw [uniqueIds_iff]
  unfold UniqueIdsClause List.Nodup
  rw [List.pairwise_map, List.pairwise_iff_getElem]
  constructor
  · intro h i j a b hij ha hb
    obtain ⟨hi, rfl⟩ := List.getElem?_eq_some_iff.mp ha
    obtain ⟨hj, rfl⟩ := List.getElem?_eq_some_iff.mp hb
    exact h i j hi hj hij
  · intro h i j hi hj hij
    exact h i j _ _ hij (List.getElem?_eq_getElem hi) (List.getElem?_eq_getElem hj)

/-! ## KSR-POLICY-KEYS -/

/-- number of distinct key identifiers over the whole request -/
def distinctKeyCount (req : Request) : Nat := ((allKeys req).map (·.keyIdentifier)).eraseDups.length

/-- `eraseDups` really is "the distinct identifiers": duplicate-free, same members. -/
theorem distinctKeyCount_spec (req : Request) :
    ∃ d : List String, d.Nodup ∧ (∀ x, x ∈ d ↔ ∃ k ∈ allKeys req, k.keyIdentifier = x) ∧
      d.length = distinctKeyCount req :=
  ⟨_, nodup_eraseDups _, fun x => by rw [List.mem_eraseDups]; simp, rfl⟩

/-- any duplicate-free enumeration of the identifiers has that length -/
theorem distinctKeyCount_unique (req : Request) (d : List String) (hd : d.Nodup)
    (hm : ∀ x, x ∈ d ↔ ∃ k ∈ allKeys req, k.keyIdentifier = x) : d.length = distinctKeyCount req := by
  apply List.Perm.length_eq
  rw [List.perm_ext_iff_of_nodup hd (nodup_eraseDups _)]
  intro x; rw [hm, List.mem_eraseDups]; simp

/-- each slot holds the configured number of keys, the whole request the configured number of
    distinct keys -/
def KeyCountsClause (req : Request) (pol : RequestPolicy) : Prop :=
  req.bundles.length = pol.numKeysPerBundle.length ∧
  (∀ (i : Nat) (b : Bundle) (n : Int), req.bundles[i]? = some b → pol.numKeysPerBundle[i]? = some n →
    (b.keys.length : Int) = n) ∧
  (distinctKeyCount req : Int) = pol.numDifferentKeysInAllBundles

theorem keysInBundles_iff (req : Request) (pol : RequestPolicy) :
    checkKeysInBundles req pol = .ok () ↔
      (pol.checkKeysMatchKskOperatorPolicy = true → KeyCountsClause req pol) := by
  unfold checkKeysInBundles KeyCountsClause distinctKeyCount
  cases hf : pol.checkKeysMatchKskOperatorPolicy
  · simp
  · simp only [Bool.not_true, Bool.false_eq_true, ↓reduceIte, forall_const, distinctIds_length]
    by_cases hl : req.bundles.length = pol.numKeysPerBundle.length
    · simp only [hl, bne_self_eq_false, Bool.false_eq_true, ↓reduceIte, true_and,
        ← slotCountsOk_iff req.bundles pol.numKeysPerBundle hl]
      by_cases hs : slotCountsOk req.bundles pol.numKeysPerBundle = true
      · simp only [hs, Bool.not_true, Bool.false_eq_true, ↓reduceIte, true_and]
        rw [ite_viol_ok_iff]; simp
      · simp [hs]
    · have : (req.bundles.length != pol.numKeysPerBundle.length) = true := by simpa using hl
      simp [this, hl]

/-! ## KSR-POLICY-ALG -/

/-- the model's lists are the ones /repo has now -/
theorem tables_agree :
    deprecatedAlgorithms = KskmGen.deprecatedAlgorithms ∧
    supportedAlgorithms = KskmGen.supportedAlgorithms := by decide

theorem isRsa_iff_table (n : Nat) : isAlgorithmRsa n = true ↔ n ∈ KskmGen.rsaAlgorithms := by
  simp [isAlgorithmRsa, KskmGen.rsaAlgorithms, algRSASHA1, algRSASHA256, algRSASHA512, or_assoc]
theorem isEcdsa_iff_table (n : Nat) : isAlgorithmEcdsa n = true ↔ n ∈ KskmGen.ecdsaAlgorithms := by
  simp [isAlgorithmEcdsa, KskmGen.ecdsaAlgorithms, algECDSAP256, algECDSAP384]
theorem isEddsa_iff_table (n : Nat) : isAlgorithmEddsa n = true ↔ n ∈ KskmGen.eddsaAlgorithms := by
  simp [isAlgorithmEddsa, KskmGen.eddsaAlgorithms, algED25519, algED448]

/-- neither deprecated nor unsupported; ECDSA / EdDSA only when explicitly enabled -/
def AlgAllowed (pol : RequestPolicy) (n : Nat) : Prop :=
  n ∉ KskmGen.deprecatedAlgorithms ∧ n ∈ KskmGen.supportedAlgorithms ∧
  (n ∈ KskmGen.ecdsaAlgorithms → pol.enableUnsupportedEcdsa = true) ∧
  (n ∈ KskmGen.eddsaAlgorithms → pol.enableUnsupportedEdwardsDsa = true)

/-- on the approved list, RSA sizes and exponents from the approved lists (an RSA algorithm number
    must therefore come with RSA parameters) -/
def AlgApproved (pol : RequestPolicy) (a : AlgPolicy) : Prop :=
  some a.algorithm ∈ pol.approvedAlgorithms ∧
  (a.algorithm ∈ KskmGen.rsaAlgorithms →
    a.kind = .rsa ∧ a.bits ∈ pol.rsaApprovedKeySizes ∧
    ∃ e, a.exponent = some e ∧ e ∈ pol.rsaApprovedExponents)

/-- The algorithm clause.  The first half is *not* guarded by any flag (as in /repo); the second is
    guarded by `signature_algorithms_match_zsk_policy` and presupposes that every configured
    approved-algorithm name is a known algorithm (`none` stands for an unknown name, on which /repo
    raises `KeyError`). -/
def AlgorithmClause (req : Request) (pol : RequestPolicy) : Prop :=
  (∀ a ∈ req.zskPolicy.algorithms, AlgAllowed pol a.algorithm) ∧
  (pol.signatureAlgorithmsMatchZskPolicy = true →
    (∀ x ∈ pol.approvedAlgorithms, x ≠ none) ∧
    ∀ a ∈ req.zskPolicy.algorithms, AlgApproved pol a)

theorem algBasic_iff (pol : RequestPolicy) (a : AlgPolicy) :
    checkAlgBasic pol a = .ok () ↔ AlgAllowed pol a.algorithm := by
  unfold checkAlgBasic AlgAllowed
  rw [← tables_agree.1, ← tables_agree.2, ← isEcdsa_iff_table, ← isEddsa_iff_table]
  by_cases h1 : deprecatedAlgorithms.contains a.algorithm = true
  · simp [h1, List.contains_iff_mem.mp h1]
  · have h1' : a.algorithm ∉ deprecatedAlgorithms := fun h => h1 (List.contains_iff_mem.mpr h)
    by_cases h2 : supportedAlgorithms.contains a.algorithm = true
    · have h2' : a.algorithm ∈ supportedAlgorithms := List.contains_iff_mem.mp h2
      by_cases h3 : isAlgorithmEcdsa a.algorithm = true
      · cases h4 : pol.enableUnsupportedEcdsa
        · simp [h1, h2, h3, h4]
        · by_cases h5 : isAlgorithmEddsa a.algorithm = true
          · cases h6 : pol.enableUnsupportedEdwardsDsa <;> simp [h1, h1', h2, h2', h3, h4, h5, h6]
          · simp [h1, h1', h2, h2', h3, h4, h5]
      · by_cases h5 : isAlgorithmEddsa a.algorithm = true
        · cases h6 : pol.enableUnsupportedEdwardsDsa <;> simp [h1, h1', h2, h2', h3, h5, h6]
        · simp [h1, h1', h2, h2', h3, h5]
    · have h2' : a.algorithm ∉ supportedAlgorithms := fun h => h2 (List.contains_iff_mem.mpr h)
      simp [h1, h2, h2']

theorem algRsaParams_iff (pol : RequestPolicy) (a : AlgPolicy) :
    checkAlgRsaParams pol a = .ok () ↔
      (a.algorithm ∈ KskmGen.rsaAlgorithms →
        a.kind = .rsa ∧ a.bits ∈ pol.rsaApprovedKeySizes ∧
        ∃ e, a.exponent = some e ∧ e ∈ pol.rsaApprovedExponents) := by
  unfold checkAlgRsaParams
  rw [← isRsa_iff_table]
  by_cases h : isAlgorithmRsa a.algorithm = true
  · simp only [h, ↓reduceIte, forall_const]
    by_cases hk : a.kind = .rsa
    · by_cases hb : a.bits ∈ pol.rsaApprovedKeySizes
      · cases he : a.exponent with
        | none => simp [hk, hb]
        | some e =>
          by_cases hc : e ∈ pol.rsaApprovedExponents
          · simp [hk, hb, hc]
          · simp [hk, hb, hc]
      · simp [hk, hb]
    · have : (a.kind != .rsa) = true := by simpa using hk
      simp [this, hk]
  · simp [h]

/-- **KSR-POLICY-ALG accepts exactly the algorithm clause.** -/
theorem zskPolicyAlgorithm_iff (req : Request) (pol : RequestPolicy) :
    checkZskPolicyAlgorithm req pol = .ok () ↔ AlgorithmClause req pol := by
  unfold checkZskPolicyAlgorithm AlgorithmClause AlgApproved
  simp only [seq_ok_iff, forEach_ok_iff, algBasic_iff]
  apply and_congr_right; intro _
  cases hf : pol.signatureAlgorithmsMatchZskPolicy
  · simp
  · simp only [Bool.not_true, Bool.false_eq_true, ↓reduceIte, forall_const]
    by_cases h : pol.approvedAlgorithms.any (·.isNone) = true
    · simp only [h, ↓reduceIte]
      obtain ⟨x, hx, hn⟩ := List.any_eq_true.mp h
      have hnot : ¬ ∀ x ∈ pol.approvedAlgorithms, x ≠ none := fun hall => hall x hx (by simpa using hn)
      simp [err, bind, Except.bind, hnot]
    · have hall : ∀ x ∈ pol.approvedAlgorithms, x ≠ none := by
        intro x hx hn
        exact h (List.any_eq_true.mpr ⟨x, hx, by simp [hn]⟩)
      simp only [h, Bool.false_eq_true, ↓reduceIte, seq_ok_iff, forEach_ok_iff, algRsaParams_iff,
        ite_ok_viol_iff, List.contains_iff_mem]
      constructor
      · rintro ⟨h1, h2⟩; exact ⟨hall, fun a ha => ⟨h1 a ha, h2 a ha⟩⟩
      · rintro ⟨_, h⟩; exact ⟨fun a ha => (h a ha).1, fun a ha => (h a ha).2⟩

/-- allowed algorithm numbers as a Boolean function of the regenerated tables -/
def allowedB (ecdsa eddsa : Bool) (n : Nat) : Bool :=
  !KskmGen.deprecatedAlgorithms.contains n && KskmGen.supportedAlgorithms.contains n &&
  (!KskmGen.ecdsaAlgorithms.contains n || ecdsa) && (!KskmGen.eddsaAlgorithms.contains n || eddsa)

theorem algAllowed_iff_allowedB (pol : RequestPolicy) (n : Nat) :
    AlgAllowed pol n ↔ allowedB pol.enableUnsupportedEcdsa pol.enableUnsupportedEdwardsDsa n = true := by
  unfold AlgAllowed allowedB
  simp only [Bool.and_eq_true, Bool.not_eq_true', Bool.or_eq_true, List.contains_iff_mem,
    ← Bool.not_eq_true, and_assoc]
  constructor
  · rintro ⟨h1, h2, h3, h4⟩
    exact ⟨h1, h2, Decidable.or_iff_not_imp_left.mpr (fun h => h3 (Decidable.not_not.mp h)),
      Decidable.or_iff_not_imp_left.mpr (fun h => h4 (Decidable.not_not.mp h))⟩
  · rintro ⟨h1, h2, h3, h4⟩
    exact ⟨h1, h2, fun h => h3.resolve_left (fun hn => hn h), fun h => h4.resolve_left (fun hn => hn h)⟩

/-- **The accepted algorithm numbers**, by complete tabulation over every octet value against the
    tables regenerated from /repo: RSA-SHA-256 and RSA-SHA-512 always; ECDSA P-256/P-384 only when
    ECDSA is enabled; Ed25519/Ed448 only when EdDSA is enabled; nothing else (in particular none of
    RSA-MD5, DSA, RSA-SHA-1 in either form, ECC-GOST). -/
theorem allowed_numbers : ∀ n < 256, ∀ ecdsa eddsa : Bool,
    allowedB ecdsa eddsa n =
      (n == 8 || n == 10 || ((n == 13 || n == 14) && ecdsa) || ((n == 15 || n == 16) && eddsa)) := by
  decide +kernel

/-! ## KSR-BUNDLE-KEYS -/

/-- RFC 4034 §2.1 RDATA of a zone key: flags 256 = `0x01 0x00`, protocol, algorithm, public key -/
def zoneKeyRdata (protocol algorithm : Nat) (pk : Bytes) : Bytes :=
  1 :: 0 :: UInt8.ofNat protocol :: UInt8.ofNat algorithm :: pk

/-- the stated key tag is the RFC 4034 App. B tag of the key's RDATA (fields within wire range) -/
def TagCorrect (k : Key) (pk : Bytes) : Prop :=
  0 ≤ k.protocol ∧ k.protocol < 256 ∧ k.algorithm < 256 ∧
  k.keyTag = ((C14.rfc4034KeyTag (zoneKeyRdata k.protocol.toNat k.algorithm pk) : Nat) : Int)

/-- flags 256 and a correctly computed key tag -/
def FlagsTagClause (k : Key) : Prop :=
  k.flags = 256 ∧ ∃ pk, Base64.decode k.publicKey = some pk ∧ TagCorrect k pk

theorem keyFlagsTag_iff (k : Key) : keyFlagsTagCheck k = .ok () ↔ FlagsTagClause k := by
  unfold keyFlagsTagCheck FlagsTagClause TagCorrect
  by_cases hfl : k.flags = 256
  · have hne : (k.flags != 256) = false := by simp [hfl]
    simp only [hne, Bool.false_eq_true, ↓reduceIte, hfl, true_and, pure, Except.pure, bind, Except.bind]
    unfold calculateKeyTag keyToRdata
    have h16 : inRange 16 k.flags = true := by rw [hfl]; decide
    simp only [h16, Bool.true_and]
    by_cases hr : (inRange 8 k.protocol && decide (k.algorithm < 256)) = true
    · have hr' := hr
      simp only [inRange, Bool.and_eq_true, decide_eq_true_eq] at hr'
      obtain ⟨⟨hp0, hp1⟩, ha⟩ := hr'
      simp only [hr, Bool.not_true, Bool.false_eq_true, ↓reduceIte]
      cases hd : Base64.decode k.publicKey with
      | none => simp [unsupported, bind, Except.bind]
      | some pk =>
        have hrd : rdataOf k.flags.toNat k.protocol.toNat k.algorithm pk
            = zoneKeyRdata k.protocol.toNat k.algorithm pk := by
          rw [hfl]; rfl
        simp only [bind, Except.bind, pure, Except.pure, hrd, C14.keyTag_eq_rfc4034,
          Option.some.injEq, exists_eq_left']
        have hp1' : k.protocol < 256 := by omega
        by_cases ht : ((C14.rfc4034KeyTag (zoneKeyRdata k.protocol.toNat k.algorithm pk) : Nat) : Int)
            = k.keyTag
        · simp [ht, hp0, hp1', ha, violation]
        · have : ¬ k.keyTag = ((C14.rfc4034KeyTag (zoneKeyRdata k.protocol.toNat k.algorithm pk) : Nat) : Int) :=
            fun h => ht h.symm
          simp [ht, this, violation]
    · simp only [hr, Bool.not_false, ↓reduceIte]
      constructor
      · intro h; simp [err, bind, Except.bind] at h
      · rintro ⟨pk, _, hp0, hp1, ha, _⟩
        exfalso; apply hr
        simp only [inRange, Bool.and_eq_true, decide_eq_true_eq]
        omega
  · have hne : (k.flags != 256) = true := by simpa using hfl
    simp [hne, hfl, violation, bind, Except.bind]

/-- RSA (RFC 3110): the decoded key's algorithm, modulus size and — unless waived — exponent match
    one declared RSA algorithm.  `rsaDecodeBytes` is the RFC 3110 reader characterised in C14
    (`rsa_decode_encode`). -/
def RsaParamsClause (req : Request) (pol : RequestPolicy) (k : Key) : Prop :=
  ∃ pk pub, Base64.decode k.publicKey = some pk ∧ rsaDecodeBytes pk = .ok pub ∧
    ∃ a ∈ req.zskPolicy.algorithms, a.kind = .rsa ∧ a.algorithm = k.algorithm ∧
      a.bits = (pub.bits : Int) ∧
      (a.exponent = some (pub.exponent : Int) ∨ pol.rsaExponentMatchZskPolicy = false)

/-- ECDSA (RFC 6605): algorithm and point size — after removal of at most one SEC 1 `0x04` octet,
    see C14 `ecdsa_strip_prefix` — match one declared ECDSA algorithm. -/
def EcdsaParamsClause (req : Request) (k : Key) : Prop :=
  ∃ pk, Base64.decode k.publicKey = some pk ∧
    ∃ a ∈ req.zskPolicy.algorithms, a.kind = .ecdsa ∧ a.algorithm = k.algorithm ∧
      ∃ p, ecdsaWithoutPrefix pk a.algorithm = .ok p ∧ (getEcdsaPubkeySize p : Int) = a.bits

/-- EdDSA (RFC 8080): algorithm and key size match one declared EdDSA algorithm. -/
def EddsaParamsClause (req : Request) (k : Key) : Prop :=
  ∃ pk, Base64.decode k.publicKey = some pk ∧
    ∃ a ∈ req.zskPolicy.algorithms, a.kind = .eddsa ∧ a.algorithm = k.algorithm ∧
      ∃ p, eddsaWithoutPrefix pk a.algorithm = .ok p ∧ ((p.length * 8 : Nat) : Int) = a.bits

/-- **RSA keys: parameters match a declared algorithm, exponent waived only when
    `rsa_exponent_match_zsk_policy` is off** — for every key text, every declared set. -/
theorem keyParams_rsa_iff (req : Request) (pol : RequestPolicy) (k : Key)
    (hal : isAlgorithmRsa k.algorithm = true) :
    keyParamsCheck req pol k = .ok () ↔ RsaParamsClause req pol k := by
  unfold RsaParamsClause
  cases hd : Base64.decode k.publicKey with
  | none => simp [keyParamsCheck, rsaDecode, hal, hd, unsupported, bind, Except.bind]
  | some pk =>
    cases hp : rsaDecodeBytes pk with
    | error e => simp [keyParamsCheck, rsaDecode, hal, hd, hp, bind, Except.bind]
    | ok pub =>
      simp only [Option.some.injEq]
      have m1 := matchRsaAlg_iff req.zskPolicy.algorithms k pub false
      have m2 := matchRsaAlg_iff req.zskPolicy.algorithms k pub true
      simp only [Bool.false_eq_true, or_false, or_true, and_true] at m1 m2
      have hval : keyParamsCheck req pol k =
          if (matchRsaAlg req.zskPolicy.algorithms k pub false
              || (!pol.rsaExponentMatchZskPolicy && matchRsaAlg req.zskPolicy.algorithms k pub true)) = true
          then pure () else violation .bundleKeys := by
        cases h1 : matchRsaAlg req.zskPolicy.algorithms k pub false <;>
        cases h2 : pol.rsaExponentMatchZskPolicy <;>
        cases h3 : matchRsaAlg req.zskPolicy.algorithms k pub true <;>
        simp [keyParamsCheck, rsaDecode, hal, hd, hp, h1, h2, h3, bind, Except.bind, pure, Except.pure]
      rw [hval, ite_ok_viol_iff]
      simp only [Bool.or_eq_true, Bool.and_eq_true, Bool.not_eq_true', m1, m2]
      constructor
      · rintro (⟨a, ha, hk, hn, hb, he⟩ | ⟨hw, a, ha, hk, hn, hb⟩)
        · exact ⟨pk, pub, rfl, hp, a, ha, hk, hn, hb, Or.inl he⟩
        · exact ⟨pk, pub, rfl, hp, a, ha, hk, hn, hb, Or.inr hw⟩
      · rintro ⟨pk', pub', hpk, hp', a, ha, hk, hn, hb, hx⟩
        subst hpk
        rw [hp] at hp'
        simp only [Except.ok.injEq] at hp'
        subst hp'
        rcases hx with he | hw
        · exact Or.inl ⟨a, ha, hk, hn, hb, he⟩
        · exact Or.inr ⟨hw, a, ha, hk, hn, hb⟩

/-- every declared ECDSA / EdDSA entry carries an algorithm number of its own family -/
def DeclaredWellFormed (req : Request) : Prop :=
  ∀ a ∈ req.zskPolicy.algorithms,
    (a.kind = .ecdsa → a.algorithm ∈ KskmGen.ecdsaAlgorithms) ∧
    (a.kind = .eddsa → a.algorithm ∈ KskmGen.eddsaAlgorithms)

/-
  Full statement (FALSE of model and code alike without `DeclaredWellFormed`):
      keyParamsCheck req pol k = .ok () ↔ EcdsaParamsClause req k        for every ECDSA key.
  /repo strips the SEC 1 prefix relative to each declared *entry's* algorithm while it searches; an
  entry such as `<SignatureAlgorithm algorithm="15"><ECDSA size="256"/>` makes that raise `ValueError`
  if the set iteration reaches it before the matching entry.  `ecdsa_declared_order_witness` below
  proves the order dependence on a concrete input; the correspondence run replays it on /repo.
  VERDICT (section "What is true WITHOUT `DeclaredWellFormed`" below): the hypothesis is necessary for
  each `_partial` theorem (`keyParams_ecdsa_iff_needed`, `keyParams_eddsa_iff_needed`,
  `checkNewKey_iff_needed`, `keysMatch_iff_clause_needed`, `C06_iff_spec_needed`), only for `←`
  (`…_sound`), and the hypothesis-free exact statements are `keyParams_ecdsa_iff`, `keyParams_eddsa_iff`,
  `checkNewKey_iff`, `keysMatch_iff_clause`, `C06_iff_spec`.
-/

/-- ECDSA keys, for self-consistent declared policies. -/
theorem keyParams_ecdsa_iff_partial (req : Request) (pol : RequestPolicy) (k : Key)
    (hal : isAlgorithmEcdsa k.algorithm = true) (hwf : DeclaredWellFormed req) :
    keyParamsCheck req pol k = .ok () ↔ EcdsaParamsClause req k := by
  have hr : isAlgorithmRsa k.algorithm = false := by
    simp only [isAlgorithmEcdsa, algECDSAP256, algECDSAP384, Bool.or_eq_true, beq_iff_eq] at hal
    rcases hal with h | h <;> rw [h] <;> decide
  unfold keyParamsCheck EcdsaParamsClause
  simp only [hr, Bool.false_eq_true, ↓reduceIte, hal]
  cases hd : Base64.decode k.publicKey with
  | none => simp [unsupported]
  | some pk =>
    simp only [Option.some.injEq, exists_eq_left']
    have hwf' : ∀ a ∈ req.zskPolicy.algorithms, a.kind = .ecdsa → isAlgorithmEcdsa a.algorithm = true :=
      fun a ha hk => (isEcdsa_iff_table _).mpr ((hwf a ha).1 hk)
    by_cases hpk : pk = []
    · subst hpk
      constructor
      · intro h
        exfalso
        cases hm : matchEcdsaAlg req.zskPolicy.algorithms k [] with
        | error e => simp [hm, bind, Except.bind] at h
        | ok m =>
          cases m with
          | true => exact matchEcdsaAlg_nil_ne_true k _ hm
          | false => simp [hm, bind, Except.bind] at h
      · rintro ⟨a, _, _, _, p, hp, _⟩
        exact absurd hp (ecdsaWithoutPrefix_nil _ p)
    · rw [← matchEcdsaAlg_true_iff k pk hpk _ hwf']
      cases hm : matchEcdsaAlg req.zskPolicy.algorithms k pk with
      | error e => simp [bind, Except.bind]
      | ok m => cases m <;> simp [bind, Except.bind]

/-- EdDSA keys, for self-consistent declared policies. -/
theorem keyParams_eddsa_iff_partial (req : Request) (pol : RequestPolicy) (k : Key)
    (hal : isAlgorithmEddsa k.algorithm = true) (hwf : DeclaredWellFormed req) :
    keyParamsCheck req pol k = .ok () ↔ EddsaParamsClause req k := by
  have hr : isAlgorithmRsa k.algorithm = false ∧ isAlgorithmEcdsa k.algorithm = false := by
    simp only [isAlgorithmEddsa, algED25519, algED448, Bool.or_eq_true, beq_iff_eq] at hal
    rcases hal with h | h <;> rw [h] <;> decide
  unfold keyParamsCheck EddsaParamsClause
  simp only [hr.1, hr.2, Bool.false_eq_true, ↓reduceIte, hal]
  cases hd : Base64.decode k.publicKey with
  | none => simp [unsupported]
  | some pk =>
    simp only [Option.some.injEq, exists_eq_left']
    have hwf' : ∀ a ∈ req.zskPolicy.algorithms, a.kind = .eddsa → isAlgorithmEddsa a.algorithm = true :=
      fun a ha hk => (isEddsa_iff_table _).mpr ((hwf a ha).2 hk)
    by_cases hpk : pk = []
    · subst hpk
      constructor
      · intro h
        exfalso
        cases hm : matchEddsaAlg req.zskPolicy.algorithms k [] with
        | error e => simp [hm, bind, Except.bind] at h
        | ok m =>
          cases m with
          | true => exact matchEddsaAlg_nil_ne_true k _ hm
          | false => simp [hm, bind, Except.bind] at h
      · rintro ⟨a, _, _, _, p, hp, _⟩
        exact absurd hp (eddsaWithoutPrefix_nil _ p)
    · rw [← matchEddsaAlg_true_iff k pk hpk _ hwf']
      cases hm : matchEddsaAlg req.zskPolicy.algorithms k pk with
      | error e => simp [bind, Except.bind]
      | ok m => cases m <;> simp [bind, Except.bind]

/-- a key of any other algorithm family is never accepted -/
theorem keyParams_other_rejects (req : Request) (pol : RequestPolicy) (k : Key)
    (h1 : isAlgorithmRsa k.algorithm = false) (h2 : isAlgorithmEcdsa k.algorithm = false)
    (h3 : isAlgorithmEddsa k.algorithm = false) : keyParamsCheck req pol k = err .value := by
  simp [keyParamsCheck, h1, h2, h3]

/-- The per-key clause of the property: flags 256, correct tag, parameters matching one declared
    algorithm of the key's own family. -/
def KeyClause (req : Request) (pol : RequestPolicy) (k : Key) : Prop :=
  FlagsTagClause k ∧
  ((k.algorithm ∈ KskmGen.rsaAlgorithms ∧ RsaParamsClause req pol k) ∨
   (k.algorithm ∈ KskmGen.ecdsaAlgorithms ∧ EcdsaParamsClause req k) ∨
   (k.algorithm ∈ KskmGen.eddsaAlgorithms ∧ EddsaParamsClause req k))

/-- **New-key checks, RSA keys: exactly the per-key clause** (no hypothesis on the declared set). -/
theorem checkNewKey_rsa_iff (req : Request) (pol : RequestPolicy) (k : Key)
    (hal : k.algorithm ∈ KskmGen.rsaAlgorithms) :
    checkNewKey req pol k = .ok () ↔ FlagsTagClause k ∧ RsaParamsClause req pol k := by
  rw [checkNewKey_eq, seq_ok_iff, keyParams_rsa_iff req pol k ((isRsa_iff_table _).mpr hal),
    keyFlagsTag_iff, and_comm]

/-- **New-key checks, every key family**, for self-consistent declared policies. -/
theorem checkNewKey_iff_partial (req : Request) (pol : RequestPolicy) (k : Key)
    (hwf : DeclaredWellFormed req) :
    checkNewKey req pol k = .ok () ↔ KeyClause req pol k := by
  rw [checkNewKey_eq, seq_ok_iff, keyFlagsTag_iff, and_comm]
  unfold KeyClause
  apply and_congr_right; intro _
  rw [← isRsa_iff_table, ← isEcdsa_iff_table, ← isEddsa_iff_table]
  by_cases h1 : isAlgorithmRsa k.algorithm = true
  · have h2 : isAlgorithmEcdsa k.algorithm = false ∧ isAlgorithmEddsa k.algorithm = false := by
      simp only [isAlgorithmRsa, algRSASHA1, algRSASHA256, algRSASHA512, Bool.or_eq_true, beq_iff_eq] at h1
      rcases h1 with (h | h) | h <;> rw [h] <;> decide
    simp [h1, h2.1, h2.2, keyParams_rsa_iff req pol k h1]
  · have h1f : isAlgorithmRsa k.algorithm = false := by simpa using h1
    by_cases h2 : isAlgorithmEcdsa k.algorithm = true
    · have h3 : isAlgorithmEddsa k.algorithm = false := by
        simp only [isAlgorithmEcdsa, algECDSAP256, algECDSAP384, Bool.or_eq_true, beq_iff_eq] at h2
        rcases h2 with h | h <;> rw [h] <;> decide
      simp [h1f, h2, h3, keyParams_ecdsa_iff_partial req pol k h2 hwf]
    · have h2f : isAlgorithmEcdsa k.algorithm = false := by simpa using h2
      by_cases h3 : isAlgorithmEddsa k.algorithm = true
      · simp [h1f, h2f, h3, keyParams_eddsa_iff_partial req pol k h3 hwf]
      · have h3f : isAlgorithmEddsa k.algorithm = false := by simpa using h3
        simp [h1f, h2f, h3f, keyParams_other_rejects req pol k h1f h2f h3f]

/-- "a key identifier denotes the same key everywhere it appears" -/
def IdentifierConsistent (req : Request) : Prop :=
  ∀ k₁ ∈ allKeys req, ∀ k₂ ∈ allKeys req, k₁.keyIdentifier = k₂.keyIdentifier → k₁ = k₂

/-- **KSR-BUNDLE-KEYS.** The walk with the `seen` dictionary accepts exactly when every key of every
    bundle individually passes the new-key checks and an identifier denotes the same key everywhere. -/
theorem keysMatch_iff (req : Request) (pol : RequestPolicy) (hf : pol.keysMatchZskPolicy = true) :
    checkKeysMatchZskPolicy req pol = .ok () ↔
      (∀ k ∈ allKeys req, checkNewKey req pol k = .ok ()) ∧ IdentifierConsistent req := by
  unfold checkKeysMatchZskPolicy
  simp only [hf, Bool.not_true, Bool.false_eq_true, ↓reduceIte]
  rw [keysWalk_ok_iff req pol (allKeys req) [] (by intro a ha; simp at ha)]
  simp [IdentifierConsistent, IdConsistent]

/-- the same with the per-key clause in the property's vocabulary (self-consistent declared policy) -/
theorem keysMatch_iff_clause_partial (req : Request) (pol : RequestPolicy)
    (hf : pol.keysMatchZskPolicy = true) (hwf : DeclaredWellFormed req) :
    checkKeysMatchZskPolicy req pol = .ok () ↔
      (∀ k ∈ allKeys req, KeyClause req pol k) ∧ IdentifierConsistent req := by
  rw [keysMatch_iff req pol hf]
  apply and_congr_left'
  apply forall_congr'; intro k; apply imp_congr_right; intro _
  exact checkNewKey_iff_partial req pol k hwf

/-- **The verdict does not depend on the visiting order** (Python set iteration order, bundle
    order): any two requests with the same declared policy whose key lists are permutations of each
    other — indeed, that merely contain the same keys — are accepted or rejected together. -/
theorem keysMatch_perm (req req' : Request) (pol : RequestPolicy)
    (hz : req'.zskPolicy = req.zskPolicy) (hp : (allKeys req).Perm (allKeys req')) :
    checkKeysMatchZskPolicy req pol = .ok () ↔ checkKeysMatchZskPolicy req' pol = .ok () := by
  cases hf : pol.keysMatchZskPolicy
  · simp [checkKeysMatchZskPolicy, hf]
  · rw [keysMatch_iff req pol hf, keysMatch_iff req' pol hf]
    have hnk : ∀ k, checkNewKey req' pol k = checkNewKey req pol k := by
      intro k; simp only [checkNewKey, hz]
    unfold IdentifierConsistent
    constructor
    · rintro ⟨h1, h2⟩
      refine ⟨fun k hk => (hnk k) ▸ h1 k (hp.mem_iff.mpr hk), ?_⟩
      intro a ha b hb; exact h2 a (hp.mem_iff.mpr ha) b (hp.mem_iff.mpr hb)
    · rintro ⟨h1, h2⟩
      refine ⟨fun k hk => (hnk k) ▸ h1 k (hp.mem_iff.mp hk), ?_⟩
      intro a ha b hb; exact h2 a (hp.mem_iff.mp ha) b (hp.mem_iff.mp hb)

/-- re-ordering the keys inside each bundle permutes the visiting order -/
theorem allKeys_perm_of_bundles : ∀ (bs bs' : List Bundle), bs.length = bs'.length →
    (∀ (i : Nat) (b b' : Bundle), bs[i]? = some b → bs'[i]? = some b' → b.keys.Perm b'.keys) →
    ((bs.map (·.keys)).flatten).Perm ((bs'.map (·.keys)).flatten)
  | [], [], _, _ => by simp
  | [], _ :: _, h, _ => by simp at h
  | _ :: _, [], h, _ => by simp at h
  | b :: bs, b' :: bs', h, hk => by
    simp only [List.map_cons, List.flatten_cons]
    apply List.Perm.append
    · exact hk 0 b b' (by simp) (by simp)
    · apply allKeys_perm_of_bundles bs bs' (by simpa using h)
      intro i x x' hx hx'
      exact hk (i + 1) x x' (by simpa using hx) (by simpa using hx')

/-- set iteration order inside the bundles is irrelevant to KSR-BUNDLE-KEYS -/
theorem keysMatch_bundle_order (req req' : Request) (pol : RequestPolicy)
    (hz : req'.zskPolicy = req.zskPolicy) (hl : req.bundles.length = req'.bundles.length)
    (hk : ∀ (i : Nat) (b b' : Bundle), req.bundles[i]? = some b → req'.bundles[i]? = some b' →
      b.keys.Perm b'.keys) :
    checkKeysMatchZskPolicy req pol = .ok () ↔ checkKeysMatchZskPolicy req' pol = .ok () :=
  keysMatch_perm req req' pol hz (allKeys_perm_of_bundles _ _ hl hk)

/-! ## The composite -/

/-- the key, algorithm and header rules in the order `validate_request` runs them -/
def keyHeaderChecks (req : Request) (pol : RequestPolicy) : Res Unit := do
  checkDomain req pol
  checkUniqueIds req
  checkKeysMatchZskPolicy req pol
  checkKeysInBundles req pol
  checkZskPolicyAlgorithm req pol

/-- The documented region under a given assignment of the enable flags. -/
def KeyHeaderRegion (req : Request) (pol : RequestPolicy) : Prop :=
  DomainClause req pol ∧ UniqueIdsClause req ∧
  (pol.keysMatchZskPolicy = true →
    (∀ k ∈ allKeys req, checkNewKey req pol k = .ok ()) ∧ IdentifierConsistent req) ∧
  (pol.checkKeysMatchKskOperatorPolicy = true → KeyCountsClause req pol) ∧
  AlgorithmClause req pol

theorem keysMatch_flag_iff (req : Request) (pol : RequestPolicy) :
    checkKeysMatchZskPolicy req pol = .ok () ↔
      (pol.keysMatchZskPolicy = true →
        (∀ k ∈ allKeys req, checkNewKey req pol k = .ok ()) ∧ IdentifierConsistent req) := by
  cases hf : pol.keysMatchZskPolicy
  · simp [checkKeysMatchZskPolicy, hf]
  · simp [keysMatch_iff req pol hf]

/-- **C06.** For every request and every policy: the key, algorithm and header rules accept iff the
    request lies in the documented region (per-key acceptance as characterised by
    `checkNewKey_rsa_iff` / `checkNewKey_iff_partial`). -/
theorem C06_iff (req : Request) (pol : RequestPolicy) :
    keyHeaderChecks req pol = .ok () ↔ KeyHeaderRegion req pol := by
  unfold keyHeaderChecks KeyHeaderRegion
  simp only [seq_ok_iff, domain_iff, uniqueIds_iff, keysMatch_flag_iff, keysInBundles_iff,
    zskPolicyAlgorithm_iff]

/-- the region entirely in the property's vocabulary -/
def KeyHeaderRegionSpec (req : Request) (pol : RequestPolicy) : Prop :=
  DomainClause req pol ∧ UniqueIdsClause req ∧
  (pol.keysMatchZskPolicy = true → (∀ k ∈ allKeys req, KeyClause req pol k) ∧ IdentifierConsistent req) ∧
  (pol.checkKeysMatchKskOperatorPolicy = true → KeyCountsClause req pol) ∧
  AlgorithmClause req pol

/-- C06 with every clause spelled in the property's vocabulary, for self-consistent declared
    policies (every declared ECDSA/EdDSA entry carries an algorithm number of its family; all
    RSA-only requests, i.e. every archived KSR, satisfy this trivially). -/
theorem C06_iff_spec_partial (req : Request) (pol : RequestPolicy) (hwf : DeclaredWellFormed req) :
    keyHeaderChecks req pol = .ok () ↔ KeyHeaderRegionSpec req pol := by
  rw [C06_iff]
  unfold KeyHeaderRegion KeyHeaderRegionSpec
  apply and_congr_right; intro _
  apply and_congr_right; intro _
  apply and_congr_left'
  apply imp_congr_right; intro _
  apply and_congr_left'
  apply forall_congr'; intro k; apply imp_congr_right; intro _
  exact checkNewKey_iff_partial req pol k hwf

/-- **A switched-off check never rejects.** (`check_domain`, `check_unique_ids` and the first half
    of `check_zsk_policy_algorithm` have no switch.) -/
theorem C06_flags (req : Request) (pol : RequestPolicy) :
    (pol.keysMatchZskPolicy = false → checkKeysMatchZskPolicy req pol = .ok ()) ∧
    (pol.checkKeysMatchKskOperatorPolicy = false → checkKeysInBundles req pol = .ok ()) ∧
    (pol.signatureAlgorithmsMatchZskPolicy = false →
      (checkZskPolicyAlgorithm req pol = .ok () ↔ ∀ a ∈ req.zskPolicy.algorithms, AlgAllowed pol a.algorithm)) ∧
    (pol.validateSignatures = false → ∀ verify, checkProofOfPossession verify req pol = .ok ()) := by
  refine ⟨?_, ?_, ?_, ?_⟩ <;> intro h
  · simp [checkKeysMatchZskPolicy, h]
  · simp [checkKeysInBundles, h]
  · rw [zskPolicyAlgorithm_iff]; simp [AlgorithmClause, h]
  · intro v; simp [checkProofOfPossession, h]

/-- **Never masks another / C06 inside the full validation.** Given that the timing rules (C05) and
    proof of possession (C07) accept, the whole of `validate_request` accepts iff the request lies in
    the key/algorithm/header region. -/
theorem C06_in_validateRequest (verify : Verifier) (now : Int) (req : Request) (pol : RequestPolicy)
    (hother : checkProofOfPossession verify req pol = .ok () ∧ checkBundleCount req pol = .ok () ∧
      checkCycleDurations req pol = .ok () ∧ checkBundleOverlaps req pol = .ok () ∧
      checkSignatureValidity req pol = .ok () ∧ checkSignatureHorizon now req pol = .ok () ∧
      checkBundleIntervals req pol = .ok ()) :
    validateRequest verify now req pol = .ok () ↔ KeyHeaderRegion req pol := by
  rw [C05.validateRequest_ok_iff, ← C06_iff]
  unfold keyHeaderChecks
  simp only [seq_ok_iff]
  obtain ⟨h1, h2, h3, h4, h5, h6, h7⟩ := hother
  simp only [h1, h2, h3, h4, h5, h6, h7, true_and, and_true]

/-- and, conversely, an accepted request always lies in the region -/
theorem C06_accepted_in_region (verify : Verifier) (now : Int) (req : Request) (pol : RequestPolicy)
    (h : validateRequest verify now req pol = .ok ()) : KeyHeaderRegion req pol := by
  rw [C05.validateRequest_ok_iff] at h
  rw [← C06_iff]
  unfold keyHeaderChecks
  simp only [seq_ok_iff]
  exact ⟨h.1, h.2.1, h.2.2.1, h.2.2.2.2.2.2.1, h.2.2.2.2.2.2.2.1⟩

/-- the defaults regenerated from /repo: every C06 check on, ECDSA/EdDSA off, RSA-SHA-256 with
    2048 bits and exponent 65537, slots 2-1-1-1-1-1-1-1-2, three distinct keys, domain "." -/
theorem defaults_documented :
    KskmGen.requestPolicyDefaults.acceptableDomains = ["."] ∧
    KskmGen.requestPolicyDefaults.keysMatchZskPolicy = true ∧
    KskmGen.requestPolicyDefaults.rsaExponentMatchZskPolicy = true ∧
    KskmGen.requestPolicyDefaults.enableUnsupportedEcdsa = false ∧
    KskmGen.requestPolicyDefaults.enableUnsupportedEdwardsDsa = false ∧
    KskmGen.requestPolicyDefaults.signatureAlgorithmsMatchZskPolicy = true ∧
    KskmGen.requestPolicyDefaults.approvedAlgorithms = [some 8] ∧
    KskmGen.requestPolicyDefaults.rsaApprovedExponents = [65537] ∧
    KskmGen.requestPolicyDefaults.rsaApprovedKeySizes = [2048] ∧
    KskmGen.requestPolicyDefaults.checkKeysMatchKskOperatorPolicy = true ∧
    KskmGen.requestPolicyDefaults.numKeysPerBundle = [2, 1, 1, 1, 1, 1, 1, 1, 2] ∧
    KskmGen.requestPolicyDefaults.numDifferentKeysInAllBundles = 3 := by decide

/-! ## Non-vacuity -/

/-- a (toy-sized) RSA key: exponent 3, 64-bit modulus, RFC 3110 text `AQPFESIzRFVmdw==`, tag 38684 -/
def exKey (ident : String) : Key :=
  { keyIdentifier := ident, keyTag := 38684, ttl := 172800, flags := 256, protocol := 3,
    algorithm := 8, publicKey := "AQPFESIzRFVmdw==" }

/-- a second key (another modulus), tag computed by /repo's `calculate_key_tag` -/
def exKey2 : Key :=
  { keyIdentifier := "zsk2", keyTag := 38685, ttl := 172800, flags := 256, protocol := 3,
    algorithm := 8, publicKey := "AQPFESIzRFVmeA==" }

def exBundle (i : Nat) (keys : List Key) : Bundle :=
  { id := s!"b{i}", inception := 0, expiration := 0, keys := keys, signatures := [] }

def exReq : Request :=
  { id := "r", serial := 1, domain := ".",
    zskPolicy := { algorithms := [{ kind := .rsa, bits := 64, algorithm := 8, exponent := some 3 }] },
    bundles := [exBundle 0 [exKey "zsk1", exKey2], exBundle 1 [exKey "zsk1"], exBundle 2 [exKey2]] }

def exPol : RequestPolicy :=
  { KskmGen.requestPolicyDefaults with
    rsaApprovedKeySizes := [64], rsaApprovedExponents := [3], numKeysPerBundle := [2, 1, 1],
    numDifferentKeysInAllBundles := 2 }

example : keyHeaderChecks exReq exPol = .ok () := by decide +kernel
example : DeclaredWellFormed exReq := by
  intro a ha; simp [exReq] at ha; subst ha; simp
/-- the same public key under a second identifier in a later bundle is still accepted by
    KSR-BUNDLE-KEYS (an identifier denotes one key; a key may carry two identifiers) but changes the
    distinct-key count -/
example : checkKeysMatchZskPolicy { exReq with bundles := [exBundle 0 [exKey "zsk1"], exBundle 1 [exKey "other"]] } exPol
    = .ok () := by decide +kernel
/-- an identifier re-used for a different key in a later bundle is rejected -/
example : checkKeysMatchZskPolicy
    { exReq with bundles := [exBundle 0 [exKey "zsk1"], exBundle 1 [{ exKey2 with keyIdentifier := "zsk1" }]] } exPol
    = violation .bundleKeys := by decide +kernel
/-- tag off by one, flags 257: rejected -/
example : checkNewKey exReq exPol { exKey "zsk1" with keyTag := 38685 } = violation .bundleKeys := by
  decide +kernel
example : checkNewKey exReq exPol { exKey "zsk1" with flags := 257 } = violation .bundleKeys := by
  decide +kernel

/-- **Witness that `DeclaredWellFormed` cannot be dropped**: the same ECDSA key and the same declared
    *set* {ECDSA-P256/256, an `ECDSA` element carrying the EdDSA number 15}; visiting the proper
    entry first accepts, visiting the malformed entry first ends in an error.  (Replayed on /repo
    by the correspondence run: `ValueError` from `expected_ecdsa_key_size`.) -/
def exEcKey : Key :=
  { keyIdentifier := "ec", keyTag := 0, ttl := 0, flags := 256, protocol := 3, algorithm := 13,
    publicKey := "AAAAAAAAAAAAAAAAAAAAAAAAAAAAAAAAAAAAAAAAAAAAAAAAAAAAAAAAAAAAAAAAAAAAAAAAAAAAAAAAAAAAAA==" }
def exEcGood : AlgPolicy := { kind := .ecdsa, bits := 256, algorithm := 13 }
def exEcBad : AlgPolicy := { kind := .ecdsa, bits := 256, algorithm := 15 }

theorem ecdsa_declared_order_witness :
    keyParamsCheck { exReq with zskPolicy := { algorithms := [exEcGood, exEcBad] } } exPol exEcKey = .ok () ∧
    keyParamsCheck { exReq with zskPolicy := { algorithms := [exEcBad, exEcGood] } } exPol exEcKey = err .value := by
  decide +kernel


/-! ## What is true WITHOUT `DeclaredWellFormed`

  Verdict for the five `_partial` theorems above: the hypothesis is NECESSARY for each of them (the
  `_needed` theorems below refute the hypothesis-free statements on concrete inputs, which the
  correspondence run replays on /repo at `validate_request`), but only for the `←` direction.  Three
  hypothesis-free facts replace it:

  * `…_sound`      : acceptance always implies the documented clause (the `→` halves, every input);
  * `…_iff` / `C06_iff_spec` : the exact accepted region for every input, the "matching one declared
    algorithm" clause refined to say what /repo does with an ill-formed declared entry: the matching
    entry must be met, in the visiting order of the declared set, before any entry of the same element
    kind whose algorithm number is not of that kind (on such an entry /repo raises `ValueError`, which
    is a rejection, not a policy violation);
  * `C06_iff_spec_allowed`, `C06_iff_spec_families_off` : the UNREFINED documented region is exact under
    hypotheses strictly weaker than `DeclaredWellFormed` — in particular for every request whatsoever
    when ECDSA and EdDSA are not enabled (the default).

  The property text is silent on declared entries whose element kind contradicts their algorithm
  number: read literally ("parameters … matching one declared algorithm") the witness requests lie in
  the region and /repo does not accept them in one of the two visiting orders — recorded as the
  declared-entry-order observation of DESIGN §5 (proposed_fixes/C06_ec_declared_entry_order.diff).
-/

/-- ECDSA, refined: the matching declared entry is reached before any `<ECDSA>` entry carrying a
    non-ECDSA number (visiting order of the declared set). -/
def EcdsaParamsClauseOrdered (req : Request) (k : Key) : Prop :=
  ∃ pk, Base64.decode k.publicKey = some pk ∧
    ∃ pre a post, req.zskPolicy.algorithms = pre ++ a :: post ∧
      (∀ x ∈ pre, x.kind = .ecdsa → x.algorithm ∈ KskmGen.ecdsaAlgorithms) ∧
      a.kind = .ecdsa ∧ a.algorithm = k.algorithm ∧
      ∃ p, ecdsaWithoutPrefix pk a.algorithm = .ok p ∧ (getEcdsaPubkeySize p : Int) = a.bits

/-- EdDSA, refined in the same way. -/
def EddsaParamsClauseOrdered (req : Request) (k : Key) : Prop :=
  ∃ pk, Base64.decode k.publicKey = some pk ∧
    ∃ pre a post, req.zskPolicy.algorithms = pre ++ a :: post ∧
      (∀ x ∈ pre, x.kind = .eddsa → x.algorithm ∈ KskmGen.eddsaAlgorithms) ∧
      a.kind = .eddsa ∧ a.algorithm = k.algorithm ∧
      ∃ p, eddsaWithoutPrefix pk a.algorithm = .ok p ∧ ((p.length * 8 : Nat) : Int) = a.bits

theorem ecdsaOrdered_imp (req : Request) (k : Key) (h : EcdsaParamsClauseOrdered req k) :
    EcdsaParamsClause req k := by
  obtain ⟨pk, hd, pre, a, post, heq, _, h⟩ := h
  exact ⟨pk, hd, a, by simp [heq], h⟩

theorem eddsaOrdered_imp (req : Request) (k : Key) (h : EddsaParamsClauseOrdered req k) :
    EddsaParamsClause req k := by
  obtain ⟨pk, hd, pre, a, post, heq, _, h⟩ := h
  exact ⟨pk, hd, a, by simp [heq], h⟩

/-- **ECDSA keys, every declared set (no hypothesis).**  Supersedes `keyParams_ecdsa_iff_partial`. -/
theorem keyParams_ecdsa_iff (req : Request) (pol : RequestPolicy) (k : Key)
    (hal : isAlgorithmEcdsa k.algorithm = true) :
    keyParamsCheck req pol k = .ok () ↔ EcdsaParamsClauseOrdered req k := by
  have hr : isAlgorithmRsa k.algorithm = false := by
    simp only [isAlgorithmEcdsa, algECDSAP256, algECDSAP384, Bool.or_eq_true, beq_iff_eq] at hal
    rcases hal with h | h <;> rw [h] <;> decide
  unfold keyParamsCheck EcdsaParamsClauseOrdered
  simp only [hr, Bool.false_eq_true, ↓reduceIte, hal]
  cases hd : Base64.decode k.publicKey with
  | none => simp [unsupported]
  | some pk =>
    simp only [Option.some.injEq, exists_eq_left', ← isEcdsa_iff_table]
    rw [← matchEcdsaAlg_true_iff_ordered k pk]
    cases hm : matchEcdsaAlg req.zskPolicy.algorithms k pk with
    | error e => simp [bind, Except.bind]
    | ok m => cases m <;> simp [bind, Except.bind]

/-- **EdDSA keys, every declared set (no hypothesis).**  Supersedes `keyParams_eddsa_iff_partial`. -/
theorem keyParams_eddsa_iff (req : Request) (pol : RequestPolicy) (k : Key)
    (hal : isAlgorithmEddsa k.algorithm = true) :
    keyParamsCheck req pol k = .ok () ↔ EddsaParamsClauseOrdered req k := by
  have hr : isAlgorithmRsa k.algorithm = false ∧ isAlgorithmEcdsa k.algorithm = false := by
    simp only [isAlgorithmEddsa, algED25519, algED448, Bool.or_eq_true, beq_iff_eq] at hal
    rcases hal with h | h <;> rw [h] <;> decide
  unfold keyParamsCheck EddsaParamsClauseOrdered
  simp only [hr.1, hr.2, Bool.false_eq_true, ↓reduceIte, hal]
  cases hd : Base64.decode k.publicKey with
  | none => simp [unsupported]
  | some pk =>
    simp only [Option.some.injEq, exists_eq_left', ← isEddsa_iff_table]
    rw [← matchEddsaAlg_true_iff_ordered k pk]
    cases hm : matchEddsaAlg req.zskPolicy.algorithms k pk with
    | error e => simp [bind, Except.bind]
    | ok m => cases m <;> simp [bind, Except.bind]

/-- acceptance of an ECDSA key always implies the documented clause (no hypothesis) -/
theorem keyParams_ecdsa_sound (req : Request) (pol : RequestPolicy) (k : Key)
    (hal : isAlgorithmEcdsa k.algorithm = true) (h : keyParamsCheck req pol k = .ok ()) :
    EcdsaParamsClause req k :=
  ecdsaOrdered_imp req k ((keyParams_ecdsa_iff req pol k hal).mp h)

/-- acceptance of an EdDSA key always implies the documented clause (no hypothesis) -/
theorem keyParams_eddsa_sound (req : Request) (pol : RequestPolicy) (k : Key)
    (hal : isAlgorithmEddsa k.algorithm = true) (h : keyParamsCheck req pol k = .ok ()) :
    EddsaParamsClause req k :=
  eddsaOrdered_imp req k ((keyParams_eddsa_iff req pol k hal).mp h)

/-- the per-key clause with the refined ECDSA / EdDSA matching -/
def KeyClauseOrdered (req : Request) (pol : RequestPolicy) (k : Key) : Prop :=
  FlagsTagClause k ∧
  ((k.algorithm ∈ KskmGen.rsaAlgorithms ∧ RsaParamsClause req pol k) ∨
   (k.algorithm ∈ KskmGen.ecdsaAlgorithms ∧ EcdsaParamsClauseOrdered req k) ∨
   (k.algorithm ∈ KskmGen.eddsaAlgorithms ∧ EddsaParamsClauseOrdered req k))

theorem keyClauseOrdered_imp (req : Request) (pol : RequestPolicy) (k : Key)
    (h : KeyClauseOrdered req pol k) : KeyClause req pol k := by
  obtain ⟨h1, h2⟩ := h
  refine ⟨h1, ?_⟩
  rcases h2 with h | h | h
  · exact Or.inl h
  · exact Or.inr (Or.inl ⟨h.1, ecdsaOrdered_imp _ _ h.2⟩)
  · exact Or.inr (Or.inr ⟨h.1, eddsaOrdered_imp _ _ h.2⟩)

/-- **New-key checks, every key family, every declared set (no hypothesis).**
    Supersedes `checkNewKey_iff_partial`. -/
theorem checkNewKey_iff (req : Request) (pol : RequestPolicy) (k : Key) :
    checkNewKey req pol k = .ok () ↔ KeyClauseOrdered req pol k := by
  rw [checkNewKey_eq, seq_ok_iff, keyFlagsTag_iff, and_comm]
  unfold KeyClauseOrdered
  apply and_congr_right; intro _
  rw [← isRsa_iff_table, ← isEcdsa_iff_table, ← isEddsa_iff_table]
  by_cases h1 : isAlgorithmRsa k.algorithm = true
  · have h2 : isAlgorithmEcdsa k.algorithm = false ∧ isAlgorithmEddsa k.algorithm = false := by
      simp only [isAlgorithmRsa, algRSASHA1, algRSASHA256, algRSASHA512, Bool.or_eq_true, beq_iff_eq] at h1
      rcases h1 with (h | h) | h <;> rw [h] <;> decide
    simp [h1, h2.1, h2.2, keyParams_rsa_iff req pol k h1]
  · have h1f : isAlgorithmRsa k.algorithm = false := by simpa using h1
    by_cases h2 : isAlgorithmEcdsa k.algorithm = true
    · have h3 : isAlgorithmEddsa k.algorithm = false := by
        simp only [isAlgorithmEcdsa, algECDSAP256, algECDSAP384, Bool.or_eq_true, beq_iff_eq] at h2
        rcases h2 with h | h <;> rw [h] <;> decide
      simp [h1f, h2, h3, keyParams_ecdsa_iff req pol k h2]
    · have h2f : isAlgorithmEcdsa k.algorithm = false := by simpa using h2
      by_cases h3 : isAlgorithmEddsa k.algorithm = true
      · simp [h1f, h2f, h3, keyParams_eddsa_iff req pol k h3]
      · have h3f : isAlgorithmEddsa k.algorithm = false := by simpa using h3
        simp [h1f, h2f, h3f, keyParams_other_rejects req pol k h1f h2f h3f]

/-- acceptance of a new key always implies the documented per-key clause (no hypothesis) -/
theorem checkNewKey_sound (req : Request) (pol : RequestPolicy) (k : Key)
    (h : checkNewKey req pol k = .ok ()) : KeyClause req pol k :=
  keyClauseOrdered_imp req pol k ((checkNewKey_iff req pol k).mp h)

/-- **KSR-BUNDLE-KEYS in the property's vocabulary, every declared set (no hypothesis).**
    Supersedes `keysMatch_iff_clause_partial`. -/
theorem keysMatch_iff_clause (req : Request) (pol : RequestPolicy) (hf : pol.keysMatchZskPolicy = true) :
    checkKeysMatchZskPolicy req pol = .ok () ↔
      (∀ k ∈ allKeys req, KeyClauseOrdered req pol k) ∧ IdentifierConsistent req := by
  rw [keysMatch_iff req pol hf]
  apply and_congr_left'
  apply forall_congr'; intro k; apply imp_congr_right; intro _
  exact checkNewKey_iff req pol k

/-- the documented region with the refined matching clause -/
def KeyHeaderRegionSpecOrdered (req : Request) (pol : RequestPolicy) : Prop :=
  DomainClause req pol ∧ UniqueIdsClause req ∧
  (pol.keysMatchZskPolicy = true →
    (∀ k ∈ allKeys req, KeyClauseOrdered req pol k) ∧ IdentifierConsistent req) ∧
  (pol.checkKeysMatchKskOperatorPolicy = true → KeyCountsClause req pol) ∧
  AlgorithmClause req pol

/-- **C06, every request, every policy, every clause in the property's vocabulary, no hypothesis.**
    Supersedes `C06_iff_spec_partial` (which follows: under `DeclaredWellFormed` the `pre` condition of
    the refined clause is vacuous). -/
theorem C06_iff_spec (req : Request) (pol : RequestPolicy) :
    keyHeaderChecks req pol = .ok () ↔ KeyHeaderRegionSpecOrdered req pol := by
  rw [C06_iff]
  unfold KeyHeaderRegion KeyHeaderRegionSpecOrdered
  apply and_congr_right; intro _
  apply and_congr_right; intro _
  apply and_congr_left'
  apply imp_congr_right; intro _
  apply and_congr_left'
  apply forall_congr'; intro k; apply imp_congr_right; intro _
  exact checkNewKey_iff req pol k

theorem regionOrdered_imp (req : Request) (pol : RequestPolicy) (h : KeyHeaderRegionSpecOrdered req pol) :
    KeyHeaderRegionSpec req pol := by
  obtain ⟨h1, h2, h3, h4, h5⟩ := h
  exact ⟨h1, h2, fun hf => ⟨fun k hk => keyClauseOrdered_imp req pol k ((h3 hf).1 k hk), (h3 hf).2⟩, h4, h5⟩

/-- **Accepted ⇒ inside the documented region**, every request, every policy (no hypothesis): the
    `→` half of `C06_iff_spec_partial` never needed `DeclaredWellFormed`. -/
theorem C06_spec_sound (req : Request) (pol : RequestPolicy) (h : keyHeaderChecks req pol = .ok ()) :
    KeyHeaderRegionSpec req pol :=
  regionOrdered_imp req pol ((C06_iff_spec req pol).mp h)

/-- an ill-formed declared entry matters only if the algorithm clause lets its number through -/
def DeclaredWellFormedWhereAllowed (req : Request) (pol : RequestPolicy) : Prop :=
  ∀ a ∈ req.zskPolicy.algorithms, AlgAllowed pol a.algorithm →
    (a.kind = .ecdsa → a.algorithm ∈ KskmGen.ecdsaAlgorithms) ∧
    (a.kind = .eddsa → a.algorithm ∈ KskmGen.eddsaAlgorithms)

theorem declaredWellFormed_imp_whereAllowed (req : Request) (pol : RequestPolicy)
    (h : DeclaredWellFormed req) : DeclaredWellFormedWhereAllowed req pol :=
  fun a ha _ => h a ha

/-- **C06 against the unrefined documented region under a hypothesis strictly weaker than
    `DeclaredWellFormed`**: needed only when KSR-BUNDLE-KEYS is switched on, and only of declared
    entries whose algorithm number is allowed under the policy. -/
theorem C06_iff_spec_allowed (req : Request) (pol : RequestPolicy)
    (hwf : pol.keysMatchZskPolicy = true → DeclaredWellFormedWhereAllowed req pol) :
    keyHeaderChecks req pol = .ok () ↔ KeyHeaderRegionSpec req pol := by
  constructor
  · exact C06_spec_sound req pol
  · intro h
    cases hf : pol.keysMatchZskPolicy
    · rw [C06_iff]
      obtain ⟨h1, h2, _, h4, h5⟩ := h
      unfold KeyHeaderRegion
      refine ⟨h1, h2, ?_, h4, h5⟩
      intro hc; rw [hf] at hc; cases hc
    · have hd : DeclaredWellFormed req := fun a ha => hwf hf a ha (h.2.2.2.2.1 a ha)
      exact (C06_iff_spec_partial req pol hd).mpr h

/-- **With ECDSA and EdDSA not enabled (the default) the unrefined documented region is exact for
    every request whatsoever**: no hypothesis on the declared entries. -/
theorem C06_iff_spec_families_off (req : Request) (pol : RequestPolicy)
    (hec : pol.enableUnsupportedEcdsa = false) (hed : pol.enableUnsupportedEdwardsDsa = false) :
    keyHeaderChecks req pol = .ok () ↔ KeyHeaderRegionSpec req pol := by
  constructor
  · exact C06_spec_sound req pol
  · intro h
    rw [C06_iff]
    obtain ⟨h1, h2, h3, h4, h5⟩ := h
    refine ⟨h1, h2, fun hf => ⟨fun k hk => ?_, (h3 hf).2⟩, h4, h5⟩
    obtain ⟨hft, hpar⟩ := (h3 hf).1 k hk
    rcases hpar with ⟨hr, hp⟩ | ⟨he, pk, _, a, ha, _, hak, _⟩ | ⟨he, pk, _, a, ha, _, hak, _⟩
    · exact (checkNewKey_rsa_iff req pol k hr).mpr ⟨hft, hp⟩
    · have := (h5.1 a ha).2.2.1 (hak ▸ he)
      rw [hec] at this; cases this
    · have := (h5.1 a ha).2.2.2 (hak ▸ he)
      rw [hed] at this; cases this

/-! ### Witnesses: the hypothesis of each `_partial` theorem is necessary -/

/-- the ECDSA key of `ecdsa_declared_order_witness` with its RFC 4034 tag (64 zero octets, P-256) -/
def wEcKey : Key := { exEcKey with keyTag := 1037 }
/-- an Ed25519 key (32 zero octets) with its tag, and a well-formed / an ill-formed `<EdDSA>` entry -/
def wEdKey : Key :=
  { keyIdentifier := "ed", keyTag := 1039, ttl := 0, flags := 256, protocol := 3, algorithm := 15,
    publicKey := "AAAAAAAAAAAAAAAAAAAAAAAAAAAAAAAAAAAAAAAAAAA=" }
def exEdGood : AlgPolicy := { kind := .eddsa, bits := 256, algorithm := 15 }
def exEdBad : AlgPolicy := { kind := .eddsa, bits := 256, algorithm := 13 }

/-- one bundle, one ECDSA key; declared set visited as [`<ECDSA>` with number 15, ECDSA-P256/256] -/
def wEcReq : Request :=
  { id := "w", serial := 1, domain := ".", zskPolicy := { algorithms := [exEcBad, exEcGood] },
    bundles := [exBundle 0 [wEcKey]] }
/-- one bundle, one Ed25519 key; declared set visited as [`<EdDSA>` with number 13, Ed25519/256] -/
def wEdReq : Request :=
  { id := "w", serial := 1, domain := ".", zskPolicy := { algorithms := [exEdBad, exEdGood] },
    bundles := [exBundle 0 [wEdKey]] }
/-- every C06 check on, both experimental families enabled and approved -/
def wPol : RequestPolicy :=
  { KskmGen.requestPolicyDefaults with
    enableUnsupportedEcdsa := true, enableUnsupportedEdwardsDsa := true,
    approvedAlgorithms := [some 13, some 15], numKeysPerBundle := [1], numDifferentKeysInAllBundles := 1 }

theorem wEc_decode : Base64.decode wEcKey.publicKey = some (List.replicate 64 0) := by decide +kernel
theorem wEd_decode : Base64.decode wEdKey.publicKey = some (List.replicate 32 0) := by decide +kernel

/-- the witness key satisfies the documented ECDSA clause: it matches the declared ECDSA-P256/256 -/
theorem wEc_clause : EcdsaParamsClause wEcReq wEcKey :=
  ⟨_, wEc_decode, exEcGood, by simp [wEcReq], rfl, rfl, List.replicate 64 0, by decide +kernel, by decide +kernel⟩

theorem wEd_clause : EddsaParamsClause wEdReq wEdKey :=
  ⟨_, wEd_decode, exEdGood, by simp [wEdReq], rfl, rfl, List.replicate 32 0, by decide +kernel, by decide +kernel⟩

theorem wEc_keyClause : KeyClause wEcReq wPol wEcKey :=
  ⟨(keyFlagsTag_iff _).mp (by decide +kernel), Or.inr (Or.inl ⟨by decide, wEc_clause⟩)⟩

theorem wEd_keyClause : KeyClause wEdReq wPol wEdKey :=
  ⟨(keyFlagsTag_iff _).mp (by decide +kernel), Or.inr (Or.inr ⟨by decide, wEd_clause⟩)⟩

/-- **`keyParams_ecdsa_iff_partial` needs its hypothesis**: the key matches a declared algorithm, the
    model (and /repo: `ValueError`) does not accept it. -/
theorem keyParams_ecdsa_iff_needed :
    ¬ ∀ (req : Request) (pol : RequestPolicy) (k : Key), isAlgorithmEcdsa k.algorithm = true →
        (keyParamsCheck req pol k = .ok () ↔ EcdsaParamsClause req k) := by
  intro h
  have := (h wEcReq wPol wEcKey (by decide)).mpr wEc_clause
  exact absurd this (by decide +kernel)

/-- **`keyParams_eddsa_iff_partial` needs its hypothesis.** -/
theorem keyParams_eddsa_iff_needed :
    ¬ ∀ (req : Request) (pol : RequestPolicy) (k : Key), isAlgorithmEddsa k.algorithm = true →
        (keyParamsCheck req pol k = .ok () ↔ EddsaParamsClause req k) := by
  intro h
  have := (h wEdReq wPol wEdKey (by decide)).mpr wEd_clause
  exact absurd this (by decide +kernel)

/-- **`checkNewKey_iff_partial` needs its hypothesis.** -/
theorem checkNewKey_iff_needed :
    ¬ ∀ (req : Request) (pol : RequestPolicy) (k : Key),
        (checkNewKey req pol k = .ok () ↔ KeyClause req pol k) := by
  intro h
  have := (h wEcReq wPol wEcKey).mpr wEc_keyClause
  exact absurd this (by decide +kernel)

theorem wEc_allKeys : allKeys wEcReq = [wEcKey] := rfl
theorem wEd_allKeys : allKeys wEdReq = [wEdKey] := rfl

theorem wEc_keys : (∀ k ∈ allKeys wEcReq, KeyClause wEcReq wPol k) ∧ IdentifierConsistent wEcReq := by
  unfold IdentifierConsistent
  rw [wEc_allKeys]
  refine ⟨fun k hk => ?_, fun a ha b hb _ => ?_⟩
  · rw [List.mem_singleton.mp hk]; exact wEc_keyClause
  · rw [List.mem_singleton.mp ha, List.mem_singleton.mp hb]

theorem wEd_keys : (∀ k ∈ allKeys wEdReq, KeyClause wEdReq wPol k) ∧ IdentifierConsistent wEdReq := by
  unfold IdentifierConsistent
  rw [wEd_allKeys]
  refine ⟨fun k hk => ?_, fun a ha b hb _ => ?_⟩
  · rw [List.mem_singleton.mp hk]; exact wEd_keyClause
  · rw [List.mem_singleton.mp ha, List.mem_singleton.mp hb]

/-- **`keysMatch_iff_clause_partial` needs its hypothesis.** -/
theorem keysMatch_iff_clause_needed :
    ¬ ∀ (req : Request) (pol : RequestPolicy), pol.keysMatchZskPolicy = true →
        (checkKeysMatchZskPolicy req pol = .ok () ↔
          (∀ k ∈ allKeys req, KeyClause req pol k) ∧ IdentifierConsistent req) := by
  intro h
  have := (h wEcReq wPol (by decide)).mpr wEc_keys
  exact absurd this (by decide +kernel)

/-- the ECDSA witness request lies in the documented region as literally stated -/
theorem wEc_region : KeyHeaderRegionSpec wEcReq wPol :=
  ⟨(domain_iff _ _).mp (by decide +kernel), (uniqueIds_iff _).mp (by decide +kernel), fun _ => wEc_keys,
   (keysInBundles_iff _ _).mp (by decide +kernel), (zskPolicyAlgorithm_iff _ _).mp (by decide +kernel)⟩

/-- the EdDSA witness request lies in the documented region as literally stated -/
theorem wEd_region : KeyHeaderRegionSpec wEdReq wPol :=
  ⟨(domain_iff _ _).mp (by decide +kernel), (uniqueIds_iff _).mp (by decide +kernel), fun _ => wEd_keys,
   (keysInBundles_iff _ _).mp (by decide +kernel), (zskPolicyAlgorithm_iff _ _).mp (by decide +kernel)⟩

/-- **`C06_iff_spec_partial` needs a hypothesis**: a whole request inside the documented region as
    literally stated (domain, unique ids, counts, every declared algorithm allowed and approved, the
    key's flags, tag and parameters matching one declared algorithm) that the rules do not accept. -/
theorem C06_iff_spec_needed :
    ¬ ∀ (req : Request) (pol : RequestPolicy),
        (keyHeaderChecks req pol = .ok () ↔ KeyHeaderRegionSpec req pol) := by
  intro h
  have := (h wEcReq wPol).mpr wEc_region
  exact absurd this (by decide +kernel)

/-- the outcome on both witnesses is a non-policy error (`ValueError` on /repo), and the same declared
    sets visited in the other order are accepted -/
theorem witnesses_outcome :
    keyHeaderChecks wEcReq wPol = err .value ∧ keyHeaderChecks wEdReq wPol = err .value ∧
    keyHeaderChecks { wEcReq with zskPolicy := { algorithms := [exEcGood, exEcBad] } } wPol = .ok () ∧
    keyHeaderChecks { wEdReq with zskPolicy := { algorithms := [exEdGood, exEdBad] } } wPol = .ok () := by
  decide +kernel

/-- neither `DeclaredWellFormedWhereAllowed` nor the families-off hypothesis holds of the witnesses
    (as it must be), and both weaker hypotheses are satisfiable where `DeclaredWellFormed` is not -/
example : ¬ DeclaredWellFormedWhereAllowed wEcReq wPol := by
  intro h
  have := (h exEcBad (by simp [wEcReq]) ((algAllowed_iff_allowedB _ _).mpr (by decide +kernel))).1 rfl
  revert this; decide
/-- an ill-formed declared entry with a number that is not allowed (ECDSA element, number 15, EdDSA
    not enabled): `DeclaredWellFormed` fails, `DeclaredWellFormedWhereAllowed` holds, and so does the
    families-off hypothesis under the defaults -/
example : ¬ DeclaredWellFormed wEcReq := by
  intro h; have := (h exEcBad (by simp [wEcReq])).1 rfl; revert this; decide
example : DeclaredWellFormedWhereAllowed wEcReq { wPol with enableUnsupportedEdwardsDsa := false } := by
  intro a ha hall
  simp only [wEcReq, List.mem_cons, List.mem_singleton, List.not_mem_nil, or_false] at ha
  rcases ha with rfl | rfl
  · exfalso
    have := (algAllowed_iff_allowedB _ _).mp hall
    revert this; decide +kernel
  · exact ⟨fun _ => by decide, fun h => by cases h⟩
example : KskmGen.requestPolicyDefaults.enableUnsupportedEcdsa = false ∧
    KskmGen.requestPolicyDefaults.enableUnsupportedEdwardsDsa = false := by decide
/-- the refined clause is met by the witness visited in the good order -/
example : EcdsaParamsClauseOrdered { wEcReq with zskPolicy := { algorithms := [exEcGood, exEcBad] } } wEcKey :=
  ⟨_, wEc_decode, [], exEcGood, [exEcBad], rfl, by simp, rfl, rfl, List.replicate 64 0,
    by decide +kernel, by decide +kernel⟩


/-! ### The refined region coincides with the documented one on well-formed declared policies -/

theorem ecdsaOrdered_of_wellFormed (req : Request) (k : Key) (hwf : DeclaredWellFormed req)
    (h : EcdsaParamsClause req k) : EcdsaParamsClauseOrdered req k := by
  obtain ⟨pk, hd, a, ha, h⟩ := h
  obtain ⟨pre, post, heq⟩ := List.append_of_mem ha
  exact ⟨pk, hd, pre, a, post, heq,
    fun x hx hk => (hwf x (by rw [heq]; exact List.mem_append_left _ hx)).1 hk, h⟩

theorem eddsaOrdered_of_wellFormed (req : Request) (k : Key) (hwf : DeclaredWellFormed req)
    (h : EddsaParamsClause req k) : EddsaParamsClauseOrdered req k := by
  obtain ⟨pk, hd, a, ha, h⟩ := h
  obtain ⟨pre, post, heq⟩ := List.append_of_mem ha
  exact ⟨pk, hd, pre, a, post, heq,
    fun x hx hk => (hwf x (by rw [heq]; exact List.mem_append_left _ hx)).2 hk, h⟩

/-- on a self-consistent declared policy the refinement says nothing new … -/
theorem keyClauseOrdered_iff_of_wellFormed (req : Request) (pol : RequestPolicy) (k : Key)
    (hwf : DeclaredWellFormed req) : KeyClauseOrdered req pol k ↔ KeyClause req pol k := by
  constructor
  · exact keyClauseOrdered_imp req pol k
  · rintro ⟨h1, h2⟩
    refine ⟨h1, ?_⟩
    rcases h2 with h | h | h
    · exact Or.inl h
    · exact Or.inr (Or.inl ⟨h.1, ecdsaOrdered_of_wellFormed req k hwf h.2⟩)
    · exact Or.inr (Or.inr ⟨h.1, eddsaOrdered_of_wellFormed req k hwf h.2⟩)

/-- … so `C06_iff_spec` restricted to `DeclaredWellFormed` IS `C06_iff_spec_partial`: the
    hypothesis-free theorem is strictly stronger, the refined region is the documented region
    wherever the latter is well defined (and does not depend on the visiting order there). -/
theorem regionOrdered_iff_of_wellFormed (req : Request) (pol : RequestPolicy)
    (hwf : DeclaredWellFormed req) :
    KeyHeaderRegionSpecOrdered req pol ↔ KeyHeaderRegionSpec req pol := by
  unfold KeyHeaderRegionSpecOrdered KeyHeaderRegionSpec
  apply and_congr_right; intro _
  apply and_congr_right; intro _
  apply and_congr_left'
  apply imp_congr_right; intro _
  apply and_congr_left'
  apply forall_congr'; intro k; apply imp_congr_right; intro _
  exact keyClauseOrdered_iff_of_wellFormed req pol k hwf

example : DeclaredWellFormed exReq ∧ KeyHeaderRegionSpecOrdered exReq exPol ∧
    exPol.enableUnsupportedEcdsa = false ∧ exPol.enableUnsupportedEdwardsDsa = false :=
  ⟨fun a ha => by simp [exReq] at ha; subst ha; simp, (C06_iff_spec _ _).mp (by decide +kernel),
   by decide, by decide⟩


/-! ### … and the hypothesis is discharged for every request the KSR parser builds

  `_parse_signature_algorithms` chooses the element (`RSA` / `ECDSA` / `EdDSA`) by the algorithm NUMBER,
  so a declared entry whose element kind contradicts its number cannot come out of a KSR file (the
  parser raises `KeyError`, fail-closed; replayed exhaustively on /repo by `parser_stream` of
  corr_C06.py).  At the property's observation point (`load_ksr`) the documented region as literally
  stated is therefore exact; the `_needed` witnesses exist only as hand-built `Request` objects. -/

theorem declaredWellFormed_of_parsed (gs : Xml.GlueSwitches) (data : Xml.XVal) (req : Request)
    (h : Xml.requestFromDict gs data = .ok req) : DeclaredWellFormed req := by
  intro a ha
  have := requestFromDict_wf gs data req h a ha
  exact ⟨fun hk => (isEcdsa_iff_table _).mp (this.1 hk), fun hk => (isEddsa_iff_table _).mp (this.2 hk)⟩

/-- **C06 for every request built by the KSR parser, every policy: the rules accept iff the request
    lies in the documented region as literally stated** (no hypothesis on the declared set). -/
theorem C06_iff_spec_parsed (gs : Xml.GlueSwitches) (data : Xml.XVal) (req : Request) (pol : RequestPolicy)
    (h : Xml.requestFromDict gs data = .ok req) :
    keyHeaderChecks req pol = .ok () ↔ KeyHeaderRegionSpec req pol :=
  C06_iff_spec_partial req pol (declaredWellFormed_of_parsed gs data req h)

def pS (x : String) : Xml.XVal := .str x.toList
def pD (kvs : List (String × Xml.XVal)) : Xml.XVal := .dict (kvs.map fun p => (p.1.toList, p.2))
/-- a KSR (no bundles) declaring `<SignatureAlgorithm algorithm=number><ECDSA size="256"/>` -/
def exKsrDict (number : String) : Xml.XVal :=
  pD [("KSR", pD [("attrs", pD [("id", pS "4fe9bb10"), ("serial", pS "99"), ("domain", pS ".")]),
    ("value", pD [("Request", pD [("RequestPolicy", pD [("ZSK", pD [
      ("PublishSafety", pS "P10D"), ("RetireSafety", pS "P10D"), ("MaxSignatureValidity", pS "P21D"),
      ("MinSignatureValidity", pS "P21D"), ("MaxValidityOverlap", pS "P12D"), ("MinValidityOverlap", pS "P9D"),
      ("SignatureAlgorithm", pD [("attrs", pD [("algorithm", pS number)]),
        ("value", pD [("ECDSA", pD [("attrs", pD [("size", pS "256")]), ("value", pS "")])])])])])])])])]

/-- the hypothesis is satisfiable (an ECDSA element with an ECDSA number parses to the well-formed
    entry), and the ill-formed entry of the witnesses is refused by the parser -/
example : (Xml.requestFromDict Xml.pyGlueSwitches (exKsrDict "13")).map (·.zskPolicy.algorithms) = .ok [exEcGood] ∧
    Xml.requestFromDict Xml.pyGlueSwitches (exKsrDict "15") = err .key :=
  ⟨by decide +kernel, by decide +kernel⟩

end Kskm.C06
