/-
  C04 — a KSK signs only inside its validity window and only if it is the configured key.

  Every theorem is for EVERY token `tok` (any contents, any fault plan) and every state `s` unless
  it names the healthy token `storeToken`.  Helper lemmas and the views `acceptKey`,
  `refetchPublic`, `WindowViolated` are in KskmProofs/Lemmas/Hsm.lean and HsmLoad.lean, each tied to
  the model by a proved equation (`loadPkcs11Key_inside`, `acceptKeyM_eq`).
-/
import Kskm.Signer
import KskmProofs.Lemmas.TokM
import KskmProofs.Lemmas.HsmLoad
import KskmProofs.Lemmas.HsmNoViol
import KskmProofs.Lemmas.SignerInv
import KskmProofs.C14
import KskmProofs.C15
namespace Kskm.C04

/-- **Before the window: refused without touching the token.** For every token and state, a key
    whose `valid_from` is after the bundle's inception yields the key-usage violation and the
    operation log is unchanged (in particular no private-key operation). -/
theorem not_yet_valid_refused (mods : List P11Module) (ksk : KskKey) (pol : KskPolicy) (b : Bundle)
    (isPublic : Bool) (tok : Token) (s : TokState) (h : ksk.validFrom > b.inception) :
    loadPkcs11Key mods ksk pol b isPublic tok s = (.error (.violation .keyUsage), s) := by
  simp [loadPkcs11Key, h, bind, TokM.fail]

/-- **After the window: refused without touching the token.** -/
theorem expired_refused (mods : List P11Module) (ksk : KskKey) (pol : KskPolicy) (b : Bundle)
    (isPublic : Bool) (tok : Token) (s : TokState) (u : Int) (hu : ksk.validUntil = some u)
    (h : u < b.expiration) (h0 : ¬ ksk.validFrom > b.inception) :
    loadPkcs11Key mods ksk pol b isPublic tok s = (.error (.violation .keyUsage), s) := by
  simp [loadPkcs11Key, h0, hu, h, bind, TokM.fail]

/-! ## The window -/

/-- the documented window: inception not before valid-from, expiration not after valid-until (when set) -/
def InWindow (ksk : KskKey) (b : Bundle) : Prop :=
  ksk.validFrom ≤ b.inception ∧ ∀ u, ksk.validUntil = some u → b.expiration ≤ u

theorem inWindow_iff (ksk : KskKey) (b : Bundle) : InWindow ksk b ↔ ¬ WindowViolated ksk b := by
  unfold InWindow WindowViolated
  constructor
  · rintro ⟨h1, h2⟩ (h | ⟨u, hu, h⟩)
    · omega
    · have := h2 u hu; omega
  · intro h
    refine ⟨?_, ?_⟩
    · apply Int.not_lt.mp; exact fun x => h (Or.inl x)
    · intro u hu; apply Int.not_lt.mp; exact fun x => h (Or.inr ⟨u, hu, x⟩)

/-- **A key is loaded only inside its window** (boundaries included). -/
theorem loaded_implies_window (mods : List P11Module) (ksk : KskKey) (pol : KskPolicy) (b : Bundle)
    (isPublic : Bool) (tok : Token) (s s' : TokState) (ck : CompositeKey)
    (h : loadPkcs11Key mods ksk pol b isPublic tok s = (.ok (some ck), s')) :
    ksk.validFrom ≤ b.inception ∧ ∀ u, ksk.validUntil = some u → b.expiration ≤ u :=
  (inWindow_iff ksk b).mpr (loadPkcs11Key_some mods ksk pol b isPublic tok s s' ck h).1

/-- **Outside the window: the key-usage violation, and the token is not touched** (`s' = s`):
    both ends in one statement. -/
theorem outside_window_refused (mods : List P11Module) (ksk : KskKey) (pol : KskPolicy) (b : Bundle)
    (isPublic : Bool) (tok : Token) (s : TokState) (h : ¬ InWindow ksk b) :
    loadPkcs11Key mods ksk pol b isPublic tok s = (.error (.violation .keyUsage), s) := by
  have : WindowViolated ksk b := Classical.byContradiction fun hn => h ((inWindow_iff ksk b).mpr hn)
  exact loadPkcs11Key_violated mods ksk pol b isPublic tok s this

/-- **Inside the window the window plays no further role**: the outcome (and the log) is that for
    the same key with the widest window. -/
theorem window_only_gates (mods : List P11Module) (ksk : KskKey) (pol : KskPolicy) (b : Bundle)
    (isPublic : Bool) (tok : Token) (s : TokState) (h : InWindow ksk b) :
    loadPkcs11Key mods ksk pol b isPublic tok s =
      loadPkcs11Key mods { ksk with validFrom := b.inception, validUntil := none } pol b isPublic tok s := by
  rw [loadPkcs11Key_inside _ _ _ _ _ _ _ ((inWindow_iff ksk b).mp h),
    loadPkcs11Key_inside _ _ _ _ _ _ _ (by
      rintro (h | ⟨u, hu, _⟩)
      · exact absurd h (Int.lt_irrefl _)
      · simp at hu)]
  rfl

/-- **Boundary: `valid_from = inception` is accepted** (not a violation; the token decides). -/
theorem boundary_valid_from_accepted (mods : List P11Module) (ksk : KskKey) (pol : KskPolicy)
    (b : Bundle) (isPublic : Bool) (tok : Token) (s : TokState) (h : ksk.validFrom = b.inception)
    (hu : ∀ u, ksk.validUntil = some u → b.expiration ≤ u) :
    InWindow ksk b ∧ loadPkcs11Key mods ksk pol b isPublic tok s =
      loadPkcs11Key mods { ksk with validFrom := b.inception, validUntil := none } pol b isPublic tok s :=
  have hw : InWindow ksk b := ⟨by omega, hu⟩
  ⟨hw, window_only_gates mods ksk pol b isPublic tok s hw⟩

/-- **Boundary: `valid_until = expiration` is accepted.** -/
theorem boundary_valid_until_accepted (mods : List P11Module) (ksk : KskKey) (pol : KskPolicy)
    (b : Bundle) (isPublic : Bool) (tok : Token) (s : TokState) (h0 : ksk.validFrom ≤ b.inception)
    (hu : ksk.validUntil = some b.expiration) :
    InWindow ksk b ∧ loadPkcs11Key mods ksk pol b isPublic tok s =
      loadPkcs11Key mods { ksk with validFrom := b.inception, validUntil := none } pol b isPublic tok s :=
  have hw : InWindow ksk b := ⟨h0, fun u hu' => by rw [hu] at hu'; simp at hu'; omega⟩
  ⟨hw, window_only_gates mods ksk pol b isPublic tok s hw⟩

/-- one second outside either end is a violation (the other side of the two boundaries) -/
theorem boundary_strict (mods : List P11Module) (ksk : KskKey) (pol : KskPolicy) (b : Bundle)
    (isPublic : Bool) (tok : Token) (s : TokState)
    (h : ksk.validFrom = b.inception + 1 ∨ ksk.validUntil = some (b.expiration - 1)) :
    loadPkcs11Key mods ksk pol b isPublic tok s = (.error (.violation .keyUsage), s) := by
  apply outside_window_refused
  rintro ⟨h1, h2⟩
  rcases h with h | h
  · omega
  · have := h2 _ h; omega


/-- **C04_window_iff.** The key-usage violation is reported exactly when the bundle lies outside
    the window — and no other policy violation is ever reported by `load_pkcs11_key`: every other
    failure (token error, duplicate label, wrong size/exponent/family, undecodable key) is a
    non-policy error. -/
theorem C04_window_iff (mods : List P11Module) (ksk : KskKey) (pol : KskPolicy) (b : Bundle)
    (isPublic : Bool) (tok : Token) (s : TokState) (rule : Rule) :
    (loadPkcs11Key mods ksk pol b isPublic tok s).1 = .error (.violation rule) ↔
      rule = .keyUsage ∧ ¬ InWindow ksk b := by
  constructor
  · intro h
    by_cases hw : InWindow ksk b
    · rw [loadPkcs11Key_inside _ _ _ _ _ _ _ ((inWindow_iff ksk b).mp hw)] at h
      exact absurd h (loadAfterWindow_noViol mods ksk pol isPublic tok s rule)
    · rw [outside_window_refused mods ksk pol b isPublic tok s hw] at h
      simp only [Except.error.injEq, Fail.violation.injEq] at h
      exact ⟨h.symm, hw⟩
  · rintro ⟨rfl, hw⟩
    rw [outside_window_refused mods ksk pol b isPublic tok s hw]

/-! ## The key loaded is the configured key -/

/-- what `load_pkcs11_key` has established about a key it returns -/
structure LoadedAs (mods : List P11Module) (ksk : KskKey) (pol : KskPolicy) (isPublic : Bool)
    (ck : CompositeKey) : Prop where
  flags : ck.dns.flags = 257
  keyIdentifier : ck.dns.keyIdentifier = ksk.label
  algorithm : ck.dns.algorithm = ksk.algorithm
  ttl : ck.dns.ttl = pol.ttl
  protocol : ck.dns.protocol = 3
  /-- the DNSKEY text is the text derived from the token object -/
  publicKey : ck.p11.publicKey = some ck.dns.publicKey
  nonEmpty : ck.dns.publicKey ≠ ""
  /-- only asymmetric key types -/
  asymmetric : ck.p11.keyType = .rsa ∨ ck.p11.keyType = .ec
  /-- RSA: family, modulus size and exponent are the configured ones -/
  rsa : ck.p11.keyType = .rsa → isAlgorithmRsa ksk.algorithm = true ∧
    ∃ pub, rsaDecode ck.dns.publicKey ksk.algorithm = .ok pub ∧
      some (pub.bits : Int) = ksk.rsaSize ∧ some (pub.exponent : Int) = ksk.rsaExponent
  /-- EC: the configured algorithm is an elliptic-curve one -/
  ec : ck.p11.keyType = .ec →
    (isAlgorithmEcdsa ksk.algorithm = true ∨ isAlgorithmEddsa ksk.algorithm = true)
  /-- the key tag is the RFC 4034 App. B tag of the key's RDATA -/
  keyTag : ∃ r, keyToRdata ck.dns = .ok r ∧ ck.dns.keyTag = (C14.rfc4034KeyTag r : Nat)
  /-- the token object: configured label, requested class, in a session slot of a configured module -/
  label : ck.p11.label = ksk.label
  keyClass : ck.p11.keyClass = classOf isPublic
  location : ∃ m ∈ mods, ck.p11.module = m.path ∧ ck.p11.slot ∈ m.sessions

theorem loaded_as (mods : List P11Module) (ksk : KskKey) (pol : KskPolicy) (b : Bundle)
    (isPublic : Bool) (tok : Token) (s s' : TokState) (ck : CompositeKey)
    (h : loadPkcs11Key mods ksk pol b isPublic tok s = (.ok (some ck), s')) :
    LoadedAs mods ksk pol isPublic ck := by
  obtain ⟨_, f0, s1, f, hg, hr, ha⟩ := loadPkcs11Key_some mods ksk pol b isPublic tok s s' ck h
  obtain ⟨pk, hpk, hne, hp11, hdns, hfam⟩ := (acceptKey_some_iff ksk pol f ck).mp ha
  obtain ⟨h1, h2, h3, h4, h5, h6, r, hr1, hr2⟩ := publicKeyToDnssecKey_inv_c04 _ _ _ _ _ _ hdns
  -- the record checked is the record found, up to the public key text
  have hsame : f.label = f0.label ∧ f.keyClass = f0.keyClass ∧ f.module = f0.module ∧ f.slot = f0.slot := by
    rcases refetchPublic_ok mods ksk isPublic f0 f tok s1 s' hr with ⟨rfl, _⟩ | ⟨_, _, fp, _, rfl⟩
    · exact ⟨rfl, rfl, rfl, rfl⟩
    · exact ⟨rfl, rfl, rfl, rfl⟩
  obtain ⟨pre, m, post, s₁, hmods, _, hfound, hmod, hslot, _⟩ :=
    C15.getP11Key_first_module ksk.label isPublic ksk.hashUsingHsm tok mods s s1 f0 hg
  obtain ⟨_, _, hlab, hcls, _⟩ := C15.findInSlots_some _ _ _ _ _ _ _ _ _ hfound
  subst hp11
  exact {
    flags := h5, keyIdentifier := h2, algorithm := h3, ttl := h4, protocol := h6
    publicKey := by rw [hpk, h1]
    nonEmpty := by rw [h1]; simpa using hne
    asymmetric := by rcases hfam with ⟨h, _⟩ | ⟨h, _⟩ <;> simp [h]
    rsa := by
      intro hk
      rcases hfam with ⟨_, h⟩ | ⟨h, _⟩
      · rw [h1]; exact h
      · rw [hk] at h; cases h
    ec := by
      intro hk
      rcases hfam with ⟨h, _⟩ | ⟨_, h⟩
      · rw [hk] at h; cases h
      · exact h
    keyTag := ⟨r, hr1, by rw [hr2, C14.keyTag_eq_rfc4034]⟩
    label := by rw [hsame.1, hlab]
    keyClass := by rw [hsame.2.1, hcls]
    location := ⟨m, by rw [hmods]; simp, by rw [hsame.2.2.1, hmod], by rw [hsame.2.2.2]; exact hslot⟩ }

/-- **A key is loaded only if it is the configured key** (the conjunction spelled out): SEP+ZONE
    flags, configured label / algorithm / policy TTL, the public key text is the one read from the
    token, an RSA key has the configured family, modulus size and exponent, an EC key an EC
    algorithm, and the tag is the RFC 4034 tag of the RDATA. -/
theorem loaded_implies_params (mods : List P11Module) (ksk : KskKey) (pol : KskPolicy) (b : Bundle)
    (isPublic : Bool) (tok : Token) (s s' : TokState) (ck : CompositeKey)
    (h : loadPkcs11Key mods ksk pol b isPublic tok s = (.ok (some ck), s')) :
    ck.dns.flags = 257 ∧ ck.dns.keyIdentifier = ksk.label ∧ ck.dns.algorithm = ksk.algorithm ∧
    ck.dns.ttl = pol.ttl ∧ ck.p11.publicKey = some ck.dns.publicKey ∧
    (ck.p11.keyType = .rsa → isAlgorithmRsa ksk.algorithm = true ∧
      ∃ pub, rsaDecode ck.dns.publicKey ksk.algorithm = .ok pub ∧
        some (pub.bits : Int) = ksk.rsaSize ∧ some (pub.exponent : Int) = ksk.rsaExponent) ∧
    (ck.p11.keyType = .ec →
      (isAlgorithmEcdsa ksk.algorithm = true ∨ isAlgorithmEddsa ksk.algorithm = true)) ∧
    (∃ r, keyToRdata ck.dns = .ok r ∧ ck.dns.keyTag = (C14.rfc4034KeyTag r : Nat)) := by
  have l := loaded_as mods ksk pol b isPublic tok s s' ck h
  exact ⟨l.flags, l.keyIdentifier, l.algorithm, l.ttl, l.publicKey, l.rsa, l.ec, l.keyTag⟩

/-- **C04_iff (load).** `load_pkcs11_key` returns a key exactly when: the bundle is inside the
    window, the lookup (modules in order, first hit) found an object `f0`, the record `f` after the
    optional second lookup for the public part has a non-empty public key text `pk`, the key type
    is RSA with the configured family / size / exponent or EC with an EC algorithm, and the DNSKEY
    record `ck.dns` is the one built from `pk` (label, algorithm, policy TTL, flags 257). -/
theorem loaded_iff (mods : List P11Module) (ksk : KskKey) (pol : KskPolicy) (b : Bundle)
    (isPublic : Bool) (tok : Token) (s s' : TokState) (ck : CompositeKey) :
    loadPkcs11Key mods ksk pol b isPublic tok s = (.ok (some ck), s') ↔
      InWindow ksk b ∧ ∃ f0 s1 f,
        getP11Key ksk.label isPublic ksk.hashUsingHsm mods tok s = (.ok (some f0), s1) ∧
        refetchPublic mods ksk isPublic f0 tok s1 = (.ok f, s') ∧
        ∃ pk, f.publicKey = some pk ∧ pk ≠ "" ∧ ck.p11 = f ∧
          publicKeyToDnssecKey pk ksk.label ksk.algorithm pol.ttl 257 = .ok ck.dns ∧
          ((f.keyType = .rsa ∧ RsaParamsMatch ksk pk) ∨
           (f.keyType = .ec ∧
             (isAlgorithmEcdsa ksk.algorithm = true ∨ isAlgorithmEddsa ksk.algorithm = true))) := by
  constructor
  · intro h
    obtain ⟨hw, f0, s1, f, hg, hr, ha⟩ := loadPkcs11Key_some mods ksk pol b isPublic tok s s' ck h
    obtain ⟨pk, h1, h2, h3, h4, h5⟩ := (acceptKey_some_iff ksk pol f ck).mp ha
    exact ⟨(inWindow_iff ksk b).mpr hw, f0, s1, f, hg, hr, pk, h1, by simpa using h2, h3, h4, h5⟩
  · rintro ⟨hw, f0, s1, f, hg, hr, pk, h1, h2, h3, h4, h5⟩
    rw [loadPkcs11Key_inside _ _ _ _ _ _ _ ((inWindow_iff ksk b).mp hw)]
    unfold loadAfterWindow
    rw [hg]
    simp only [hr]
    rw [(acceptKey_some_iff ksk pol f ck).mpr ⟨pk, h1, by simpa using h2, h3, h4, h5⟩]


/-! ## `_fetch_keys`: window, parameters, key tag and DS digest -/

/-- the identity check of `validate_dnskey_matches_ksk`: configured key tag equal, configured DS
    SHA-256 digest equal — compared case-insensitively — to SHA-256 over owner ‖ RDATA -/
def IdentityOk (ext : Externals) (ksk : KskKey) (ck : CompositeKey) : Prop :=
  (∀ t, ksk.keyTag = some t → ck.dns.keyTag = t) ∧
  (∀ ds, ksk.dsSha256 = some ds → ds ≠ "" →
    ∃ inp digest, dsInput ck.dns = .ok inp ∧ ext.hash .sha256 inp = some digest ∧
      ds.toUpper = upperHex digest)

/-- **Every key `_fetch_keys` returns is the configured key inside its window**: one key per name,
    in order; the name is configured; window, parameter and identity facts hold. -/
theorem fetched_implies_identity (ext : Externals) (mods : List P11Module) (cfg : SignerConfig)
    (b : Bundle) (isPublic : Bool) (tok : Token) :
    ∀ (names : List String) (s s' : TokState) (cks : List CompositeKey),
      fetchKeys ext mods cfg b isPublic names tok s = (.ok cks, s') →
      cks.length = names.length ∧
      ∀ p ∈ names.zip cks, ∃ ksk, cfg.kskKeys.lookup p.1 = some ksk ∧ InWindow ksk b ∧
        LoadedAs mods ksk cfg.kskPolicy isPublic p.2 ∧ IdentityOk ext ksk p.2 := by
  intro names
  induction names with
  | nil =>
    intro s s' cks h
    simp only [fetchKeys, TokM.pure_run, Prod.mk.injEq, Except.ok.injEq] at h
    rw [← h.1]; simp
  | cons name rest ih =>
    intro s s' cks h
    rw [fetchKeys_cons_run] at h
    cases hl : cfg.kskKeys.lookup name with
    | none => rw [hl] at h; simp at h
    | some ksk =>
      rw [hl] at h
      simp only at h
      cases hload : loadPkcs11Key mods ksk cfg.kskPolicy b isPublic tok s with
      | mk r s1 =>
        rw [hload] at h
        cases r with
        | error e => simp at h
        | ok o =>
          cases o with
          | none => simp at h
          | some ck =>
            simp only at h
            cases hv : validateDnskeyMatchesKsk ext ksk ck.dns with
            | error e => rw [hv] at h; simp at h
            | ok u =>
              rw [hv] at h
              simp only at h
              cases hrest : fetchKeys ext mods cfg b isPublic rest tok s1 with
              | mk r2 s2 =>
                rw [hrest] at h
                cases r2 with
                | error e => simp at h
                | ok more =>
                  simp only [Prod.mk.injEq, Except.ok.injEq] at h
                  obtain ⟨rfl, rfl⟩ := h
                  obtain ⟨hlen, hall⟩ := ih s1 s2 more hrest
                  refine ⟨by simp [hlen], ?_⟩
                  intro p hp
                  simp only [List.zip_cons_cons, List.mem_cons] at hp
                  rcases hp with rfl | hp
                  · have hw := loaded_implies_window mods ksk cfg.kskPolicy b isPublic tok s s1 ck hload
                    obtain ⟨ht, hds⟩ := validateDnskeyMatchesKsk_ok ext ksk ck.dns hv
                    exact ⟨ksk, hl, hw, loaded_as mods ksk cfg.kskPolicy b isPublic tok s s1 ck hload,
                      ht, fun ds hd hne => hds ds hd (by simpa using hne)⟩
                  · exact hall p hp

theorem identityOk_iff (ext : Externals) (ksk : KskKey) (ck : CompositeKey) :
    validateDnskeyMatchesKsk ext ksk ck.dns = .ok () ↔ IdentityOk ext ksk ck := by
  rw [validateDnskeyMatchesKsk_ok_iff]
  unfold IdentityOk
  constructor
  · rintro ⟨h1, h2⟩; exact ⟨h1, fun ds hd hne => h2 ds hd (by simpa using hne)⟩
  · rintro ⟨h1, h2⟩; exact ⟨h1, fun ds hd hne => h2 ds hd (by simpa using hne)⟩

/-- **C04_iff (fetch).** `_fetch_keys` returns keys for `name :: rest` exactly when the name is
    configured, `load_pkcs11_key` returned a key for it (see `loaded_iff`), the identity check (key
    tag, DS SHA-256 — each only where configured) holds for that key, and the remaining names are
    fetched likewise; the keys come back in the order of the names. -/
theorem fetched_cons_iff (ext : Externals) (mods : List P11Module) (cfg : SignerConfig) (b : Bundle)
    (isPublic : Bool) (name : String) (rest : List String) (tok : Token) (s s' : TokState)
    (cks : List CompositeKey) :
    fetchKeys ext mods cfg b isPublic (name :: rest) tok s = (.ok cks, s') ↔
      ∃ ksk ck more s1, cks = ck :: more ∧ cfg.kskKeys.lookup name = some ksk ∧
        loadPkcs11Key mods ksk cfg.kskPolicy b isPublic tok s = (.ok (some ck), s1) ∧
        IdentityOk ext ksk ck ∧
        fetchKeys ext mods cfg b isPublic rest tok s1 = (.ok more, s') := by
  rw [fetchKeys_cons_run]
  constructor
  · intro h
    cases hl : cfg.kskKeys.lookup name with
    | none => rw [hl] at h; simp at h
    | some ksk =>
      rw [hl] at h
      simp only at h
      cases hload : loadPkcs11Key mods ksk cfg.kskPolicy b isPublic tok s with
      | mk r s1 =>
        rw [hload] at h
        cases r with
        | error e => simp at h
        | ok o =>
          cases o with
          | none => simp at h
          | some ck =>
            simp only at h
            cases hv : validateDnskeyMatchesKsk ext ksk ck.dns with
            | error e => rw [hv] at h; simp at h
            | ok u =>
              rw [hv] at h
              simp only at h
              cases hrest : fetchKeys ext mods cfg b isPublic rest tok s1 with
              | mk r2 s2 =>
                rw [hrest] at h
                cases r2 with
                | error e => simp at h
                | ok more =>
                  simp only [Prod.mk.injEq, Except.ok.injEq] at h
                  obtain ⟨rfl, rfl⟩ := h
                  exact ⟨ksk, ck, more, s1, rfl, rfl, hload, (identityOk_iff ext ksk ck).mp hv, hrest⟩
  · rintro ⟨ksk, ck, more, s1, rfl, hl, hload, hid, hrest⟩
    rw [hl]
    simp only [hload, (identityOk_iff ext ksk ck).mpr hid, hrest]


/-! ## A label that cannot be resolved stops the run -/

/-- **A name that is not configured is a key error**, before the token is touched. -/
theorem unknown_name_is_key_error (ext : Externals) (mods : List P11Module) (cfg : SignerConfig)
    (b : Bundle) (isPublic : Bool) (name : String) (rest : List String) (tok : Token) (s : TokState)
    (h : cfg.kskKeys.lookup name = none) :
    fetchKeys ext mods cfg b isPublic (name :: rest) tok s = (.error (.error .key), s) := by
  rw [fetchKeys_cons_run, h]

/-- **"Not loaded" is a configuration error**: when `load_pkcs11_key` answers `None` for a name,
    `_fetch_keys` fails; no key is substituted, later names are not even looked up. -/
theorem not_found_is_configuration_error (ext : Externals) (mods : List P11Module) (cfg : SignerConfig)
    (b : Bundle) (isPublic : Bool) (name : String) (rest : List String) (ksk : KskKey) (tok : Token)
    (s s1 : TokState) (hcfg : cfg.kskKeys.lookup name = some ksk)
    (h : loadPkcs11Key mods ksk cfg.kskPolicy b isPublic tok s = (.ok none, s1)) :
    fetchKeys ext mods cfg b isPublic (name :: rest) tok s = (.error (.error .configuration), s1) := by
  rw [fetchKeys_cons_run, hcfg]
  simp only [h]

/-- the label is on no token (every module answers "not found") ⇒ `None` ⇒ configuration error -/
theorem label_on_no_token_is_configuration_error (ext : Externals) (mods : List P11Module)
    (cfg : SignerConfig) (b : Bundle) (isPublic : Bool) (name : String) (rest : List String)
    (ksk : KskKey) (tok : Token) (s s1 : TokState) (hcfg : cfg.kskKeys.lookup name = some ksk)
    (hw : InWindow ksk b)
    (h : getP11Key ksk.label isPublic ksk.hashUsingHsm mods tok s = (.ok none, s1)) :
    loadPkcs11Key mods ksk cfg.kskPolicy b isPublic tok s = (.ok none, s1) ∧
    fetchKeys ext mods cfg b isPublic (name :: rest) tok s = (.error (.error .configuration), s1) := by
  have hl : loadPkcs11Key mods ksk cfg.kskPolicy b isPublic tok s = (.ok none, s1) := by
    rw [loadPkcs11Key_inside _ _ _ _ _ _ _ ((inWindow_iff ksk b).mp hw)]
    unfold loadAfterWindow
    rw [h]
  exact ⟨hl, not_found_is_configuration_error ext mods cfg b isPublic name rest ksk tok s s1 hcfg hl⟩

/-- any failure of the lookup (token error, duplicate label, …) propagates unchanged through
    `load_pkcs11_key` and `_fetch_keys`: the run stops there -/
theorem lookup_failure_stops (ext : Externals) (mods : List P11Module) (cfg : SignerConfig)
    (b : Bundle) (isPublic : Bool) (name : String) (rest : List String) (ksk : KskKey) (tok : Token)
    (s s1 : TokState) (e : Fail) (hcfg : cfg.kskKeys.lookup name = some ksk) (hw : InWindow ksk b)
    (h : getP11Key ksk.label isPublic ksk.hashUsingHsm mods tok s = (.error e, s1)) :
    loadPkcs11Key mods ksk cfg.kskPolicy b isPublic tok s = (.error e, s1) ∧
    fetchKeys ext mods cfg b isPublic (name :: rest) tok s = (.error e, s1) := by
  have hl : loadPkcs11Key mods ksk cfg.kskPolicy b isPublic tok s = (.error e, s1) := by
    rw [loadPkcs11Key_inside _ _ _ _ _ _ _ ((inWindow_iff ksk b).mp hw)]
    unfold loadAfterWindow
    rw [h]
  refine ⟨hl, ?_⟩
  rw [fetchKeys_cons_run, hcfg]
  simp only [hl]

/-- **Two objects under the configured label in one slot stop the run** (healthy token): the first
    module that has the label has, in its first non-empty slot, two or more matching objects ⇒
    `get_p11_key`, `load_pkcs11_key` and `_fetch_keys` all fail with the runtime error — even if a
    later slot or module holds exactly one such object.  No key is guessed. -/
theorem duplicate_label_is_error (ext : Externals) (cfg : SignerConfig) (b : Bundle) (isPublic : Bool)
    (name : String) (rest : List String) (ksk : KskKey) (st : Store) (ok : String → Nat → Bool)
    (pre post : List P11Module) (m : P11Module) (spre spost : List Nat) (s₀ : Nat) (s : TokState)
    (hcfg : cfg.kskKeys.lookup name = some ksk) (hw : InWindow ksk b)
    (hpre : ∀ m' ∈ pre, ∀ sl ∈ m'.sessions, matching st m' ksk.label (classOf isPublic) sl = [])
    (hm : m.sessions = spre ++ s₀ :: spost)
    (hspre : ∀ sl ∈ spre, matching st m ksk.label (classOf isPublic) sl = [])
    (htwo : 2 ≤ (matching st m ksk.label (classOf isPublic) s₀).length) :
    ∃ s1, loadPkcs11Key (pre ++ m :: post) ksk cfg.kskPolicy b isPublic (storeToken st ok) s =
        (.error (.error .runtime), s1) ∧
      fetchKeys ext (pre ++ m :: post) cfg b isPublic (name :: rest) (storeToken st ok) s =
        (.error (.error .runtime), s1) := by
  obtain ⟨s1, h⟩ := C15.getP11Key_duplicate st ok ksk.label isPublic ksk.hashUsingHsm pre post m
    spre spost s₀ hpre hm hspre htwo s
  exact ⟨s1, lookup_failure_stops ext _ cfg b isPublic name rest ksk _ s s1 _ hcfg hw h⟩

/-- **A key whose public part cannot be read is not used**: the private object was found without a
    public key text, and the second lookup (public class) found nothing, or an object whose public
    key text is absent too ⇒ `None` ⇒ configuration error upstream. -/
theorem unreadable_public_part_stops (ext : Externals) (mods : List P11Module) (cfg : SignerConfig)
    (b : Bundle) (name : String) (rest : List String) (ksk : KskKey) (tok : Token)
    (s s1 s2 : TokState) (f0 : P11Key) (r : Option P11Key)
    (hcfg : cfg.kskKeys.lookup name = some ksk) (hw : InWindow ksk b)
    (h1 : getP11Key ksk.label false ksk.hashUsingHsm mods tok s = (.ok (some f0), s1))
    (hnone : f0.publicKey = none)
    (h2 : getP11Key ksk.label true ksk.hashUsingHsm mods tok s1 = (.ok r, s2))
    (hr : r = none ∨ ∃ fp, r = some fp ∧ fp.publicKey = none) :
    loadPkcs11Key mods ksk cfg.kskPolicy b false tok s = (.ok none, s2) ∧
    fetchKeys ext mods cfg b false (name :: rest) tok s = (.error (.error .configuration), s2) := by
  have hl : loadPkcs11Key mods ksk cfg.kskPolicy b false tok s = (.ok none, s2) := by
    rw [loadPkcs11Key_inside _ _ _ _ _ _ _ ((inWindow_iff ksk b).mp hw)]
    unfold loadAfterWindow
    rw [h1]
    simp only
    have hre : ∃ f, refetchPublic mods ksk false f0 tok s1 = (.ok f, s2) ∧ f.publicKey = none := by
      unfold refetchPublic
      simp only [hnone, Option.isNone_none, Bool.not_false, Bool.and_self, ↓reduceIte]
      rw [bind_run, h2]
      rcases hr with rfl | ⟨fp, rfl, hfp⟩
      · exact ⟨f0, rfl, hnone⟩
      · exact ⟨{ f0 with publicKey := fp.publicKey }, rfl, hfp⟩
    obtain ⟨f, hf, hfn⟩ := hre
    rw [hf]
    simp only [acceptKey, hfn]
    rfl
  exact ⟨hl, not_found_is_configuration_error ext mods cfg b false name rest ksk tok s s2 hcfg hl⟩

/-- an empty public key text counts as unreadable as well (`if not _found.public_key`) -/
theorem empty_public_part_stops (mods : List P11Module) (ksk : KskKey) (pol : KskPolicy) (b : Bundle)
    (tok : Token) (s s1 : TokState) (f0 : P11Key) (hw : InWindow ksk b)
    (h1 : getP11Key ksk.label true ksk.hashUsingHsm mods tok s = (.ok (some f0), s1))
    (hempty : f0.publicKey = some "") :
    loadPkcs11Key mods ksk pol b true tok s = (.ok none, s1) := by
  rw [loadPkcs11Key_inside _ _ _ _ _ _ _ ((inWindow_iff ksk b).mp hw)]
  unfold loadAfterWindow
  rw [h1]
  simp only [refetchPublic, Bool.not_true, Bool.and_false, Bool.false_eq_true, ↓reduceIte,
    TokM.pure_run, acceptKey, hempty]
  rfl

/-! ## No private-key operation before a key is accepted -/

/-- **Selecting keys never signs**: every operation `load_pkcs11_key` logs is a `findObjects` or a
    `getAttr` on a configured module — for every token and whatever the outcome. -/
theorem no_sign_before_accept (mods : List P11Module) (ksk : KskKey) (pol : KskPolicy) (b : Bundle)
    (isPublic : Bool) (tok : Token) (s s' : TokState) (r : Res (Option CompositeKey))
    (h : loadPkcs11Key mods ksk pol b isPublic tok s = (r, s')) :
    ∃ l, s'.log = l ++ s.log ∧ ∀ e ∈ l, isSignOp e.1 = false ∧ IsReadAmong mods e.1 := by
  obtain ⟨l, hl, _, hp⟩ := (loadPkcs11Key_emits mods ksk pol b isPublic).run h
  exact ⟨l, hl, fun e he => ⟨(hp e he).not_sign, hp e he⟩⟩

/-- the same for `_fetch_keys` over any list of names -/
theorem no_sign_in_fetch (ext : Externals) (mods : List P11Module) (cfg : SignerConfig) (b : Bundle)
    (isPublic : Bool) (names : List String) (tok : Token) (s s' : TokState)
    (r : Res (List CompositeKey)) (h : fetchKeys ext mods cfg b isPublic names tok s = (r, s')) :
    ∃ l, s'.log = l ++ s.log ∧ ∀ e ∈ l, isSignOp e.1 = false ∧ IsReadAmong mods e.1 := by
  obtain ⟨l, hl, _, hp⟩ := (fetchKeys_emits ext mods cfg b isPublic names).run h
  exact ⟨l, hl, fun e he => ⟨(hp e he).not_sign, hp e he⟩⟩

/-! ## Non-vacuity: a concrete healthy token (one 16-bit RSA public object "K" in slot 1 of module
    "mod", `C15.exTok`), a configuration that names it, a bundle on both boundaries of the window -/

def exKsk : KskKey :=
  { label := "K", algorithm := 8, validFrom := 1000, validUntil := some 5000, rsaSize := some 16,
    rsaExponent := some 65537, keyTag := some 34572 }
def exBundle : Bundle := { id := "b1", inception := 1000, expiration := 5000, keys := [], signatures := [] }
def exCfg : SignerConfig := { kskKeys := [("ksk1", exKsk)], actions := [] }
def exExt : Externals := { hash := fun _ _ => none, verify := fun _ _ _ _ => .unknown }

-- the hypothesis of `loaded_implies_window` / `loaded_implies_params` / `boundary_*` is met:
-- valid_from = inception and valid_until = expiration, and the key is loaded
example : exKsk.validFrom = exBundle.inception ∧ exKsk.validUntil = some exBundle.expiration := by decide
example : (loadPkcs11Key [C15.exMod] exKsk {} exBundle true C15.exTok {}).1 =
    .ok (some { p11 := { label := "K", keyType := .rsa, keyClass := ckoPublic,
                         publicKey := some "AwEAAYAB", module := "mod", slot := 1, pubHandle := some 7 },
                dns := { keyIdentifier := "K", keyTag := 34572, ttl := 172800, flags := 257,
                         protocol := 3, algorithm := 8, publicKey := "AwEAAYAB" } }) := by
  decide +kernel
-- `fetched_implies_identity`: the configured tag matches, one key per name
example : ((fetchKeys exExt [C15.exMod] exCfg exBundle true ["ksk1"] C15.exTok {}).1.map List.length) =
    .ok 1 := by decide +kernel
-- a wrong configured tag / size / exponent stops the run; so does a name that is not configured
example : (fetchKeys exExt [C15.exMod] { exCfg with kskKeys := [("ksk1", { exKsk with keyTag := some 1 })] }
    exBundle true ["ksk1"] C15.exTok {}).1 = .error (.error .runtime) := by decide +kernel
example : (loadPkcs11Key [C15.exMod] { exKsk with rsaSize := some 2048 } {} exBundle true C15.exTok {}).1 =
    .error (.error .value) := by decide +kernel
example : (loadPkcs11Key [C15.exMod] { exKsk with rsaExponent := some 3 } {} exBundle true C15.exTok {}).1 =
    .error (.error .value) := by decide +kernel
example : (loadPkcs11Key [C15.exMod] { exKsk with algorithm := 13 } {} exBundle true C15.exTok {}).1 =
    .error (.error .value) := by decide +kernel
example : (fetchKeys exExt [C15.exMod] exCfg exBundle true ["other"] C15.exTok {}).1 =
    .error (.error .key) := by decide +kernel
-- no private object under the label: `None`, configuration error (hypothesis of
-- `not_found_is_configuration_error`)
example : (loadPkcs11Key [C15.exMod] exKsk {} exBundle false C15.exTok {}).1 = .ok none ∧
    (fetchKeys exExt [C15.exMod] exCfg exBundle false ["ksk1"] C15.exTok {}).1 =
      .error (.error .configuration) := by decide +kernel
-- one microsecond outside either end: the violation
example : (loadPkcs11Key [C15.exMod] { exKsk with validFrom := 1001 } {} exBundle true C15.exTok {}).1 =
    .error (.violation .keyUsage) ∧
    (loadPkcs11Key [C15.exMod] { exKsk with validUntil := some 4999 } {} exBundle true C15.exTok {}).1 =
    .error (.violation .keyUsage) := by decide +kernel


/-! ## The window is a condition per bundle, end to end

The theorems above speak of one load / one fetch for one bundle.  The property is about whole
responses: *a KSK is published or used to sign a bundle only if that bundle lies inside the key's
window*.  `sign_bundles` fetches every key named by slot `i + 1` afresh for request bundle `i`, so
the per-fetch facts hold for every position — whatever was loaded for earlier bundles. -/

theorem zip_mem_of_mem {α β : Type} : ∀ (l : List α) (m : List β), m.length = l.length →
    ∀ a ∈ l, ∃ b, (a, b) ∈ l.zip m
  | [], _, _, a, h => by simp at h
  | x :: l, [], hlen, _, _ => by simp at hlen
  | x :: l, y :: m, hlen, a, h => by
    simp only [List.mem_cons] at h
    rcases h with rfl | h
    · exact ⟨y, by simp⟩
    · obtain ⟨b, hb⟩ := zip_mem_of_mem l m (by simpa using hlen) a h
      exact ⟨b, by simp [hb]⟩

/-- **C04 for every bundle of a response.** If `sign_bundles` returns (any token, any state, any
    number of bundles), then for every position `i` the schema has an action for slot `i + 1`, and
    every name that action lists under publish, revoke or sign is a configured KSK whose window
    contains request bundle `i` (inception not before valid-from, expiration not after valid-until
    when set), that was loaded with the configured parameters and passed the identity check. -/
theorem C04_every_bundle (ext : Externals) (mods : List P11Module) (cfg : SignerConfig) (req : Request)
    (rbs : List Bundle) (tok : Token) (s s' : TokState)
    (h : signBundles ext mods cfg req tok s = (.ok rbs, s')) :
    ∀ i b, req.bundles[i]? = some b → ∃ act, cfg.actions.lookup (i + 1) = some act ∧
      ∀ name, (name ∈ act.publish ∨ name ∈ act.revoke ∨ name ∈ act.sign) →
        ∃ ksk ck isPublic, cfg.kskKeys.lookup name = some ksk ∧ InWindow ksk b ∧
          LoadedAs mods ksk cfg.kskPolicy isPublic ck ∧ IdentityOk ext ksk ck := by
  intro i b hib
  unfold signBundles at h
  obtain ⟨_, hpos⟩ := signBundlesFrom_ok h
  obtain ⟨rb, sa, sb, _, hsb⟩ := hpos i b hib
  rw [Nat.add_comm] at hsb
  obtain ⟨act, pub, rev, revoked, signing, s1, s2, s3, hact, hpub, hrev, _, hsign, _⟩ := signBundle_ok hsb
  refine ⟨act, hact, ?_⟩
  intro name hname
  have key : ∀ (isPublic : Bool) (names : List String) (cks : List CompositeKey) (t1 t2 : TokState),
      fetchKeys ext mods cfg b isPublic names tok t1 = (.ok cks, t2) → name ∈ names →
      ∃ ksk ck isPublic, cfg.kskKeys.lookup name = some ksk ∧ InWindow ksk b ∧
        LoadedAs mods ksk cfg.kskPolicy isPublic ck ∧ IdentityOk ext ksk ck := by
    intro isPublic names cks t1 t2 hf hn
    obtain ⟨hlen, hall⟩ := fetched_implies_identity ext mods cfg b isPublic tok names t1 t2 cks hf
    obtain ⟨ck, hck⟩ := zip_mem_of_mem names cks hlen name hn
    obtain ⟨ksk, h1, h2, h3, h4⟩ := hall (name, ck) hck
    exact ⟨ksk, ck, isPublic, h1, h2, h3, h4⟩
  rcases hname with hn | hn | hn
  · exact key true _ _ _ _ hpub hn
  · exact key true _ _ _ _ hrev hn
  · exact key false _ _ _ _ hsign hn

/-- … and when a listed key is outside the window of ANY bundle it is used in, there is no response
    at all (contrapositive, stated for the reader). -/
theorem C04_outside_any_bundle_no_response (ext : Externals) (mods : List P11Module) (cfg : SignerConfig)
    (req : Request) (tok : Token) (s : TokState) (i : Nat) (b : Bundle) (act : SchemaAction) (name : String)
    (ksk : KskKey) (hib : req.bundles[i]? = some b) (hact : cfg.actions.lookup (i + 1) = some act)
    (hname : name ∈ act.publish ∨ name ∈ act.revoke ∨ name ∈ act.sign)
    (hk : cfg.kskKeys.lookup name = some ksk) (hout : ¬ InWindow ksk b) :
    ∀ rbs s', signBundles ext mods cfg req tok s ≠ (.ok rbs, s') := by
  intro rbs s' h
  obtain ⟨act', hact', hall⟩ := C04_every_bundle ext mods cfg req rbs tok s s' h i b hib
  rw [hact] at hact'
  cases hact'
  obtain ⟨ksk', _, _, hk', hw, _⟩ := hall name hname
  rw [hk] at hk'
  cases hk'
  exact hout hw


end Kskm.C04
