/-
  C04 — a KSK signs only inside its validity window and only if it is the configured key.
-/
import Kskm.Signer
import KskmProofs.Lemmas.TokM
namespace Kskm.C04

/-- **Before the window: refused without touching the token.** For every token and state, a key
    whose `valid_from` is after the bundle's inception yields the key-usage violation and the
    operation log is unchanged (in particular no private-key operation). -/
theorem not_yet_valid_refused (mods : List P11Module) (ksk : KskKey) (pol : KskPolicy) (b : Bundle)
    (isPublic : Bool) (tok : Token) (s : TokState) (h : ksk.validFrom > b.inception) :
    loadPkcs11Key mods ksk pol b isPublic tok s = (.error (.violation .keyUsage), s) := by
  simp [loadPkcs11Key, h, bind, TokM.fail]

/-- **After the window: refused without touching the token.** -/
theorem expired_refused (mods : List P11Module) (ksk : KskKey) (pol : KskPolicy) (b : Bundle)
    (isPublic : Bool) (tok : Token) (s : TokState) (u : Int) (hu : ksk.validUntil = some u)
    (h : u < b.expiration) (h0 : ¬ ksk.validFrom > b.inception) :
    loadPkcs11Key mods ksk pol b isPublic tok s = (.error (.violation .keyUsage), s) := by
  simp [loadPkcs11Key, h0, hu, h, bind, TokM.fail]

end Kskm.C04
