/-
  C01 — every emitted signature is a valid RRSIG over exactly the published DNSKEY set.
-/
import Kskm.Signer
import KskmProofs.Lemmas.TokM
import KskmProofs.C14
namespace Kskm.C01

/-- uniqueness by public key: adding never creates two entries with the same public key text -/
theorem ktsAdd_unique (ttl : Int) (keys : List Key) (k : Key)
    (h : keys.Pairwise (fun a b => a.publicKey ≠ b.publicKey)) :
    (ktsAdd ttl keys k).Pairwise (fun a b => a.publicKey ≠ b.publicKey) := by
  unfold ktsAdd
  split
  · exact h
  · rename_i hn
    rw [List.pairwise_append]
    refine ⟨h, by simp, ?_⟩
    intro a ha b hb
    simp only [List.mem_singleton] at hb
    subst hb
    simp only [List.any_eq_true, decide_eq_true_eq, not_exists, not_and] at hn
    have := hn a ha
    split <;> simpa using this

end Kskm.C01
