/-
  C01 — every emitted signature is a valid RRSIG over exactly the published DNSKEY set.

  Every theorem is for EVERY token oracle `tok`, every starting state `s`, every hash function and
  software verifier (`ext`).  What is proved is what the TOOL adds on top of the primitives: which
  octets it asks to be signed, with which key and mechanism, over which key set, with which field
  values, and that nothing leaves `signBundle` without the software verifier having accepted it over
  exactly the published set.  Unforgeability of the signature scheme and collision resistance of the
  hash are assumptions outside the theorems (DESIGN §4/C01 "Limits").

  Layout
    §1  one signature (`signKeys_spec`), its to-be-signed octets = RFC 4034 §3.1.8.1, what reaches the token
    §2  one bundle (`C01_main`), all bundles (`C01_all_bundles`), response-side re-validation
    §3  completion under explicit well-formedness (`C01_completes_partial`)
    §4  ECDSA on the pinned tree (finding F4)
    §5  non-vacuity examples
    §6  completion from a store-level description of the token (`HealthyWorld`, `C01_completes`)
-/
import Kskm.Signer
import KskmProofs.Lemmas.TokM
import KskmProofs.Lemmas.Base64
import KskmProofs.Lemmas.SignerKeys
import KskmProofs.Lemmas.SignerInv
import KskmProofs.Lemmas.SignerRun
import KskmProofs.Lemmas.SignerEc
import KskmProofs.C14
import KskmProofs.C15
import KskmProofs.C02
import KskmProofs.Lemmas.SignerComplete
import KskmProofs.Lemmas.SignerCompleteExample
namespace Kskm.C01

/-- uniqueness by public key: adding never creates two entries with the same public key text -/
theorem ktsAdd_unique (ttl : Int) (keys : List Key) (k : Key)
    (h : keys.Pairwise (fun a b => a.publicKey ≠ b.publicKey)) :
    (ktsAdd ttl keys k).Pairwise (fun a b => a.publicKey ≠ b.publicKey) :=
  Kskm.ktsAdd_unique ttl keys k h

/-! ## §1 One signature -/

/-- What C01 states about one signature `σ` made by the composite key `sk` over the key set `keys`
    for a bundle with the given inception / expiration under KSK policy `pol`.  Witnesses: `dnsKey`
    the record of the signing key AS PUBLISHED in `keys`, `raw` the to-be-signed octets, `sigBytes`
    the signature octets, `pk` the public key text of the token key. -/
structure SigSpec (ext : Externals) (inception expiration : Int) (pol : KskPolicy) (keys : List Key)
    (sk : CompositeKey) (σ : Signature) (dnsKey : Key) (raw sigBytes : Bytes) (pk : String) : Prop where
  /-- the signing key is published in the set, under its identifier, exactly once -/
  published : ktsGet keys sk.dns.keyIdentifier = .ok (some dnsKey)
  pubkey : sk.p11.publicKey = some pk
  /-- `raw` is `make_raw_rrsig` of the signature's own fields over exactly `keys` -/
  tbs : makeRawRrsig { σ with signatureData := "" } keys = .ok raw
  /-- the software verifier accepted the signature octets over `raw` under the token key -/
  verified : ext.verify sk.dns.algorithm pk raw sigBytes = .valid
  sigData : σ.signatureData = Base64.encode sigBytes
  inception : σ.inception = inception
  expiration : σ.expiration = expiration
  ttl : σ.ttl = pol.ttl
  originalTtl : σ.originalTtl = pol.ttl
  signersName : σ.signersName = pol.signersName
  root : pol.signersName = "."
  labels : σ.labels = 0
  typeCovered : σ.typeCovered = 48
  algorithm : σ.algorithm = sk.dns.algorithm
  keyIdentifier : σ.keyIdentifier = sk.dns.keyIdentifier
  /-- the tag of the signing key as published: the revoked tag when it is published revoked -/
  keyTag : σ.keyTag = dnsKey.keyTag
  /-- every key of the signed set carries the policy TTL -/
  keysTtl : ∀ k ∈ keys, k.ttl = pol.ttl

/-- **One signature.** Whenever `_sign_keys` returns a signature — for any token — the software
    verifier accepted it over `make_raw_rrsig` of its own fields and exactly `keys`, all fields are
    the bundle's / the policy's / the published key's, and exactly ONE token operation was issued: a
    `C_Sign` on the key's private handle with mechanism and data from `_format_data_for_signing`
    over those octets. -/
theorem signKeys_spec (ext : Externals) (bundle : Bundle) (keys : List Key) (sk : CompositeKey)
    (pol : KskPolicy) (tok : Token) (s s' : TokState) (σ : Signature)
    (h : signKeys ext bundle keys sk pol tok s = (.ok σ, s')) :
    ∃ dnsKey raw sigBytes pk,
      SigSpec ext bundle.inception bundle.expiration pol keys sk σ dnsKey raw sigBytes pk ∧
      ∃ d hdl, formatDataForSigning ext.hash sk.p11 raw sk.dns.algorithm = .ok d ∧
        sk.p11.privHandle = some hdl ∧
        tok s.count (.sign sk.p11.module sk.p11.slot hdl d.mechanism d.data) = .sig sigBytes ∧
        s'.count = s.count + 1 ∧
        s'.log = (.sign sk.p11.module sk.p11.slot hdl d.mechanism d.data, .sig sigBytes) :: s.log := by
  obtain ⟨httl, dnsKey, labels, raw, sigBytes, pk, hget, hl, hraw, hsign, hpk, _, hv, rfl⟩ := signKeys_ok h
  obtain ⟨hroot, rfl⟩ := dndepth_ok hl
  obtain ⟨d, hdl, hd, hh, _, _, hans, rfl⟩ := signUsingP11_ok hsign
  exact ⟨dnsKey, raw, sigBytes, pk,
    ⟨hget, hpk, hraw, hv, rfl, rfl, rfl, rfl, rfl, rfl, hroot, rfl, rfl, rfl, rfl, rfl, httl⟩,
    d, hdl, hd, hh, hans, rfl, rfl⟩

/-- **The octets are the RFC's.** The to-be-signed octets of a `SigSpec` are the RFC 4034 §3.1.8.1
    octets — RRSIG RDATA (type covered 48, the algorithm, 0 labels, the policy TTL, the bundle's
    expiration and inception in seconds, the published key's tag), signer name root, then the DNSKEY
    RRs of exactly `keys` in canonical order (§6.3) — whatever canonical arrangement `l` an
    independent implementation picks; and every field fits its wire field. -/
theorem sigSpec_rfc4034 {ext : Externals} {inc exp : Int} {pol : KskPolicy} {keys : List Key}
    {sk : CompositeKey} {σ : Signature} {dnsKey : Key} {raw sigBytes : Bytes} {pk : String}
    (h : SigSpec ext inc exp pol keys sk σ dnsKey raw sigBytes pk) :
    ∃ rdatas, keys.mapM keyToRdata = .ok rdatas ∧
      (∀ l, C14.CanonicalOrder l rdatas →
        raw = C14.rfc4034TBS 48 sk.dns.algorithm 0 pol.ttl.toNat (tsSeconds exp).toNat
                (tsSeconds inc).toNat dnsKey.keyTag.toNat l) ∧
      sk.dns.algorithm < 256 ∧ 0 ≤ pol.ttl ∧ pol.ttl < 2 ^ 32 ∧
      0 ≤ tsSeconds exp ∧ tsSeconds exp < 2 ^ 32 ∧ 0 ≤ tsSeconds inc ∧ tsSeconds inc < 2 ^ 32 ∧
      0 ≤ dnsKey.keyTag ∧ dnsKey.keyTag < 2 ^ 16 := by
  obtain ⟨rdatas, hrd, _, _, halg, _, httl, hexp, hinc, htag, _, hraw⟩ := makeRawRrsig_ok h.tbs
  simp only [h.typeCovered, h.algorithm, h.labels, h.originalTtl, h.expiration, h.inception, h.keyTag,
    inRange, Bool.and_eq_true, decide_eq_true_eq] at halg httl hexp hinc htag hraw
  refine ⟨rdatas, hrd, ?_, halg, httl.1, by omega, hexp.1, by omega, hinc.1, by omega, htag.1, by omega⟩
  intro l hl
  rw [hraw]
  exact C14.makeRawRrsig_eq_rfc _ _ _ _ _ _ _ rdatas l hl

/-- **What reaches the token** (with C15): for host hashing and RSA the full-modulus-length
    EMSA-PKCS1-v1_5 block of the matching digest of `raw`; for host hashing and ECDSA the matching
    digest of `raw`; with hashing on the token, `raw` itself, untouched, and the hashing mechanism. -/
theorem token_input_spec (hash : Hasher) (key : P11Key) (raw : Bytes) (alg : Nat) (d : DataToSign)
    (h : formatDataForSigning hash key raw alg = .ok d) :
    (key.hashUsingHsm ≠ some true → (alg = 8 ∨ alg = 10) →
      ∃ pk pub digest, key.publicKey = some pk ∧ rsaDecode pk alg = .ok pub ∧
        hash (if alg = 8 then .sha256 else .sha512) raw = some digest ∧ d.mechanism = ckmRsaX509 ∧
        d.data = emsaBlock (pub.bits / 8)
          ((if alg = 8 then digestInfoSha256 else digestInfoSha512) ++ digest)) ∧
    (key.hashUsingHsm ≠ some true → (alg = 13 ∨ alg = 14) →
      d.mechanism = ckmEcdsa ∧ hash (if alg = 13 then .sha256 else .sha384) raw = some d.data) ∧
    (key.hashUsingHsm = some true → alg ∈ [5, 8, 10, 13, 14] →
      d.data = raw ∧ some d.mechanism = mechanismFor true alg) :=
  ⟨fun hk ha => C15.raw_rsa_is_emsa hash key raw alg d hk ha h,
   fun hk ha => C15.raw_ecdsa_is_digest hash key raw alg d hk ha h,
   fun hk ha => let r := C15.hash_on_token_untouched hash key raw alg d hk ha h; ⟨r.1, r.2.1⟩⟩

/-! ## §2 One bundle, all bundles -/

/-- **C01, one bundle.** Whenever `signBundle` returns a response bundle `rb` — any token, any
    state — every signature `σ` of `rb` was made by a composite key `sk` fetched for a name listed
    under `sign` of the slot's action, and satisfies `SigSpec` with `keys = rb.keys`: the software
    verifier accepted it over `make_raw_rrsig σ rb.keys`, i.e. over exactly the published set, with
    the response bundle's inception and expiration, the configured TTL, signer name root, zero labels
    and the tag of the signing key as published.  (`sigSpec_rfc4034`: those octets are the RFC's.) -/
theorem C01_main (ext : Externals) (mods : List P11Module) (cfg : SignerConfig) (slot : Nat)
    (bundle rb : Bundle) (tok : Token) (s s' : TokState)
    (h : signBundle ext mods cfg slot bundle tok s = (.ok rb, s')) :
    ∀ σ ∈ rb.signatures, ∃ act name sk dnsKey raw sigBytes pk,
      cfg.actions.lookup slot = some act ∧ name ∈ act.sign ∧ C02.KskRecord cfg name pk sk.dns ∧
      SigSpec ext rb.inception rb.expiration cfg.kskPolicy rb.keys sk σ dnsKey raw sigBytes pk ∧
      dnsKey ∈ rb.keys := by
  intro σ hσ
  obtain ⟨act, pub, rev, revoked, signing, s1, s2, s3, hact, _, _, _, hsign, _, hsigs, hfin⟩ := signBundle_ok h
  obtain ⟨_, hrb, _⟩ := finishBundle_ok hfin
  obtain ⟨new, e, h1, _, _, _⟩ := signAll_ok hsigs
  simp only [List.nil_append] at e
  rw [e] at hσ
  obtain ⟨sk, hsk, sa, sb, hrun⟩ := h1 σ hσ
  obtain ⟨dnsKey, raw, sigBytes, pk, hspec, _⟩ := signKeys_spec ext bundle rb.keys sk cfg.kskPolicy tok sa sb σ hrun
  obtain ⟨name, hn, pk', hpk', hrec⟩ := (C02.fetchedFor_of_ok hsign).2.1 sk hsk
  have : pk' = pk := by
    have := hspec.pubkey
    rw [hpk'] at this
    exact Option.some.inj this
  subst this
  have hi : rb.inception = bundle.inception := by rw [hrb]
  have he : rb.expiration = bundle.expiration := by rw [hrb]
  rw [hi, he]
  exact ⟨act, name, sk, dnsKey, raw, sigBytes, pk', hact, hn, hrec, hspec, (ktsGet_some_mem hspec.published).1⟩

/-- **C01, all bundles** — for every request, with any number of bundles: every signature of every
    response bundle is as in `C01_main`, for the slot that is the bundle's 1-based position. -/
theorem C01_all_bundles (ext : Externals) (mods : List P11Module) (cfg : SignerConfig) (req : Request)
    (rbs : List Bundle) (tok : Token) (s s' : TokState)
    (h : signBundles ext mods cfg req tok s = (.ok rbs, s')) :
    rbs.length = req.bundles.length ∧
    ∀ i rb, rbs[i]? = some rb → ∀ σ ∈ rb.signatures, ∃ act name sk dnsKey raw sigBytes pk,
      cfg.actions.lookup (i + 1) = some act ∧ name ∈ act.sign ∧ C02.KskRecord cfg name pk sk.dns ∧
      SigSpec ext rb.inception rb.expiration cfg.kskPolicy rb.keys sk σ dnsKey raw sigBytes pk ∧
      dnsKey ∈ rb.keys := by
  unfold signBundles at h
  obtain ⟨hlen, hpos⟩ := signBundlesFrom_ok h
  refine ⟨hlen, ?_⟩
  intro i rb hi
  have hlt : i < req.bundles.length := by
    rw [← hlen]
    exact (List.getElem?_eq_some_iff.mp hi).1
  obtain ⟨rb', sa, sb, h1, h2⟩ := hpos i req.bundles[i] (List.getElem?_eq_getElem hlt)
  rw [hi] at h1
  cases h1
  rw [Nat.add_comm] at h2
  exact C01_main ext mods cfg (i + 1) _ rb tok sa sb h2

/-- **Verified again.** With `validate_signatures` on in the response policy, a returned bundle has
    passed `validate_signatures` (the reader-side validation: key lookup by identifier in the
    published set, public key from the PUBLISHED record, `make_raw_rrsig` over the published set). -/
theorem C01_verified_again (ext : Externals) (mods : List P11Module) (cfg : SignerConfig) (slot : Nat)
    (bundle rb : Bundle) (tok : Token) (s s' : TokState)
    (hv : cfg.responsePolicy.validateSignatures = true)
    (h : signBundle ext mods cfg slot bundle tok s = (.ok rb, s')) :
    validateSignatures ext.verify rb = .ok () := by
  obtain ⟨act, pub, rev, revoked, signing, s1, s2, s3, _, _, _, _, _, _, _, hfin⟩ := signBundle_ok h
  obtain ⟨_, _, hc⟩ := finishBundle_ok hfin
  unfold checkValidSignatures at hc
  simp only [hv, Bool.not_true, Bool.false_eq_true, ↓reduceIte] at hc
  split at hc
  · simp [violation] at hc
  · simp at hc
  · assumption

/-! ## §3 Completion

Full statement (DESIGN §4/C01 `C01_completes`):

    for a token described at store level (modules → slots → objects with attributes) on which every
    key named by the schema is configured, inside its validity window and present with parameters
    matching the configuration, a healthy signature scheme, per bundle equal ZSK / signing-key
    algorithm sets and times that pack into 32 bits,  `signBundles` returns `ok`.

It is proved for RSA keys in §6 (`C01_completes`, from the store-level hypothesis `HealthyWorld`).
This section proves, for EVERY token, the part after the fetches.

Proved here: `C01_completes_partial`, which starts AFTER the three `_fetch_keys` calls of a slot — their
results are hypotheses — and shows that everything the signer itself does then goes through.
The forward (success) direction of `fetchKeys` / `loadPkcs11Key` / `getP11Key` / `findInSlots` /
`p11ObjectToPublicKey` / `validateDnskeyMatchesKsk` from a store-level description of the token, and
the lifting from one slot to `signBundles`, are in §6 and Lemmas/SignerComplete.lean. -/

/-- `make_raw_rrsig` succeeds EXACTLY when type, algorithm, labels, TTL, the two times (in seconds)
    and the tag pack into their wire fields (times and TTL: 32 bits), the signer name is the root, and
    every key's RDATA is decodable and fits a 16-bit length — this is what the `makeRawRrsig … = .ok raw`
    clause of `WellFormed.ready` below amounts to. -/
theorem makeRawRrsig_succeeds_iff (sig : Signature) (keys : List Key) :
    (∃ raw, makeRawRrsig sig keys = .ok raw) ↔
      (sig.typeCovered < 65536 ∧ sig.algorithm < 256 ∧ inRange 8 sig.labels = true ∧
       inRange 32 sig.originalTtl = true ∧ inRange 32 (tsSeconds sig.expiration) = true ∧
       inRange 32 (tsSeconds sig.inception) = true ∧ inRange 16 sig.keyTag = true ∧
       sig.signersName = "." ∧
       ∃ rdatas, keys.mapM keyToRdata = .ok rdatas ∧ ∀ r ∈ rdatas, r.length < 65536) := by
  constructor
  · rintro ⟨raw, h⟩
    obtain ⟨rdatas, hrd, hroot, h1, h2, h3, h4, h5, h6, h7, hlen, _⟩ := makeRawRrsig_ok h
    exact ⟨h1, h2, h3, h4, h5, h6, h7, hroot, rdatas, hrd, hlen⟩
  · rintro ⟨h1, h2, h3, h4, h5, h6, h7, hroot, rdatas, hrd, hlen⟩
    exact ⟨_, makeRawRrsig_of h1 h2 h3 h4 h5 h6 h7 hroot hrd hlen⟩

/-- Structural well-formedness of one slot once the keys are fetched: what must hold of the fetched
    signing keys `signing` and of the assembled key set `keys` for the signer to complete. -/
structure WellFormed (ext : Externals) (cfg : SignerConfig) (bundle : Bundle) (keys : List Key)
    (signing : List CompositeKey) (tok : Token) (from_ : Nat) : Prop where
  /-- the signer name is the root (the only one `dn2wire` implements) -/
  root : cfg.kskPolicy.signersName = "."
  /-- the request bundle has keys -/
  zsks : bundle.keys ≠ []
  /-- ZSK and signing-key algorithm sets agree -/
  algs : ∀ a, a ∈ bundle.keys.map (·.algorithm) ↔ a ∈ signing.map (·.dns.algorithm)
  /-- a label names one algorithm (two configured names for one label do not disagree) -/
  idAlg : ∀ a ∈ signing, ∀ b ∈ signing, a.dns.keyIdentifier = b.dns.keyIdentifier →
    a.dns.algorithm = b.dns.algorithm
  /-- no two published records share an identifier -/
  noDupIds : hasDupIds keys = false
  /-- per signing key: published under its identifier with its public key and algorithm; times,
      TTL and tag pack into their fields and all RDATAs are decodable (`make_raw_rrsig` succeeds);
      an asymmetric key with a private handle whose data formatting succeeds; and the scheme is
      healthy from operation `from_` on: the token answers a signature the verifier accepts -/
  ready : ∀ sk ∈ signing, ∃ dnsKey pk raw d hdl,
    dnsKey ∈ keys ∧ dnsKey.keyIdentifier = sk.dns.keyIdentifier ∧ dnsKey.publicKey = pk ∧
    dnsKey.algorithm = sk.dns.algorithm ∧
    sk.p11.publicKey = some pk ∧
    publicKeyFromKey { sk.dns with publicKey := pk } = .ok () ∧
    makeRawRrsig (sigTemplate bundle sk cfg.kskPolicy 0 dnsKey.keyTag) keys = .ok raw ∧
    sk.p11.keyType ≠ .aes ∧ sk.p11.keyType ≠ .des3 ∧
    formatDataForSigning ext.hash sk.p11 raw sk.dns.algorithm = .ok d ∧
    sk.p11.privHandle = some hdl ∧
    ∀ n, from_ ≤ n → ∃ b, tok n (.sign sk.p11.module sk.p11.slot hdl d.mechanism d.data) = .sig b ∧
      ext.verify sk.dns.algorithm pk raw b = .valid

/-- **Completion (partial: from the fetched keys on).** If the slot has an action, the three fetches
    returned keys, the revoked forms exist, and the slot is `WellFormed`, then `signBundle` returns a
    bundle — including the response-side re-validation when it is switched on. -/
theorem C01_completes_partial (ext : Externals) (mods : List P11Module) (cfg : SignerConfig) (slot : Nat)
    (bundle : Bundle) (tok : Token) (s s1 s2 s3 : TokState) (act : SchemaAction)
    (pub rev signing : List CompositeKey) (revoked : List Key)
    (hact : cfg.actions.lookup slot = some act)
    (hpub : fetchKeys ext mods cfg bundle true act.publish tok s = (.ok pub, s1))
    (hrev : fetchKeys ext mods cfg bundle true act.revoke tok s1 = (.ok rev, s2))
    (hrevoked : rev.mapM (fun ck => ck.dns.asRevoked) = .ok revoked)
    (hsign : fetchKeys ext mods cfg bundle false act.sign tok s2 = (.ok signing, s3))
    (hwf : WellFormed ext cfg bundle
      (slotFold cfg.kskPolicy.ttl (pub.map (·.dns)) revoked (signing.map (·.dns)) bundle.keys)
      signing tok s3.count) :
    ∃ rb s', signBundle ext mods cfg slot bundle tok s = (.ok rb, s') := by
  have httl := (C02.slotFold_spec cfg.kskPolicy.ttl (pub.map (·.dns)) revoked (signing.map (·.dns))
    bundle.keys).ttl
  have hready : ∀ sk ∈ signing, SignerReady ext bundle cfg.kskPolicy
      (slotFold cfg.kskPolicy.ttl (pub.map (·.dns)) revoked (signing.map (·.dns)) bundle.keys)
      sk tok s3.count := by
    intro sk hsk
    obtain ⟨dnsKey, pk, raw, d, hdl, h1, h2, h3, h4, h5, h6, h7, h8, h9, h10, h11, h12⟩ := hwf.ready sk hsk
    exact ⟨dnsKey, pk, raw, d, hdl, h1, h2, h3, h4, h5, h6, h7, h8, h9, h10, h11, h12⟩
  obtain ⟨sigs, s4, hsigs, hval, halgs, hne⟩ :=
    signAll_completes ext bundle cfg.kskPolicy _ signing tok s3 hwf.root httl hwf.noDupIds hready
  rw [signBundle_run hact hpub hrev hrevoked hsign hsigs]
  have hsame : sameSet (bundle.keys.map (·.algorithm)) (sigs.map (·.algorithm)) = true := by
    rw [sameSet_iff]
    intro a
    rw [hwf.algs a]
    exact (halgs hwf.idAlg a).symm
  have hsig_ne : signing ≠ [] := by
    intro he
    cases hb : bundle.keys with
    | nil => exact hwf.zsks hb
    | cons k r =>
      have := (hwf.algs k.algorithm).mp (by simp [hb])
      simp [he] at this
  have hkeys_ne : slotFold cfg.kskPolicy.ttl (pub.map (·.dns)) revoked (signing.map (·.dns)) bundle.keys ≠ [] := by
    cases hs : signing with
    | nil => exact absurd hs hsig_ne
    | cons sk r =>
      obtain ⟨dnsKey, _, _, _, _, h1, _⟩ := hwf.ready sk (by simp [hs])
      rw [← hs]
      exact List.ne_nil_of_mem h1
  have hvalid := validateSignatures_of_each ext.verify
    { id := bundle.id, inception := bundle.inception, expiration := bundle.expiration,
      keys := slotFold cfg.kskPolicy.ttl (pub.map (·.dns)) revoked (signing.map (·.dns)) bundle.keys,
      signatures := sigs } hkeys_ne (hne hsig_ne) hwf.noDupIds hval
  have hfin : finishBundle ext cfg bundle
      (slotFold cfg.kskPolicy.ttl (pub.map (·.dns)) revoked (signing.map (·.dns)) bundle.keys) sigs =
      .ok ⟨bundle.id, bundle.inception, bundle.expiration,
        slotFold cfg.kskPolicy.ttl (pub.map (·.dns)) revoked (signing.map (·.dns)) bundle.keys, sigs, none⟩ := by
    have hcv : checkValidSignatures ext.verify
        ⟨bundle.id, bundle.inception, bundle.expiration,
          slotFold cfg.kskPolicy.ttl (pub.map (·.dns)) revoked (signing.map (·.dns)) bundle.keys, sigs, none⟩
        cfg.responsePolicy = .ok () := by
      unfold checkValidSignatures
      rw [hvalid]
      split <;> rfl
    simp only [finishBundle, hsame, Bool.not_true, Bool.false_eq_true, ↓reduceIte, hcv]
  exact ⟨_, s4, by rw [hfin]⟩

/-! ## §4 ECDSA on the pinned tree (DESIGN §5 F4, known finding)

`_p11_object_to_public_key` publishes, for an EC token key, `Base64.encode point` where `point` is
the SEC 1 uncompressed point INCLUDING its leading `0x04` octet: the only size check is
`(len(point) − 1) · 8 / 2 = 256` (or 384), which forces 65 (or 97) octets.  RFC 6605 §4 wants the
bare `x ‖ y`, 64 (or 96) octets.  So the DNSKEY published for an ECDSA KSK is not an RFC 6605 key and
no independent validator accepts the RRSIG — C01 as stated fails for algorithms 13 / 14 on the
pinned tree.  What DOES hold is `C01_ecdsa_partial`. -/

/-- the size check of `_p11_object_to_public_key` forces the prefixed length -/
theorem ec_point_length_forced (point : Bytes) :
    ((point.length - 1) * 8 / 2 = 256 → point.length = 65) ∧
    ((point.length - 1) * 8 / 2 = 384 → point.length = 97) := by
  constructor <;> intro h <;> omega

/-- the text published for a point that passes the size check decodes to the point itself
    (65 / 97 octets), never to the 64 / 96 octets RFC 6605 prescribes -/
theorem C01_ecdsa_published_key_not_rfc6605 (point : Bytes)
    (want : Nat) (hw : want = 256 ∨ want = 384) (hlen : (point.length - 1) * 8 / 2 = want) :
    ∃ decoded, Base64.decode (Base64.encode point) = some decoded ∧
      decoded.length * 8 / 2 ≠ want ∧ (decoded.length = 65 ∨ decoded.length = 97) := by
  refine ⟨point, Base64.decode_encode point, ?_, ?_⟩
  · rcases hw with rfl | rfl <;> omega
  · rcases hw with rfl | rfl
    · left; omega
    · right; omega

/-- **For every token**: whenever the token says the object is an EC key and
    `_p11_object_to_public_key` yields a key text, that text is the base64 of 65 or 97 octets — it
    decodes to a key that is NOT of the RFC 6605 size (64 / 96) for either curve. -/
theorem C01_ecdsa_published_key_general (path : String) (slot handle : Nat) (tok : Token)
    (s s' : TokState) (txt : String)
    (h : p11ObjectToPublicKey path slot handle tok s = (.ok (some txt), s'))
    (hkt : tok s.count (.getAttr path slot handle ["KEY_TYPE"]) = .attrs [.num ckkEc]) :
    ∃ decoded, Base64.decode txt = some decoded ∧ (decoded.length = 65 ∨ decoded.length = 97) ∧
      decoded.length ≠ 64 ∧ decoded.length ≠ 96 := by
  obtain ⟨point, rfl, hl⟩ := ec_published_text h hkt
  exact ⟨point, Base64.decode_encode point, hl, by omega, by omega⟩

/-- a token holding a P-256 key whose `CKA_EC_POINT` is the bare SEC 1 point `04 ‖ x ‖ y` -/
def ecWitnessToken : Token := fun _ op =>
  match op with
  | .getAttr _ _ _ ["KEY_TYPE"] => .attrs [.num ckkEc]
  | .getAttr _ _ _ ["EC_POINT"] => .attrs [.bytes (4 :: List.replicate 64 0x11)]
  | .getAttr _ _ _ ["EC_PARAMS"] => .attrs [.bytes ecOidP256]
  | _ => .other

/-- **Concrete witness.** On that token the model (as the code) publishes a 65-octet key for
    algorithm 13: `_p11_object_to_public_key` answers the base64 of the point with its `0x04`. -/
theorem C01_ecdsa_witness :
    (p11ObjectToPublicKey "m" 0 7 ecWitnessToken {}).1
      = .ok (some (Base64.encode (4 :: List.replicate 64 0x11))) ∧
    (4 :: List.replicate 64 (0x11 : UInt8)).length = 65 ∧
    Base64.decode (Base64.encode (4 :: List.replicate 64 0x11)) = some (4 :: List.replicate 64 0x11) := by
  refine ⟨?_, by simp, Base64.decode_encode _⟩
  simp [p11ObjectToPublicKey, ecUnwrap, ecUnwrapWith, askOk, ask, bind, ecWitnessToken, attr1, attrBytes, ckkEc, ckkRsa,
    ecOidP256, ecOidP384, pure, TokM.err, TokM.fail]

/-- **What holds for ECDSA** (and every other algorithm): the tool's own verifier accepted each
    emitted signature over exactly the published set, under the key text it derived from the token
    — the same statement as `C01_main`; and with host hashing the token was handed the SHA-256 /
    SHA-384 digest of those octets with `CKM_ECDSA`. -/
theorem C01_ecdsa_partial (ext : Externals) (mods : List P11Module) (cfg : SignerConfig) (slot : Nat)
    (bundle rb : Bundle) (tok : Token) (s s' : TokState)
    (h : signBundle ext mods cfg slot bundle tok s = (.ok rb, s')) :
    ∀ σ ∈ rb.signatures, (σ.algorithm = 13 ∨ σ.algorithm = 14) →
      ∃ sk dnsKey raw sigBytes pk,
        SigSpec ext rb.inception rb.expiration cfg.kskPolicy rb.keys sk σ dnsKey raw sigBytes pk ∧
        ext.verify σ.algorithm pk raw sigBytes = .valid ∧
        (sk.p11.hashUsingHsm ≠ some true → ∀ d,
          formatDataForSigning ext.hash sk.p11 raw σ.algorithm = .ok d →
          d.mechanism = ckmEcdsa ∧
          ext.hash (if σ.algorithm = 13 then .sha256 else .sha384) raw = some d.data) := by
  intro σ hσ halg
  obtain ⟨act, name, sk, dnsKey, raw, sigBytes, pk, _, _, _, hspec, _⟩ :=
    C01_main ext mods cfg slot bundle rb tok s s' h σ hσ
  refine ⟨sk, dnsKey, raw, sigBytes, pk, hspec, by rw [hspec.algorithm]; exact hspec.verified, ?_⟩
  intro hk d hd
  exact C15.raw_ecdsa_is_digest ext.hash sk.p11 raw σ.algorithm d hk halg hd

/-! ## §5 Non-vacuity -/

section Examples

/-- a token that signs anything with the octets `[1, 2, 3]` and a verifier that accepts exactly that -/
private def exTok : Token := fun _ op => match op with | .sign .. => .sig [1, 2, 3] | _ => .other
private def exExt : Externals :=
  { hash := fun _ d => some d, verify := fun _ _ _ sg => if sg = [1, 2, 3] then .valid else .invalid }
private def exKsk : Key := ⟨"ksk", 1, 172800, 257, 3, 8, "AwEAAQ=="⟩
private def exZsk : Key := ⟨"zsk", 2, 172800, 256, 3, 8, "AwEAAg=="⟩
private def exSk : CompositeKey :=
  { p11 := { label := "ksk", keyType := .rsa, keyClass := 3, hashUsingHsm := some true,
             publicKey := some "AwEAAQ==", module := "m", slot := 0, privHandle := some 5 },
    dns := exKsk }
private def exBundle : Bundle := ⟨"b1", 1700000000000000, 1701000000000000, [exZsk], [], none⟩

/-- `signKeys` succeeds on a concrete instance, so the hypothesis of `signKeys_spec` is satisfiable -/
example : (match signKeys exExt exBundle [exKsk, exZsk] exSk {} exTok {} with
    | (.ok σ, s') => decide (σ.keyTag = 1 ∧ σ.labels = 0 ∧ σ.signatureData = Base64.encode [1, 2, 3] ∧
        s'.count = 1)
    | _ => false) = true := by decide +kernel

example : (4 :: List.replicate 64 (0x11 : UInt8)).length = 65 ∧ (65 - 1) * 8 / 2 = 256 := by decide

/-- a token with one RSA key pair labelled "ksk" (handle 5, modulus `80 01`, e = 65537) that signs
    everything with `[1, 2, 3]` -/
private def exTok2 : Token := fun _ op =>
  match op with
  | .findObjects _ _ _ => .handles [5]
  | .getAttr _ _ _ ["KEY_TYPE"] => .attrs [.num 0]
  | .getAttr _ _ _ ["MODULUS"] => .attrs [.bytes [0x80, 1]]
  | .getAttr _ _ _ ["PUBLIC_EXPONENT"] => .attrs [.bytes [1, 0, 1]]
  | .sign .. => .sig [1, 2, 3]
  | _ => .other
private def exCfg : SignerConfig :=
  { kskKeys := [("k1", { label := "ksk", algorithm := 8, validFrom := 0, rsaSize := some 16,
                         rsaExponent := some 65537, hashUsingHsm := some true })],
    actions := [(1, { publish := ["k1"], sign := ["k1"] })] }
private def exMods : List P11Module := [{ label := "hsm", path := "m", sessions := [0] }]

/-- a whole slot runs to `ok` on a concrete instance (schema action, fetches from the token, key set,
    one signature, algorithm agreement, re-validation): the hypothesis of `C01_main`,
    `C01_verified_again` and of the C02 slot theorems is satisfiable -/
example : (match signBundle exExt exMods exCfg 1 exBundle exTok2 {} with
    | (.ok rb, s') => decide (rb.keys.length = 2 ∧ rb.signatures.length = 1 ∧ rb.id = "b1" ∧
        (∀ k ∈ rb.keys, k.ttl = 172800) ∧ 0 < s'.count)
    | _ => false) = true := by decide +kernel

/-- the composite key that token yields for the private fetch of "k1" -/
private def exPriv : P11Key :=
  { label := "ksk", keyType := .rsa, keyClass := 3, hashUsingHsm := some true,
    publicKey := some "AwEAAYAB", module := "m", slot := 0, privHandle := some 5, pubHandle := some 5 }
private def exDns : Key := ⟨"ksk", 34572, 172800, 257, 3, 8, "AwEAAYAB"⟩
private def exKeys : List Key := slotFold 172800 [exDns] [] [exDns] [exZsk]
private def exRaw : Bytes :=
  match makeRawRrsig (sigTemplate exBundle ⟨exPriv, exDns⟩ exCfg.kskPolicy 0 34572) exKeys with
  | .ok r => r
  | _ => []

/-- the hypotheses of `C01_completes_partial` are satisfiable: `WellFormed` holds of the key that
    token returns for the example schema slot, with the key set the slot assembles -/
example : WellFormed exExt exCfg exBundle exKeys [⟨exPriv, exDns⟩] exTok2 0 where
  root := rfl
  zsks := by decide
  algs := by intro a; simp [exBundle, exZsk, exDns]
  idAlg := by decide
  noDupIds := by decide +kernel
  ready := by
    intro sk hsk
    simp only [List.mem_singleton] at hsk
    subst hsk
    have hraw : makeRawRrsig (sigTemplate exBundle ⟨exPriv, exDns⟩ exCfg.kskPolicy 0 34572) exKeys
        = .ok exRaw := by
      have hs : (makeRawRrsig (sigTemplate exBundle ⟨exPriv, exDns⟩ exCfg.kskPolicy 0 34572)
          exKeys).toOption.isSome = true := by decide +kernel
      unfold exRaw
      cases h : makeRawRrsig (sigTemplate exBundle ⟨exPriv, exDns⟩ exCfg.kskPolicy 0 34572) exKeys with
      | error e => rw [h] at hs; simp [Except.toOption] at hs
      | ok r => rfl
    refine ⟨exDns, "AwEAAYAB", exRaw, ⟨exRaw, 64, true⟩, 5, by decide +kernel, rfl, rfl, rfl, rfl,
      by decide +kernel, hraw, by decide, by decide, rfl, rfl, ?_⟩
    intro n _
    exact ⟨[1, 2, 3], rfl, rfl⟩

end Examples

/-! ## §6 Completion from a store-level description of the token

`C01_completes_partial` (§3) starts after the three `_fetch_keys` calls.  Here the fetches are
derived as well, from a description of the token at store level, for RSA keys.

The token is `signingToken st ok sg` (Lemmas/SignerComplete.lean): the store-backed token
`storeToken st ok` of C15 / C04 — `findObjects` filters the objects of a slot on label and class,
`getAttr` reads the attributes of a stored object, answers independent of the operation index —
which in addition answers `C_Sign(module, slot, handle, mechanism, data)` with
`sg module slot handle mechanism data`.  `loc label` says where a label lives (`KeyLoc`: module, slot,
public and private object, modulus, exponent, RFC 3110 encoding).

Hypotheses, all explicit:

* `HealthyBase ext cfg` — signer name is the root; the KSK TTL packs into 32 bits; the hash oracle
  answers.
* per request bundle `i`, for the action `act` of slot `i + 1`, `HealthyAction … b act`:
  - `names`: every name under publish / revoke / sign is a configured KSK (`HealthyName`) whose window
    contains the bundle (`C04.InWindow`), that is on the token once (`OnToken`: in module order and
    session-slot order the first slot holding the label holds exactly one public and one private RSA
    object, both with readable modulus and exponent), with the configured algorithm family, size and
    exponent (`RsaConfigured`), and whose configured key tag / DS digest match (`identity`);
  - `labelAlg`, `distinctKeys`: a label is configured with one algorithm; different labels are
    different key material (otherwise the record published under a key text need not be the
    signer's, cf. C02 §8);
  - `zsks`, `zskIds`, `zskNotKsk`, `zskRdata`: the request bundle has keys, with pairwise different
    identifiers, none equal to a KSK label, with decodable RDATA of bounded length;
  - `algs`: ZSK algorithm set = algorithm set of the keys under `sign`;
  - `expiration`, `inception`: the two times pack into 32 bits;
  - `signs`: the scheme is healthy — the software verifier accepts what the token answers, under the
    key text derived from the private object, over the octets that were formatted.

Missing from the full statement of DESIGN §4/C01: EC keys (finding F4 concerns them anyway) and
tokens whose private objects lack readable public attributes (the second lookup of
`load_pkcs11_key`; `OnToken.rsa` asks for modulus and exponent on both objects); `create_skr`'s
policy assembly after `sign_bundles` (`kskSignaturePolicy`, which needs every published key to be RSA)
is not covered either. -/

/-- a request all of whose bundles meet a healthy action of the schema -/
structure HealthyWorld (ext : Externals) (st : Store) (sg : String → Nat → Nat → Nat → Bytes → Bytes)
    (mods : List P11Module) (cfg : SignerConfig) (loc : String → KeyLoc) (req : Request) : Prop where
  base : HealthyBase ext cfg
  /-- the schema has an action for the slot of every request bundle, healthy for that bundle -/
  slots : ∀ i b, req.bundles[i]? = some b →
    ∃ act, cfg.actions.lookup (i + 1) = some act ∧ HealthyAction ext st sg mods cfg loc b act

/-- **Completion, one slot.** On the store-backed signing token, from any token state, a healthy
    action signs its bundle: `signBundle` returns a response bundle (fetches, key set, signing loop,
    algorithm agreement and response-side re-validation all pass). -/
theorem C01_completes_slot (ext : Externals) (st : Store) (ok : String → Nat → Bool)
    (sg : String → Nat → Nat → Nat → Bytes → Bytes) (mods : List P11Module) (cfg : SignerConfig)
    (loc : String → KeyLoc) (slot : Nat) (b : Bundle) (act : SchemaAction) (hb : HealthyBase ext cfg)
    (hact : cfg.actions.lookup slot = some act) (ha : HealthyAction ext st sg mods cfg loc b act)
    (s : TokState) :
    ∃ rb s', signBundle ext mods cfg slot b (signingToken st ok sg) s = (.ok rb, s') := by
  obtain ⟨pub, rev, signing, revoked, s1, s2, s3, hpub, hrev, hrevoked, hsign, halgs, hidalg, hnd, hready⟩ :=
    healthyAction_ready ext st ok sg mods cfg loc b act hb ha s
  refine C01_completes_partial ext mods cfg slot b _ s s1 s2 s3 act pub rev signing revoked hact hpub hrev
    hrevoked hsign ⟨hb.root, ha.zsks, halgs, hidalg, hnd, ?_⟩
  intro sk hsk
  obtain ⟨dnsKey, pk, raw, d, hdl, h1, h2, h3, h4, h5, h6, h7, h8, h9, h10, h11, h12⟩ := hready sk hsk
  exact ⟨dnsKey, pk, raw, d, hdl, h1, h2, h3, h4, h5, h6, h7, h8, h9, h10, h11,
    fun n _ => h12 n (Nat.zero_le n)⟩

/-- **C01_completes.** In a healthy world `sign_bundles` returns a response for the whole request —
    any number of bundles, from any token state — with one response bundle per request bundle; by
    `C01_all_bundles` every signature in it meets `SigSpec`. -/
theorem C01_completes (ext : Externals) (st : Store) (ok : String → Nat → Bool)
    (sg : String → Nat → Nat → Nat → Bytes → Bytes) (mods : List P11Module) (cfg : SignerConfig)
    (loc : String → KeyLoc) (req : Request) (hw : HealthyWorld ext st sg mods cfg loc req) (s : TokState) :
    ∃ rbs s', signBundles ext mods cfg req (signingToken st ok sg) s = (.ok rbs, s') ∧
      rbs.length = req.bundles.length := by
  have key : ∀ (bs : List Bundle) (n : Nat) (s : TokState),
      (∀ i b, bs[i]? = some b → ∃ act, cfg.actions.lookup (n + i) = some act ∧
        HealthyAction ext st sg mods cfg loc b act) →
      ∃ rbs s', signBundlesFrom ext mods cfg n bs (signingToken st ok sg) s = (.ok rbs, s') := by
    intro bs
    induction bs with
    | nil => intro n s _; exact ⟨[], s, by simp [signBundlesFrom_nil]⟩
    | cons b rest ih =>
      intro n s h
      obtain ⟨act, hact, ha⟩ := h 0 b rfl
      obtain ⟨rb, s1, hrb⟩ := C01_completes_slot ext st ok sg mods cfg loc n b act hw.base hact ha s
      obtain ⟨more, s2, hmore⟩ := ih (n + 1) s1 (by
        intro i b' hb'
        have := h (i + 1) b' (by simpa using hb')
        rwa [show n + (i + 1) = n + 1 + i by omega] at this)
      refine ⟨rb :: more, s2, ?_⟩
      rw [signBundlesFrom_cons]
      simp only [TokM.bind_eq, hrb, hmore, TokM.pure_run]
  obtain ⟨rbs, s', h⟩ := key req.bundles 1 s (by
    intro i b hb
    have := hw.slots i b hb
    rwa [Nat.add_comm] at this)
  exact ⟨rbs, s', h, (signBundlesFrom_ok h).1⟩

/-! ### Non-vacuity of §6

The world of Lemmas/SignerCompleteExample.lean: two modules (the first holds nothing), three session
slots (slot 0 a foreign key, slot 1 the RSA key pairs "KA" and "KB", slot 2 another "KA" object that
is never reached); KSK "a" with window, size, exponent and key tag configured and hashing on the
token, KSK "b" hashing on the host; schema slot 1 = publish a b / sign a / revoke b, slot 2 =
publish a / sign a a; a request with two bundles of two and one ZSKs. -/

section WorldExample
open HealthyExample

/-- the hypotheses of `C01_completes` are satisfiable -/
theorem healthyWorld_example : HealthyWorld ext store sg mods cfg loc req where
  base := base
  slots := by
    intro i b hb
    match i, hb with
    | 0, hb =>
      simp only [req, List.getElem?_cons_zero, Option.some.injEq] at hb
      subst hb
      exact ⟨act1, by decide, healthyAction1⟩
    | 1, hb =>
      simp only [req, List.getElem?_cons_succ, List.getElem?_cons_zero, Option.some.injEq] at hb
      subst hb
      exact ⟨act2, by decide, healthyAction2⟩
    | i + 2, hb => simp [req] at hb

/-- … and its conclusion on that world: both bundles are signed -/
example : ∃ rbs s', signBundles ext mods cfg req (signingToken store (fun _ _ => true) sg) {} = (.ok rbs, s') ∧
    rbs.length = 2 :=
  C01_completes ext store (fun _ _ => true) sg mods cfg loc req healthyWorld_example {}

/-- cross-check by evaluation of the model: slot 1 publishes "KA", "KB" revoked and the two ZSKs with
    one signature, slot 2 publishes "KA" and the ZSK with one signature (the repeated name signs once) -/
example : (signBundles ext mods cfg req (signingToken store (fun _ _ => true) sg) {}).1.map
    (·.map fun b => (b.keys.length, b.signatures.length)) = .ok [(4, 1), (2, 1)] := by decide +kernel

end WorldExample

end Kskm.C01
