/-
  C01 — every emitted signature is a valid RRSIG over exactly the published DNSKEY set.

  Every theorem is for EVERY token oracle `tok`, every starting state `s`, every hash function and
  software verifier (`ext`).  What is proved is what the TOOL adds on top of the primitives: which
  octets it asks to be signed, with which key and mechanism, over which key set, with which field
  values, and that nothing leaves `signBundle` without the software verifier having accepted it over
  exactly the published set.  Unforgeability of the signature scheme and collision resistance of the
  hash are assumptions outside the theorems (DESIGN §4/C01 "Limits").

  Layout
    §1  one signature (`signKeys_spec`), its to-be-signed octets = RFC 4034 §3.1.8.1, what reaches the token
    §2  one bundle (`C01_main`), all bundles (`C01_all_bundles`), response-side re-validation
    §3  completion under explicit well-formedness (`C01_completes_partial`)
    §4  ECDSA on the pinned tree (finding F4)
    §5  non-vacuity examples
    §6  completion from a store-level description of the token (`HealthyWorld`, `C01_completes`)
    §7  completion for EC keys (`C01_completes_ecdsa`) and for schemas of both families
        (`C01_completes_any`, `C01_slot_completes_iff`); finding F4 as a theorem
        (`C01_ecdsa_published_key_has_prefix`)
-/
import Kskm.Signer
import KskmProofs.Lemmas.TokM
import KskmProofs.Lemmas.Base64
import KskmProofs.Lemmas.SignerKeys
import KskmProofs.Lemmas.SignerInv
import KskmProofs.Lemmas.SignerRun
import KskmProofs.Lemmas.SignerEc
import KskmProofs.C14
import KskmProofs.C15
import KskmProofs.C02
import KskmProofs.Lemmas.SignerComplete
import KskmProofs.Lemmas.SignerCompleteExample
import KskmProofs.Lemmas.C01Any
import KskmProofs.Lemmas.C01AnyExample
namespace Kskm.C01

/-- uniqueness by public key: adding never creates two entries with the same public key text -/
theorem ktsAdd_unique (ttl : Int) (keys : List Key) (k : Key)
    (h : keys.Pairwise (fun a b => a.publicKey ≠ b.publicKey)) :
    (ktsAdd ttl keys k).Pairwise (fun a b => a.publicKey ≠ b.publicKey) :=
  Kskm.ktsAdd_unique ttl keys k h

/-! ## §1 One signature -/

/-- What C01 states about one signature `σ` made by the composite key `sk` over the key set `keys`
    for a bundle with the given inception / expiration under KSK policy `pol`.  Witnesses: `dnsKey`
    the record of the signing key AS PUBLISHED in `keys`, `raw` the to-be-signed octets, `sigBytes`
    the signature octets, `pk` the public key text of the token key. -/
structure SigSpec (ext : Externals) (inception expiration : Int) (pol : KskPolicy) (keys : List Key)
    (sk : CompositeKey) (σ : Signature) (dnsKey : Key) (raw sigBytes : Bytes) (pk : String) : Prop where
  /-- the signing key is published in the set, under its identifier, exactly once -/
  published : ktsGet keys sk.dns.keyIdentifier = .ok (some dnsKey)
  pubkey : sk.p11.publicKey = some pk
  /-- `raw` is `make_raw_rrsig` of the signature's own fields over exactly `keys` -/
  tbs : makeRawRrsig { σ with signatureData := "" } keys = .ok raw
  /-- the software verifier accepted the signature octets over `raw` under the token key -/
  verified : ext.verify sk.dns.algorithm pk raw sigBytes = .valid
  sigData : σ.signatureData = Base64.encode sigBytes
  inception : σ.inception = inception
  expiration : σ.expiration = expiration
  ttl : σ.ttl = pol.ttl
  originalTtl : σ.originalTtl = pol.ttl
  signersName : σ.signersName = pol.signersName
  root : pol.signersName = "."
  labels : σ.labels = 0
  typeCovered : σ.typeCovered = 48
  algorithm : σ.algorithm = sk.dns.algorithm
  keyIdentifier : σ.keyIdentifier = sk.dns.keyIdentifier
  /-- the tag of the signing key as published: the revoked tag when it is published revoked -/
  keyTag : σ.keyTag = dnsKey.keyTag
  /-- every key of the signed set carries the policy TTL -/
  keysTtl : ∀ k ∈ keys, k.ttl = pol.ttl

/-- **One signature.** Whenever `_sign_keys` returns a signature — for any token — the software
    verifier accepted it over `make_raw_rrsig` of its own fields and exactly `keys`, all fields are
    the bundle's / the policy's / the published key's, and exactly ONE token operation was issued: a
    `C_Sign` on the key's private handle with mechanism and data from `_format_data_for_signing`
    over those octets. -/
theorem signKeys_spec (ext : Externals) (bundle : Bundle) (keys : List Key) (sk : CompositeKey)
    (pol : KskPolicy) (tok : Token) (s s' : TokState) (σ : Signature)
    (h : signKeys ext bundle keys sk pol tok s = (.ok σ, s')) :
    ∃ dnsKey raw sigBytes pk,
      SigSpec ext bundle.inception bundle.expiration pol keys sk σ dnsKey raw sigBytes pk ∧
      ∃ d hdl, formatDataForSigning ext.hash sk.p11 raw sk.dns.algorithm = .ok d ∧
        sk.p11.privHandle = some hdl ∧
        tok s.count (.sign sk.p11.module sk.p11.slot hdl d.mechanism d.data) = .sig sigBytes ∧
        s'.count = s.count + 1 ∧
        s'.log = (.sign sk.p11.module sk.p11.slot hdl d.mechanism d.data, .sig sigBytes) :: s.log := by
  obtain ⟨httl, dnsKey, labels, raw, sigBytes, pk, hget, hl, hraw, hsign, hpk, _, hv, rfl⟩ := signKeys_ok h
  obtain ⟨hroot, rfl⟩ := dndepth_ok hl
  obtain ⟨d, hdl, hd, hh, _, _, hans, rfl⟩ := signUsingP11_ok hsign
  exact ⟨dnsKey, raw, sigBytes, pk,
    ⟨hget, hpk, hraw, hv, rfl, rfl, rfl, rfl, rfl, rfl, hroot, rfl, rfl, rfl, rfl, rfl, httl⟩,
    d, hdl, hd, hh, hans, rfl, rfl⟩

/-- **The octets are the RFC's.** The to-be-signed octets of a `SigSpec` are the RFC 4034 §3.1.8.1
    octets — RRSIG RDATA (type covered 48, the algorithm, 0 labels, the policy TTL, the bundle's
    expiration and inception in seconds, the published key's tag), signer name root, then the DNSKEY
    RRs of exactly `keys` in canonical order (§6.3) — whatever canonical arrangement `l` an
    independent implementation picks; and every field fits its wire field. -/
theorem sigSpec_rfc4034 {ext : Externals} {inc exp : Int} {pol : KskPolicy} {keys : List Key}
    {sk : CompositeKey} {σ : Signature} {dnsKey : Key} {raw sigBytes : Bytes} {pk : String}
    (h : SigSpec ext inc exp pol keys sk σ dnsKey raw sigBytes pk) :
    ∃ rdatas, keys.mapM keyToRdata = .ok rdatas ∧
      (∀ l, C14.CanonicalOrder l rdatas →
        raw = C14.rfc4034TBS 48 sk.dns.algorithm 0 pol.ttl.toNat (tsSeconds exp).toNat
                (tsSeconds inc).toNat dnsKey.keyTag.toNat l) ∧
      sk.dns.algorithm < 256 ∧ 0 ≤ pol.ttl ∧ pol.ttl < 2 ^ 32 ∧
      0 ≤ tsSeconds exp ∧ tsSeconds exp < 2 ^ 32 ∧ 0 ≤ tsSeconds inc ∧ tsSeconds inc < 2 ^ 32 ∧
      0 ≤ dnsKey.keyTag ∧ dnsKey.keyTag < 2 ^ 16 := by
  obtain ⟨rdatas, hrd, _, _, halg, _, httl, hexp, hinc, htag, _, hraw⟩ := makeRawRrsig_ok h.tbs
  simp only [h.typeCovered, h.algorithm, h.labels, h.originalTtl, h.expiration, h.inception, h.keyTag,
    inRange, Bool.and_eq_true, decide_eq_true_eq] at halg httl hexp hinc htag hraw
  refine ⟨rdatas, hrd, ?_, halg, httl.1, by omega, hexp.1, by omega, hinc.1, by omega, htag.1, by omega⟩
  intro l hl
  rw [hraw]
  exact C14.makeRawRrsig_eq_rfc _ _ _ _ _ _ _ rdatas l hl

/-- **What reaches the token** (with C15): for host hashing and RSA the full-modulus-length
    EMSA-PKCS1-v1_5 block of the matching digest of `raw`; for host hashing and ECDSA the matching
    digest of `raw`; with hashing on the token, `raw` itself, untouched, and the hashing mechanism. -/
theorem token_input_spec (hash : Hasher) (key : P11Key) (raw : Bytes) (alg : Nat) (d : DataToSign)
    (h : formatDataForSigning hash key raw alg = .ok d) :
    (key.hashUsingHsm ≠ some true → (alg = 8 ∨ alg = 10) →
      ∃ pk pub digest, key.publicKey = some pk ∧ rsaDecode pk alg = .ok pub ∧
        hash (if alg = 8 then .sha256 else .sha512) raw = some digest ∧ d.mechanism = ckmRsaX509 ∧
        d.data = emsaBlock (pub.bits / 8)
          ((if alg = 8 then digestInfoSha256 else digestInfoSha512) ++ digest)) ∧
    (key.hashUsingHsm ≠ some true → (alg = 13 ∨ alg = 14) →
      d.mechanism = ckmEcdsa ∧ hash (if alg = 13 then .sha256 else .sha384) raw = some d.data) ∧
    (key.hashUsingHsm = some true → alg ∈ [5, 8, 10, 13, 14] →
      d.data = raw ∧ some d.mechanism = mechanismFor true alg) :=
  ⟨fun hk ha => C15.raw_rsa_is_emsa hash key raw alg d hk ha h,
   fun hk ha => C15.raw_ecdsa_is_digest hash key raw alg d hk ha h,
   fun hk ha => let r := C15.hash_on_token_untouched hash key raw alg d hk ha h; ⟨r.1, r.2.1⟩⟩

/-! ## §2 One bundle, all bundles -/

/-- **C01, one bundle.** Whenever `signBundle` returns a response bundle `rb` — any token, any
    state — every signature `σ` of `rb` was made by a composite key `sk` fetched for a name listed
    under `sign` of the slot's action, and satisfies `SigSpec` with `keys = rb.keys`: the software
    verifier accepted it over `make_raw_rrsig σ rb.keys`, i.e. over exactly the published set, with
    the response bundle's inception and expiration, the configured TTL, signer name root, zero labels
    and the tag of the signing key as published.  (`sigSpec_rfc4034`: those octets are the RFC's.) -/
theorem C01_main (ext : Externals) (mods : List P11Module) (cfg : SignerConfig) (slot : Nat)
    (bundle rb : Bundle) (tok : Token) (s s' : TokState)
    (h : signBundle ext mods cfg slot bundle tok s = (.ok rb, s')) :
    ∀ σ ∈ rb.signatures, ∃ act name sk dnsKey raw sigBytes pk,
      cfg.actions.lookup slot = some act ∧ name ∈ act.sign ∧ C02.KskRecord cfg name pk sk.dns ∧
      SigSpec ext rb.inception rb.expiration cfg.kskPolicy rb.keys sk σ dnsKey raw sigBytes pk ∧
      dnsKey ∈ rb.keys := by
  intro σ hσ
  obtain ⟨act, pub, rev, revoked, signing, s1, s2, s3, hact, _, _, _, hsign, _, hsigs, hfin⟩ := signBundle_ok h
  obtain ⟨_, hrb, _⟩ := finishBundle_ok hfin
  obtain ⟨new, e, h1, _, _, _⟩ := signAll_ok hsigs
  simp only [List.nil_append] at e
  rw [e] at hσ
  obtain ⟨sk, hsk, sa, sb, hrun⟩ := h1 σ hσ
  obtain ⟨dnsKey, raw, sigBytes, pk, hspec, _⟩ := signKeys_spec ext bundle rb.keys sk cfg.kskPolicy tok sa sb σ hrun
  obtain ⟨name, hn, pk', hpk', hrec⟩ := (C02.fetchedFor_of_ok hsign).2.1 sk hsk
  have : pk' = pk := by
    have := hspec.pubkey
    rw [hpk'] at this
    exact Option.some.inj this
  subst this
  have hi : rb.inception = bundle.inception := by rw [hrb]
  have he : rb.expiration = bundle.expiration := by rw [hrb]
  rw [hi, he]
  exact ⟨act, name, sk, dnsKey, raw, sigBytes, pk', hact, hn, hrec, hspec, (ktsGet_some_mem hspec.published).1⟩

/-- **C01, all bundles** — for every request, with any number of bundles: every signature of every
    response bundle is as in `C01_main`, for the slot that is the bundle's 1-based position. -/
theorem C01_all_bundles (ext : Externals) (mods : List P11Module) (cfg : SignerConfig) (req : Request)
    (rbs : List Bundle) (tok : Token) (s s' : TokState)
    (h : signBundles ext mods cfg req tok s = (.ok rbs, s')) :
    rbs.length = req.bundles.length ∧
    ∀ i rb, rbs[i]? = some rb → ∀ σ ∈ rb.signatures, ∃ act name sk dnsKey raw sigBytes pk,
      cfg.actions.lookup (i + 1) = some act ∧ name ∈ act.sign ∧ C02.KskRecord cfg name pk sk.dns ∧
      SigSpec ext rb.inception rb.expiration cfg.kskPolicy rb.keys sk σ dnsKey raw sigBytes pk ∧
      dnsKey ∈ rb.keys := by
  unfold signBundles at h
  obtain ⟨hlen, hpos⟩ := signBundlesFrom_ok h
  refine ⟨hlen, ?_⟩
  intro i rb hi
  have hlt : i < req.bundles.length := by
    rw [← hlen]
    exact (List.getElem?_eq_some_iff.mp hi).1
  obtain ⟨rb', sa, sb, h1, h2⟩ := hpos i req.bundles[i] (List.getElem?_eq_getElem hlt)
  rw [hi] at h1
  cases h1
  rw [Nat.add_comm] at h2
  exact C01_main ext mods cfg (i + 1) _ rb tok sa sb h2

/-- **Verified again.** With `validate_signatures` on in the response policy, a returned bundle has
    passed `validate_signatures` (the reader-side validation: key lookup by identifier in the
    published set, public key from the PUBLISHED record, `make_raw_rrsig` over the published set). -/
theorem C01_verified_again (ext : Externals) (mods : List P11Module) (cfg : SignerConfig) (slot : Nat)
    (bundle rb : Bundle) (tok : Token) (s s' : TokState)
    (hv : cfg.responsePolicy.validateSignatures = true)
    (h : signBundle ext mods cfg slot bundle tok s = (.ok rb, s')) :
    validateSignatures ext.verify rb = .ok () := by
  obtain ⟨act, pub, rev, revoked, signing, s1, s2, s3, _, _, _, _, _, _, _, hfin⟩ := signBundle_ok h
  obtain ⟨_, _, hc⟩ := finishBundle_ok hfin
  unfold checkValidSignatures at hc
  simp only [hv, Bool.not_true, Bool.false_eq_true, ↓reduceIte] at hc
  split at hc
  · simp [violation] at hc
  · simp at hc
  · assumption

/-! ## §3 Completion

Full statement (DESIGN §4/C01 `C01_completes`):

    for a token described at store level (modules → slots → objects with attributes) on which every
    key named by the schema is configured, inside its validity window and present with parameters
    matching the configuration, a healthy signature scheme, per bundle equal ZSK / signing-key
    algorithm sets and times that pack into 32 bits,  `signBundles` returns `ok`.

It is proved for RSA keys in §6 (`C01_completes`, from the store-level hypothesis `HealthyWorld`) and
for EC keys and schemas with keys of both families in §7 (`C01_completes_ecdsa`, `C01_completes_any`).
This section proves, for EVERY token, the part after the fetches.

Proved here: `C01_completes_partial`, which starts AFTER the three `_fetch_keys` calls of a slot — their
results are hypotheses — and shows that everything the signer itself does then goes through.
The forward (success) direction of `fetchKeys` / `loadPkcs11Key` / `getP11Key` / `findInSlots` /
`p11ObjectToPublicKey` / `validateDnskeyMatchesKsk` from a store-level description of the token, and
the lifting from one slot to `signBundles`, are in §6 and Lemmas/SignerComplete.lean. -/

/-- `make_raw_rrsig` succeeds EXACTLY when type, algorithm, labels, TTL, the two times (in seconds)
    and the tag pack into their wire fields (times and TTL: 32 bits), the signer name is the root, and
    every key's RDATA is decodable and fits a 16-bit length — this is what the `makeRawRrsig … = .ok raw`
    clause of `WellFormed.ready` below amounts to. -/
theorem makeRawRrsig_succeeds_iff (sig : Signature) (keys : List Key) :
    (∃ raw, makeRawRrsig sig keys = .ok raw) ↔
      (sig.typeCovered < 65536 ∧ sig.algorithm < 256 ∧ inRange 8 sig.labels = true ∧
       inRange 32 sig.originalTtl = true ∧ inRange 32 (tsSeconds sig.expiration) = true ∧
       inRange 32 (tsSeconds sig.inception) = true ∧ inRange 16 sig.keyTag = true ∧
       sig.signersName = "." ∧
       ∃ rdatas, keys.mapM keyToRdata = .ok rdatas ∧ ∀ r ∈ rdatas, r.length < 65536) := by
  constructor
  · rintro ⟨raw, h⟩
    obtain ⟨rdatas, hrd, hroot, h1, h2, h3, h4, h5, h6, h7, hlen, _⟩ := makeRawRrsig_ok h
    exact ⟨h1, h2, h3, h4, h5, h6, h7, hroot, rdatas, hrd, hlen⟩
  · rintro ⟨h1, h2, h3, h4, h5, h6, h7, hroot, rdatas, hrd, hlen⟩
    exact ⟨_, makeRawRrsig_of h1 h2 h3 h4 h5 h6 h7 hroot hrd hlen⟩

/-- Structural well-formedness of one slot once the keys are fetched: what must hold of the fetched
    signing keys `signing` and of the assembled key set `keys` for the signer to complete. -/
structure WellFormed (ext : Externals) (cfg : SignerConfig) (bundle : Bundle) (keys : List Key)
    (signing : List CompositeKey) (tok : Token) (from_ : Nat) : Prop where
  /-- the signer name is the root (the only one `dn2wire` implements) -/
  root : cfg.kskPolicy.signersName = "."
  /-- the request bundle has keys -/
  zsks : bundle.keys ≠ []
  /-- ZSK and signing-key algorithm sets agree -/
  algs : ∀ a, a ∈ bundle.keys.map (·.algorithm) ↔ a ∈ signing.map (·.dns.algorithm)
  /-- a label names one algorithm (two configured names for one label do not disagree) -/
  idAlg : ∀ a ∈ signing, ∀ b ∈ signing, a.dns.keyIdentifier = b.dns.keyIdentifier →
    a.dns.algorithm = b.dns.algorithm
  /-- no two published records share an identifier -/
  noDupIds : hasDupIds keys = false
  /-- per signing key: published under its identifier with its public key and algorithm; times,
      TTL and tag pack into their fields and all RDATAs are decodable (`make_raw_rrsig` succeeds);
      an asymmetric key with a private handle whose data formatting succeeds; and the scheme is
      healthy from operation `from_` on: the token answers a signature the verifier accepts -/
  ready : ∀ sk ∈ signing, ∃ dnsKey pk raw d hdl,
    dnsKey ∈ keys ∧ dnsKey.keyIdentifier = sk.dns.keyIdentifier ∧ dnsKey.publicKey = pk ∧
    dnsKey.algorithm = sk.dns.algorithm ∧
    sk.p11.publicKey = some pk ∧
    publicKeyFromKey { sk.dns with publicKey := pk } = .ok () ∧
    makeRawRrsig (sigTemplate bundle sk cfg.kskPolicy 0 dnsKey.keyTag) keys = .ok raw ∧
    sk.p11.keyType ≠ .aes ∧ sk.p11.keyType ≠ .des3 ∧
    formatDataForSigning ext.hash sk.p11 raw sk.dns.algorithm = .ok d ∧
    sk.p11.privHandle = some hdl ∧
    ∀ n, from_ ≤ n → ∃ b, tok n (.sign sk.p11.module sk.p11.slot hdl d.mechanism d.data) = .sig b ∧
      ext.verify sk.dns.algorithm pk raw b = .valid

/-- **Completion (partial: from the fetched keys on).** If the slot has an action, the three fetches
    returned keys, the revoked forms exist, and the slot is `WellFormed`, then `signBundle` returns a
    bundle — including the response-side re-validation when it is switched on. -/
theorem C01_completes_partial (ext : Externals) (mods : List P11Module) (cfg : SignerConfig) (slot : Nat)
    (bundle : Bundle) (tok : Token) (s s1 s2 s3 : TokState) (act : SchemaAction)
    (pub rev signing : List CompositeKey) (revoked : List Key)
    (hact : cfg.actions.lookup slot = some act)
    (hpub : fetchKeys ext mods cfg bundle true act.publish tok s = (.ok pub, s1))
    (hrev : fetchKeys ext mods cfg bundle true act.revoke tok s1 = (.ok rev, s2))
    (hrevoked : rev.mapM (fun ck => ck.dns.asRevoked) = .ok revoked)
    (hsign : fetchKeys ext mods cfg bundle false act.sign tok s2 = (.ok signing, s3))
    (hwf : WellFormed ext cfg bundle
      (slotFold cfg.kskPolicy.ttl (pub.map (·.dns)) revoked (signing.map (·.dns)) bundle.keys)
      signing tok s3.count) :
    ∃ rb s', signBundle ext mods cfg slot bundle tok s = (.ok rb, s') := by
  have httl := (C02.slotFold_spec cfg.kskPolicy.ttl (pub.map (·.dns)) revoked (signing.map (·.dns))
    bundle.keys).ttl
  have hready : ∀ sk ∈ signing, SignerReady ext bundle cfg.kskPolicy
      (slotFold cfg.kskPolicy.ttl (pub.map (·.dns)) revoked (signing.map (·.dns)) bundle.keys)
      sk tok s3.count := by
    intro sk hsk
    obtain ⟨dnsKey, pk, raw, d, hdl, h1, h2, h3, h4, h5, h6, h7, h8, h9, h10, h11, h12⟩ := hwf.ready sk hsk
    exact ⟨dnsKey, pk, raw, d, hdl, h1, h2, h3, h4, h5, h6, h7, h8, h9, h10, h11, h12⟩
  obtain ⟨sigs, s4, hsigs, hval, halgs, hne⟩ :=
    signAll_completes ext bundle cfg.kskPolicy _ signing tok s3 hwf.root httl hwf.noDupIds hready
  rw [signBundle_run hact hpub hrev hrevoked hsign hsigs]
  have hsame : sameSet (bundle.keys.map (·.algorithm)) (sigs.map (·.algorithm)) = true := by
    rw [sameSet_iff]
    intro a
    rw [hwf.algs a]
    exact (halgs hwf.idAlg a).symm
  have hsig_ne : signing ≠ [] := by
    intro he
    cases hb : bundle.keys with
    | nil => exact hwf.zsks hb
    | cons k r =>
      have := (hwf.algs k.algorithm).mp (by simp [hb])
      simp [he] at this
  have hkeys_ne : slotFold cfg.kskPolicy.ttl (pub.map (·.dns)) revoked (signing.map (·.dns)) bundle.keys ≠ [] := by
    cases hs : signing with
    | nil => exact absurd hs hsig_ne
    | cons sk r =>
      obtain ⟨dnsKey, _, _, _, _, h1, _⟩ := hwf.ready sk (by simp [hs])
      rw [← hs]
      exact List.ne_nil_of_mem h1
  have hvalid := validateSignatures_of_each ext.verify
    { id := bundle.id, inception := bundle.inception, expiration := bundle.expiration,
      keys := slotFold cfg.kskPolicy.ttl (pub.map (·.dns)) revoked (signing.map (·.dns)) bundle.keys,
      signatures := sigs } hkeys_ne (hne hsig_ne) hwf.noDupIds hval
  have hfin : finishBundle ext cfg bundle
      (slotFold cfg.kskPolicy.ttl (pub.map (·.dns)) revoked (signing.map (·.dns)) bundle.keys) sigs =
      .ok ⟨bundle.id, bundle.inception, bundle.expiration,
        slotFold cfg.kskPolicy.ttl (pub.map (·.dns)) revoked (signing.map (·.dns)) bundle.keys, sigs, none⟩ := by
    have hcv : checkValidSignatures ext.verify
        ⟨bundle.id, bundle.inception, bundle.expiration,
          slotFold cfg.kskPolicy.ttl (pub.map (·.dns)) revoked (signing.map (·.dns)) bundle.keys, sigs, none⟩
        cfg.responsePolicy = .ok () := by
      unfold checkValidSignatures
      rw [hvalid]
      split <;> rfl
    simp only [finishBundle, hsame, Bool.not_true, Bool.false_eq_true, ↓reduceIte, hcv]
  exact ⟨_, s4, by rw [hfin]⟩

/-! ## §4 ECDSA on the pinned tree (DESIGN §5 F4, known finding)

`_p11_object_to_public_key` publishes, for an EC token key, `Base64.encode point` where `point` is
the SEC 1 uncompressed point INCLUDING its leading `0x04` octet: the only size check is
`(len(point) − 1) · 8 / 2 = 256` (or 384), which forces 65 (or 97) octets.  RFC 6605 §4 wants the
bare `x ‖ y`, 64 (or 96) octets.  So the DNSKEY published for an ECDSA KSK is not an RFC 6605 key and
no independent validator accepts the RRSIG — C01 as stated fails for algorithms 13 / 14 on the
pinned tree.  What DOES hold is `C01_ecdsa_partial`. -/

/-- the size check of `_p11_object_to_public_key` forces the prefixed length -/
theorem ec_point_length_forced (point : Bytes) :
    ((point.length - 1) * 8 / 2 = 256 → point.length = 65) ∧
    ((point.length - 1) * 8 / 2 = 384 → point.length = 97) := by
  constructor <;> intro h <;> omega

/-- the text published for a point that passes the size check decodes to the point itself
    (65 / 97 octets), never to the 64 / 96 octets RFC 6605 prescribes -/
theorem C01_ecdsa_published_key_not_rfc6605 (point : Bytes)
    (want : Nat) (hw : want = 256 ∨ want = 384) (hlen : (point.length - 1) * 8 / 2 = want) :
    ∃ decoded, Base64.decode (Base64.encode point) = some decoded ∧
      decoded.length * 8 / 2 ≠ want ∧ (decoded.length = 65 ∨ decoded.length = 97) := by
  refine ⟨point, Base64.decode_encode point, ?_, ?_⟩
  · rcases hw with rfl | rfl <;> omega
  · rcases hw with rfl | rfl
    · left; omega
    · right; omega

/-- **For every token**: whenever the token says the object is an EC key and
    `_p11_object_to_public_key` yields a key text, that text is the base64 of 65 or 97 octets — it
    decodes to a key that is NOT of the RFC 6605 size (64 / 96) for either curve. -/
theorem C01_ecdsa_published_key_general (path : String) (slot handle : Nat) (tok : Token)
    (s s' : TokState) (txt : String)
    (h : p11ObjectToPublicKey path slot handle tok s = (.ok (some txt), s'))
    (hkt : tok s.count (.getAttr path slot handle ["KEY_TYPE"]) = .attrs [.num ckkEc]) :
    ∃ decoded, Base64.decode txt = some decoded ∧ (decoded.length = 65 ∨ decoded.length = 97) ∧
      decoded.length ≠ 64 ∧ decoded.length ≠ 96 := by
  obtain ⟨point, rfl, hl⟩ := ec_published_text h hkt
  exact ⟨point, Base64.decode_encode point, hl, by omega, by omega⟩

/-- a token holding a P-256 key whose `CKA_EC_POINT` is the bare SEC 1 point `04 ‖ x ‖ y` -/
def ecWitnessToken : Token := fun _ op =>
  match op with
  | .getAttr _ _ _ ["KEY_TYPE"] => .attrs [.num ckkEc]
  | .getAttr _ _ _ ["EC_POINT"] => .attrs [.bytes (4 :: List.replicate 64 0x11)]
  | .getAttr _ _ _ ["EC_PARAMS"] => .attrs [.bytes ecOidP256]
  | _ => .other

/-- **Concrete witness.** On that token the model (as the code) publishes a 65-octet key for
    algorithm 13: `_p11_object_to_public_key` answers the base64 of the point with its `0x04`. -/
theorem C01_ecdsa_witness :
    (p11ObjectToPublicKey "m" 0 7 ecWitnessToken {}).1
      = .ok (some (Base64.encode (4 :: List.replicate 64 0x11))) ∧
    (4 :: List.replicate 64 (0x11 : UInt8)).length = 65 ∧
    Base64.decode (Base64.encode (4 :: List.replicate 64 0x11)) = some (4 :: List.replicate 64 0x11) := by
  refine ⟨?_, by simp, Base64.decode_encode _⟩
  simp [p11ObjectToPublicKey, ecUnwrap, ecUnwrapWith, askOk, ask, bind, ecWitnessToken, attr1, attrBytes, ckkEc, ckkRsa,
    ecOidP256, ecOidP384, pure, TokM.err, TokM.fail]

/-- **What holds for ECDSA** (and every other algorithm): the tool's own verifier accepted each
    emitted signature over exactly the published set, under the key text it derived from the token
    — the same statement as `C01_main`; and with host hashing the token was handed the SHA-256 /
    SHA-384 digest of those octets with `CKM_ECDSA`. -/
theorem C01_ecdsa_partial (ext : Externals) (mods : List P11Module) (cfg : SignerConfig) (slot : Nat)
    (bundle rb : Bundle) (tok : Token) (s s' : TokState)
    (h : signBundle ext mods cfg slot bundle tok s = (.ok rb, s')) :
    ∀ σ ∈ rb.signatures, (σ.algorithm = 13 ∨ σ.algorithm = 14) →
      ∃ sk dnsKey raw sigBytes pk,
        SigSpec ext rb.inception rb.expiration cfg.kskPolicy rb.keys sk σ dnsKey raw sigBytes pk ∧
        ext.verify σ.algorithm pk raw sigBytes = .valid ∧
        (sk.p11.hashUsingHsm ≠ some true → ∀ d,
          formatDataForSigning ext.hash sk.p11 raw σ.algorithm = .ok d →
          d.mechanism = ckmEcdsa ∧
          ext.hash (if σ.algorithm = 13 then .sha256 else .sha384) raw = some d.data) := by
  intro σ hσ halg
  obtain ⟨act, name, sk, dnsKey, raw, sigBytes, pk, _, _, _, hspec, _⟩ :=
    C01_main ext mods cfg slot bundle rb tok s s' h σ hσ
  refine ⟨sk, dnsKey, raw, sigBytes, pk, hspec, by rw [hspec.algorithm]; exact hspec.verified, ?_⟩
  intro hk d hd
  exact C15.raw_ecdsa_is_digest ext.hash sk.p11 raw σ.algorithm d hk halg hd

/-! ## §5 Non-vacuity -/

section Examples

/-- a token that signs anything with the octets `[1, 2, 3]` and a verifier that accepts exactly that -/
private def exTok : Token := fun _ op => match op with | .sign .. => .sig [1, 2, 3] | _ => .other
private def exExt : Externals :=
  { hash := fun _ d => some d, verify := fun _ _ _ sg => if sg = [1, 2, 3] then .valid else .invalid }
private def exKsk : Key := ⟨"ksk", 1, 172800, 257, 3, 8, "AwEAAQ=="⟩
private def exZsk : Key := ⟨"zsk", 2, 172800, 256, 3, 8, "AwEAAg=="⟩
private def exSk : CompositeKey :=
  { p11 := { label := "ksk", keyType := .rsa, keyClass := 3, hashUsingHsm := some true,
             publicKey := some "AwEAAQ==", module := "m", slot := 0, privHandle := some 5 },
    dns := exKsk }
private def exBundle : Bundle := ⟨"b1", 1700000000000000, 1701000000000000, [exZsk], [], none⟩

/-- `signKeys` succeeds on a concrete instance, so the hypothesis of `signKeys_spec` is satisfiable -/
example : (match signKeys exExt exBundle [exKsk, exZsk] exSk {} exTok {} with
    | (.ok σ, s') => decide (σ.keyTag = 1 ∧ σ.labels = 0 ∧ σ.signatureData = Base64.encode [1, 2, 3] ∧
        s'.count = 1)
    | _ => false) = true := by decide +kernel

example : (4 :: List.replicate 64 (0x11 : UInt8)).length = 65 ∧ (65 - 1) * 8 / 2 = 256 := by decide

/-- a token with one RSA key pair labelled "ksk" (handle 5, modulus `80 01`, e = 65537) that signs
    everything with `[1, 2, 3]` -/
private def exTok2 : Token := fun _ op =>
  match op with
  | .findObjects _ _ _ => .handles [5]
  | .getAttr _ _ _ ["KEY_TYPE"] => .attrs [.num 0]
  | .getAttr _ _ _ ["MODULUS"] => .attrs [.bytes [0x80, 1]]
  | .getAttr _ _ _ ["PUBLIC_EXPONENT"] => .attrs [.bytes [1, 0, 1]]
  | .sign .. => .sig [1, 2, 3]
  | _ => .other
private def exCfg : SignerConfig :=
  { kskKeys := [("k1", { label := "ksk", algorithm := 8, validFrom := 0, rsaSize := some 16,
                         rsaExponent := some 65537, hashUsingHsm := some true })],
    actions := [(1, { publish := ["k1"], sign := ["k1"] })] }
private def exMods : List P11Module := [{ label := "hsm", path := "m", sessions := [0] }]

/-- a whole slot runs to `ok` on a concrete instance (schema action, fetches from the token, key set,
    one signature, algorithm agreement, re-validation): the hypothesis of `C01_main`,
    `C01_verified_again` and of the C02 slot theorems is satisfiable -/
example : (match signBundle exExt exMods exCfg 1 exBundle exTok2 {} with
    | (.ok rb, s') => decide (rb.keys.length = 2 ∧ rb.signatures.length = 1 ∧ rb.id = "b1" ∧
        (∀ k ∈ rb.keys, k.ttl = 172800) ∧ 0 < s'.count)
    | _ => false) = true := by decide +kernel

/-- the composite key that token yields for the private fetch of "k1" -/
private def exPriv : P11Key :=
  { label := "ksk", keyType := .rsa, keyClass := 3, hashUsingHsm := some true,
    publicKey := some "AwEAAYAB", module := "m", slot := 0, privHandle := some 5, pubHandle := some 5 }
private def exDns : Key := ⟨"ksk", 34572, 172800, 257, 3, 8, "AwEAAYAB"⟩
private def exKeys : List Key := slotFold 172800 [exDns] [] [exDns] [exZsk]
private def exRaw : Bytes :=
  match makeRawRrsig (sigTemplate exBundle ⟨exPriv, exDns⟩ exCfg.kskPolicy 0 34572) exKeys with
  | .ok r => r
  | _ => []

/-- the hypotheses of `C01_completes_partial` are satisfiable: `WellFormed` holds of the key that
    token returns for the example schema slot, with the key set the slot assembles -/
example : WellFormed exExt exCfg exBundle exKeys [⟨exPriv, exDns⟩] exTok2 0 where
  root := rfl
  zsks := by decide
  algs := by intro a; simp [exBundle, exZsk, exDns]
  idAlg := by decide
  noDupIds := by decide +kernel
  ready := by
    intro sk hsk
    simp only [List.mem_singleton] at hsk
    subst hsk
    have hraw : makeRawRrsig (sigTemplate exBundle ⟨exPriv, exDns⟩ exCfg.kskPolicy 0 34572) exKeys
        = .ok exRaw := by
      have hs : (makeRawRrsig (sigTemplate exBundle ⟨exPriv, exDns⟩ exCfg.kskPolicy 0 34572)
          exKeys).toOption.isSome = true := by decide +kernel
      unfold exRaw
      cases h : makeRawRrsig (sigTemplate exBundle ⟨exPriv, exDns⟩ exCfg.kskPolicy 0 34572) exKeys with
      | error e => rw [h] at hs; simp [Except.toOption] at hs
      | ok r => rfl
    refine ⟨exDns, "AwEAAYAB", exRaw, ⟨exRaw, 64, true⟩, 5, by decide +kernel, rfl, rfl, rfl, rfl,
      by decide +kernel, hraw, by decide, by decide, rfl, rfl, ?_⟩
    intro n _
    exact ⟨[1, 2, 3], rfl, rfl⟩

end Examples

/-! ## §6 Completion from a store-level description of the token

`C01_completes_partial` (§3) starts after the three `_fetch_keys` calls.  Here the fetches are
derived as well, from a description of the token at store level, for RSA keys.

The token is `signingToken st ok sg` (Lemmas/SignerComplete.lean): the store-backed token
`storeToken st ok` of C15 / C04 — `findObjects` filters the objects of a slot on label and class,
`getAttr` reads the attributes of a stored object, answers independent of the operation index —
which in addition answers `C_Sign(module, slot, handle, mechanism, data)` with
`sg module slot handle mechanism data`.  `loc label` says where a label lives (`KeyLoc`: module, slot,
public and private object, modulus, exponent, RFC 3110 encoding).

Hypotheses, all explicit:

* `HealthyBase ext cfg` — signer name is the root; the KSK TTL packs into 32 bits; the hash oracle
  answers.
* per request bundle `i`, for the action `act` of slot `i + 1`, `HealthyAction … b act`:
  - `names`: every name under publish / revoke / sign is a configured KSK (`HealthyName`) whose window
    contains the bundle (`C04.InWindow`), that is on the token once (`OnToken`: in module order and
    session-slot order the first slot holding the label holds exactly one public and one private RSA
    object, both with readable modulus and exponent), with the configured algorithm family, size and
    exponent (`RsaConfigured`), and whose configured key tag / DS digest match (`identity`);
  - `labelAlg`, `distinctKeys`: a label is configured with one algorithm; different labels are
    different key material (otherwise the record published under a key text need not be the
    signer's, cf. C02 §8);
  - `zsks`, `zskIds`, `zskNotKsk`, `zskRdata`: the request bundle has keys, with pairwise different
    identifiers, none equal to a KSK label, with decodable RDATA of bounded length;
  - `algs`: ZSK algorithm set = algorithm set of the keys under `sign`;
  - `expiration`, `inception`: the two times pack into 32 bits;
  - `signs`: the scheme is healthy — the software verifier accepts what the token answers, under the
    key text derived from the private object, over the octets that were formatted.

Missing from the full statement of DESIGN §4/C01 IN THIS SECTION (EC keys, and EC private objects without a
readable point, are covered in §7): EC keys (finding F4 concerns them anyway) and
tokens whose private objects lack readable public attributes (the second lookup of
`load_pkcs11_key`; `OnToken.rsa` asks for modulus and exponent on both objects); `create_skr`'s
policy assembly after `sign_bundles` (`kskSignaturePolicy`, which needs every published key to be RSA)
is not covered either. -/

/-- a request all of whose bundles meet a healthy action of the schema -/
structure HealthyWorld (ext : Externals) (st : Store) (sg : String → Nat → Nat → Nat → Bytes → Bytes)
    (mods : List P11Module) (cfg : SignerConfig) (loc : String → KeyLoc) (req : Request) : Prop where
  base : HealthyBase ext cfg
  /-- the schema has an action for the slot of every request bundle, healthy for that bundle -/
  slots : ∀ i b, req.bundles[i]? = some b →
    ∃ act, cfg.actions.lookup (i + 1) = some act ∧ HealthyAction ext st sg mods cfg loc b act

/-- **Completion, one slot.** On the store-backed signing token, from any token state, a healthy
    action signs its bundle: `signBundle` returns a response bundle (fetches, key set, signing loop,
    algorithm agreement and response-side re-validation all pass). -/
theorem C01_completes_slot (ext : Externals) (st : Store) (ok : String → Nat → Bool)
    (sg : String → Nat → Nat → Nat → Bytes → Bytes) (mods : List P11Module) (cfg : SignerConfig)
    (loc : String → KeyLoc) (slot : Nat) (b : Bundle) (act : SchemaAction) (hb : HealthyBase ext cfg)
    (hact : cfg.actions.lookup slot = some act) (ha : HealthyAction ext st sg mods cfg loc b act)
    (s : TokState) :
    ∃ rb s', signBundle ext mods cfg slot b (signingToken st ok sg) s = (.ok rb, s') := by
  obtain ⟨pub, rev, signing, revoked, s1, s2, s3, hpub, hrev, hrevoked, hsign, halgs, hidalg, hnd, hready⟩ :=
    healthyAction_ready ext st ok sg mods cfg loc b act hb ha s
  refine C01_completes_partial ext mods cfg slot b _ s s1 s2 s3 act pub rev signing revoked hact hpub hrev
    hrevoked hsign ⟨hb.root, ha.zsks, halgs, hidalg, hnd, ?_⟩
  intro sk hsk
  obtain ⟨dnsKey, pk, raw, d, hdl, h1, h2, h3, h4, h5, h6, h7, h8, h9, h10, h11, h12⟩ := hready sk hsk
  exact ⟨dnsKey, pk, raw, d, hdl, h1, h2, h3, h4, h5, h6, h7, h8, h9, h10, h11,
    fun n _ => h12 n (Nat.zero_le n)⟩

/-- **C01_completes.** In a healthy world `sign_bundles` returns a response for the whole request —
    any number of bundles, from any token state — with one response bundle per request bundle; by
    `C01_all_bundles` every signature in it meets `SigSpec`. -/
theorem C01_completes (ext : Externals) (st : Store) (ok : String → Nat → Bool)
    (sg : String → Nat → Nat → Nat → Bytes → Bytes) (mods : List P11Module) (cfg : SignerConfig)
    (loc : String → KeyLoc) (req : Request) (hw : HealthyWorld ext st sg mods cfg loc req) (s : TokState) :
    ∃ rbs s', signBundles ext mods cfg req (signingToken st ok sg) s = (.ok rbs, s') ∧
      rbs.length = req.bundles.length := by
  have key : ∀ (bs : List Bundle) (n : Nat) (s : TokState),
      (∀ i b, bs[i]? = some b → ∃ act, cfg.actions.lookup (n + i) = some act ∧
        HealthyAction ext st sg mods cfg loc b act) →
      ∃ rbs s', signBundlesFrom ext mods cfg n bs (signingToken st ok sg) s = (.ok rbs, s') := by
    intro bs
    induction bs with
    | nil => intro n s _; exact ⟨[], s, by simp [signBundlesFrom_nil]⟩
    | cons b rest ih =>
      intro n s h
      obtain ⟨act, hact, ha⟩ := h 0 b rfl
      obtain ⟨rb, s1, hrb⟩ := C01_completes_slot ext st ok sg mods cfg loc n b act hw.base hact ha s
      obtain ⟨more, s2, hmore⟩ := ih (n + 1) s1 (by
        intro i b' hb'
        have := h (i + 1) b' (by simpa using hb')
        rwa [show n + (i + 1) = n + 1 + i by omega] at this)
      refine ⟨rb :: more, s2, ?_⟩
      rw [signBundlesFrom_cons]
      simp only [TokM.bind_eq, hrb, hmore, TokM.pure_run]
  obtain ⟨rbs, s', h⟩ := key req.bundles 1 s (by
    intro i b hb
    have := hw.slots i b hb
    rwa [Nat.add_comm] at this)
  exact ⟨rbs, s', h, (signBundlesFrom_ok h).1⟩

/-! ### Non-vacuity of §6

The world of Lemmas/SignerCompleteExample.lean: two modules (the first holds nothing), three session
slots (slot 0 a foreign key, slot 1 the RSA key pairs "KA" and "KB", slot 2 another "KA" object that
is never reached); KSK "a" with window, size, exponent and key tag configured and hashing on the
token, KSK "b" hashing on the host; schema slot 1 = publish a b / sign a / revoke b, slot 2 =
publish a / sign a a; a request with two bundles of two and one ZSKs. -/

section WorldExample
open HealthyExample

/-- the hypotheses of `C01_completes` are satisfiable -/
theorem healthyWorld_example : HealthyWorld ext store sg mods cfg loc req where
  base := base
  slots := by
    intro i b hb
    match i, hb with
    | 0, hb =>
      simp only [req, List.getElem?_cons_zero, Option.some.injEq] at hb
      subst hb
      exact ⟨act1, by decide, healthyAction1⟩
    | 1, hb =>
      simp only [req, List.getElem?_cons_succ, List.getElem?_cons_zero, Option.some.injEq] at hb
      subst hb
      exact ⟨act2, by decide, healthyAction2⟩
    | i + 2, hb => simp [req] at hb

/-- … and its conclusion on that world: both bundles are signed -/
example : ∃ rbs s', signBundles ext mods cfg req (signingToken store (fun _ _ => true) sg) {} = (.ok rbs, s') ∧
    rbs.length = 2 :=
  C01_completes ext store (fun _ _ => true) sg mods cfg loc req healthyWorld_example {}

/-- cross-check by evaluation of the model: slot 1 publishes "KA", "KB" revoked and the two ZSKs with
    one signature, slot 2 publishes "KA" and the ZSK with one signature (the repeated name signs once) -/
example : (signBundles ext mods cfg req (signingToken store (fun _ _ => true) sg) {}).1.map
    (·.map fun b => (b.keys.length, b.signatures.length)) = .ok [(4, 1), (2, 1)] := by decide +kernel

end WorldExample

/-! ## §7 Completion for EC keys and for schemas of both key families; finding F4 as a theorem

§6 derives completion for RSA keys.  Here the store-level description covers EC key pairs too
(Lemmas/C01Ec.lean): P-256 / P-384, CKA_EC_POINT presented wrapped in a DER OCTET STRING or bare (`EcForm`:
both rules of the `ecUnwrapChecksLength` switch), private object with or without a readable point (the second
lookup of `load_pkcs11_key`), algorithm 13 ↔ P-256, 14 ↔ P-384 (`EcConfigured`).  `AnyLoc` says for each
label whether it is an RSA or an EC key pair; `AnyHealthyAction` is `HealthyAction` of §6 over `AnyLoc`
— same hypotheses, in the same words — with the agreement of the algorithm sets (`AlgsAgree`) stated apart, so
that BOTH outcomes of the agreement check are theorems (`C01_slot_completes_iff`).

The hypothesis on the signature scheme is the one of §6 (`signs`): the verifier parameter accepts what the
token answers, under the key text derived from the token, over the octets that were formatted.  For EC keys
that key text is the base64 of `04 ‖ X ‖ Y` (finding F4: `C01_ecdsa_published_key_has_prefix`), so the
verifier of the hypothesis is the TOOL's (which strips the octet), not an RFC 6605 validator. -/

/-- what holds of one signature of a healthy slot: made by the key configured under a name listed under
    `sign`, with that key's algorithm and label, `SigSpec` under the key text derived from the token -/
def SignedAs (ext : Externals) (cfg : SignerConfig) (loc : String → AnyLoc) (act : SchemaAction) (rb : Bundle)
    (σ : Signature) : Prop :=
  ∃ name ∈ act.sign, ∃ k, cfg.kskKeys.lookup name = some k ∧ σ.algorithm = k.algorithm ∧
    σ.keyIdentifier = k.label ∧ ∃ dnsKey raw sigBytes,
      SigSpec ext rb.inception rb.expiration cfg.kskPolicy rb.keys
        (gck cfg.kskPolicy.ttl (fun l => (loc l).raw) (anyP11 loc) k false) σ dnsKey raw sigBytes
        (Base64.encode (loc k.label).raw)

/-- **Every signature of a healthy slot is `SignedAs`**: the software verifier accepted it over exactly the
    published set under the key text DERIVED FROM THE TOKEN for the configured key. -/
theorem C01_slot_signed_as (ext : Externals) (st : Store) (ok : String → Nat → Bool)
    (sg : String → Nat → Nat → Nat → Bytes → Bytes) (mods : List P11Module) (cfg : SignerConfig)
    (loc : String → AnyLoc) (slot : Nat) (b : Bundle) (act : SchemaAction)
    (hact : cfg.actions.lookup slot = some act) (ha : AnyHealthyAction ext st sg mods cfg loc b act)
    (rb : Bundle) (s s' : TokState)
    (h : signBundle ext mods cfg slot b (signingToken st ok sg) s = (.ok rb, s')) :
    ∀ σ ∈ rb.signatures, SignedAs ext cfg loc act rb σ := by
  intro σ hσ
  obtain ⟨act', pub, rev, revoked, signing, s1, s2, s3, hact', _, _, _, hsign, _, hsigs, hfin⟩ := signBundle_ok h
  rw [hact] at hact'
  cases hact'
  obtain ⟨_, hrb, _⟩ := finishBundle_ok hfin
  obtain ⟨new, e, h1, _, _, _⟩ := signAll_ok hsigs
  simp only [List.nil_append] at e
  rw [e] at hσ
  obtain ⟨sk, hsk, sa, sb, hrun⟩ := h1 σ hσ
  have hcore := anyHealthyAction_core ha
  have hf := gfetched_of_run ext st ok sg mods cfg _ _ b act hcore false act.sign
    (fun n hn => by simp [SchemaAction.names, hn]) s2 s3 signing hsign
  obtain ⟨name, hname, k, hk, rfl⟩ := hf.mem.1 sk hsk
  obtain ⟨dnsKey, raw, sigBytes, pk, hspec, _⟩ := signKeys_spec ext b rb.keys _ cfg.kskPolicy _ sa sb σ hrun
  obtain ⟨k', hk'⟩ := hcore.names name (by simp [SchemaAction.names, hname])
  have hkk : k' = k := by
    have := hk'.configured
    rw [hk] at this
    exact (Option.some.inj this).symm
  subst hkk
  have hpk : pk = Base64.encode (loc k'.label).raw := by
    have h1 : (anyP11 loc k' false).publicKey = some pk := hspec.pubkey
    rw [hk'.ready.text] at h1
    exact (Option.some.inj h1).symm
  subst hpk
  have hi : rb.inception = b.inception := by rw [hrb]
  have he : rb.expiration = b.expiration := by rw [hrb]
  rw [SignedAs, hi, he]
  exact ⟨name, hname, k', hk, hspec.algorithm, hspec.keyIdentifier, dnsKey, raw, sigBytes, hspec⟩

/-- **Completion, one slot, keys of either family.** -/
theorem C01_completes_any_slot (ext : Externals) (st : Store) (ok : String → Nat → Bool)
    (sg : String → Nat → Nat → Nat → Bytes → Bytes) (mods : List P11Module) (cfg : SignerConfig)
    (loc : String → AnyLoc) (slot : Nat) (b : Bundle) (act : SchemaAction) (hb : HealthyBase ext cfg)
    (hact : cfg.actions.lookup slot = some act) (ha : AnyHealthyAction ext st sg mods cfg loc b act)
    (hagree : AlgsAgree cfg b act) (s : TokState) :
    ∃ rb s', signBundle ext mods cfg slot b (signingToken st ok sg) s = (.ok rb, s') := by
  obtain ⟨keys, sigs, s4, hrun, hsa, hcv⟩ :=
    gslot_run ext st ok sg mods cfg _ _ slot b act hb hact (anyHealthyAction_core ha) s
  have hsame : sameSet (b.keys.map (·.algorithm)) (sigs.map (·.algorithm)) = true := by
    rw [sameSet_iff]
    intro a
    rw [hagree a, hsa a]
  have hsne : act.sign ≠ [] := by
    intro he
    cases hbk : b.keys with
    | nil => exact ha.zsks hbk
    | cons z r =>
      obtain ⟨n, hn, _⟩ := (hagree z.algorithm).mp (by simp [hbk])
      simp [he] at hn
  refine ⟨⟨b.id, b.inception, b.expiration, keys, sigs, none⟩, s4, ?_⟩
  rw [hrun]
  simp only [finishBundle, hsame, Bool.not_true, Bool.false_eq_true, ↓reduceIte, hcv hsne]

/-- **Refusal, one slot.** An action that is healthy in every other respect but whose ZSK algorithm set is
    not the algorithm set of the keys under `sign` — e.g. a schema that signs with an RSA and an EC key while
    the request carries only RSA ZSKs — is refused by the algorithm-agreement check, AFTER the signatures
    were made: `sign_bundles` raises `CreateSignatureError`, no response bundle. -/
theorem C01_refused_without_agreement (ext : Externals) (st : Store) (ok : String → Nat → Bool)
    (sg : String → Nat → Nat → Nat → Bytes → Bytes) (mods : List P11Module) (cfg : SignerConfig)
    (loc : String → AnyLoc) (slot : Nat) (b : Bundle) (act : SchemaAction) (hb : HealthyBase ext cfg)
    (hact : cfg.actions.lookup slot = some act) (ha : AnyHealthyAction ext st sg mods cfg loc b act)
    (hnot : ¬ AlgsAgree cfg b act) (s : TokState) :
    ∃ s', signBundle ext mods cfg slot b (signingToken st ok sg) s = (.error (.error .createSignature), s') := by
  obtain ⟨keys, sigs, s4, hrun, hsa, _⟩ :=
    gslot_run ext st ok sg mods cfg _ _ slot b act hb hact (anyHealthyAction_core ha) s
  have hsame : sameSet (b.keys.map (·.algorithm)) (sigs.map (·.algorithm)) = false := by
    rw [Bool.eq_false_iff]
    intro ht
    rw [sameSet_iff] at ht
    exact hnot (fun a => by rw [ht a, hsa a])
  refine ⟨s4, ?_⟩
  rw [hrun]
  simp only [finishBundle, hsame, Bool.not_false, ↓reduceIte]
  rfl

/-- **Which schemas complete (item "mixed RSA + EC").** For an action healthy in every other respect,
    over keys of either family: `sign_bundles` returns a bundle for the slot EXACTLY when the algorithm set
    of the request's ZSKs equals the algorithm set of the keys configured under `sign`.  So a schema
    signing with an RSA key and an EC key completes iff the ZSK set has keys of both algorithms (and of no
    third one); otherwise the outcome is `CreateSignatureError` (`C01_refused_without_agreement`). -/
theorem C01_slot_completes_iff (ext : Externals) (st : Store) (ok : String → Nat → Bool)
    (sg : String → Nat → Nat → Nat → Bytes → Bytes) (mods : List P11Module) (cfg : SignerConfig)
    (loc : String → AnyLoc) (slot : Nat) (b : Bundle) (act : SchemaAction) (hb : HealthyBase ext cfg)
    (hact : cfg.actions.lookup slot = some act) (ha : AnyHealthyAction ext st sg mods cfg loc b act)
    (s : TokState) :
    (∃ rb s', signBundle ext mods cfg slot b (signingToken st ok sg) s = (.ok rb, s')) ↔
      AlgsAgree cfg b act := by
  constructor
  · rintro ⟨rb, s', h⟩
    apply Classical.byContradiction
    intro hnot
    obtain ⟨s'', h'⟩ := C01_refused_without_agreement ext st ok sg mods cfg loc slot b act hb hact ha hnot s
    rw [h] at h'
    cases h'
  · intro hagree
    exact C01_completes_any_slot ext st ok sg mods cfg loc slot b act hb hact ha hagree s

/-- the mixed case in the property's words: a healthy action that signs with a key of algorithm `a₁` and
    a key of algorithm `a₂` completes only if the request bundle has a ZSK of each -/
theorem C01_mixed_needs_both (ext : Externals) (st : Store) (ok : String → Nat → Bool)
    (sg : String → Nat → Nat → Nat → Bytes → Bytes) (mods : List P11Module) (cfg : SignerConfig)
    (loc : String → AnyLoc) (slot : Nat) (b : Bundle) (act : SchemaAction) (hb : HealthyBase ext cfg)
    (hact : cfg.actions.lookup slot = some act) (ha : AnyHealthyAction ext st sg mods cfg loc b act)
    (s : TokState) (n₁ n₂ : String) (k₁ k₂ : KskKey) (h₁ : n₁ ∈ act.sign) (h₂ : n₂ ∈ act.sign)
    (l₁ : cfg.kskKeys.lookup n₁ = some k₁) (l₂ : cfg.kskKeys.lookup n₂ = some k₂)
    (_hr : isAlgorithmRsa k₁.algorithm = true) (_he : isAlgorithmEcdsa k₂.algorithm = true)
    (h : ∃ rb s', signBundle ext mods cfg slot b (signingToken st ok sg) s = (.ok rb, s')) :
    (∃ z ∈ b.keys, z.algorithm = k₁.algorithm) ∧ (∃ z ∈ b.keys, z.algorithm = k₂.algorithm) := by
  have hagree := (C01_slot_completes_iff ext st ok sg mods cfg loc slot b act hb hact ha s).mp h
  constructor
  · have := (hagree k₁.algorithm).mpr ⟨n₁, h₁, k₁, l₁, rfl⟩
    simpa using this
  · have := (hagree k₂.algorithm).mpr ⟨n₂, h₂, k₂, l₂, rfl⟩
    simpa using this

/-- a request all of whose bundles meet a healthy action of the schema (keys of either family) whose
    algorithm sets agree -/
structure AnyHealthyWorld (ext : Externals) (st : Store) (sg : String → Nat → Nat → Nat → Bytes → Bytes)
    (mods : List P11Module) (cfg : SignerConfig) (loc : String → AnyLoc) (req : Request) : Prop where
  base : HealthyBase ext cfg
  slots : ∀ i b, req.bundles[i]? = some b →
    ∃ act, cfg.actions.lookup (i + 1) = some act ∧ AnyHealthyAction ext st sg mods cfg loc b act ∧
      AlgsAgree cfg b act

/-- **C01_completes for keys of either family (RSA, ECDSA P-256 / P-384, mixed).** In a healthy world
    `sign_bundles` returns a response for the whole request, one response bundle per request bundle, and
    every signature in it is `SignedAs`: accepted by the verifier parameter over exactly the published
    set, under the key text derived from the token for the key configured under a name the slot's action
    lists under `sign`. -/
theorem C01_completes_any (ext : Externals) (st : Store) (ok : String → Nat → Bool)
    (sg : String → Nat → Nat → Nat → Bytes → Bytes) (mods : List P11Module) (cfg : SignerConfig)
    (loc : String → AnyLoc) (req : Request) (hw : AnyHealthyWorld ext st sg mods cfg loc req) (s : TokState) :
    ∃ rbs s', signBundles ext mods cfg req (signingToken st ok sg) s = (.ok rbs, s') ∧
      rbs.length = req.bundles.length ∧
      ∀ i rb, rbs[i]? = some rb → ∃ act, cfg.actions.lookup (i + 1) = some act ∧
        ∀ σ ∈ rb.signatures, SignedAs ext cfg loc act rb σ := by
  have key : ∀ (bs : List Bundle) (n : Nat) (s : TokState),
      (∀ i b, bs[i]? = some b → ∃ act, cfg.actions.lookup (n + i) = some act ∧
        AnyHealthyAction ext st sg mods cfg loc b act ∧ AlgsAgree cfg b act) →
      ∃ rbs s', signBundlesFrom ext mods cfg n bs (signingToken st ok sg) s = (.ok rbs, s') := by
    intro bs
    induction bs with
    | nil => intro n s _; exact ⟨[], s, by simp [signBundlesFrom_nil]⟩
    | cons b rest ih =>
      intro n s h
      obtain ⟨act, hact, ha, hag⟩ := h 0 b rfl
      obtain ⟨rb, s1, hrb⟩ := C01_completes_any_slot ext st ok sg mods cfg loc n b act hw.base hact ha hag s
      obtain ⟨more, s2, hmore⟩ := ih (n + 1) s1 (by
        intro i b' hb'
        have := h (i + 1) b' (by simpa using hb')
        rwa [show n + (i + 1) = n + 1 + i by omega] at this)
      refine ⟨rb :: more, s2, ?_⟩
      rw [signBundlesFrom_cons]
      simp only [TokM.bind_eq, hrb, hmore, TokM.pure_run]
  obtain ⟨rbs, s', h⟩ := key req.bundles 1 s (by
    intro i b hb
    have := hw.slots i b hb
    rwa [Nat.add_comm] at this)
  obtain ⟨hlen, hpos⟩ := signBundlesFrom_ok h
  refine ⟨rbs, s', h, hlen, ?_⟩
  intro i rb hi
  have hlt : i < req.bundles.length := by
    rw [← hlen]
    exact (List.getElem?_eq_some_iff.mp hi).1
  obtain ⟨rb', sa, sb, h1, h2⟩ := hpos i req.bundles[i] (List.getElem?_eq_getElem hlt)
  rw [hi] at h1
  cases h1
  rw [Nat.add_comm] at h2
  obtain ⟨act, hact, ha, _⟩ := hw.slots i req.bundles[i] (List.getElem?_eq_getElem hlt)
  exact ⟨act, hact, C01_slot_signed_as ext st ok sg mods cfg loc (i + 1) _ act hact ha rb sa sb h2⟩

/-- **C01_completes_ecdsa.** In a healthy world all of whose keys are EC key pairs (`eloc`: P-256 / P-384,
    point wrapped or bare, private object with or without a readable point), with a schema and a
    well-formed request: `sign_bundles` returns `ok` with one response bundle per request bundle, and for
    every signature `σ` of every response bundle there is a name under `sign` of the slot's action,
    configured as a key `k` of algorithm 13 or 14, such that
    * `σ` has that algorithm and `SigSpec` holds — in particular the verifier parameter accepted the
      signature octets over `make_raw_rrsig σ rb.keys` under the key text derived from the token, which is
      the base64 of `04 ‖ X ‖ Y`;
    * `_format_data_for_signing` handed the token, with hashing on the token, those octets untouched with
      `CKM_ECDSA_SHA256` (13) / `CKM_ECDSA_SHA384` (14), and with hashing on the host their SHA-256 / SHA-384
      digest with `CKM_ECDSA` (the rows of C15 `mechanism_table`). -/
theorem C01_completes_ecdsa (ext : Externals) (st : Store) (ok : String → Nat → Bool)
    (sg : String → Nat → Nat → Nat → Bytes → Bytes) (mods : List P11Module) (cfg : SignerConfig)
    (eloc : String → EcLoc) (req : Request)
    (hw : AnyHealthyWorld ext st sg mods cfg (fun l => .ec (eloc l)) req) (s : TokState) :
    ∃ rbs s', signBundles ext mods cfg req (signingToken st ok sg) s = (.ok rbs, s') ∧
      rbs.length = req.bundles.length ∧
      ∀ i rb, rbs[i]? = some rb → ∀ σ ∈ rb.signatures, ∃ act name k sk dnsKey raw sigBytes d,
        cfg.actions.lookup (i + 1) = some act ∧ name ∈ act.sign ∧ cfg.kskKeys.lookup name = some k ∧
        (k.algorithm = 13 ∨ k.algorithm = 14) ∧ σ.algorithm = k.algorithm ∧
        sk.p11 = ecP11 k.label k.hashUsingHsm (eloc k.label) false ∧
        SigSpec ext rb.inception rb.expiration cfg.kskPolicy rb.keys sk σ dnsKey raw sigBytes
          (Base64.encode (4 :: (eloc k.label).xy)) ∧
        ext.verify k.algorithm (Base64.encode (4 :: (eloc k.label).xy)) raw sigBytes = .valid ∧
        formatDataForSigning ext.hash sk.p11 raw k.algorithm = .ok d ∧
        (k.hashUsingHsm = some true → d.data = raw ∧
          d.mechanism = if k.algorithm = 13 then ckmEcdsaSha256 else ckmEcdsaSha384) ∧
        (k.hashUsingHsm ≠ some true → d.mechanism = ckmEcdsa ∧
          ext.hash (if k.algorithm = 13 then .sha256 else .sha384) raw = some d.data) := by
  obtain ⟨rbs, s', h, hlen, hsig⟩ := C01_completes_any ext st ok sg mods cfg _ req hw s
  refine ⟨rbs, s', h, hlen, ?_⟩
  intro i rb hi σ hσ
  obtain ⟨act, hact, hall⟩ := hsig i rb hi
  obtain ⟨name, hname, k, hk, halg, _, dnsKey, raw, sigBytes, hspec⟩ := hall σ hσ
  -- the action of that slot is healthy: `k` is an EC key of algorithm 13 / 14
  have hlt : i < req.bundles.length := by
    rw [← hlen]
    exact (List.getElem?_eq_some_iff.mp hi).1
  obtain ⟨act', hact', ha, _⟩ := hw.slots i req.bundles[i] (List.getElem?_eq_getElem hlt)
  rw [hact] at hact'
  cases hact'
  obtain ⟨k', hk'⟩ := ha.names name (by simp [SchemaAction.names, hname])
  have hkk : k' = k := by
    have := hk'.configured
    rw [hk] at this
    exact (Option.some.inj this).symm
  subst hkk
  have hc : EcConfigured k' (eloc k'.label) := hk'.onToken.2
  have h1314 : k'.algorithm = 13 ∨ k'.algorithm = 14 := by
    rcases hc with ⟨h, _⟩ | ⟨h, _⟩
    · exact Or.inl h
    · exact Or.inr h
  obtain ⟨d, hd⟩ := formatDataForSigning_ecdsa ext.hash
    (ecP11 k'.label k'.hashUsingHsm (eloc k'.label) false) raw k'.algorithm h1314 hw.base.hashes
  obtain ⟨_, hhost, htoken⟩ := token_input_spec ext.hash _ raw k'.algorithm d hd
  refine ⟨act, name, k', _, dnsKey, raw, sigBytes, d, hact, hname, hk, h1314, halg, rfl, hspec,
    hspec.verified, hd, ?_, ?_⟩
  · intro hh
    obtain ⟨hdata, hmech⟩ := htoken hh (by rcases h1314 with h | h <;> simp [h])
    refine ⟨hdata, ?_⟩
    rcases h1314 with h | h <;> rw [h] at hmech ⊢
    · have : mechanismFor true 13 = some ckmEcdsaSha256 := by decide
      rw [this] at hmech
      simpa using hmech
    · have : mechanismFor true 14 = some ckmEcdsaSha384 := by decide
      rw [this] at hmech
      simpa using hmech
  · intro hh
    exact hhost hh h1314

/-- **Finding F4 as a theorem about the model** (`C01_ecdsa_witness` generalised to every healthy EC key).
    For every EC key pair that is on the token (P-256 or P-384, point wrapped or bare, private object with
    or without a readable point) under the label of a KSK configured with the curve's algorithm, inside its
    window: `load_pkcs11_key` (public and private lookup, from any state) returns a key whose token key text
    AND whose DNSKEY `publicKey` are the base64 of `0x04 ‖ X ‖ Y` — 65 octets for algorithm 13, 97 for
    algorithm 14 — not RFC 6605 §4's `X ‖ Y` (64 / 96 octets). -/
theorem C01_ecdsa_published_key_has_prefix (st : Store) (ok : String → Nat → Bool) (mods : List P11Module)
    (ksk : KskKey) (pol : KskPolicy) (b : Bundle) (L : EcLoc) (hw : C04.InWindow ksk b)
    (h : EcOnToken st mods ksk.label L) (hc : EcConfigured ksk L) (isPublic : Bool) (s : TokState) :
    ∃ ck s', loadPkcs11Key mods ksk pol b isPublic (storeToken st ok) s = (.ok (some ck), s') ∧
      ck.p11.publicKey = some (Base64.encode (4 :: L.xy)) ∧
      ck.dns.publicKey = Base64.encode (4 :: L.xy) ∧
      Base64.decode ck.dns.publicKey = some (4 :: L.xy) ∧
      ((ksk.algorithm = 13 ∧ (4 :: L.xy).length = 65 ∧ L.xy.length = 64) ∨
       (ksk.algorithm = 14 ∧ (4 :: L.xy).length = 97 ∧ L.xy.length = 96)) ∧
      ck.dns.publicKey ≠ Base64.encode L.xy := by
  obtain ⟨s', hl⟩ := loadPkcs11Key_ecOnToken st ok mods ksk pol b L hw h hc isPublic s
  refine ⟨_, s', hl, rfl, rfl, Base64.decode_encode _, ?_, ?_⟩
  · rcases hc.size h with ⟨ha, hl⟩ | ⟨ha, hl⟩
    · exact Or.inl ⟨ha, by simp [hl], hl⟩
    · exact Or.inr ⟨ha, by simp [hl], hl⟩
  · intro he
    have he' : Base64.encode (4 :: L.xy) = Base64.encode L.xy := he
    have := congrArg List.length (base64_encode_inj he')
    simp only [List.length_cons] at this
    omega

/-- … and that text is what the response PUBLISHES: in every bundle a healthy EC slot returns, each name
    under `publish` or `sign` has a record in `rb.keys` whose key text is the base64 of `04 ‖ X ‖ Y`
    (65 / 97 octets, first octet 4). -/
theorem C01_ecdsa_bundle_publishes_prefixed (ext : Externals) (st : Store) (ok : String → Nat → Bool)
    (sg : String → Nat → Nat → Nat → Bytes → Bytes) (mods : List P11Module) (cfg : SignerConfig)
    (eloc : String → EcLoc) (slot : Nat) (b : Bundle) (act : SchemaAction)
    (hact : cfg.actions.lookup slot = some act)
    (ha : AnyHealthyAction ext st sg mods cfg (fun l => .ec (eloc l)) b act) (rb : Bundle) (s s' : TokState)
    (h : signBundle ext mods cfg slot b (signingToken st ok sg) s = (.ok rb, s')) :
    ∀ name, name ∈ act.publish ∨ name ∈ act.sign → ∀ k, cfg.kskKeys.lookup name = some k →
      ∃ x ∈ rb.keys, x.publicKey = Base64.encode (4 :: (eloc k.label).xy) ∧
        Base64.decode x.publicKey = some (4 :: (eloc k.label).xy) ∧
        ((4 :: (eloc k.label).xy).length = 65 ∨ (4 :: (eloc k.label).xy).length = 97) := by
  intro name hname k hk
  obtain ⟨act', pub, rev, revoked, signing, s1, s2, s3, hact', hpub, _, _, hsign, hkeys, _, _⟩ := signBundle_ok h
  rw [hact] at hact'
  cases hact'
  have hcore := anyHealthyAction_core ha
  have hspec := C02.slotFold_spec cfg.kskPolicy.ttl (pub.map (·.dns)) revoked (signing.map (·.dns)) b.keys
  have hmem : dnsOf k cfg.kskPolicy.ttl (4 :: (eloc k.label).xy) ∈
      pub.map (·.dns) ++ revoked ++ signing.map (·.dns) ++ b.keys := by
    rcases hname with hn | hn
    · have hf := gfetched_of_run ext st ok sg mods cfg _ _ b act hcore true act.publish
        (fun n hn => by simp [SchemaAction.names, hn]) s s1 pub hpub
      obtain ⟨k', hk', hm⟩ := hf.mem.2 name hn
      rw [hk] at hk'
      cases hk'
      exact List.mem_append_left _ (List.mem_append_left _ (List.mem_append_left _
        (List.mem_map.mpr ⟨_, hm, rfl⟩)))
    · have hf := gfetched_of_run ext st ok sg mods cfg _ _ b act hcore false act.sign
        (fun n hn => by simp [SchemaAction.names, hn]) s2 s3 signing hsign
      obtain ⟨k', hk', hm⟩ := hf.mem.2 name hn
      rw [hk] at hk'
      cases hk'
      exact List.mem_append_left _ (List.mem_append_right _ (List.mem_map.mpr ⟨_, hm, rfl⟩))
  obtain ⟨x, hx, hxpk⟩ := hspec.complete _ hmem
  have hxpk' : x.publicKey = Base64.encode (4 :: (eloc k.label).xy) := hxpk
  refine ⟨x, by rw [hkeys]; exact hx, hxpk', by rw [hxpk']; exact Base64.decode_encode _, ?_⟩
  obtain ⟨k', hk'⟩ := ha.names name (by
    rcases hname with hn | hn <;> simp [SchemaAction.names, hn])
  have hkk : k' = k := by
    have := hk'.configured
    rw [hk] at this
    exact (Option.some.inj this).symm
  subst hkk
  have hon : EcOnToken st mods k'.label (eloc k'.label) := hk'.onToken.1
  rcases hon.raw_length with ⟨_, hl⟩ | ⟨_, hl⟩
  · exact Or.inl hl
  · exact Or.inr hl

/-! ### §6 is the RSA instance of §7 -/

/-- a `HealthyAction` of §6 (RSA key pairs) is an `AnyHealthyAction` whose algorithm sets agree -/
theorem healthyAction_any {ext : Externals} {st : Store} {sg : String → Nat → Nat → Nat → Bytes → Bytes}
    {mods : List P11Module} {cfg : SignerConfig} {loc : String → KeyLoc} {b : Bundle} {act : SchemaAction}
    (h : HealthyAction ext st sg mods cfg loc b act) :
    AnyHealthyAction ext st sg mods cfg (fun l => .rsa (loc l)) b act ∧ AlgsAgree cfg b act := by
  refine ⟨⟨?_, h.labelAlg, h.distinctKeys, h.zsks, h.zskIds, h.zskNotKsk, h.zskRdata, h.expiration,
    h.inception, h.signs⟩, h.algs⟩
  intro name hn
  obtain ⟨ksk, hk⟩ := h.names name hn
  exact ⟨ksk, hk.configured, hk.window, ⟨hk.onToken, hk.rsa⟩, hk.identity⟩

/-- a `HealthyWorld` of §6 is an `AnyHealthyWorld`: `C01_completes` is the RSA instance of
    `C01_completes_any`, which adds that every signature is `SignedAs` -/
theorem healthyWorld_any {ext : Externals} {st : Store} {sg : String → Nat → Nat → Nat → Bytes → Bytes}
    {mods : List P11Module} {cfg : SignerConfig} {loc : String → KeyLoc} {req : Request}
    (hw : HealthyWorld ext st sg mods cfg loc req) :
    AnyHealthyWorld ext st sg mods cfg (fun l => .rsa (loc l)) req where
  base := hw.base
  slots := by
    intro i b hb
    obtain ⟨act, hact, ha⟩ := hw.slots i b hb
    exact ⟨act, hact, (healthyAction_any ha).1, (healthyAction_any ha).2⟩

/-! ### `create_skr` with RSA keys completes

The counterpart of `C01_ecdsa_create_skr_not_implemented` below, and the part §6 left open: in a healthy
RSA world whose ZSKs are keys `to_algorithm_policy()` accepts (RSA keys with a decodable RFC 3110 text),
`create_skr` returns the response — `_ksk_signature_policy` succeeds on every published key. -/

/-- `to_algorithm_policy()` does not look at the TTL -/
theorem algorithmPolicyOfKey_ttl (z : Key) (ttl : Int) :
    algorithmPolicyOfKey { z with ttl := ttl } = algorithmPolicyOfKey z := rfl

theorem C01_create_skr_completes_rsa (ext : Externals) (st : Store) (ok : String → Nat → Bool)
    (sg : String → Nat → Nat → Nat → Bytes → Bytes) (mods : List P11Module) (cfg : SignerConfig)
    (loc : String → KeyLoc) (req : Request) (hw : HealthyWorld ext st sg mods cfg loc req)
    (hz : ∀ b ∈ req.bundles, ∀ z ∈ b.keys, ∃ p, algorithmPolicyOfKey z = .ok p) (s : TokState) :
    ∃ resp s', createSkr ext mods cfg req (signingToken st ok sg) s = (.ok resp, s') ∧
      signBundles ext mods cfg req (signingToken st ok sg) s = (.ok resp.bundles, s') ∧
      resp.bundles.length = req.bundles.length := by
  have hw' := healthyWorld_any hw
  obtain ⟨rbs, s', h, hlen, _⟩ := C01_completes_any ext st ok sg mods cfg _ req hw' s
  have hfrom : signBundlesFrom ext mods cfg 1 req.bundles (signingToken st ok sg) s = (.ok rbs, s') := h
  obtain ⟨_, hpos⟩ := signBundlesFrom_ok hfrom
  have hall : ∀ (i : Nat) (rb : Bundle), rbs[i]? = some rb →
      ∀ x ∈ rb.keys, ∃ p, algorithmPolicyOfKey x = .ok p := by
    intro i rb hi
    have hlt : i < req.bundles.length := by
      rw [← hlen]
      exact (List.getElem?_eq_some_iff.mp hi).1
    obtain ⟨rb', sa, sb, h1, h2⟩ := hpos i req.bundles[i] (List.getElem?_eq_getElem hlt)
    rw [hi] at h1
    cases h1
    obtain ⟨act, hact, ha0⟩ := hw.slots i req.bundles[i] (List.getElem?_eq_getElem hlt)
    obtain ⟨ha, _⟩ := healthyAction_any ha0
    obtain ⟨act', pub, rev, revoked, signing, s1, s2, s3, hact', hpub, hrev, hrevoked, hsign, hkeys, _, _⟩ :=
      signBundle_ok h2
    rw [Nat.add_comm, hact] at hact'
    cases hact'
    have hcore := anyHealthyAction_core ha
    have epub := gfetched_of_run ext st ok sg mods cfg _ _ _ act hcore true act.publish
      (fun n hn => by simp [SchemaAction.names, hn]) sa s1 pub hpub
    have erev := gfetched_of_run ext st ok sg mods cfg _ _ _ act hcore true act.revoke
      (fun n hn => by simp [SchemaAction.names, hn]) s1 s2 rev hrev
    have esign := gfetched_of_run ext st ok sg mods cfg _ _ _ act hcore false act.sign
      (fun n hn => by simp [SchemaAction.names, hn]) s2 s3 signing hsign
    have hclass := gslot_class ext st sg mods cfg _ _ _ act hcore pub rev signing revoked epub erev esign hrevoked
    intro x hx
    rw [hkeys] at hx
    rcases hclass x hx with ⟨name, hname, k, hk, r⟩ | ⟨z, hzm, rfl, _⟩
    · obtain ⟨k', hk'⟩ := ha0.names name hname
      have hkk : k' = k := by
        have := hk'.configured
        rw [hk] at this
        exact (Option.some.inj this).symm
      subst hkk
      have hdec := rsaDecode_raw hk'.onToken k'.algorithm hk'.rsa.family
      have hpk : x.publicKey = Base64.encode (loc k'.label).raw := r.pk
      unfold algorithmPolicyOfKey
      rw [r.alg, hk'.rsa.family, hpk]
      simp only [↓reduceIte, hdec, bind, Except.bind, pure, Except.pure]
      exact ⟨_, rfl⟩
    · rw [algorithmPolicyOfKey_ttl]
      exact hz _ (List.getElem_mem hlt) z hzm
  obtain ⟨algs, hmap, _⟩ := mapM_ok_of_forall algorithmPolicyOfKey (fun _ => True)
    ((rbs.map (·.keys)).flatten) (by
      intro x hx
      obtain ⟨l, hl, hxl⟩ := List.mem_flatten.mp hx
      obtain ⟨rb, hrb, rfl⟩ := List.mem_map.mp hl
      obtain ⟨i, hi⟩ := List.getElem?_of_mem hrb
      obtain ⟨p, hp⟩ := hall i rb hi x hxl
      exact ⟨p, hp, trivial⟩)
  have hpol : ∃ kp, kskSignaturePolicy cfg.kskPolicy rbs = .ok kp := by
    unfold kskSignaturePolicy
    rw [hmap]
    exact ⟨_, rfl⟩
  obtain ⟨kp, hkp⟩ := hpol
  refine ⟨{ id := req.id, serial := req.serial, domain := req.domain, timestamp := none,
            zskPolicy := req.zskPolicy, kskPolicy := kp, bundles := rbs }, s', ?_, h, hlen⟩
  unfold createSkr
  rw [bind_run_ok _ _ _ _ _ _ h, bind_run, TokM.lift_run, hkp]
  rfl

/-! ### `create_skr` with EC keys: signing completes, the response does not

`create_skr` calls `sign_bundles` and then `_ksk_signature_policy`, which asks EVERY published key for
`to_algorithm_policy()`; `KSKM_PublicKey_ECDSA.to_algorithm_policy` raises
`RuntimeError("Creating ECDSA AlgorithmPolicy not implemented")`.  So in a healthy EC world all signatures are
made (and verified, `C01_completes_ecdsa`) — and then `create_skr` raises: no SKR is ever emitted for a
schema whose bundles publish ECDSA keys.  (C01's "emitted signatures" are therefore those of `sign_bundles`;
finding F4 is about them.) -/

theorem keyToRdata_decodes {k : Key} {r : Bytes} (h : keyToRdata k = .ok r) :
    ∃ b, Base64.decode k.publicKey = some b := by
  unfold keyToRdata at h
  split at h
  · simp [err] at h
  · cases hd : Base64.decode k.publicKey with
    | none => rw [hd] at h; simp [unsupported] at h
    | some b => exact ⟨b, rfl⟩

/-- `to_algorithm_policy()` of a (decodable) ECDSA key: RuntimeError, not implemented -/
theorem algorithmPolicyOfKey_ecdsa (x : Key) (ha : x.algorithm = 13 ∨ x.algorithm = 14)
    (hd : ∃ b, Base64.decode x.publicKey = some b) :
    algorithmPolicyOfKey x = .error (.error .runtime) := by
  obtain ⟨b, hb⟩ := hd
  unfold algorithmPolicyOfKey
  rcases ha with h | h <;> simp [h, isAlgorithmRsa, isAlgorithmEcdsa, algRSASHA1, algRSASHA256, algRSASHA512,
    algECDSAP256, algECDSAP384, hb, err]

theorem mapM_all_error {α β} (f : α → Res β) (e : Fail) :
    ∀ (l : List α), l ≠ [] → (∀ x ∈ l, f x = .error e) → l.mapM f = .error e
  | [], h, _ => absurd rfl h
  | a :: t, _, h => by
    rw [List.mapM_cons, h a List.mem_cons_self]
    rfl

/-- every key a healthy EC slot publishes (KSKs of algorithm 13 / 14 with the prefixed point, ZSKs of
    those algorithms) answers `to_algorithm_policy()` with the RuntimeError, and there is such a key -/
theorem ec_slot_keys_policy (ext : Externals) (st : Store) (ok : String → Nat → Bool)
    (sg : String → Nat → Nat → Nat → Bytes → Bytes) (mods : List P11Module) (cfg : SignerConfig)
    (eloc : String → EcLoc) (slot : Nat) (b : Bundle) (act : SchemaAction)
    (hact : cfg.actions.lookup slot = some act)
    (ha : AnyHealthyAction ext st sg mods cfg (fun l => .ec (eloc l)) b act) (hagree : AlgsAgree cfg b act)
    (rb : Bundle) (s s' : TokState)
    (h : signBundle ext mods cfg slot b (signingToken st ok sg) s = (.ok rb, s')) :
    rb.keys ≠ [] ∧ ∀ x ∈ rb.keys, algorithmPolicyOfKey x = .error (.error .runtime) := by
  obtain ⟨act', pub, rev, revoked, signing, s1, s2, s3, hact', hpub, hrev, hrevoked, hsign, hkeys, _, _⟩ :=
    signBundle_ok h
  rw [hact] at hact'
  cases hact'
  have hcore := anyHealthyAction_core ha
  have epub := gfetched_of_run ext st ok sg mods cfg _ _ b act hcore true act.publish
    (fun n hn => by simp [SchemaAction.names, hn]) s s1 pub hpub
  have erev := gfetched_of_run ext st ok sg mods cfg _ _ b act hcore true act.revoke
    (fun n hn => by simp [SchemaAction.names, hn]) s1 s2 rev hrev
  have esign := gfetched_of_run ext st ok sg mods cfg _ _ b act hcore false act.sign
    (fun n hn => by simp [SchemaAction.names, hn]) s2 s3 signing hsign
  have hclass := gslot_class ext st sg mods cfg _ _ b act hcore pub rev signing revoked epub erev esign hrevoked
  have hspec := C02.slotFold_spec cfg.kskPolicy.ttl (pub.map (·.dns)) revoked (signing.map (·.dns)) b.keys
  have h1314 : ∀ name ∈ act.names, ∀ k, cfg.kskKeys.lookup name = some k →
      k.algorithm = 13 ∨ k.algorithm = 14 := by
    intro name hname k hk
    obtain ⟨k', hk'⟩ := ha.names name hname
    have hkk : k' = k := by
      have := hk'.configured
      rw [hk] at this
      exact (Option.some.inj this).symm
    subst hkk
    have hc : EcConfigured k' (eloc k'.label) := hk'.onToken.2
    rcases hc with ⟨h, _⟩ | ⟨h, _⟩
    · exact Or.inl h
    · exact Or.inr h
  constructor
  · cases hbk : b.keys with
    | nil => exact absurd hbk ha.zsks
    | cons z r =>
      obtain ⟨x, hx, _⟩ := hspec.complete z (List.mem_append_right _ (by simp [hbk]))
      rw [hkeys]
      exact List.ne_nil_of_mem hx
  · intro x hx
    rw [hkeys] at hx
    rcases hclass x hx with ⟨name, hname, k, hk, r⟩ | ⟨z, hz, rfl, _⟩
    · refine algorithmPolicyOfKey_ecdsa x ?_ ⟨_, by rw [r.pk]; exact Base64.decode_encode _⟩
      rw [r.alg]
      exact h1314 name hname k hk
    · obtain ⟨rd, hrd, _⟩ := ha.zskRdata z hz
      refine algorithmPolicyOfKey_ecdsa _ ?_ (keyToRdata_decodes hrd)
      obtain ⟨name, hname, k, hk, hka⟩ := (hagree z.algorithm).mp (List.mem_map.mpr ⟨z, hz, rfl⟩)
      have := h1314 name (by simp [SchemaAction.names, hname]) k hk
      rw [hka] at this
      exact this

/-- **`create_skr` never completes with EC keys** (model of the code as it is: "Creating ECDSA
    AlgorithmPolicy not implemented").  In a healthy EC world with at least one bundle — where
    `sign_bundles` DOES complete with verified signatures (`C01_completes_ecdsa`) — `create_skr` ends in
    RuntimeError, after all the `C_Sign` operations were issued. -/
theorem C01_ecdsa_create_skr_not_implemented (ext : Externals) (st : Store) (ok : String → Nat → Bool)
    (sg : String → Nat → Nat → Nat → Bytes → Bytes) (mods : List P11Module) (cfg : SignerConfig)
    (eloc : String → EcLoc) (req : Request)
    (hw : AnyHealthyWorld ext st sg mods cfg (fun l => .ec (eloc l)) req) (hne : req.bundles ≠ [])
    (s : TokState) :
    ∃ rbs s', signBundles ext mods cfg req (signingToken st ok sg) s = (.ok rbs, s') ∧
      createSkr ext mods cfg req (signingToken st ok sg) s = (.error (.error .runtime), s') := by
  obtain ⟨rbs, s', h, hlen, _⟩ := C01_completes_any ext st ok sg mods cfg _ req hw s
  refine ⟨rbs, s', h, ?_⟩
  have hfrom : signBundlesFrom ext mods cfg 1 req.bundles (signingToken st ok sg) s = (.ok rbs, s') := h
  obtain ⟨_, hpos⟩ := signBundlesFrom_ok hfrom
  -- every published key of every response bundle refuses `to_algorithm_policy`
  have hall : ∀ (i : Nat) (rb : Bundle), rbs[i]? = some rb →
      rb.keys ≠ [] ∧ ∀ x ∈ rb.keys, algorithmPolicyOfKey x = .error (.error .runtime) := by
    intro i rb hi
    have hlt : i < req.bundles.length := by
      rw [← hlen]
      exact (List.getElem?_eq_some_iff.mp hi).1
    obtain ⟨rb', sa, sb, h1, h2⟩ := hpos i req.bundles[i] (List.getElem?_eq_getElem hlt)
    rw [hi] at h1
    cases h1
    rw [Nat.add_comm] at h2
    obtain ⟨act, hact, ha, hag⟩ := hw.slots i req.bundles[i] (List.getElem?_eq_getElem hlt)
    exact ec_slot_keys_policy ext st ok sg mods cfg eloc (i + 1) _ act hact ha hag rb sa sb h2
  have hmap : ((rbs.map (·.keys)).flatten).mapM algorithmPolicyOfKey = .error (.error .runtime) := by
    apply mapM_all_error
    · cases hr : rbs with
      | nil =>
        rw [hr] at hlen
        exact absurd (List.length_eq_zero_iff.mp hlen.symm) hne
      | cons rb0 rest =>
        have h0 : rbs[0]? = some rb0 := by rw [hr]; rfl
        obtain ⟨hk0, _⟩ := hall 0 rb0 h0
        cases hk : rb0.keys with
        | nil => exact absurd hk hk0
        | cons x t => simp [hk]
    · intro x hx
      obtain ⟨l, hl, hxl⟩ := List.mem_flatten.mp hx
      obtain ⟨rb, hrb, rfl⟩ := List.mem_map.mp hl
      obtain ⟨i, hi⟩ := List.getElem?_of_mem hrb
      exact (hall i rb hi).2 x hxl
  have hpol : kskSignaturePolicy cfg.kskPolicy rbs = .error (.error .runtime) := by
    unfold kskSignaturePolicy
    rw [hmap]
    rfl
  unfold createSkr
  rw [bind_run_ok _ _ _ _ _ _ h, bind_run, TokM.lift_run, hpol]

/-- the hypotheses of `C01_create_skr_completes_rsa` are satisfiable: the RSA world of §6, whose ZSKs are
    RSA keys with decodable texts -/
example : ∃ resp s', createSkr HealthyExample.ext HealthyExample.mods HealthyExample.cfg HealthyExample.req
      (signingToken HealthyExample.store (fun _ _ => true) HealthyExample.sg) {} = (.ok resp, s') ∧
    resp.bundles.length = 2 := by
  obtain ⟨resp, s', h, _, hl⟩ := C01_create_skr_completes_rsa HealthyExample.ext HealthyExample.store
    (fun _ _ => true) HealthyExample.sg HealthyExample.mods HealthyExample.cfg HealthyExample.loc
    HealthyExample.req healthyWorld_example (by
      have key : ∀ z, z = HealthyExample.z1 ∨ z = HealthyExample.z2 → ∃ p, algorithmPolicyOfKey z = .ok p := by
        rintro z (rfl | rfl)
        · exact ⟨_, eq_okOr default (by decide +kernel)⟩
        · exact ⟨_, eq_okOr default (by decide +kernel)⟩
      intro b hb z hz
      simp only [HealthyExample.req, List.mem_cons, List.not_mem_nil, or_false] at hb
      rcases hb with rfl | rfl
      · exact key z (by simpa [HealthyExample.b1] using hz)
      · exact key z (by right; simpa [HealthyExample.b2] using hz)) {}
  exact ⟨resp, s', h, hl⟩

/-- **For every token: a response that publishes an ECDSA key is never returned by `create_skr`.**  Whenever
    `sign_bundles` returned bundles one of which publishes a key of algorithm 13 / 14 (a KSK of either
    world above, or a ZSK), `create_skr` ends in an error (`to_algorithm_policy` is not implemented for
    ECDSA) — so the mixed worlds of `C01_completes_any` complete at `sign_bundles` only. -/
theorem C01_create_skr_refuses_ecdsa (ext : Externals) (mods : List P11Module) (cfg : SignerConfig)
    (req : Request) (tok : Token) (s s' : TokState) (rbs : List Bundle)
    (h : signBundles ext mods cfg req tok s = (.ok rbs, s'))
    (hx : ∃ rb ∈ rbs, ∃ x ∈ rb.keys, isAlgorithmEcdsa x.algorithm = true) :
    ∃ e, createSkr ext mods cfg req tok s = (.error e, s') := by
  obtain ⟨rb, hrb, x, hxk, hxa⟩ := hx
  have hxe : ∃ e, algorithmPolicyOfKey x = .error e := by
    have hnr : isAlgorithmRsa x.algorithm = false := by
      simp only [isAlgorithmEcdsa, algECDSAP256, algECDSAP384, Bool.or_eq_true, beq_iff_eq] at hxa
      rcases hxa with h | h <;> rw [h] <;> decide
    unfold algorithmPolicyOfKey
    simp only [hnr, hxa, Bool.false_eq_true, ↓reduceIte]
    cases Base64.decode x.publicKey with
    | none => exact ⟨_, rfl⟩
    | some b => exact ⟨_, rfl⟩
  have hpol : ∃ e, kskSignaturePolicy cfg.kskPolicy rbs = .error e := by
    unfold kskSignaturePolicy
    cases hm : ((rbs.map (·.keys)).flatten).mapM algorithmPolicyOfKey with
    | error e => exact ⟨e, rfl⟩
    | ok algs =>
      obtain ⟨_, _, hall⟩ := mapM_ok_mem _ _ _ hm
      obtain ⟨p, hp⟩ := hall x (List.mem_flatten.mpr ⟨rb.keys, List.mem_map.mpr ⟨rb, hrb, rfl⟩, hxk⟩)
      obtain ⟨e, he⟩ := hxe
      rw [he] at hp
      cases hp
  obtain ⟨e, he⟩ := hpol
  refine ⟨e, ?_⟩
  unfold createSkr
  rw [bind_run_ok _ _ _ _ _ _ h, bind_run, TokM.lift_run, he]

/-! ### Non-vacuity of §7

The world of Lemmas/C01AnyExample.lean: one module, session slots 0 (a foreign RSA key) and 1 holding "EA"
(P-256, point WRAPPED, private object WITHOUT a readable point, algorithm 13, hashing on the token), "EB"
(P-384, BARE point on both objects, algorithm 14, hashing on the host, validity window configured) and the
RSA pair "KA" (algorithm 8); schema slot 1 = publish e f / sign e f, slot 2 = publish a e / sign a e /
revoke f. -/

section EcWorldExample
open EcExample

/-- the hypotheses of `C01_completes_ecdsa` are satisfiable (EC keys only, one bundle with ZSKs of
    algorithms 13 and 14) -/
theorem ecWorld_example : AnyHealthyWorld ext store sg mods cfg (fun l => .ec (eloc l)) reqE where
  base := base
  slots := by
    intro i b hb
    match i, hb with
    | 0, hb =>
      simp only [reqE, List.getElem?_cons_zero, Option.some.injEq] at hb
      subst hb
      exact ⟨actE, by decide, healthyActionE describes_locE, agreeE⟩
    | i + 1, hb => simp [reqE] at hb

/-- … and its conclusion on that world -/
example : ∃ rbs s', signBundles ext mods cfg reqE (signingToken store (fun _ _ => true) sg) {} = (.ok rbs, s') ∧
    rbs.length = 1 := by
  obtain ⟨rbs, s', h, hl, _⟩ :=
    C01_completes_ecdsa ext store (fun _ _ => true) sg mods cfg eloc reqE ecWorld_example {}
  exact ⟨rbs, s', h, hl⟩

/-- … and on that world `create_skr` ends in the RuntimeError of `to_algorithm_policy` (theorem, and by
    evaluation of the model) -/
example : ∃ rbs s', signBundles ext mods cfg reqE (signingToken store (fun _ _ => true) sg) {} = (.ok rbs, s') ∧
    createSkr ext mods cfg reqE (signingToken store (fun _ _ => true) sg) {} = (.error (.error .runtime), s') :=
  C01_ecdsa_create_skr_not_implemented ext store (fun _ _ => true) sg mods cfg eloc reqE ecWorld_example
    (by decide) {}

example : (createSkr ext mods cfg reqE (signingToken store (fun _ _ => true) sg) {}).1.toOption.isSome = false ∧
    ((createSkr ext mods cfg reqE (signingToken store (fun _ _ => true) sg) {}).2.log.filter
      (fun p => match p.1 with | .sign .. => true | _ => false)).length = 2 := by
  constructor <;> decide +kernel

/-- the hypotheses of `C01_completes_any` are satisfiable with keys of both families: bundle 1 under the
    EC-only action, bundle 2 (ZSKs of algorithms 8 and 13) under the action that signs with "KA" and "EA" -/
theorem mixedWorld_example : AnyHealthyWorld ext store sg mods cfg loc reqM where
  base := base
  slots := by
    intro i b hb
    match i, hb with
    | 0, hb =>
      simp only [reqM, List.getElem?_cons_zero, Option.some.injEq] at hb
      subst hb
      exact ⟨actE, by decide, healthyActionE describes_loc, agreeE⟩
    | 1, hb =>
      simp only [reqM, List.getElem?_cons_succ, List.getElem?_cons_zero, Option.some.injEq] at hb
      subst hb
      exact ⟨actM, by decide, healthyActionM_bM, agreeM⟩
    | i + 2, hb => simp [reqM] at hb

example : ∃ rbs s', signBundles ext mods cfg reqM (signingToken store (fun _ _ => true) sg) {} = (.ok rbs, s') ∧
    rbs.length = 2 := by
  obtain ⟨rbs, s', h, hl, _⟩ :=
    C01_completes_any ext store (fun _ _ => true) sg mods cfg loc reqM mixedWorld_example {}
  exact ⟨rbs, s', h, hl⟩

/-- `C01_create_skr_refuses_ecdsa` on the mixed world, by evaluation: `sign_bundles` returns both bundles,
    `create_skr` the RuntimeError -/
example : (createSkr ext mods cfg reqM (signingToken store (fun _ _ => true) sg) {}).1.toOption.isSome = false ∧
    ((signBundles ext mods cfg reqM (signingToken store (fun _ _ => true) sg) {}).1.toOption.isSome = true) := by
  constructor <;> decide +kernel

/-- the hypotheses of `C01_refused_without_agreement` are satisfiable: the mixed action with a bundle that
    has only the RSA ZSK is refused -/
example : ∃ s', signBundle ext mods cfg 2 bR (signingToken store (fun _ _ => true) sg) {} =
    (.error (.error .createSignature), s') :=
  C01_refused_without_agreement ext store (fun _ _ => true) sg mods cfg loc 2 bR actM base (by decide)
    healthyActionM_bR not_agreeR {}

/-- cross-check by evaluation of the model: bundle 1 publishes "EA", "EB" and two ZSKs with signatures of
    algorithms 13 and 14; bundle 2 publishes "KA", "EA", "EB" revoked and two ZSKs with signatures of
    algorithms 8 and 13; the RSA-only bundle under the mixed action ends in `CreateSignatureError` -/
example : (signBundles ext mods cfg reqM (signingToken store (fun _ _ => true) sg) {}).1.map
    (·.map fun b => (b.keys.length, b.signatures.map (·.algorithm))) =
      .ok [(4, [13, 14]), (5, [8, 13])] := by decide +kernel

example : (signBundle ext mods cfg 2 bR (signingToken store (fun _ _ => true) sg) {}).1 =
    .error (.error .createSignature) := by decide +kernel

/-- F4 on that world, by evaluation: the DNSKEY text `load_pkcs11_key` builds for "EA" (private lookup: the
    point comes from the second, public lookup and is unwrapped) decodes to 65 octets starting `04`; for
    "EB" (bare point) to 97 octets starting `04` -/
example : (loadPkcs11Key mods kE {} bE false (storeToken store (fun _ _ => true)) {}).1.map
      (·.map fun ck => (Base64.decode ck.dns.publicKey).map fun d => (d.length, d.take 1)) =
        .ok (some (some (65, [4]))) ∧
    (loadPkcs11Key mods kF {} bE true (storeToken store (fun _ _ => true)) {}).1.map
      (·.map fun ck => (Base64.decode ck.dns.publicKey).map fun d => (d.length, d.take 1)) =
        .ok (some (some (97, [4]))) := by
  constructor <;> decide +kernel

end EcWorldExample

end Kskm.C01
