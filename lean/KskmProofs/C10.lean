/-
  C10 — over successive ceremonies the accepted SKRs form one unbroken, authentic timeline.

  A ceremony is one run of `ksrsigner` (Kskm/Ceremony.lean) against its own token oracle; the previous
  SKR of ceremony n+1 is the SKR that ceremony n wrote.  `C03.write_only_if_gates` says what a write
  implies; the chain (C08) and publish-safety (C09) characterisations turn the gates into the
  neighbour relation of the property; induction over the list of ceremonies — no depth bound —
  gives the timeline.

  The model feeds the written `Response` back as the next `prev`.  That the FILE written reads back
  as that very `Response` is C11's round trip; it enters here as the hypothesis `prev = some (.ok skr)`
  of each step and is checked on the real tools by the correspondence run (every transition uses
  the real previous output file).

  That hypothesis is discharged at the end of the file (section "The emitted file"):
  `emitted_is_loadable` — the file a successful ceremony writes is accepted by `load_skr` (size gate,
  the repository's reader, `validate_response`) and yields the written response, as a Python object
  (`ReadBack.SameResponse`; identical when the response is in the reader's list representation);
  `C10_timeline_files` — the timeline theorem for histories in which every ceremony's previous SKR is
  what `load_skr` makes of the file its predecessor wrote.

  Both carry hypotheses on the WRITTEN SKR (`WriterDomain`, `C11.Constructible`, the bundle count).  The
  section after it ("The emitted file, from the inputs") proves those of `create_skr` from a decidable
  predicate on what the ceremony READ (`PlainInputs` / `PlainCeremony`): `createSkr_in_writerDomain`,
  `emitted_is_loadable_from_inputs`, `C10_timeline_files_from_inputs`.
-/
import Kskm.Ceremony
import KskmProofs.C03
import KskmProofs.C08
import KskmProofs.C09
import KskmProofs.Lemmas.Echo
import KskmProofs.Lemmas.C10Loadable
import KskmProofs.Lemmas.SkrEmitted
import KskmProofs.C05
namespace Kskm.C10

open Kskm.C03

/-- What the property asks of two neighbouring accepted SKRs `a` (earlier) and `b`, where `req` is
    the KSR that `b` answers. -/
structure Neighbour (a : Response) (req : Request) (b : Response) : Prop where
  /-- both have bundles; `b` answers `req` position by position -/
  shape : ∃ aLast reqFirst bFirst, a.bundles.getLast? = some aLast ∧ req.bundles.head? = some reqFirst ∧
      b.bundles.head? = some bFirst ∧ bFirst.inception = reqFirst.inception
  /-- no coverage gap: the first new bundle starts no later than the last old one expires -/
  no_gap : ∀ aLast bFirst, a.bundles.getLast? = some aLast → b.bundles.head? = some bFirst →
      bFirst.inception ≤ aLast.expiration
  /-- no reused request id -/
  fresh_id : b.id ≠ a.id
  /-- no reused bundle id -/
  fresh_bundle_ids : ∀ bb ∈ b.bundles, ∀ ab ∈ a.bundles, bb.id ≠ ab.id
  /-- no first-bundle ZSK that was not in the preceding bundle (the same key record) -/
  zsk_chained : ∀ aLast reqFirst, a.bundles.getLast? = some aLast → req.bundles.head? = some reqFirst →
      ∀ k ∈ reqFirst.keys, k ∈ aLast.keys
  /-- no first-bundle signing key that was not published in the preceding bundle -/
  signer_published : ∀ aLast bFirst, a.bundles.getLast? = some aLast → b.bundles.head? = some bFirst →
      ∀ σ ∈ bFirst.signatures, C09.Published aLast σ.keyIdentifier

/-- the chain and safety flags the timeline rests on.  (On the pinned tree the no-gap clause also
    needed `0 ≤` the KSR's declared minimum overlap — DESIGN §5 F10; since the explicit gap test was
    added to the chain-overlap rule in /repo, and to the model, no such hypothesis is needed.) -/
structure TimelinePolicy (pol : RequestPolicy) (req : Request) : Prop where
  chainKeys : pol.checkChainKeys = true
  chainOverlap : pol.checkChainOverlap = true
  publishSafety : pol.checkKeysPublishSafety = true

theorem map_stamp_head (l₁ l₂ : List Bundle) (h : l₁.map Bundle.stamp = l₂.map Bundle.stamp)
    (b₂ : Bundle) (h2 : l₂.head? = some b₂) :
    ∃ b₁, l₁.head? = some b₁ ∧ b₁.id = b₂.id ∧ b₁.inception = b₂.inception ∧ b₁.expiration = b₂.expiration := by
  cases l₂ with
  | nil => simp at h2
  | cons x xs =>
    cases l₁ with
    | nil => simp at h
    | cons y ys =>
      simp only [List.map_cons, List.cons.injEq, Bundle.stamp, Prod.mk.injEq] at h
      simp only [List.head?_cons, Option.some.injEq] at h2
      subst h2
      exact ⟨y, rfl, h.1.1, h.1.2.1, h.1.2.2⟩

theorem map_stamp_ids (l₁ l₂ : List Bundle) (h : l₁.map Bundle.stamp = l₂.map Bundle.stamp) :
    ∀ b ∈ l₁, ∃ b' ∈ l₂, b'.id = b.id := by
  intro b hb
  have : b.stamp ∈ l₂.map Bundle.stamp := by rw [← h]; exact List.mem_map_of_mem hb
  obtain ⟨b', hb', e⟩ := List.mem_map.mp this
  refine ⟨b', hb', ?_⟩
  simp only [Bundle.stamp, Prod.mk.injEq] at e
  exact e.1

/-- **One accepted step yields a neighbour.** For every token: if a ceremony whose previous SKR is
    `a` writes an SKR `b`, then `b` is a neighbour of `a` — provided the chain / publish-safety checks
    are switched on and the KSR's declared minimum overlap is not negative. -/
theorem step_neighbour (ext : Externals) (args : CeremonyArgs) (t : Token) (s : CerState)
    (a : Response) (req : Request) (b : Response)
    (hprev : args.prev = some (.ok a)) (hksr : args.ksr = some (.ok req))
    (hpol : TimelinePolicy args.requestPolicy req)
    (hs : writes s = []) (hw : writes (ksrsigner ext args t s).2 = [.write b]) :
    Neighbour a req b := by
  obtain ⟨_, skr, hwr, g⟩ := write_only_if_gates ext args t s hs (by rw [hw]; simp)
  have hb : skr = b := by
    rw [hw] at hwr
    simp only [List.cons.injEq, Event.write.injEq, and_true] at hwr
    exact hwr.symm
  subst hb
  obtain ⟨hid, hbids, hkeys, hover⟩ := g.chain_valid a req hprev hksr
  have hsafe := g.safety_valid a hprev
  obtain ⟨actions, req', mods, ts, ts', _, hk', hcreate⟩ := g.signed
  rw [hksr] at hk'
  simp only [Option.some.injEq, Except.ok.injEq] at hk'
  subst hk'
  obtain ⟨eid, _, _, _, _, estamp⟩ := createSkr_echo ext mods _ req skr t ts ts' hcreate
  -- shapes: the checks themselves refuse empty bundle lists
  have hpub : checkPublishSafety a skr args.requestPolicy = .ok () := by
    unfold checkLastSkrAndNewSkr at hsafe
    exact ((seq_ok_iff _ _).mp hsafe).1
  have haL : ∃ aLast, a.bundles.getLast? = some aLast := by
    cases hh : a.bundles.getLast? with
    | some x => exact ⟨x, rfl⟩
    | none => simp [checkChainKeys, hpol.chainKeys, hh, err] at hkeys
  obtain ⟨aLast, haL⟩ := haL
  have hrF : ∃ reqFirst, req.bundles.head? = some reqFirst := by
    cases hh : req.bundles.head? with
    | some x => exact ⟨x, rfl⟩
    | none => simp [checkChainKeys, hpol.chainKeys, haL, hh, err] at hkeys
  obtain ⟨reqFirst, hrF⟩ := hrF
  obtain ⟨bFirst, hbF, _, hbinc, _⟩ := map_stamp_head skr.bundles req.bundles estamp reqFirst hrF
  have hkeys' := (C08.chain_keys_iff req a args.requestPolicy reqFirst aLast hrF haL).mp hkeys hpol.chainKeys
  have hover' := (C08.chain_overlap_iff req a args.requestPolicy reqFirst aLast hrF haL).mp hover hpol.chainOverlap
  have hpub' := (C09.publish_iff a skr args.requestPolicy aLast bFirst haL hbF).mp hpub hpol.publishSafety
  refine ⟨⟨aLast, reqFirst, bFirst, haL, hrF, hbF, hbinc⟩, ?_, ?_, ?_, ?_, ?_⟩
  · intro aLast' bFirst' h1 h2
    rw [haL] at h1; rw [hbF] at h2
    simp only [Option.some.injEq] at h1 h2
    subst h1 h2
    have := hover'.1
    rw [hbinc]; exact this
  · rw [eid]; exact (C08.unique_request_iff req a).mp hid
  · intro bb hbb ab hab
    obtain ⟨rb, hrb, e⟩ := map_stamp_ids skr.bundles req.bundles estamp bb hbb
    rw [← e]
    exact (C08.unique_bundle_ids_iff req a).mp hbids rb hrb ab hab
  · intro aLast' reqFirst' h1 h2
    rw [haL] at h1; rw [hrF] at h2
    simp only [Option.some.injEq] at h1 h2
    subst h1 h2
    exact hkeys'
  · intro aLast' bFirst' h1 h2
    rw [haL] at h1; rw [hbF] at h2
    simp only [Option.some.injEq] at h1 h2
    subst h1 h2
    exact hpub'.1

/-! ## Histories of any length -/

/-- one ceremony of a history: its arguments apart from the previous SKR, and its own token -/
structure Ceremony where
  ext : Externals
  args : CeremonyArgs
  tok : Token

/-- the SKR a ceremony writes when run with previous SKR `prev` (`none`: nothing written) -/
def written (c : Ceremony) (prev : Option Response) : Option Response :=
  let a : CeremonyArgs := { c.args with prev := prev.map .ok }
  match writes (ksrsigner c.ext a c.tok {}).2 with
  | [.write skr] => some skr
  | _ => none

/-- Run a history: each ceremony sees the last SKR written so far (a refused ceremony leaves it
    unchanged); returns the accepted (request, SKR) pairs in order. -/
def history : Option Response → List Ceremony → List (Request × Response)
  | _, [] => []
  | prev, c :: rest =>
    match written c prev, c.args.ksr with
    | some skr, some (.ok req) => (req, skr) :: history (some skr) rest
    | _, _ => history prev rest

/-- consecutive accepted SKRs of a list are neighbours -/
def Chained : Response → List (Request × Response) → Prop
  | _, [] => True
  | a, (req, b) :: rest => Neighbour a req b ∧ Chained b rest

/-- every ceremony of the history runs under a timeline policy -/
def AllTimeline (cs : List Ceremony) : Prop :=
  ∀ c ∈ cs, ∀ req, c.args.ksr = some (.ok req) → TimelinePolicy c.args.requestPolicy req

/-- **C10.** For EVERY sequence of ceremonies — any length, any mix of honest, replayed, gapped or
    re-keyed KSRs, any schemas, any token behaviour in each ceremony — started from an accepted SKR
    `a`: the SKRs accepted along the way form a chain of neighbours (no coverage gap, no reused
    request or bundle id, no unchained first-bundle ZSK, no unpublished first-bundle signer). -/
theorem C10_timeline (cs : List Ceremony) (a : Response) (hpol : AllTimeline cs) :
    Chained a (history (some a) cs) := by
  induction cs generalizing a with
  | nil => simp [history, Chained]
  | cons c rest ih =>
    have hrest : AllTimeline rest := fun c' hc' => hpol c' (List.mem_cons_of_mem _ hc')
    unfold history
    cases hw : written c (some a) with
    | none => simp only; exact ih a hrest
    | some skr =>
      cases hk : c.args.ksr with
      | none => simp only; exact ih a hrest
      | some r =>
        cases r with
        | error e => simp only; exact ih a hrest
        | ok req =>
          simp only [Chained]
          refine ⟨?_, ih skr hrest⟩
          unfold written at hw
          simp only at hw
          have hwr : writes (ksrsigner c.ext { c.args with prev := some (.ok a) } c.tok {}).2 = [.write skr] := by
            simp only [Option.map] at hw
            split at hw
            · rename_i s heq
              simp only [Option.some.injEq] at hw
              subst hw; exact heq
            · simp at hw
          exact step_neighbour c.ext { c.args with prev := some (.ok a) } c.tok {} a req skr rfl hk
            (hpol c (List.mem_cons_self) req hk) rfl hwr

/-- the previous SKR named on the command line is the one used, whatever the configuration names -/
theorem cli_previous_skr_wins (f : String) (cfg : Option String) (h : f ≠ "") :
    pickFile (some f) cfg = some f := by
  have : f.isEmpty = false := by
    cases hf : f.isEmpty with
    | false => rfl
    | true => exact absurd (String.isEmpty_iff.mp hf) h
  simp [pickFile, this]

theorem cfg_previous_skr_fallback (cfg : Option String) : pickFile none cfg = cfg ∧ pickFile (some "") cfg = cfg := by
  constructor <;> simp [pickFile]

/-- a refused ceremony changes nothing for its successors -/
theorem refused_is_transparent (c : Ceremony) (rest : List Ceremony) (prev : Option Response)
    (h : written c prev = none) : history prev (c :: rest) = history prev rest := by
  simp [history, h]

/-- **A gap is refused whatever the KSR declares**: the witness that was accepted on the pinned
    tree (12 h gap, declared minimum overlap −1 day) now stops at the chain-overlap rule. -/
theorem declared_negative_min_gap_refused :
    checkChainOverlap
      { id := "k", serial := 1, domain := ".",
        zskPolicy := { minValidityOverlap := -86400000000, maxValidityOverlap := 1036800000000 },
        bundles := [{ id := "n1", inception := 2721600000000, expiration := 4536000000000, keys := [], signatures := [] }] }
      { id := "s", serial := 1, domain := ".", zskPolicy := {}, kskPolicy := {},
        bundles := [{ id := "o1", inception := 864000000000, expiration := 2678400000000, keys := [], signatures := [] }] }
      {} = violation .chainOverlap := by decide +kernel

/-! ## The emitted file

  `C10_timeline` feeds the written `Response` back as the next previous SKR.  The tools feed back the
  FILE: `skr_to_xml` of the response, read by the next ceremony with `load_skr`.  This section closes
  that gap with C11's round trip (`C11.C11_roundtrip`, the composition of the writer theorem with C12's
  reader theorem).

  Hypotheses on the written SKR, explicit: `WriterDomain skr` and `C11.Constructible skr` — invariants
  of what the signer emits from a plain KSR and a plain configuration (identifiers, domain and signer's
  name free of markup characters, whole-second policy durations, years 1000…9999, RSA policies; the
  pydantic invariants of `Key` / `Signature`), not proved of `create_skr` in THIS section (they are in the
  next one, from a decidable predicate on the KSR and the configuration: `createSkr_in_writerDomain`,
  `emitted_is_loadable_from_inputs`, `C10_timeline_files_from_inputs`) — and the configuration
  coherence `response_policy.num_bundles` = number of bundles written (the request policy's bundle count
  is what `validate_request` enforced on the KSR). -/

section EmittedFile
open Kskm.ReadBack Kskm.C10L

/-- a file system in which the written text is there to be read: within the size limit, and `read`
    followed by `decode` returns its characters -/
structure Holds (f : Xml.FileOracle) (text : String) : Prop where
  size : f.statSize ≤ KskmGen.maxSkrSize
  content : f.decode (f.read KskmGen.maxSkrSize) = some text.toList

/-- **Every emitted SKR is loadable, and loads to the written response.**  For every token and every
    ceremony: if the run writes `skr`, then `skr_to_xml skr` is a text which — once in a file — `load_skr`
    under the same response policy accepts (size gate, reader, glue, `validate_response`), returning
    `C11.normalise skr`: the written response up to the list representation of its `set` fields
    (`SameResponse`), and the written response itself when that representation is canonical.
    (On the pinned tree a one-bundle SKR did not load — F12; hence the third hypothesis, true of the
    tree in /repo now by `emitted_is_loadable_current_tree`.) -/
theorem emitted_is_loadable (ext : Externals) (args : CeremonyArgs) (t : Token) (s : CerState) (skr : Response)
    (hs : writes s = []) (hw : writes (ksrsigner ext args t s).2 = [.write skr])
    (hd : WriterDomain skr) (hc : C11.Constructible skr)
    (hsw : KskmGen.wrapsSingleResponseBundle = true ∨ 2 ≤ skr.bundles.length)
    (hcount : (skr.bundles.length : Int) = args.responsePolicy.numBundles) :
    ∃ text, skrToXml skr = .ok text ∧
      (∀ f : Xml.FileOracle, Holds f text →
        (Xml.loadSkr Xml.pyClasses Xml.pySwitches Xml.pyGlueSwitches ext.verify f args.responsePolicy).result
          = .done (.ok (C11.normalise skr))) ∧
      loadSkrGate ext.verify (C11.normalise skr) args.responsePolicy = .ok () ∧
      SameResponse (C11.normalise skr) skr ∧ (Canonical skr → C11.normalise skr = skr) := by
  -- the gates the write implies: in particular `create_skr` returned `skr` against this very token
  obtain ⟨_, skr', hwr, g⟩ := write_only_if_gates ext args t s hs (by rw [hw]; simp)
  have hb : skr' = skr := by
    rw [hw] at hwr
    simp only [List.cons.injEq, Event.write.injEq, and_true] at hwr
    exact hwr.symm
  subst hb
  obtain ⟨actions, req, mods, ts, ts', _, _, hcreate⟩ := g.signed
  have hvalid := (createSkr_bundles_valid ext mods _ req skr' t ts ts' hcreate).2
  have hresp : validateResponse ext.verify skr' args.responsePolicy = .ok () :=
    (validateResponse_ok_iff _ _ _).mpr ⟨hcount, hvalid⟩
  have hgate : loadSkrGate ext.verify (C11.normalise skr') args.responsePolicy = .ok () :=
    loadSkrGate_of_valid _ _ _
      (validateResponse_readBack _ _ _ _ (domain_parts skr' hd).sorted hresp)
  -- C11: the text reads back
  obtain ⟨text, h1, h2, h3, h4⟩ := C11.C11_roundtrip_switches Xml.pySwitches Xml.pyGlueSwitches skr' hd hc hsw
  refine ⟨text, h1, ?_, hgate, h3, h4⟩
  intro f hf
  unfold Xml.loadSkr
  rw [if_neg (by have := hf.size; omega)]
  simp only [hf.content, h2]
  have hg : loadSkrGate ext.verify (readBackWith Xml.pyGlueSwitches skr') args.responsePolicy = .ok () := hgate
  rw [hg]
  rfl

/-- the tree in /repo now: no condition on the number of bundles -/
theorem emitted_is_loadable_current_tree (ext : Externals) (args : CeremonyArgs) (t : Token) (s : CerState)
    (skr : Response) (hs : writes s = []) (hw : writes (ksrsigner ext args t s).2 = [.write skr])
    (hd : WriterDomain skr) (hc : C11.Constructible skr)
    (hcount : (skr.bundles.length : Int) = args.responsePolicy.numBundles) :
    ∃ text, skrToXml skr = .ok text ∧
      (∀ f : Xml.FileOracle, Holds f text →
        (Xml.loadSkr Xml.pyClasses Xml.pySwitches Xml.pyGlueSwitches ext.verify f args.responsePolicy).result
          = .done (.ok (C11.normalise skr))) ∧
      loadSkrGate ext.verify (C11.normalise skr) args.responsePolicy = .ok () ∧
      SameResponse (C11.normalise skr) skr ∧ (Canonical skr → C11.normalise skr = skr) :=
  emitted_is_loadable ext args t s skr hs hw hd hc (Or.inl (by decide)) hcount

/-- the next ceremony's "load + validate previous SKR" stage accepts what the file yields -/
theorem emitted_passes_stagePrev (ext : Externals) (args next : CeremonyArgs) (t : Token) (s : CerState)
    (skr : Response) (hs : writes s = []) (hw : writes (ksrsigner ext args t s).2 = [.write skr])
    (hd : WriterDomain skr) (hc : C11.Constructible skr)
    (hcount : (skr.bundles.length : Int) = args.responsePolicy.numBundles)
    (hpol : next.responsePolicy = args.responsePolicy) (hprev : next.prev = some (.ok (C11.normalise skr))) :
    stagePrev ext next = .ok (some (C11.normalise skr)) := by
  obtain ⟨_, _, _, hgate, _, _⟩ := emitted_is_loadable_current_tree ext args t s skr hs hw hd hc hcount
  unfold stagePrev
  rw [hprev]
  simp only [bind, Except.bind, hpol, hgate, pure, Except.pure]

/-- **The neighbour relation does not see the list representation** of the earlier SKR: it transfers
    along `SameResponse`. -/
theorem neighbour_of_same {a' a : Response} {req : Request} {b : Response} (hsame : SameResponse a' a)
    (h : Neighbour a' req b) : Neighbour a req b := by
  obtain ⟨⟨aLast', reqFirst, bFirst, h1, h2, h3, h4⟩, hgap, hid, hbid, hz, hp⟩ := h
  have hlast : ∃ aLast, a.bundles.getLast? = some aLast := by
    cases hl : a.bundles.getLast? with
    | some x => exact ⟨x, rfl⟩
    | none =>
      have hnil : a.bundles = [] := List.getLast?_eq_none_iff.mp hl
      have hlen : a'.bundles.length = 0 := by rw [hsame.length, hnil]; rfl
      rw [List.eq_nil_of_length_eq_zero hlen] at h1
      simp at h1
  obtain ⟨aLast, haL⟩ := hlast
  refine ⟨⟨aLast, reqFirst, bFirst, haL, h2, h3, h4⟩, ?_, ?_, ?_, ?_, ?_⟩
  · intro x y hx hy
    obtain ⟨x', hx', _, _, e3, _⟩ := same_last hsame x hx
    rw [← e3]
    exact hgap x' y hx' hy
  · rw [← hsame.id]; exact hid
  · intro bb hbb ab hab
    obtain ⟨ab', hab', e⟩ := same_mem hsame ab hab
    rw [← e]
    exact hbid bb hbb ab' hab'
  · intro x rf hx hrf k hk
    obtain ⟨x', hx', _, _, _, e4⟩ := same_last hsame x hx
    exact (e4 k).mp (hz x' rf hx' hrf k hk)
  · intro x y hx hy σ hσ
    obtain ⟨x', hx', _, _, _, e4⟩ := same_last hsame x hx
    obtain ⟨k, hk, hkid⟩ := hp x' y hx' hy σ hσ
    exact ⟨k, (e4 k).mp hk, hkid⟩

/-- Run a history THROUGH THE FILES: each ceremony's previous SKR is what `load_skr` makes of the file
    the last successful ceremony wrote (`C11.normalise` of the written response — `emitted_is_loadable`);
    returns the accepted (request, written SKR) pairs in order. -/
def historyFiles : Option Response → List Ceremony → List (Request × Response)
  | _, [] => []
  | prev, c :: rest =>
    match written c prev, c.args.ksr with
    | some skr, some (.ok req) => (req, skr) :: historyFiles (some (C11.normalise skr)) rest
    | _, _ => historyFiles prev rest

/-- every SKR a ceremony of the history can write lies in the writer's domain -/
def AllInDomain (cs : List Ceremony) : Prop :=
  ∀ c ∈ cs, ∀ prev skr, written c prev = some skr → WriterDomain skr

theorem timeline_files_aux (cs : List Ceremony) (hpol : AllTimeline cs) (hdom : AllInDomain cs) :
    ∀ (a a' : Response), SameResponse a' a → Chained a (historyFiles (some a') cs) := by
  induction cs with
  | nil => intro a a' _; simp [historyFiles, Chained]
  | cons c rest ih =>
    have hrest : AllTimeline rest := fun c' hc' => hpol c' (List.mem_cons_of_mem _ hc')
    have hdrest : AllInDomain rest := fun c' hc' => hdom c' (List.mem_cons_of_mem _ hc')
    intro a a' hsame
    unfold historyFiles
    cases hw : written c (some a') with
    | none => simp only; exact ih hrest hdrest a a' hsame
    | some skr =>
      cases hk : c.args.ksr with
      | none => simp only; exact ih hrest hdrest a a' hsame
      | some r =>
        cases r with
        | error e => simp only; exact ih hrest hdrest a a' hsame
        | ok req =>
          simp only [Chained]
          have hd : WriterDomain skr := hdom c List.mem_cons_self (some a') skr hw
          refine ⟨?_, ih hrest hdrest skr (C11.normalise skr) (readBack_same _ skr hd)⟩
          apply neighbour_of_same hsame
          unfold written at hw
          simp only at hw
          have hwr : writes (ksrsigner c.ext { c.args with prev := some (.ok a') } c.tok {}).2 = [.write skr] := by
            simp only [Option.map] at hw
            split at hw
            · rename_i s heq
              simp only [Option.some.injEq] at hw
              subst hw; exact heq
            · simp at hw
          exact step_neighbour c.ext { c.args with prev := some (.ok a') } c.tok {} a' req skr rfl hk
            (hpol c (List.mem_cons_self) req hk) rfl hwr

/-- **C10 through the files.**  For EVERY sequence of ceremonies in which each one reads, as its
    previous SKR, the file the last successful one wrote: the SKRs written along the way form a chain of
    neighbours — the same conclusion as `C10_timeline`, with the model's "feed the written `Response`
    back" replaced by "write the text, read it with the repository's reader". -/
theorem C10_timeline_files (cs : List Ceremony) (a : Response) (hpol : AllTimeline cs) (hdom : AllInDomain cs) :
    Chained a (historyFiles (some a) cs) :=
  timeline_files_aux cs hpol hdom a a (SameResponse.refl a)

/-- when every written SKR is already in the reader's representation, the two histories coincide -/
theorem historyFiles_eq_history (cs : List Ceremony) (hdom : AllInDomain cs)
    (hcan : ∀ c ∈ cs, ∀ prev skr, written c prev = some skr → Canonical skr) :
    ∀ prev, historyFiles prev cs = history prev cs := by
  induction cs with
  | nil => intro prev; rfl
  | cons c rest ih =>
    have ih' := ih (fun c' hc' => hdom c' (List.mem_cons_of_mem _ hc'))
      (fun c' hc' => hcan c' (List.mem_cons_of_mem _ hc'))
    intro prev
    unfold historyFiles history
    cases hw : written c prev with
    | none => simp only; exact ih' prev
    | some skr =>
      cases hk : c.args.ksr with
      | none => simp only; exact ih' prev
      | some r =>
        cases r with
        | error e => simp only; exact ih' prev
        | ok req =>
          simp only
          have hd := hdom c List.mem_cons_self prev skr hw
          have hc := hcan c List.mem_cons_self prev skr hw
          have : C11.normalise skr = skr := readBack_eq_self _ skr hd hc
          rw [this, ih' (some skr)]

end EmittedFile

/-! ## The emitted file, from the inputs

  `emitted_is_loadable` and `C10_timeline_files` ASSUME `WriterDomain skr` / `C11.Constructible skr` of what
  a ceremony writes.  This section proves them of `create_skr`, from a DECIDABLE predicate on what the
  ceremony read — the KSR and the configuration — and for every token, every hash function and every
  software verifier that does not accept the empty octet string as a signature (`RejectsEmpty`; an
  arbitrary `Verifier` may, and then `<SignatureData/>` would be written: `rejectsEmpty_needed`).

  `PlainInputs req cfg`, clause by clause, and what each is needed for (lemmas: Lemmas/SkrEmitted.lean):

  request header — `id`, `domain`: not empty, no `"` `<` `>` `&`, no control character (they are copied
      into attribute values; the reader does not decode entities — F18); `serial`: `0 ≤`, at most 4300
      digits (`str(int)` limit).
  ZSK policy — `policyOk`: six whole-second durations in 0 s … 400 d (the writer drops microseconds, the
      reader refuses a negative day count; 400 d is the bound of C11's domain, not of the codec), at least
      one algorithm entry, every entry RSA with algorithm 5 / 8 / 10 and printable size and exponent (the
      writer refuses any other kind: NotImplementedError).
  bundles — at least one; in the loader's order (expiration, inception, id) — the request loader sorts
      them so, and the response loader sorts again: an unsorted list would be read back permuted.
  every bundle — `id` as above; inception and expiration whole seconds of the years 1000 … 9999 (the
      writer drops microseconds; `%Y` is not zero-padded below 1000 — F7); at least one key (the reader's
      `validate_signatures` and the schema ask for one).
  every request key — `keyIdentifier` as above; `keyTag` in 0 … 65535 and `protocol = 3` (schema); flags
      256 / 257 / 385 and an algorithm number of `AlgorithmDNSSEC` (invariants of every Python `Key`
      object — the model's `Key` is wider; the reader constructs the object anew); an RSA exponent, if
      the key text decodes as RSA, of at most 4300 digits (it is printed in the KSK policy).
      NOT asked: anything about the public key TEXT, the TTL, the flags range, the algorithm being RSA,
      the size — those follow from gates `create_skr` passed (`make_raw_rrsig` decoded and packed every
      published key; `_ksk_signature_policy` read every published key as an RSA key).
  every configured KSK — `label` as above (it becomes the key identifier of keys and signatures);
      `rsa_exponent`, if set, of at most 4300 digits (`load_pkcs11_key` compared it with the token's).
      NOT asked: anything about the token's answers.
  KSK policy — the six durations as for the ZSK policy.  NOT asked: TTL (`make_raw_rrsig` packed it into
      32 bits), signer name (`make_raw_rrsig` accepts "." only).

  Gate used instead of a hypothesis: `validate_request`'s bundle count (`C05.count_iff`), which together
  with `request_policy.num_bundles = response_policy.num_bundles` (configuration coherence, part of
  `PlainCeremony`) gives the `hcount` hypothesis of `emitted_is_loadable`.  The other rules of
  `validate_request` that would imply a clause (acceptable domain, key tag recomputed, flags 256) sit
  behind enable flags or move the condition to another configuration field, so the clause is kept.

  The real `skr_to_xml` / `response_from_xml` were run on hand-built responses at the points the proof
  forced: an exponent of 4301 digits — `skr_to_xml` raises ValueError (int → str limit), nothing is
  written; a sub-second inception — reads back truncated (C11's documented loss); an EMPTY
  `SignatureData` — writes and reads back equal, so the domain's "not empty" is stricter than the tools
  there, and `RejectsEmpty` is the price of that clause only (no real verifier accepts an empty
  signature).  No new defect. -/

section FromInputs
open Kskm.ReadBack Kskm.C10L Kskm.Emitted

/-- one request key -/
def plainKey (k : Key) : Bool :=
  attrTextOk k.keyIdentifier && decide (0 ≤ k.keyTag) && decide (k.keyTag ≤ 65535)
    && decide (k.flags = 256 ∨ k.flags = 257 ∨ k.flags = 385) && decide (k.protocol = 3)
    && algMember k.algorithm
    && (match rsaDecode k.publicKey k.algorithm with
        | .ok pub => printable (pub.exponent : Int)
        | .error _ => true)

/-- one request bundle -/
def plainBundle (b : Bundle) : Bool :=
  attrTextOk b.id && instantOk b.inception && instantOk b.expiration && !b.keys.isEmpty && b.keys.all plainKey

/-- the request -/
def plainRequest (req : Request) : Bool :=
  attrTextOk req.id && attrTextOk req.domain && decide (0 ≤ req.serial) && printable req.serial
    && policyOk req.zskPolicy && !req.bundles.isEmpty && req.bundles.all plainBundle
    && bundlesSorted req.bundles

/-- one entry of the `keys:` section of the configuration -/
def plainKsk (ksk : KskKey) : Bool :=
  attrTextOk ksk.label && (match ksk.rsaExponent with | some e => printable e | none => true)

/-- the `keys:` and `ksk_policy:` sections of the configuration -/
def plainConfig (keys : List (String × KskKey)) (pol : KskPolicy) : Bool :=
  keys.all (fun p => plainKsk p.2)
    && durationOk pol.signaturePolicy.publishSafety && durationOk pol.signaturePolicy.retireSafety
    && durationOk pol.signaturePolicy.maxSignatureValidity && durationOk pol.signaturePolicy.minSignatureValidity
    && durationOk pol.signaturePolicy.maxValidityOverlap && durationOk pol.signaturePolicy.minValidityOverlap

/-- **The input-level predicate**: a plain KSR and a plain configuration (decidable). -/
def PlainInputs (req : Request) (cfg : SignerConfig) : Prop :=
  plainRequest req = true ∧ plainConfig cfg.kskKeys cfg.kskPolicy = true

instance (req : Request) (cfg : SignerConfig) : Decidable (PlainInputs req cfg) := by
  unfold PlainInputs; infer_instance

theorem plainKey_good (k : Key) (h : plainKey k = true) : KeyGood k ∧ algMember k.algorithm = true := by
  simp only [plainKey, Bool.and_eq_true, decide_eq_true_eq] at h
  obtain ⟨⟨⟨⟨⟨⟨h1, h2⟩, h3⟩, h4⟩, h5⟩, h6⟩, h7⟩ := h
  refine ⟨⟨h1, h2, h3, h4, h5, ?_⟩, h6⟩
  intro pub hpub
  rw [hpub] at h7
  exact h7

theorem plainBundle_good (b : Bundle) (h : plainBundle b = true) : BundleGood b := by
  simp only [plainBundle, Bool.and_eq_true, List.all_eq_true, Bool.not_eq_true', List.isEmpty_eq_false_iff] at h
  obtain ⟨⟨⟨⟨h1, h2⟩, h3⟩, h4⟩, h5⟩ := h
  exact ⟨h1, h2, h3, h4, fun k hk => plainKey_good k (h5 k hk)⟩

theorem plainRequest_good (req : Request) (h : plainRequest req = true) : RequestGood req := by
  simp only [plainRequest, Bool.and_eq_true, List.all_eq_true, Bool.not_eq_true', List.isEmpty_eq_false_iff,
    decide_eq_true_eq] at h
  obtain ⟨⟨⟨⟨⟨⟨⟨h1, h2⟩, h3⟩, h4⟩, h5⟩, h6⟩, h7⟩, h8⟩ := h
  exact ⟨h1, h2, h3, h4, h5, h6, fun b hb => plainBundle_good b (h7 b hb), h8⟩

theorem plainConfig_good (cfg : SignerConfig) (h : plainConfig cfg.kskKeys cfg.kskPolicy = true) : ConfigGood cfg := by
  simp only [plainConfig, Bool.and_eq_true, List.all_eq_true] at h
  obtain ⟨⟨⟨⟨⟨⟨h0, h1⟩, h2⟩, h3⟩, h4⟩, h5⟩, h6⟩ := h
  refine ⟨?_, h1, h2, h3, h4, h5, h6⟩
  intro p hp
  have := h0 p hp
  simp only [plainKsk, Bool.and_eq_true] at this
  refine ⟨this.1, ?_⟩
  intro e he
  have h2 := this.2
  rw [he] at h2
  exact h2

/-- **What `create_skr` emits from plain inputs lies in the writer's domain and is constructible** — for
    EVERY token, every starting state, every hash function and every software verifier that rejects the
    empty signature; together with the bundle count.  So the two hypotheses of `C11.C11_roundtrip` /
    `emitted_is_loadable` hold of every SKR a ceremony on plain inputs can write. -/
theorem createSkr_in_writerDomain (ext : Externals) (mods : List P11Module) (cfg : SignerConfig) (req : Request)
    (skr : Response) (tok : Token) (s s' : TokState)
    (hp : PlainInputs req cfg) (hv : RejectsEmpty ext.verify)
    (h : createSkr ext mods cfg req tok s = (.ok skr, s')) :
    WriterDomain skr ∧ C11.Constructible skr ∧ skr.bundles.length = req.bundles.length :=
  createSkr_in_domain hv (plainRequest_good req hp.1) (plainConfig_good cfg hp.2) h

/-- **`RejectsEmpty` cannot be dropped**: the example ceremony below, against a token that answers every
    `C_Sign` with the empty octet string and a verifier that accepts everything, passes every gate and
    writes an SKR with an empty `SignatureData` — outside the writer's domain.  (No real scheme has such a
    verifier.) -/
theorem rejectsEmpty_needed :
    ∃ (ext : Externals) (mods : List P11Module) (cfg : SignerConfig) (req : Request) (skr : Response) (tok : Token)
      (s' : TokState), PlainInputs req cfg ∧ createSkr ext mods cfg req tok {} = (.ok skr, s') ∧ ¬ WriterDomain skr := by
  let ext : Externals := { hash := fun _ d => some d, verify := fun _ _ _ _ => .valid }
  let tok : Token := fun _ op =>
    match op with
    | .findObjects _ _ _ => .handles [5]
    | .getAttr _ _ _ ["KEY_TYPE"] => .attrs [.num 0]
    | .getAttr _ _ _ ["MODULUS"] => .attrs [.bytes [0x80, 1]]
    | .getAttr _ _ _ ["PUBLIC_EXPONENT"] => .attrs [.bytes [1, 0, 1]]
    | .sign .. => .sig []
    | _ => .ok
  let mods : List P11Module := [{ label := "hsm", path := "m", slots := [0], sessions := [0] }]
  let cfg : SignerConfig :=
    { kskKeys := [("k1", { label := "ksk", algorithm := 8, validFrom := 0, rsaSize := some 16,
                           rsaExponent := some 65537, hashUsingHsm := some true })]
      actions := [(1, { publish := ["k1"], sign := ["k1"] })], responsePolicy := { numBundles := 1 } }
  let req : Request :=
    { id := "req-1", serial := 1, domain := ".",
      zskPolicy := { algorithms := [{ kind := .rsa, bits := 2048, algorithm := 8, exponent := some 65537 }] },
      bundles := [⟨"b1", 1700000000000000, 1701000000000000, [⟨"zsk", 2, 172800, 256, 3, 8, "AwEAAg=="⟩], [], none⟩] }
  have key : (match createSkr ext mods cfg req tok {} with
      | (.ok skr, _) => decide (PlainInputs req cfg) && !writerDomain skr
      | _ => false) = true := by decide +kernel
  cases hrun : createSkr ext mods cfg req tok {} with
  | mk r s' =>
    cases r with
    | error e => rw [hrun] at key; cases key
    | ok skr =>
      rw [hrun] at key
      simp only [Bool.and_eq_true, decide_eq_true_eq, Bool.not_eq_true'] at key
      exact ⟨ext, mods, cfg, req, skr, tok, s', key.1, hrun, by unfold WriterDomain; rw [key.2]; simp⟩

/-- what a ceremony read, as far as the emitted file depends on it: a plain KSR (if one was parsed), a
    plain configuration, and one bundle count in the request and response policies -/
def plainCeremony (a : CeremonyArgs) : Bool :=
  (match a.ksr with
    | some (.ok req) => plainRequest req
    | _ => true)
    && plainConfig a.kskKeys a.kskPolicy
    && decide (a.requestPolicy.numBundles = a.responsePolicy.numBundles)

def PlainCeremony (a : CeremonyArgs) : Prop := plainCeremony a = true

instance (a : CeremonyArgs) : Decidable (PlainCeremony a) := by unfold PlainCeremony; infer_instance

/-- the predicate does not look at the previous SKR -/
theorem plainCeremony_prev (a : CeremonyArgs) (p : Option (Res Response)) :
    PlainCeremony { a with prev := p } ↔ PlainCeremony a := Iff.rfl

/-- `PlainCeremony` is `PlainInputs` of the request and the configuration `ksrsigner` hands to
    `create_skr` (`signerConfigOf`), for whatever schema was selected -/
theorem plainCeremony_inputs (a : CeremonyArgs) (h : PlainCeremony a) (req : Request) (hk : a.ksr = some (.ok req))
    (actions : List (Nat × SchemaAction)) :
    PlainInputs req (signerConfigOf a actions) ∧ a.requestPolicy.numBundles = a.responsePolicy.numBundles := by
  simp only [PlainCeremony, plainCeremony, hk, Bool.and_eq_true, decide_eq_true_eq] at h
  exact ⟨⟨h.1.1, h.1.2⟩, h.2⟩

/-- **What a ceremony on plain inputs writes meets every hypothesis of `emitted_is_loadable`.** -/
theorem written_in_writerDomain (ext : Externals) (args : CeremonyArgs) (t : Token) (s : CerState) (skr : Response)
    (hs : writes s = []) (hw : writes (ksrsigner ext args t s).2 = [.write skr])
    (hp : PlainCeremony args) (hv : RejectsEmpty ext.verify) :
    WriterDomain skr ∧ C11.Constructible skr ∧ (skr.bundles.length : Int) = args.responsePolicy.numBundles := by
  obtain ⟨_, skr', hwr, g⟩ := write_only_if_gates ext args t s hs (by rw [hw]; simp)
  have hb : skr' = skr := by
    rw [hw] at hwr
    simp only [List.cons.injEq, Event.write.injEq, and_true] at hwr
    exact hwr.symm
  subst hb
  obtain ⟨actions, req, mods, ts, ts', _, hksr, hcreate⟩ := g.signed
  obtain ⟨_, req', _, hksr', hvalid⟩ := g.ksr_valid
  rw [hksr] at hksr'
  simp only [Option.some.injEq, Except.ok.injEq] at hksr'
  subst hksr'
  obtain ⟨hin, hnum⟩ := plainCeremony_inputs args hp req hksr actions
  obtain ⟨hd, hc, hlen⟩ := createSkr_in_writerDomain ext mods _ req skr' t ts ts' hin hv hcreate
  refine ⟨hd, hc, ?_⟩
  have hcount : (req.bundles.length : Int) = args.requestPolicy.numBundles :=
    (C05.count_iff req args.requestPolicy).mp ((C05.validateRequest_ok_iff _ _ _ _).mp hvalid).2.2.2.2.1
  rw [hlen, hcount, hnum]

/-- **Every SKR emitted from plain inputs is loadable, and loads to the written response** —
    `emitted_is_loadable` with its three hypotheses on the OUTPUT replaced by the decidable predicate on
    the INPUTS: for every token, if a ceremony that read a plain KSR under a plain configuration writes
    `skr`, then `skr_to_xml skr` is a text which `load_skr` (size gate, the repository's reader, the glue,
    `validate_response`) accepts, returning the written response. -/
theorem emitted_is_loadable_from_inputs (ext : Externals) (args : CeremonyArgs) (t : Token) (s : CerState)
    (skr : Response) (hs : writes s = []) (hw : writes (ksrsigner ext args t s).2 = [.write skr])
    (hp : PlainCeremony args) (hv : RejectsEmpty ext.verify) :
    ∃ text, skrToXml skr = .ok text ∧
      (∀ f : Xml.FileOracle, Holds f text →
        (Xml.loadSkr Xml.pyClasses Xml.pySwitches Xml.pyGlueSwitches ext.verify f args.responsePolicy).result
          = .done (.ok (C11.normalise skr))) ∧
      loadSkrGate ext.verify (C11.normalise skr) args.responsePolicy = .ok () ∧
      SameResponse (C11.normalise skr) skr ∧ (Canonical skr → C11.normalise skr = skr) := by
  obtain ⟨hd, hc, hcount⟩ := written_in_writerDomain ext args t s skr hs hw hp hv
  exact emitted_is_loadable_current_tree ext args t s skr hs hw hd hc hcount

/-- … and the next ceremony's "load + validate previous SKR" stage accepts what the file yields -/
theorem emitted_passes_stagePrev_from_inputs (ext : Externals) (args next : CeremonyArgs) (t : Token) (s : CerState)
    (skr : Response) (hs : writes s = []) (hw : writes (ksrsigner ext args t s).2 = [.write skr])
    (hp : PlainCeremony args) (hv : RejectsEmpty ext.verify)
    (hpol : next.responsePolicy = args.responsePolicy) (hprev : next.prev = some (.ok (C11.normalise skr))) :
    stagePrev ext next = .ok (some (C11.normalise skr)) := by
  obtain ⟨hd, hc, hcount⟩ := written_in_writerDomain ext args t s skr hs hw hp hv
  exact emitted_passes_stagePrev ext args next t s skr hs hw hd hc hcount hpol hprev

/-- **What `historyFiles` feeds forward is what `load_skr` returns**: whatever previous SKR a ceremony on
    plain inputs was run with, the SKR it writes, as a file, loads — under that ceremony's response policy
    and verifier — to `C11.normalise skr`, the value the next ceremony of `historyFiles` receives. -/
theorem written_file_loads (c : Ceremony) (prev : Option Response) (skr : Response)
    (hp : PlainCeremony c.args) (hv : RejectsEmpty c.ext.verify) (hw : written c prev = some skr) :
    ∃ text, skrToXml skr = .ok text ∧
      (∀ f : Xml.FileOracle, Holds f text →
        (Xml.loadSkr Xml.pyClasses Xml.pySwitches Xml.pyGlueSwitches c.ext.verify f c.args.responsePolicy).result
          = .done (.ok (C11.normalise skr))) ∧
      SameResponse (C11.normalise skr) skr := by
  unfold written at hw
  simp only at hw
  have hwr : writes (ksrsigner c.ext { c.args with prev := prev.map .ok } c.tok {}).2 = [.write skr] := by
    split at hw
    · rename_i s heq
      simp only [Option.some.injEq] at hw
      subst hw; exact heq
    · simp at hw
  obtain ⟨text, h1, h2, _, h4, _⟩ := emitted_is_loadable_from_inputs c.ext _ c.tok {} skr rfl hwr
    ((plainCeremony_prev c.args _).mpr hp) hv
  exact ⟨text, h1, h2, h4⟩

/-- every ceremony of the history read plain inputs and verifies with a verifier that rejects the empty
    signature -/
def AllPlain (cs : List Ceremony) : Prop :=
  ∀ c ∈ cs, PlainCeremony c.args ∧ RejectsEmpty c.ext.verify

/-- the input-level predicate implies the output-level one of `C10_timeline_files` -/
theorem allInDomain_of_plain (cs : List Ceremony) (h : AllPlain cs) : AllInDomain cs := by
  intro c hc prev skr hw
  obtain ⟨hp, hv⟩ := h c hc
  unfold written at hw
  simp only at hw
  have hwr : writes (ksrsigner c.ext { c.args with prev := prev.map .ok } c.tok {}).2 = [.write skr] := by
    split at hw
    · rename_i s heq
      simp only [Option.some.injEq] at hw
      subst hw; exact heq
    · simp at hw
  exact (written_in_writerDomain c.ext _ c.tok {} skr rfl hwr ((plainCeremony_prev c.args _).mpr hp) hv).1

/-- **C10 through the files, from the inputs.**  For EVERY sequence of ceremonies, each on a plain KSR and
    a plain configuration and each reading, as its previous SKR, the file the last successful one wrote:
    the SKRs written along the way form a chain of neighbours.  No hypothesis on any written SKR is left;
    that the file of each successful ceremony does load, to the response `historyFiles` feeds forward, is
    `emitted_is_loadable_from_inputs`. -/
theorem C10_timeline_files_from_inputs (cs : List Ceremony) (a : Response) (hpol : AllTimeline cs)
    (hplain : AllPlain cs) : Chained a (historyFiles (some a) cs) :=
  C10_timeline_files cs a hpol (allInDomain_of_plain cs hplain)

end FromInputs

/-! ## Non-vacuity of the section above: a concrete ceremony -/

section Example
open Kskm.ReadBack Kskm.C10L

/-- a token with one slot and one RSA key pair labelled "ksk" (handle 5, modulus `80 01`, e = 65537)
    that answers every other question with "ok" and signs everything with `[1, 2, 3]` -/
def exTok : Token := fun _ op =>
  match op with
  | .getSlotList _ => .slots [0]
  | .findObjects _ _ _ => .handles [5]
  | .getAttr _ _ _ ["KEY_TYPE"] => .attrs [.num 0]
  | .getAttr _ _ _ ["MODULUS"] => .attrs [.bytes [0x80, 1]]
  | .getAttr _ _ _ ["PUBLIC_EXPONENT"] => .attrs [.bytes [1, 0, 1]]
  | .sign .. => .sig [1, 2, 3]
  | _ => .ok

/-- … and a verifier that accepts exactly that -/
def exExt : Externals :=
  { hash := fun _ d => some d, verify := fun _ _ _ sg => if sg = [1, 2, 3] then .valid else .invalid }

def exReq : Request :=
  { id := "req-1", serial := 1, domain := ".",
    zskPolicy := { maxSignatureValidity := 1814400000000, minSignatureValidity := 1814400000000,
                   maxValidityOverlap := 3600000000, minValidityOverlap := 61000000,
                   algorithms := [{ kind := .rsa, bits := 2048, algorithm := 8, exponent := some 65537 }] },
    bundles := [⟨"b1", 1700000000000000, 1701000000000000, [⟨"zsk", 2, 172800, 256, 3, 8, "AwEAAg=="⟩], [], none⟩] }

/-- one bundle; the optional KSR checks switched off (the KSR carries no proof of possession) -/
def exArgs : CeremonyArgs :=
  { actions := some [(1, { publish := ["k1"], sign := ["k1"] })]
    prev := none
    ksr := some (.ok exReq)
    hsm := [{ label := "hsm", path := "m", pin := some "1234", soPin := none }]
    force := true
    kskKeys := [("k1", { label := "ksk", algorithm := 8, validFrom := 0, rsaSize := some 16,
                         rsaExponent := some 65537, hashUsingHsm := some true })]
    kskPolicy := {}
    requestPolicy :=
      { numBundles := 1, validateSignatures := false, keysMatchZskPolicy := false, checkCycleLength := false,
        checkBundleOverlap := false, signatureAlgorithmsMatchZskPolicy := false,
        signatureValidityMatchZskPolicy := false, checkKeysMatchKskOperatorPolicy := false,
        signatureCheckExpireHorizon := false, checkBundleIntervals := false }
    responsePolicy := { numBundles := 1 }
    now := 1700000000000000 }

def exCeremony : Ceremony := { ext := exExt, args := exArgs, tok := exTok }

/-- the whole pipeline runs (schema, KSR gate, token initialisation, signing, re-validation, the
    write) and the SKR it writes meets every hypothesis of `emitted_is_loadable`; its two keys stand
    in the signer's order (KSK 34572 before ZSK 2), NOT in the key-tag order the file has — so the
    response read back differs from the written one as a list-carrying record and `SameResponse` is
    the statement that applies -/
theorem exCeremony_writes :
    (match written exCeremony none with
      | some skr => writerDomain skr && constructible skr
          && decide ((skr.bundles.length : Int) = exArgs.responsePolicy.numBundles)
          && decide (skr.bundles.map (fun b => b.keys.map (·.keyTag)) = [[34572, 2]])
      | none => false) = true := by decide +kernel

/-- `emitted_is_loadable` applied to that run: the file loads, to the same response -/
example : ∃ skr text, written exCeremony none = some skr ∧ skrToXml skr = .ok text ∧
    (∀ f : Xml.FileOracle, Holds f text →
      (Xml.loadSkr Xml.pyClasses Xml.pySwitches Xml.pyGlueSwitches exExt.verify f exArgs.responsePolicy).result
        = .done (.ok (C11.normalise skr))) ∧
    SameResponse (C11.normalise skr) skr := by
  have h := exCeremony_writes
  cases hw : written exCeremony none with
  | none => rw [hw] at h; cases h
  | some skr =>
    rw [hw] at h
    simp only [Bool.and_eq_true, decide_eq_true_eq] at h
    obtain ⟨⟨⟨hd, hc⟩, hcount⟩, _⟩ := h
    have hwr : writes (ksrsigner exExt exArgs exTok {}).2 = [.write skr] := by
      unfold written at hw
      simp only [Option.map] at hw
      split at hw
      · rename_i s heq
        simp only [Option.some.injEq] at hw
        subst hw; exact heq
      · simp at hw
    obtain ⟨text, h1, h2, _, h4, _⟩ :=
      emitted_is_loadable_current_tree exExt exArgs exTok {} skr rfl hwr hd hc hcount
    exact ⟨skr, text, rfl, h1, h2, h4⟩

/-- a file system that holds a given text -/
example (text : String) (h : text.toList.length ≤ KskmGen.maxSkrSize) :
    Holds { statSize := text.toList.length, read := fun _ => [], decode := fun _ => some text.toList } text :=
  ⟨h, rfl⟩

/-- **the example ceremony satisfies the input-level predicate** (so `createSkr_in_writerDomain`,
    `emitted_is_loadable_from_inputs` and `C10_timeline_files_from_inputs` are not vacuous): its KSR and
    configuration are plain, the two bundle counts agree, its verifier rejects the empty signature -/
theorem exCeremony_plain : PlainCeremony exArgs ∧ PlainInputs exReq (signerConfigOf exArgs []) ∧
    Emitted.RejectsEmpty exExt.verify :=
  ⟨by decide +kernel, by decide +kernel, fun _ _ _ h => by simp [exExt] at h⟩

/-- `emitted_is_loadable_from_inputs` applied to that run — nothing is assumed of the written SKR -/
example : ∃ skr text, written exCeremony none = some skr ∧ skrToXml skr = .ok text ∧
    (∀ f : Xml.FileOracle, Holds f text →
      (Xml.loadSkr Xml.pyClasses Xml.pySwitches Xml.pyGlueSwitches exExt.verify f exArgs.responsePolicy).result
        = .done (.ok (C11.normalise skr))) ∧
    SameResponse (C11.normalise skr) skr := by
  have h := exCeremony_writes
  cases hw : written exCeremony none with
  | none => rw [hw] at h; cases h
  | some skr =>
    have hwr : writes (ksrsigner exExt exArgs exTok {}).2 = [.write skr] := by
      unfold written at hw
      simp only [Option.map] at hw
      split at hw
      · rename_i s heq
        simp only [Option.some.injEq] at hw
        subst hw; exact heq
      · simp at hw
    obtain ⟨text, h1, h2, _, h4, _⟩ :=
      emitted_is_loadable_from_inputs exExt exArgs exTok {} skr rfl hwr exCeremony_plain.1 exCeremony_plain.2.2
    exact ⟨skr, text, rfl, h1, h2, h4⟩

/-- a history of that ceremony repeated meets `AllPlain` (the second run is refused as a replay; the
    predicate is about what each ceremony READ) -/
example : AllPlain [exCeremony, exCeremony] := by
  intro c hc
  simp only [List.mem_cons, List.not_mem_nil, or_false, or_self] at hc
  subst hc
  exact ⟨exCeremony_plain.1, exCeremony_plain.2.2⟩

end Example

end Kskm.C10
