/-
  C10 — over successive ceremonies the accepted SKRs form one unbroken, authentic timeline.

  A ceremony is one run of `ksrsigner` (Kskm/Ceremony.lean) against its own token oracle; the previous
  SKR of ceremony n+1 is the SKR that ceremony n wrote.  `C03.write_only_if_gates` says what a write
  implies; the chain (C08) and publish-safety (C09) characterisations turn the gates into the
  neighbour relation of the property; induction over the list of ceremonies — no depth bound —
  gives the timeline.

  The model feeds the written `Response` back as the next `prev`.  That the FILE written reads back
  as that very `Response` is C11's round trip; it enters here as the hypothesis `prev = some (.ok skr)`
  of each step and is checked on the real tools by the correspondence run (every transition uses
  the real previous output file).
-/
import Kskm.Ceremony
import KskmProofs.C03
import KskmProofs.C08
import KskmProofs.C09
import KskmProofs.Lemmas.Echo
namespace Kskm.C10

open Kskm.C03

/-- What the property asks of two neighbouring accepted SKRs `a` (earlier) and `b`, where `req` is
    the KSR that `b` answers. -/
structure Neighbour (a : Response) (req : Request) (b : Response) : Prop where
  /-- both have bundles; `b` answers `req` position by position -/
  shape : ∃ aLast reqFirst bFirst, a.bundles.getLast? = some aLast ∧ req.bundles.head? = some reqFirst ∧
      b.bundles.head? = some bFirst ∧ bFirst.inception = reqFirst.inception
  /-- no coverage gap: the first new bundle starts no later than the last old one expires -/
  no_gap : ∀ aLast bFirst, a.bundles.getLast? = some aLast → b.bundles.head? = some bFirst →
      bFirst.inception ≤ aLast.expiration
  /-- no reused request id -/
  fresh_id : b.id ≠ a.id
  /-- no reused bundle id -/
  fresh_bundle_ids : ∀ bb ∈ b.bundles, ∀ ab ∈ a.bundles, bb.id ≠ ab.id
  /-- no first-bundle ZSK that was not in the preceding bundle (the same key record) -/
  zsk_chained : ∀ aLast reqFirst, a.bundles.getLast? = some aLast → req.bundles.head? = some reqFirst →
      ∀ k ∈ reqFirst.keys, k ∈ aLast.keys
  /-- no first-bundle signing key that was not published in the preceding bundle -/
  signer_published : ∀ aLast bFirst, a.bundles.getLast? = some aLast → b.bundles.head? = some bFirst →
      ∀ σ ∈ bFirst.signatures, C09.Published aLast σ.keyIdentifier

/-- the chain and safety flags the timeline rests on.  (On the pinned tree the no-gap clause also
    needed `0 ≤` the KSR's declared minimum overlap — DESIGN §5 F10; since the explicit gap test was
    added to the chain-overlap rule in /repo, and to the model, no such hypothesis is needed.) -/
structure TimelinePolicy (pol : RequestPolicy) (req : Request) : Prop where
  chainKeys : pol.checkChainKeys = true
  chainOverlap : pol.checkChainOverlap = true
  publishSafety : pol.checkKeysPublishSafety = true

theorem map_stamp_head (l₁ l₂ : List Bundle) (h : l₁.map Bundle.stamp = l₂.map Bundle.stamp)
    (b₂ : Bundle) (h2 : l₂.head? = some b₂) :
    ∃ b₁, l₁.head? = some b₁ ∧ b₁.id = b₂.id ∧ b₁.inception = b₂.inception ∧ b₁.expiration = b₂.expiration := by
  cases l₂ with
  | nil => simp at h2
  | cons x xs =>
    cases l₁ with
    | nil => simp at h
    | cons y ys =>
      simp only [List.map_cons, List.cons.injEq, Bundle.stamp, Prod.mk.injEq] at h
      simp only [List.head?_cons, Option.some.injEq] at h2
      subst h2
      exact ⟨y, rfl, h.1.1, h.1.2.1, h.1.2.2⟩

theorem map_stamp_ids (l₁ l₂ : List Bundle) (h : l₁.map Bundle.stamp = l₂.map Bundle.stamp) :
    ∀ b ∈ l₁, ∃ b' ∈ l₂, b'.id = b.id := by
  intro b hb
  have : b.stamp ∈ l₂.map Bundle.stamp := by rw [← h]; exact List.mem_map_of_mem hb
  obtain ⟨b', hb', e⟩ := List.mem_map.mp this
  refine ⟨b', hb', ?_⟩
  simp only [Bundle.stamp, Prod.mk.injEq] at e
  exact e.1

/-- **One accepted step yields a neighbour.** For every token: if a ceremony whose previous SKR is
    `a` writes an SKR `b`, then `b` is a neighbour of `a` — provided the chain / publish-safety checks
    are switched on and the KSR's declared minimum overlap is not negative. -/
theorem step_neighbour (ext : Externals) (args : CeremonyArgs) (t : Token) (s : CerState)
    (a : Response) (req : Request) (b : Response)
    (hprev : args.prev = some (.ok a)) (hksr : args.ksr = some (.ok req))
    (hpol : TimelinePolicy args.requestPolicy req)
    (hs : writes s = []) (hw : writes (ksrsigner ext args t s).2 = [.write b]) :
    Neighbour a req b := by
  obtain ⟨_, skr, hwr, g⟩ := write_only_if_gates ext args t s hs (by rw [hw]; simp)
  have hb : skr = b := by
    rw [hw] at hwr
    simp only [List.cons.injEq, Event.write.injEq, and_true] at hwr
    exact hwr.symm
  subst hb
  obtain ⟨hid, hbids, hkeys, hover⟩ := g.chain_valid a req hprev hksr
  have hsafe := g.safety_valid a hprev
  obtain ⟨actions, req', mods, ts, ts', _, hk', hcreate⟩ := g.signed
  rw [hksr] at hk'
  simp only [Option.some.injEq, Except.ok.injEq] at hk'
  subst hk'
  obtain ⟨eid, _, _, _, _, estamp⟩ := createSkr_echo ext mods _ req skr t ts ts' hcreate
  -- shapes: the checks themselves refuse empty bundle lists
  have hpub : checkPublishSafety a skr args.requestPolicy = .ok () := by
    unfold checkLastSkrAndNewSkr at hsafe
    exact ((seq_ok_iff _ _).mp hsafe).1
  have haL : ∃ aLast, a.bundles.getLast? = some aLast := by
    cases hh : a.bundles.getLast? with
    | some x => exact ⟨x, rfl⟩
    | none => simp [checkChainKeys, hpol.chainKeys, hh, err] at hkeys
  obtain ⟨aLast, haL⟩ := haL
  have hrF : ∃ reqFirst, req.bundles.head? = some reqFirst := by
    cases hh : req.bundles.head? with
    | some x => exact ⟨x, rfl⟩
    | none => simp [checkChainKeys, hpol.chainKeys, haL, hh, err] at hkeys
  obtain ⟨reqFirst, hrF⟩ := hrF
  obtain ⟨bFirst, hbF, _, hbinc, _⟩ := map_stamp_head skr.bundles req.bundles estamp reqFirst hrF
  have hkeys' := (C08.chain_keys_iff req a args.requestPolicy reqFirst aLast hrF haL).mp hkeys hpol.chainKeys
  have hover' := (C08.chain_overlap_iff req a args.requestPolicy reqFirst aLast hrF haL).mp hover hpol.chainOverlap
  have hpub' := (C09.publish_iff a skr args.requestPolicy aLast bFirst haL hbF).mp hpub hpol.publishSafety
  refine ⟨⟨aLast, reqFirst, bFirst, haL, hrF, hbF, hbinc⟩, ?_, ?_, ?_, ?_, ?_⟩
  · intro aLast' bFirst' h1 h2
    rw [haL] at h1; rw [hbF] at h2
    simp only [Option.some.injEq] at h1 h2
    subst h1 h2
    have := hover'.1
    rw [hbinc]; exact this
  · rw [eid]; exact (C08.unique_request_iff req a).mp hid
  · intro bb hbb ab hab
    obtain ⟨rb, hrb, e⟩ := map_stamp_ids skr.bundles req.bundles estamp bb hbb
    rw [← e]
    exact (C08.unique_bundle_ids_iff req a).mp hbids rb hrb ab hab
  · intro aLast' reqFirst' h1 h2
    rw [haL] at h1; rw [hrF] at h2
    simp only [Option.some.injEq] at h1 h2
    subst h1 h2
    exact hkeys'
  · intro aLast' bFirst' h1 h2
    rw [haL] at h1; rw [hbF] at h2
    simp only [Option.some.injEq] at h1 h2
    subst h1 h2
    exact hpub'.1

/-! ## Histories of any length -/

/-- one ceremony of a history: its arguments apart from the previous SKR, and its own token -/
structure Ceremony where
  ext : Externals
  args : CeremonyArgs
  tok : Token

/-- the SKR a ceremony writes when run with previous SKR `prev` (`none`: nothing written) -/
def written (c : Ceremony) (prev : Option Response) : Option Response :=
  let a : CeremonyArgs := { c.args with prev := prev.map .ok }
  match writes (ksrsigner c.ext a c.tok {}).2 with
  | [.write skr] => some skr
  | _ => none

/-- Run a history: each ceremony sees the last SKR written so far (a refused ceremony leaves it
    unchanged); returns the accepted (request, SKR) pairs in order. -/
def history : Option Response → List Ceremony → List (Request × Response)
  | _, [] => []
  | prev, c :: rest =>
    match written c prev, c.args.ksr with
    | some skr, some (.ok req) => (req, skr) :: history (some skr) rest
    | _, _ => history prev rest

/-- consecutive accepted SKRs of a list are neighbours -/
def Chained : Response → List (Request × Response) → Prop
  | _, [] => True
  | a, (req, b) :: rest => Neighbour a req b ∧ Chained b rest

/-- every ceremony of the history runs under a timeline policy -/
def AllTimeline (cs : List Ceremony) : Prop :=
  ∀ c ∈ cs, ∀ req, c.args.ksr = some (.ok req) → TimelinePolicy c.args.requestPolicy req

/-- **C10.** For EVERY sequence of ceremonies — any length, any mix of honest, replayed, gapped or
    re-keyed KSRs, any schemas, any token behaviour in each ceremony — started from an accepted SKR
    `a`: the SKRs accepted along the way form a chain of neighbours (no coverage gap, no reused
    request or bundle id, no unchained first-bundle ZSK, no unpublished first-bundle signer). -/
theorem C10_timeline (cs : List Ceremony) (a : Response) (hpol : AllTimeline cs) :
    Chained a (history (some a) cs) := by
  induction cs generalizing a with
  | nil => simp [history, Chained]
  | cons c rest ih =>
    have hrest : AllTimeline rest := fun c' hc' => hpol c' (List.mem_cons_of_mem _ hc')
    unfold history
    cases hw : written c (some a) with
    | none => simp only; exact ih a hrest
    | some skr =>
      cases hk : c.args.ksr with
      | none => simp only; exact ih a hrest
      | some r =>
        cases r with
        | error e => simp only; exact ih a hrest
        | ok req =>
          simp only [Chained]
          refine ⟨?_, ih skr hrest⟩
          unfold written at hw
          simp only at hw
          have hwr : writes (ksrsigner c.ext { c.args with prev := some (.ok a) } c.tok {}).2 = [.write skr] := by
            simp only [Option.map] at hw
            split at hw
            · rename_i s heq
              simp only [Option.some.injEq] at hw
              subst hw; exact heq
            · simp at hw
          exact step_neighbour c.ext { c.args with prev := some (.ok a) } c.tok {} a req skr rfl hk
            (hpol c (List.mem_cons_self) req hk) rfl hwr

/-- the previous SKR named on the command line is the one used, whatever the configuration names -/
theorem cli_previous_skr_wins (f : String) (cfg : Option String) (h : f ≠ "") :
    pickFile (some f) cfg = some f := by
  have : f.isEmpty = false := by
    cases hf : f.isEmpty with
    | false => rfl
    | true => exact absurd (String.isEmpty_iff.mp hf) h
  simp [pickFile, this]

theorem cfg_previous_skr_fallback (cfg : Option String) : pickFile none cfg = cfg ∧ pickFile (some "") cfg = cfg := by
  constructor <;> simp [pickFile]

/-- a refused ceremony changes nothing for its successors -/
theorem refused_is_transparent (c : Ceremony) (rest : List Ceremony) (prev : Option Response)
    (h : written c prev = none) : history prev (c :: rest) = history prev rest := by
  simp [history, h]

/-- **A gap is refused whatever the KSR declares**: the witness that was accepted on the pinned
    tree (12 h gap, declared minimum overlap −1 day) now stops at the chain-overlap rule. -/
theorem declared_negative_min_gap_refused :
    checkChainOverlap
      { id := "k", serial := 1, domain := ".",
        zskPolicy := { minValidityOverlap := -86400000000, maxValidityOverlap := 1036800000000 },
        bundles := [{ id := "n1", inception := 2721600000000, expiration := 4536000000000, keys := [], signatures := [] }] }
      { id := "s", serial := 1, domain := ".", zskPolicy := {}, kskPolicy := {},
        bundles := [{ id := "o1", inception := 864000000000, expiration := 2678400000000, keys := [], signatures := [] }] }
      {} = violation .chainOverlap := by decide +kernel

end Kskm.C10
