/-
  C03 — all-or-nothing: a failed check, a token fault or a declined confirmation yields no SKR.

  The theorems are about `ksrsigner` of Kskm/Ceremony.lean and are quantified over EVERY token
  oracle `tok` — hence over every fault position and every fault kind at once — and over every
  verifier, hash function, configuration, request, previous SKR and confirmation answer.
-/
import Kskm.Ceremony
import KskmProofs.Lemmas.TokM
import KskmProofs.Lemmas.NoSign
namespace Kskm.C03

/-! ## Events -/

def isWrite : Event → Bool
  | .write _ => true
  | _ => false

/-- the write events of a state (newest first) -/
def writes (s : CerState) : List Event := s.events.filter isWrite

/-- a computation that never emits a write, whatever the token does and however it ends -/
def WriteFree {α} (m : CerM α) : Prop := ∀ t s, writes (m t s).2 = writes s

theorem wf_pure {α} (a : α) : WriteFree (pure a : CerM α) := fun _ _ => rfl
theorem wf_lift {α} (r : Res α) : WriteFree (CerM.lift r) := fun _ _ => rfl
theorem wf_liftTok {α} (m : TokM α) : WriteFree (CerM.liftTok m) := fun _ _ => rfl
theorem wf_emit (e : Event) (h : isWrite e = false) : WriteFree (CerM.emit e) := by
  intro t s; simp [CerM.emit, writes, h]

theorem wf_bind {α β} (m : CerM α) (f : α → CerM β) (hm : WriteFree m) (hf : ∀ a, WriteFree (f a)) :
    WriteFree (m >>= f) := by
  intro t s
  simp only [bind]
  have h1 := hm t s
  cases hr : m t s with
  | mk r s1 =>
    rw [hr] at h1
    cases r with
    | error e => simpa using h1
    | ok a => simp only; rw [hf a t s1]; exact h1

theorem wf_catchAll {α} (m : CerM α) (d : α) (hm : WriteFree m) : WriteFree (CerM.catchAll m d) := by
  intro t s
  have h1 := hm t s
  simp only [CerM.catchAll]
  cases hr : m t s with
  | mk r s1 =>
    rw [hr] at h1
    cases r with
    | ok a => simpa using h1
    | error e => cases e <;> simpa using h1

theorem wf_stageConfirm (a : CeremonyArgs) : WriteFree (stageConfirm a) := by
  unfold stageConfirm
  split
  · exact wf_pure _
  · exact wf_bind _ _ (wf_emit _ rfl) (fun _ => wf_pure _)

theorem preSign_writeFree (ext : Externals) (a : CeremonyArgs) : WriteFree (preSign ext a) := by
  unfold preSign
  split
  · exact wf_pure _
  · refine wf_bind _ _ (wf_lift _) (fun skr => ?_)
    split
    · exact wf_pure _
    · refine wf_bind _ _ (wf_lift _) (fun req => ?_)
      refine wf_bind _ _ (wf_catchAll _ _ (wf_bind _ _ (wf_liftTok _) (fun _ => wf_pure _))) (fun mods? => ?_)
      split
      · exact wf_pure _
      · refine wf_bind _ _ (wf_liftTok _) (fun _ => ?_)
        refine wf_bind _ _ (wf_emit _ rfl) (fun _ => ?_)
        refine wf_bind _ _ (wf_stageConfirm a) (fun go => ?_)
        split <;> exact wf_pure _

theorem signStage_writeFree (ext : Externals) (a : CeremonyArgs) (p : PreSign) :
    WriteFree (signStage ext a p) := by
  unfold signStage
  refine wf_bind _ _ (wf_liftTok _) (fun newSkr => ?_)
  refine wf_bind _ _ (wf_lift _) (fun _ => ?_)
  exact wf_bind _ _ (wf_lift _) (fun _ => wf_pure _)

/-- **Everything before the last step is write-free**, for every token and every outcome. -/
theorem core_writeFree (ext : Externals) (a : CeremonyArgs) : WriteFree (ksrsignerCore ext a) := by
  unfold ksrsignerCore
  refine wf_bind _ _ (preSign_writeFree ext a) (fun x => ?_)
  split
  · exact wf_pure _
  · exact wf_bind _ _ (signStage_writeFree ext a _) (fun _ => wf_pure _)

/-! ## The write happens exactly on success -/

/-- `ksrsigner` in terms of its core: the three ways it can end. -/
theorem ksrsigner_cases (ext : Externals) (a : CeremonyArgs) (t : Token) (s : CerState) :
    (∃ s1 skr, ksrsignerCore ext a t s = (.ok (some skr), s1) ∧
        ksrsigner ext a t s = (.ok true, { s1 with events := .write skr :: s1.events })) ∨
    (∃ s1, ksrsignerCore ext a t s = (.ok none, s1) ∧ ksrsigner ext a t s = (.ok false, s1)) ∨
    (∃ s1 e, ksrsignerCore ext a t s = (.error e, s1) ∧ ksrsigner ext a t s = (.error e, s1)) := by
  unfold ksrsigner
  simp only [bind]
  cases hc : ksrsignerCore ext a t s with
  | mk r s1 =>
    cases r with
    | error e => right; right; exact ⟨s1, e, rfl, rfl⟩
    | ok o =>
      cases o with
      | none => right; left; exact ⟨s1, rfl, rfl⟩
      | some skr => left; exact ⟨s1, skr, rfl, rfl⟩

/-- **An unsuccessful run writes nothing.** For every token (every fault position and kind), if
    `ksrsigner` does not return `True` — it returns `False` or raises — then no write event was
    emitted: the bytes at the output path are untouched. -/
theorem unsuccessful_writes_nothing (ext : Externals) (a : CeremonyArgs) (t : Token) (s : CerState)
    (h : (ksrsigner ext a t s).1 ≠ .ok true) : writes (ksrsigner ext a t s).2 = writes s := by
  have hw := core_writeFree ext a t s
  rcases ksrsigner_cases ext a t s with ⟨s1, skr, hc, hk⟩ | ⟨s1, hc, hk⟩ | ⟨s1, e, hc, hk⟩
  · rw [hk] at h; exact absurd rfl h
  · rw [hk]; rw [hc] at hw; exact hw
  · rw [hk]; rw [hc] at hw; exact hw

/-- … and its exit status is not 0. -/
theorem unsuccessful_exit_nonzero (r : Res Bool) (h : r ≠ .ok true) : exitStatus r ≠ 0 := by
  unfold exitStatus
  split <;> simp_all

/-- **A successful run writes exactly once**, as its very last step, the SKR the core produced. -/
theorem success_writes_once (ext : Externals) (a : CeremonyArgs) (t : Token) (s : CerState)
    (h : (ksrsigner ext a t s).1 = .ok true) :
    ∃ skr s1, ksrsignerCore ext a t s = (.ok (some skr), s1) ∧
      writes (ksrsigner ext a t s).2 = .write skr :: writes s := by
  have hw := core_writeFree ext a t s
  rcases ksrsigner_cases ext a t s with ⟨s1, skr, hc, hk⟩ | ⟨s1, hc, hk⟩ | ⟨s1, e, hc, hk⟩
  · refine ⟨skr, s1, hc, ?_⟩
    rw [hk]; rw [hc] at hw
    simp only [writes, List.filter_cons, isWrite] at hw ⊢
    simp [hw]
  · rw [hk] at h; simp at h
  · rw [hk] at h; simp at h

/-! ## What a write implies: every gate passed -/

theorem CerM.bind_ok {α β} (m : CerM α) (f : α → CerM β) (t : Token) (s s' : CerState) (b : β)
    (h : (m >>= f) t s = (.ok b, s')) :
    ∃ a s1, m t s = (.ok a, s1) ∧ f a t s1 = (.ok b, s') := by
  simp only [bind] at h
  cases hm : m t s with
  | mk r s1 =>
    cases r with
    | error e => simp [hm] at h
    | ok a => exact ⟨a, s1, rfl, by simpa [hm] using h⟩

theorem lift_ok {α} (r : Res α) (t : Token) (s s' : CerState) (a : α)
    (h : CerM.lift r t s = (.ok a, s')) : r = .ok a ∧ s' = s := by
  simp only [CerM.lift, Prod.mk.injEq] at h; exact ⟨h.1, h.2.symm⟩

/-- The gates, in the vocabulary of the property. -/
structure Gates (ext : Externals) (a : CeremonyArgs) (t : Token) (skr : Response) : Prop where
  /-- the schema exists, the KSR was read, parsed, and passed every enabled policy check -/
  ksr_valid : ∃ actions req, a.actions = some actions ∧ a.ksr = some (.ok req) ∧
      validateRequest ext.verify a.now req a.requestPolicy = .ok ()
  /-- a configured previous SKR was read, parsed and passed its own validation -/
  prev_valid : ∀ r, a.prev = some r → ∃ last, r = .ok last ∧
      validateResponse ext.verify last a.responsePolicy = .ok ()
  /-- the chain checks that need no token passed -/
  chain_valid : ∀ last req, a.prev = some (.ok last) → a.ksr = some (.ok req) →
      checkUniqueRequest req last = .ok () ∧ checkUniqueBundleIds req last = .ok () ∧
      checkChainKeys req last a.requestPolicy = .ok () ∧
      checkChainOverlap req last a.requestPolicy = .ok ()
  /-- the operator confirmed with exactly "Yes", unless forced -/
  confirmed : a.force = true ∨ confirmed a.answer = true
  /-- the publish / retire checks on the new SKR passed -/
  safety_valid : ∀ last, a.prev = some (.ok last) →
      checkLastSkrAndNewSkr last skr a.requestPolicy = .ok ()
  /-- the SKR could be serialised (this is decided before the output file is opened) -/
  serialisable : skrSerialisable skr = .ok ()
  /-- the SKR is what `create_skr` returned against this very token: every requested signature came
      back and verified in software, every response bundle passed re-validation (C01 / C02 theorems
      apply to it) -/
  signed : ∃ actions req mods ts ts', a.actions = some actions ∧ a.ksr = some (.ok req) ∧
      createSkr ext mods (signerConfigOf a actions) req t ts = (.ok skr, ts')

theorem loadKsrGate_ok (v : Verifier) (now : Int) (req : Request) (pol : RequestPolicy)
    (h : loadKsrGate v now req pol = .ok ()) : validateRequest v now req pol = .ok () := by
  unfold loadKsrGate at h
  split at h
  · simp [err] at h
  · exact h

theorem loadSkrGate_ok (v : Verifier) (resp : Response) (pol : ResponsePolicy)
    (h : loadSkrGate v resp pol = .ok ()) : validateResponse v resp pol = .ok () := by
  unfold loadSkrGate at h
  split at h
  · simp [err] at h
  · exact h

theorem stagePrev_ok (ext : Externals) (a : CeremonyArgs) (o : Option Response)
    (h : stagePrev ext a = .ok o) :
    (a.prev = none ∧ o = none) ∨
    (∃ last, a.prev = some (.ok last) ∧ o = some last ∧
      validateResponse ext.verify last a.responsePolicy = .ok ()) := by
  unfold stagePrev at h
  split at h
  · left; rename_i hp; exact ⟨hp, by simpa using h.symm⟩
  · right
    rename_i r hp
    cases r with
    | error e => simp [bind, Except.bind] at h
    | ok last =>
      simp only [bind, Except.bind] at h
      cases hg : loadSkrGate ext.verify last a.responsePolicy with
      | error e => simp [hg] at h
      | ok u =>
        simp only [hg, pure, Except.pure, Except.ok.injEq] at h
        exact ⟨last, hp, h.symm, loadSkrGate_ok _ _ _ (by cases u; exact hg)⟩

theorem stageKsr_ok (ext : Externals) (a : CeremonyArgs) (r : Res Request) (req : Request)
    (h : stageKsr ext a r = .ok req) :
    r = .ok req ∧ validateRequest ext.verify a.now req a.requestPolicy = .ok () := by
  unfold stageKsr at h
  cases r with
  | error e => simp [bind, Except.bind] at h
  | ok q =>
    simp only [bind, Except.bind] at h
    cases hg : loadKsrGate ext.verify a.now q a.requestPolicy with
    | error e => simp [hg] at h
    | ok u =>
      simp only [hg, pure, Except.pure, Except.ok.injEq] at h
      subst h
      exact ⟨rfl, loadKsrGate_ok _ _ _ _ (by cases u; exact hg)⟩

theorem TokM_lift_bind_ok {α} (r : Res Unit) (m : TokM α) (t : Token) (s s' : TokState) (a : α)
    (h : (TokM.lift r >>= fun _ => m) t s = (.ok a, s')) : r = .ok () ∧ m t s = (.ok a, s') := by
  obtain ⟨u, s1, h1, h2⟩ := TokM.bind_ok _ _ _ _ _ _ h
  simp only [TokM.lift_run, Prod.mk.injEq] at h1
  obtain ⟨h1a, h1b⟩ := h1
  subst h1b
  exact ⟨by cases u; exact h1a, h2⟩

theorem stageChain_ok (a : CeremonyArgs) (req : Request) (last : Response) (mods : List P11Module)
    (t : Token) (s s' : TokState) (h : stageChain a req (some last) mods t s = (.ok (), s')) :
    checkUniqueRequest req last = .ok () ∧ checkUniqueBundleIds req last = .ok () ∧
    checkChainKeys req last a.requestPolicy = .ok () ∧
    checkChainOverlap req last a.requestPolicy = .ok () := by
  unfold stageChain at h
  simp only at h
  obtain ⟨h1, h⟩ := TokM_lift_bind_ok _ _ _ _ _ _ h
  obtain ⟨h2, h⟩ := TokM_lift_bind_ok _ _ _ _ _ _ h
  obtain ⟨h3, h⟩ := TokM_lift_bind_ok _ _ _ _ _ _ h
  obtain ⟨h4, _⟩ := TokM_lift_bind_ok _ _ _ _ _ _ h
  exact ⟨h1, h2, h3, h4⟩

/-- what a `some` result of the stages before signing implies -/
theorem preSign_some (ext : Externals) (a : CeremonyArgs) (t : Token) (s s' : CerState) (p : PreSign)
    (h : preSign ext a t s = (.ok (some p), s')) :
    a.actions = some p.actions ∧ a.ksr = some (.ok p.req) ∧
    validateRequest ext.verify a.now p.req a.requestPolicy = .ok () ∧
    stagePrev ext a = .ok p.skr ∧
    (∃ ts ts', stageChain a p.req p.skr p.mods t ts = (.ok (), ts')) ∧
    (a.force = true ∨ confirmed a.answer = true) := by
  unfold preSign at h
  have hact_cases : a.actions = none ∨ ∃ x, a.actions = some x := by cases a.actions <;> simp
  rcases hact_cases with hact | ⟨actions, hact⟩
  · simp [hact, pure] at h
  simp only [hact] at h
  obtain ⟨prevO, s1, hp0, h1⟩ := CerM.bind_ok _ _ _ _ _ _ h
  clear h
  obtain ⟨hp, rfl⟩ := lift_ok _ _ _ _ _ hp0
  clear hp0
  have hksr_cases : a.ksr = none ∨ ∃ x, a.ksr = some x := by cases a.ksr <;> simp
  rcases hksr_cases with hksr | ⟨r, hksr⟩
  · simp [hksr, pure] at h1
  simp only [hksr] at h1
  obtain ⟨req, s2, hk0, h2⟩ := CerM.bind_ok _ _ _ _ _ _ h1
  clear h1
  obtain ⟨hk, rfl⟩ := lift_ok _ _ _ _ _ hk0
  clear hk0
  obtain ⟨hr, hval⟩ := stageKsr_ok ext a r req hk
  subst hr
  obtain ⟨mods?, s3, _, h3⟩ := CerM.bind_ok _ _ _ _ _ _ h2
  clear h2
  cases mods? with
  | none => simp [pure] at h3
  | some mods =>
    simp only at h3
    obtain ⟨u, s4, hchain, h4⟩ := CerM.bind_ok _ _ _ _ _ _ h3
    clear h3
    obtain ⟨u2, s5, _, h5⟩ := CerM.bind_ok _ _ _ _ _ _ h4
    clear h4
    obtain ⟨go, s6, hgo, h6⟩ := CerM.bind_ok _ _ _ _ _ _ h5
    clear h5
    cases go with
    | false => simp [pure] at h6
    | true =>
      simp only [Bool.not_true, Bool.false_eq_true, ↓reduceIte, pure, Prod.mk.injEq, Except.ok.injEq,
        Option.some.injEq] at h6
      obtain ⟨rfl, _⟩ := h6
      have hconf : a.force = true ∨ confirmed a.answer = true := by
        unfold stageConfirm at hgo
        by_cases hf : a.force = true
        · left; exact hf
        · right
          simp only [hf, Bool.false_eq_true, ↓reduceIte] at hgo
          obtain ⟨_, _, _, hgo2⟩ := CerM.bind_ok _ _ _ _ _ _ hgo
          simp only [pure, Prod.mk.injEq, Except.ok.injEq] at hgo2
          exact hgo2.1
      refine ⟨hact, hksr, hval, hp, ?_, hconf⟩
      simp only [CerM.liftTok, Prod.mk.injEq] at hchain
      obtain ⟨hc1, hc2⟩ := hchain
      cases u
      exact ⟨s3.tok, _, Prod.ext hc1 rfl⟩

/-- **A write implies every gate.** For every token (every fault position and kind): if the core
    hands an SKR to the final write then the KSR passed validation, the previous SKR (if any) passed
    its validation and the chain checks, the operator confirmed (or the run was forced), and the
    publish / retire checks on the new SKR passed. -/
theorem core_some_implies_gates (ext : Externals) (a : CeremonyArgs) (t : Token) (s s' : CerState)
    (skr : Response) (h : ksrsignerCore ext a t s = (.ok (some skr), s')) : Gates ext a t skr := by
  unfold ksrsignerCore at h
  obtain ⟨x, s1, hpre, h1⟩ := CerM.bind_ok _ _ _ _ _ _ h
  clear h
  cases x with
  | none => simp [pure] at h1
  | some p =>
    simp only at h1
    obtain ⟨newSkr, s2, hsign, h2⟩ := CerM.bind_ok _ _ _ _ _ _ h1
    clear h1
    simp only [pure, Prod.mk.injEq, Except.ok.injEq, Option.some.injEq] at h2
    obtain ⟨rfl, _⟩ := h2
    obtain ⟨hact, hksr, hval, hp, ⟨ts, ts', hchain⟩, hconf⟩ := preSign_some ext a t s s1 p hpre
    unfold signStage at hsign
    obtain ⟨created, s3, hcreate, h3⟩ := CerM.bind_ok _ _ _ _ _ _ hsign
    obtain ⟨u3, s4, hpost0, h4⟩ := CerM.bind_ok _ _ _ _ _ _ h3
    obtain ⟨hpost, rfl⟩ := lift_ok _ _ _ _ _ hpost0
    obtain ⟨u4, s5, hser0, h5⟩ := CerM.bind_ok _ _ _ _ _ _ h4
    obtain ⟨hser, rfl⟩ := lift_ok _ _ _ _ _ hser0
    simp only [pure, Prod.mk.injEq, Except.ok.injEq] at h5
    obtain ⟨rfl, _⟩ := h5
    refine ⟨⟨p.actions, p.req, hact, hksr, hval⟩, ?_, ?_, hconf, ?_, by cases u4; exact hser, ?_⟩
    · intro r' hr'
      rcases stagePrev_ok ext a p.skr hp with ⟨hn, _⟩ | ⟨last, hl, _, hv⟩
      · rw [hn] at hr'; simp at hr'
      · rw [hl] at hr'
        simp only [Option.some.injEq] at hr'
        exact ⟨last, hr'.symm, hv⟩
    · intro last req' hl hk'
      rw [hksr] at hk'
      simp only [Option.some.injEq, Except.ok.injEq] at hk'
      subst hk'
      rcases stagePrev_ok ext a p.skr hp with ⟨hn, _⟩ | ⟨last', hl', ho, _⟩
      · rw [hn] at hl; simp at hl
      · rw [hl'] at hl
        simp only [Option.some.injEq, Except.ok.injEq] at hl
        subst hl
        rw [ho] at hchain
        exact stageChain_ok a p.req last' p.mods t ts ts' hchain
    · intro last hl
      rcases stagePrev_ok ext a p.skr hp with ⟨hn, _⟩ | ⟨last', hl', ho, _⟩
      · rw [hn] at hl; simp at hl
      · rw [hl'] at hl
        simp only [Option.some.injEq, Except.ok.injEq] at hl
        subst hl
        rw [ho] at hpost
        simpa [stagePost] using hpost
    · simp only [CerM.liftTok, Prod.mk.injEq] at hcreate
      obtain ⟨hc1, hc2⟩ := hcreate
      exact ⟨p.actions, p.req, p.mods, s1.tok, _, hact, hksr, Prod.ext hc1 rfl⟩

/-- **C03, main statement.** For every token oracle — i.e. whatever fault is injected at whatever
    position of the token-operation sequence — every verifier and hash function, every request,
    previous SKR, configuration and confirmation answer: if a write of an SKR is among the effects of
    a run that started with none, then the run returned `True`, it is the only write, and every gate
    held for the written SKR. -/
theorem write_only_if_gates (ext : Externals) (a : CeremonyArgs) (t : Token) (s : CerState)
    (hs : writes s = []) (hw : writes (ksrsigner ext a t s).2 ≠ []) :
    (ksrsigner ext a t s).1 = .ok true ∧
    ∃ skr, writes (ksrsigner ext a t s).2 = [.write skr] ∧ Gates ext a t skr := by
  by_cases hok : (ksrsigner ext a t s).1 = .ok true
  · obtain ⟨skr, s1, hc, hwr⟩ := success_writes_once ext a t s hok
    refine ⟨hok, skr, by rw [hwr, hs], core_some_implies_gates ext a t s s1 skr hc⟩
  · have := unsuccessful_writes_nothing ext a t s hok
    rw [this, hs] at hw
    exact absurd rfl hw

/-- **Fault anywhere** (the property's own quantifier, as a corollary): take any token `t` and
    corrupt it arbitrarily from position `p` on (`t'` agrees with `t` only below `p`); whatever `t'`
    answers, the run either ends unsuccessfully having written nothing, or every gate held. -/
theorem fault_anywhere (ext : Externals) (a : CeremonyArgs) (t' : Token) (s : CerState) (hs : writes s = []) :
    ((ksrsigner ext a t' s).1 ≠ .ok true ∧ writes (ksrsigner ext a t' s).2 = []) ∨
    ((ksrsigner ext a t' s).1 = .ok true ∧
      ∃ skr, writes (ksrsigner ext a t' s).2 = [.write skr] ∧ Gates ext a t' skr) := by
  by_cases hok : (ksrsigner ext a t' s).1 = .ok true
  · right
    obtain ⟨skr, s1, hc, hwr⟩ := success_writes_once ext a t' s hok
    exact ⟨hok, skr, by rw [hwr, hs], core_some_implies_gates ext a t' s s1 skr hc⟩
  · left
    exact ⟨hok, by rw [unsuccessful_writes_nothing ext a t' s hok, hs]⟩

/-! ## Failure before the signing stage: no private-key operation at all -/

/-- every token operation a ceremony computation issues satisfies `P` (whatever the outcome) -/
def CEmits {α} (P : TokOp → Prop) (m : CerM α) : Prop :=
  ∀ t s, ∃ l : List (TokOp × TokAns), (m t s).2.tok.log = l ++ s.tok.log ∧ ∀ e ∈ l, P e.1

theorem ce_pure {α} {P} (a : α) : CEmits P (pure a : CerM α) := fun _ _ => ⟨[], rfl, by simp⟩
theorem ce_lift {α} {P} (r : Res α) : CEmits P (CerM.lift r) := fun _ _ => ⟨[], rfl, by simp⟩
theorem ce_emit {P} (e : Event) : CEmits P (CerM.emit e) := fun _ _ => ⟨[], rfl, by simp⟩
theorem ce_liftTok {α} {P} (m : TokM α) (h : Emits P m) : CEmits P (CerM.liftTok m) := by
  intro t s
  obtain ⟨l, e, _, p⟩ := h t s.tok
  exact ⟨l, e, p⟩

theorem ce_bind {α β} {P} (m : CerM α) (f : α → CerM β) (hm : CEmits P m) (hf : ∀ a, CEmits P (f a)) :
    CEmits P (m >>= f) := by
  intro t s
  obtain ⟨l1, e1, p1⟩ := hm t s
  simp only [bind]
  cases hr : m t s with
  | mk r s1 =>
    rw [hr] at e1
    cases r with
    | error e => exact ⟨l1, e1, p1⟩
    | ok a =>
      obtain ⟨l2, e2, p2⟩ := hf a t s1
      refine ⟨l2 ++ l1, ?_, ?_⟩
      · simp only at e1 ⊢; rw [e2, e1, List.append_assoc]
      · intro e he
        rcases List.mem_append.mp he with h | h
        · exact p2 e h
        · exact p1 e h

theorem ce_catchAll {α} {P} (m : CerM α) (d : α) (hm : CEmits P m) : CEmits P (CerM.catchAll m d) := by
  intro t s
  obtain ⟨l, e, p⟩ := hm t s
  simp only [CerM.catchAll]
  cases hr : m t s with
  | mk r s1 =>
    rw [hr] at e
    cases r with
    | ok a => exact ⟨l, e, p⟩
    | error f => cases f <;> exact ⟨l, e, p⟩

/-- **The stages before signing never issue a `C_Sign`** — for every token, whatever they answer
    and however the stages end. -/
theorem preSign_no_sign (ext : Externals) (a : CeremonyArgs) : CEmits NotSign (preSign ext a) := by
  unfold preSign
  split
  · exact ce_pure _
  · refine ce_bind _ _ (ce_lift _) (fun skr => ?_)
    split
    · exact ce_pure _
    · refine ce_bind _ _ (ce_lift _) (fun req => ?_)
      refine ce_bind _ _ (ce_catchAll _ _ (ce_bind _ _ (ce_liftTok _ (initPkcs11Modules_emits _ _ _ _))
        (fun _ => ce_pure _))) (fun mods? => ?_)
      split
      · exact ce_pure _
      · refine ce_bind _ _ (ce_liftTok _ (stageChain_emits _ _ _ _)) (fun _ => ?_)
        refine ce_bind _ _ (ce_emit _) (fun _ => ?_)
        refine ce_bind _ _ ?_ (fun go => ?_)
        · unfold stageConfirm
          split
          · exact ce_pure _
          · exact ce_bind _ _ (ce_emit _) (fun _ => ce_pure _)
        · split <;> exact ce_pure _

/-- when the stages before signing do not hand over to the signing stage, the run ends right
    there: same outcome class, same final state -/
theorem ends_before_signing (ext : Externals) (a : CeremonyArgs) (t : Token) (s : CerState)
    (h : ∀ p, (preSign ext a t s).1 ≠ .ok (some p)) :
    (ksrsigner ext a t s).2 = (preSign ext a t s).2 ∧ (ksrsigner ext a t s).1 ≠ .ok true := by
  unfold ksrsigner ksrsignerCore
  simp only [bind]
  cases hp : preSign ext a t s with
  | mk r s1 =>
    cases r with
    | error e => simp
    | ok o =>
      cases o with
      | none => simp [pure]
      | some p => exact absurd (by rw [hp]) (h p)

/-- **C03, early failure.** For every token: if the failure precedes the signing stage — unknown
    schema, unreadable or invalid previous SKR, missing / unparsable / invalid KSR, token
    initialisation failure, failed chain check, declined confirmation — then no private-key
    operation was performed at all: no `C_Sign` is among the token operations of the run. -/
theorem early_failure_no_private_op (ext : Externals) (a : CeremonyArgs) (t : Token) (s : CerState)
    (h : ∀ p, (preSign ext a t s).1 ≠ .ok (some p)) :
    ∃ l : List (TokOp × TokAns), (ksrsigner ext a t s).2.tok.log = l ++ s.tok.log ∧
      ∀ e ∈ l, isSignOp e.1 = false := by
  rw [(ends_before_signing ext a t s h).1]
  exact preSign_no_sign ext a t s

/-- what "the failure precedes the signing stage" means, gate by gate: each of these makes
    `preSign` end without handing over -/
theorem early_failures (ext : Externals) (a : CeremonyArgs) (t : Token) (s : CerState)
    (h : a.actions = none ∨ a.ksr = none ∨ (∃ e, a.ksr = some (.error e)) ∨
      (∃ req, a.ksr = some (.ok req) ∧ validateRequest ext.verify a.now req a.requestPolicy ≠ .ok ()) ∨
      (∃ e, stagePrev ext a = .error e) ∨ (a.force = false ∧ confirmed a.answer = false)) :
    ∀ p, (preSign ext a t s).1 ≠ .ok (some p) := by
  intro p hp
  have hfull : preSign ext a t s = (.ok (some p), (preSign ext a t s).2) := Prod.ext hp rfl
  obtain ⟨hact, hksr, hval, hprev, _, hconf⟩ := preSign_some ext a t s _ p hfull
  rcases h with h | h | ⟨e, h⟩ | ⟨req, h, hv⟩ | ⟨e, h⟩ | ⟨hf, hc⟩
  · rw [h] at hact; simp at hact
  · rw [h] at hksr; simp at hksr
  · rw [h] at hksr; simp at hksr
  · rw [h] at hksr
    simp only [Option.some.injEq, Except.ok.injEq] at hksr
    subst hksr; exact hv hval
  · rw [h] at hprev; simp at hprev
  · rcases hconf with hc' | hc'
    · rw [hf] at hc'; simp at hc'
    · rw [hc] at hc'; simp at hc'

/-! ## The confirmation is exact; exit statuses -/

/-- **The confirmation is exact.** Only answers equal to "Yes" after stripping leading and trailing
    newline characters are accepted. -/
theorem confirmation_exact (answer : String) :
    confirmed answer = true ↔
      String.ofList ((answer.toList.dropWhile (· = '\n')).reverse.dropWhile (· = '\n')).reverse = "Yes" := by
  simp only [confirmed, stripNewlines]
  exact decide_eq_true_iff

/-- a declined (and not forced) confirmation makes the run return False -/
theorem declined_returns_false (a : CeremonyArgs) (t : Token) (s : CerState)
    (hf : a.force = false) (hc : confirmed a.answer = false) :
    (stageConfirm a t s).1 = .ok false := by
  simp [stageConfirm, hf, bind, CerM.emit, pure, hc]

/-- **Exit status.** Only a run that returned `True` exits 0; a returned `False` is 3, a
    configuration error 2, any other exception 1. -/
theorem exit_zero_iff (r : Res Bool) : exitStatus r = 0 ↔ r = .ok true := by
  unfold exitStatus
  split <;> simp_all

theorem exit_config (r : Res Bool) (h : r = .error (.error .configuration)) : exitStatus r = 2 := by
  subst h; rfl

/-! ## Non-vacuity -/

example : confirmed "Yes" = true ∧ confirmed "Yes\n" = true ∧ confirmed "\nYes\n\n" = true := by decide
example : confirmed "yes" = false ∧ confirmed "YES" = false ∧ confirmed "Yes " = false ∧
    confirmed " Yes" = false ∧ confirmed "" = false ∧ confirmed "Yes\r" = false ∧ confirmed "Y" = false := by
  decide

end Kskm.C03
