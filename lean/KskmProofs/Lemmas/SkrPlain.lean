/-
  The tree the writer renders is PlainXml (composition of C11 with C12, step 2).

  `PlainX` states plainness in the writer's vocabulary (`XTree`); `plainT_toP` carries it over to the
  layout tree `toP pre t` of KskmProofs/Lemmas/SkrLayout.lean under the character classes of the running
  Python (`pyClasses`, regenerated tables); `treeOf_plain` shows that on the writer's domain the tree
  `treeOf r` is plain and at most five levels deep — the domain of `C12_reader_partial`.

  What is needed of the response's strings is exactly `TextSafe`:
    * attribute values copied from the KSR / the configuration (`KSR@id`, `KSR@domain`,
      `ResponseBundle@id`, `Key@keyIdentifier`, `Signature@keyIdentifier`): not empty, no `"` `<` `>` `&`,
      no control character (in particular no line break);
    * element text copied from the configuration (`SignersName`) or produced by the base64 encoder
      (`PublicKey`, `SignatureData`): no markup character and `strip()`-stable.
  Everything else in the file is printed by the writer's own codecs and is ink
  (KskmProofs/Lemmas/SkrInk.lean) for every value.  `WriterDomain` contains `TextSafe`
  (`textSafe_of_domain`); canonical base64 needs no hypothesis at all (`textSafe_of_ids`).
-/
import KskmProofs.Lemmas.SkrInk
import KskmProofs.Lemmas.SkrLayout
import KskmProofs.Lemmas.XmlReader
namespace Kskm.ReadBack
open Kskm Kskm.Xml

/-! ### `str.strip()` of the running Python is `str.isspace()` as the writer model has it -/

theorem pyStrip_eq (c : Char) : pyClasses.isStrip c = pyIsSpace c := by
  simp only [pyClasses, inRanges, KskmGen.stripRanges, List.any, pyIsSpace]
  rw [Bool.eq_iff_iff]
  simp only [Bool.or_eq_true, Bool.and_eq_true, decide_eq_true_eq, Bool.or_false]
  omega

theorem strip_eq_self (p : Char → Bool) (s : List Char) (hh : ∀ c, s.head? = some c → p c = false)
    (hl : ∀ c, s.getLast? = some c → p c = false) : Xml.strip p s = s := by
  cases s with
  | nil => simp [Xml.strip, Xml.lstrip, Xml.rstrip]
  | cons c t =>
    obtain ⟨d, hd⟩ : ∃ d, (c :: t).getLast? = some d :=
      ⟨(c :: t).getLast (by simp), List.getLast?_eq_some_getLast (by simp)⟩
    have he : EndsWith d (c :: t) := List.getLast?_eq_some_iff.mp hd
    exact strip_self p c d t (hh c rfl) (hl d hd) he

/-! ### the string hypotheses -/

/-- an attribute value the reader returns unchanged -/
theorem plainAttr_of_ok {n : String} (hn : PlainName pyClasses n.toList) (v : String) (h : attrTextOk v = true) :
    PlainAttr pyClasses (n.toList, v.toList) := by
  simp only [attrTextOk, Bool.and_eq_true, Bool.not_eq_true', List.isEmpty_eq_false_iff] at h
  refine ⟨hn, h.1, ?_⟩
  intro c hc
  have := List.all_eq_true.mp h.2 c hc
  simp only [plainChar, Bool.and_eq_true, bne_iff_ne, ne_eq, decide_eq_true_eq] at this
  refine ⟨this.1.1.1.1.1.1.1, ?_, this.1.1.1.1.1.1.2, this.1.1.1.1.1.2⟩
  intro e
  subst e
  have := this.1.1.1.2
  revert this; decide

/-- an element text the reader returns unchanged -/
theorem plainText_of_ok (s : String) (h : elemTextOk s = true) : PlainText pyClasses s.toList := by
  simp only [elemTextOk, Bool.and_eq_true, Bool.not_eq_true'] at h
  constructor
  · intro hc
    have := List.all_eq_true.mp h.1.1 _ hc
    revert this; decide
  · apply strip_eq_self
    · intro c hc
      rw [pyStrip_eq]
      simpa [hc] using h.1.2
    · intro c hc
      rw [pyStrip_eq]
      simpa [hc] using h.2

theorem plainText_of_ink (s : String) (h : Ink s.toList) : PlainText pyClasses s.toList :=
  plainText_of_ok s (elemTextOk_of_ink s h)

theorem plainAttr_of_ink {n : String} (hn : PlainName pyClasses n.toList) (v : String) (h : Ink v.toList)
    (hne : v.toList ≠ []) : PlainAttr pyClasses (n.toList, v.toList) :=
  plainAttr_of_ok hn v (by
    simp only [attrTextOk, Bool.and_eq_true, Bool.not_eq_true', List.isEmpty_eq_false_iff]
    exact ⟨hne, ink_plain h⟩)

/-- **TextSafe** — the hypotheses on the strings of a response that the composition needs: every
    string the signer copies into the file rather than printing it with one of its own codecs. -/
def textSafe (r : Response) : Bool :=
  attrTextOk r.id && attrTextOk r.domain &&
    r.bundles.all (fun b =>
      attrTextOk b.id
        && b.keys.all (fun k => attrTextOk k.keyIdentifier && elemTextOk k.publicKey)
        && b.signatures.all (fun s => attrTextOk s.keyIdentifier && elemTextOk s.signersName
            && elemTextOk s.signatureData))

def TextSafe (r : Response) : Prop := textSafe r = true

instance (r : Response) : Decidable (TextSafe r) := by unfold TextSafe; infer_instance

/-- the writer's domain contains it -/
theorem textSafe_of_domain (r : Response) (h : WriterDomain r) : TextSafe r := by
  have hp := domain_parts r h
  simp only [TextSafe, textSafe, Bool.and_eq_true, List.all_eq_true]
  refine ⟨⟨hp.id, hp.domain⟩, ?_⟩
  intro b hb
  have bp := bundleOk_parts b (hp.bundles b hb)
  refine ⟨⟨bp.id, ?_⟩, ?_⟩
  · intro k hk
    have kp := keyOk_parts k (bp.keys k hk)
    exact ⟨kp.id, kp.pk⟩
  · intro s hs
    have sp := sigOk_parts s (bp.sigs s hs)
    exact ⟨⟨sp.id, sp.name⟩, sp.data⟩

/-- the part that is a genuine hypothesis: identifiers, domain, signer's name (copied from the KSR and
    the configuration) -/
def idsSafe (r : Response) : Bool :=
  attrTextOk r.id && attrTextOk r.domain &&
    r.bundles.all (fun b =>
      attrTextOk b.id && b.keys.all (fun k => attrTextOk k.keyIdentifier)
        && b.signatures.all (fun s => attrTextOk s.keyIdentifier && elemTextOk s.signersName))

/-- … the base64 texts need none: whatever decodes canonically is safe (and `Base64.encode` always is,
    `ink_encode`) -/
theorem textSafe_of_ids (r : Response) (h : idsSafe r = true)
    (hk : ∀ b ∈ r.bundles, ∀ k ∈ b.keys, (Base64.decode k.publicKey).isSome = true)
    (hs : ∀ b ∈ r.bundles, ∀ s ∈ b.signatures, (Base64.decode s.signatureData).isSome = true) : TextSafe r := by
  simp only [idsSafe, Bool.and_eq_true, List.all_eq_true] at h
  simp only [TextSafe, textSafe, Bool.and_eq_true, List.all_eq_true]
  refine ⟨h.1, ?_⟩
  intro b hb
  obtain ⟨⟨h1, h2⟩, h3⟩ := h.2 b hb
  refine ⟨⟨h1, ?_⟩, ?_⟩
  · intro k hk'
    exact ⟨h2 k hk', elemTextOk_of_ink _ (ink_of_base64 _ (hk b hb k hk'))⟩
  · intro s hs'
    exact ⟨h3 s hs', elemTextOk_of_ink _ (ink_of_base64 _ (hs b hb s hs'))⟩

/-! ### plainness in the writer's vocabulary -/

mutual
/-- `m` is the name of some element of the subtree -/
def occursX (m : String) : XTree → Prop
  | .node n _ cs => n = m ∨ occursXL m cs
  | .leaf n _ _ => n = m
  | .empty n _ => n = m
def occursXL (m : String) : List XTree → Prop
  | [] => False
  | t :: ts => occursX m t ∨ occursXL m ts
end

def attrsPlain (a : List (String × String)) : Prop := ∀ p ∈ a, PlainAttr pyClasses (p.1.toList, p.2.toList)

mutual
/-- PlainXml, for the writer's trees: plain names, attributes and texts; an empty element has
    attributes; a node has children, none of which (at any depth) carries the node's own name -/
def PlainX : XTree → Prop
  | .node n a cs => PlainName pyClasses n.toList ∧ attrsPlain a ∧ cs ≠ [] ∧ PlainXL cs ∧ ¬ occursXL n cs
  | .leaf n a t => PlainName pyClasses n.toList ∧ attrsPlain a ∧ PlainText pyClasses t.toList
  | .empty n a => PlainName pyClasses n.toList ∧ attrsPlain a ∧ a ≠ []
def PlainXL : List XTree → Prop
  | [] => True
  | t :: ts => PlainX t ∧ PlainXL ts
end

mutual
def heightX : XTree → Nat
  | .node _ _ cs => 1 + heightXL cs
  | .leaf _ _ _ => 0
  | .empty _ _ => 0
def heightXL : List XTree → Nat
  | [] => 0
  | t :: ts => max (heightX t) (heightXL ts)
end

/-- indentation: blanks only -/
def Blank (pre : List Char) : Prop := ∀ c ∈ pre, c = ' '

theorem Blank.sp4 {pre : List Char} (h : Blank pre) : Blank (pre ++ sp4) := by
  intro c hc
  rcases List.mem_append.mp hc with h' | h'
  · exact h c h'
  · have : ∀ c ∈ Kskm.sp4, c = ' ' := by decide
    exact this c h'

theorem Blank.nil : Blank [] := fun _ h => by simp at h

theorem strip_blank : pyClasses.isStrip ' ' = true ∧ pyClasses.isStrip '\n' = true := by
  constructor <;> (rw [pyStrip_eq]; decide)

theorem ws_nl_blank (pre : List Char) (h : Blank pre) : Ws pyClasses ('\n' :: pre) := by
  intro c hc
  rcases List.mem_cons.mp hc with rfl | h'
  · exact strip_blank.2
  · rw [h c h']; exact strip_blank.1

theorem attrsP_plain (a : List (String × String)) (h : attrsPlain a) : ∀ q ∈ attrsP a, PlainAttr pyClasses q := by
  intro q hq
  obtain ⟨p, hp, rfl⟩ := List.mem_map.mp hq
  exact h p hp

theorem gap_nil (a : Attrs) : Gap pyClasses a [] :=
  ⟨fun _ h => by simp at h, fun _ => rfl⟩

mutual
theorem occursT_toP : ∀ (t : XTree) (pre : List Char) (m : String), occursT m.toList (toP pre t) → occursX m t
  | .leaf n a t, pre, m, h => by
    simp only [toP, occursT] at h
    exact String.toList_injective h
  | .empty n a, pre, m, h => by
    simp only [toP, occursT] at h
    exact String.toList_injective h
  | .node n a [], pre, m, h => by
    simp only [toP, occursT] at h
    exact Or.inl (String.toList_injective h)
  | .node n a (c :: cs), pre, m, h => by
    simp only [toP, occursT] at h
    rcases h with h | h | h
    · exact Or.inl (String.toList_injective h)
    · exact Or.inr (Or.inl (occursT_toP c _ m h))
    · exact Or.inr (Or.inr (occursF_toPF cs _ m h))
theorem occursF_toPF : ∀ (ts : List XTree) (pre : List Char) (m : String), occursF m.toList (toPF pre ts) → occursXL m ts
  | [], pre, m, h => by simp only [toPF, occursF] at h
  | t :: ts, pre, m, h => by
    simp only [toPF, occursF] at h
    rcases h with h | h
    · exact Or.inl (occursT_toP t _ m h)
    · exact Or.inr (occursF_toPF ts _ m h)
end

mutual
/-- a plain tree, laid out by the writer, is PlainXml in the sense of C12 -/
theorem plainT_toP : ∀ (t : XTree) (pre : List Char), Blank pre → PlainX t → PlainT pyClasses (toP pre t)
  | .leaf n a t, pre, _, h => by
    simp only [toP, PlainT]
    exact ⟨h.1, attrsP_plain a h.2.1, gap_nil _, h.2.2⟩
  | .empty n a, pre, _, h => by
    simp only [toP, PlainT]
    refine ⟨h.1, attrsP_plain a h.2.1, gap_nil _, ?_⟩
    intro e
    exact h.2.2 (by simpa [attrsP] using e)
  | .node n a [], pre, _, h => absurd rfl h.2.2.1
  | .node n a (c :: cs), pre, hb, h => by
    simp only [toP, PlainT]
    obtain ⟨hn, ha, _, hl, ho⟩ := h
    refine ⟨hn, attrsP_plain a ha, gap_nil _, ws_nl_blank _ hb.sp4, ws_nl_blank _ hb,
      plainT_toP c _ hb.sp4 hl.1, plainF_toPF cs _ hb.sp4 hl.2, ?_, ?_⟩
    · intro ho'; exact ho (Or.inl (occursT_toP c _ n ho'))
    · intro ho'; exact ho (Or.inr (occursF_toPF cs _ n ho'))
theorem plainF_toPF : ∀ (ts : List XTree) (pre : List Char), Blank pre → PlainXL ts → PlainF pyClasses (toPF pre ts)
  | [], pre, _, _ => by simp only [toPF, PlainF]
  | t :: ts, pre, hb, h => by
    simp only [toPF, PlainF]
    exact ⟨ws_nl_blank _ hb, plainT_toP t _ hb h.1, plainF_toPF ts _ hb h.2⟩
end

mutual
theorem heightT_toP : ∀ (t : XTree) (pre : List Char), heightT (toP pre t) ≤ heightX t
  | .leaf n a t, pre => by simp [toP, heightT]
  | .empty n a, pre => by simp [toP, heightT]
  | .node n a [], pre => by simp [toP, heightT]
  | .node n a (c :: cs), pre => by
    have h1 := heightT_toP c (pre ++ sp4)
    have h2 := heightF_toPF cs (pre ++ sp4)
    simp only [toP, heightT, heightX, heightXL]
    omega
theorem heightF_toPF : ∀ (ts : List XTree) (pre : List Char), heightF (toPF pre ts) ≤ heightXL ts
  | [], pre => by simp [toPF, heightF]
  | t :: ts, pre => by
    have h1 := heightT_toP t pre
    have h2 := heightF_toPF ts pre
    simp only [toPF, heightF, heightXL]
    omega
end

/-! ### lists of children -/

theorem plainXL_append (a b : List XTree) : PlainXL (a ++ b) ↔ PlainXL a ∧ PlainXL b := by
  induction a with
  | nil => simp [PlainXL]
  | cons t ts ih => simp [PlainXL, ih, and_assoc]

theorem plainXL_map {α} (f : α → XTree) (l : List α) (h : ∀ x ∈ l, PlainX (f x)) : PlainXL (l.map f) := by
  induction l with
  | nil => simp [PlainXL]
  | cons x t ih => exact ⟨h x (by simp), ih (fun y hy => h y (by simp [hy]))⟩

theorem occursXL_append (m : String) (a b : List XTree) : occursXL m (a ++ b) ↔ occursXL m a ∨ occursXL m b := by
  induction a with
  | nil => simp [occursXL]
  | cons t ts ih => simp [occursXL, ih, or_assoc]

theorem not_occursXL_map {α} (m : String) (f : α → XTree) (l : List α) (h : ∀ x ∈ l, ¬ occursX m (f x)) :
    ¬ occursXL m (l.map f) := by
  induction l with
  | nil => simp [occursXL]
  | cons x t ih =>
    simp only [List.map_cons, occursXL, not_or]
    exact ⟨h x (by simp), ih (fun y hy => h y (by simp [hy]))⟩

theorem heightXL_append (a b : List XTree) : heightXL (a ++ b) = max (heightXL a) (heightXL b) := by
  induction a with
  | nil => simp [heightXL]
  | cons t ts ih => simp only [List.cons_append, heightXL, ih]; omega

theorem heightXL_map_le {α} (f : α → XTree) (l : List α) (k : Nat) (h : ∀ x ∈ l, heightX (f x) ≤ k) :
    heightXL (l.map f) ≤ k := by
  induction l with
  | nil => simp [heightXL]
  | cons x t ih =>
    have h1 := h x (by simp)
    have h2 := ih (fun y hy => h y (by simp [hy]))
    simp only [List.map_cons, heightXL]
    omega

/-! ### the element names of an SKR are word characters for the running Python -/

def skrNames : List String :=
  ["KSR", "Response", "ResponsePolicy", "KSK", "ZSK", "PublishSafety", "RetireSafety", "MaxSignatureValidity",
   "MinSignatureValidity", "MaxValidityOverlap", "MinValidityOverlap", "SignatureAlgorithm", "RSA",
   "ResponseBundle", "Inception", "Expiration", "Key", "TTL", "Flags", "Protocol", "Algorithm", "PublicKey",
   "Signature", "TypeCovered", "Labels", "OriginalTTL", "SignatureExpiration", "SignatureInception", "KeyTag",
   "SignersName", "SignatureData",
   -- attribute names
   "id", "domain", "serial", "algorithm", "size", "exponent", "keyIdentifier", "keyTag"]

theorem skrNames_plain : ∀ n ∈ skrNames, PlainName pyClasses n.toList := by
  unfold PlainName
  decide +kernel

/-- `pn "Key"` : the literal name is plain -/
theorem pn (n : String) (h : n ∈ skrNames := by decide) : PlainName pyClasses n.toList := skrNames_plain n h

end Kskm.ReadBack
