/-
  Helper lemmas for the ISO week-date theorems of KskmProofs/C11.lean (work package B2):
  arithmetic of `Kskm.TimeWeek` on day numbers, and the year starts of `Kskm.Time.daysOfCivil`.
-/
import Kskm.TimeIsoCal
import KskmProofs.Lemmas.C11Time
import KskmProofs.Lemmas.C11Datetime
namespace Kskm.C11Week
open Kskm

/-! ### week arithmetic on day numbers -/

theorem weekday_range (z : Int) : 0 ≤ weekdayOfDays z ∧ weekdayOfDays z ≤ 6 := by
  unfold weekdayOfDays; omega

/-- `iso_week1_monday` is a Monday, and the week that starts there contains 4 January (`jan1 + 3`) -/
theorem week1Monday_spec (jan1 : Int) :
    weekdayOfDays (isoWeek1Monday jan1) = 0 ∧ isoWeek1Monday jan1 ≤ jan1 + 3 ∧ jan1 + 3 < isoWeek1Monday jan1 + 7 := by
  unfold isoWeek1Monday weekdayOfDays
  simp only []
  split <;> omega

/-- equivalently: it is the first Monday whose week has at least four days in the year -/
theorem week1Monday_fourDays (jan1 : Int) :
    jan1 - 3 ≤ isoWeek1Monday jan1 ∧ isoWeek1Monday jan1 ≤ jan1 + 3 := by
  have := week1Monday_spec jan1
  omega

def yearLen (leap : Bool) : Int := if leap then 366 else 365

/-- consecutive ISO years are 52 or 53 weeks apart: 53 exactly under the rule of `hasWeek53` -/
theorem week1Monday_next (jan1 : Int) (leap : Bool) :
    isoWeek1Monday (jan1 + yearLen leap) = isoWeek1Monday jan1 + (if hasWeek53 jan1 leap then 371 else 364) := by
  unfold isoWeek1Monday hasWeek53 weekdayOfDays yearLen
  cases leap <;> simp only [] <;> (repeat' split) <;> simp_all <;> omega

theorem isoWeekDayNumber_some (jan1 : Int) (leap : Bool) (w d : Nat) (z : Int)
    (h : isoWeekDayNumber jan1 leap w d = some z) :
    1 ≤ w ∧ (w ≤ 52 ∨ (w = 53 ∧ hasWeek53 jan1 leap = true)) ∧ 1 ≤ d ∧ d ≤ 7 ∧
      z = isoWeek1Monday jan1 + ((w : Int) - 1) * 7 + ((d : Int) - 1) := by
  cases hh : hasWeek53 jan1 leap <;> simp [isoWeekDayNumber, hh] at h ⊢ <;> omega

/-- the date of (week, day) is the `day`-th day of its week … -/
theorem isoWeekDayNumber_weekday (jan1 : Int) (leap : Bool) (w d : Nat) (z : Int)
    (h : isoWeekDayNumber jan1 leap w d = some z) : weekdayOfDays z = (d : Int) - 1 := by
  obtain ⟨_, _, h3, h4, rfl⟩ := isoWeekDayNumber_some jan1 leap w d z h
  have := (week1Monday_spec jan1).1
  unfold weekdayOfDays at this ⊢
  omega

/-- … and lies within three days of the civil year: never before 29 December of the year before, never
    after 3 January of the year after -/
theorem isoWeekDayNumber_near_year (jan1 : Int) (leap : Bool) (w d : Nat) (z : Int)
    (h : isoWeekDayNumber jan1 leap w d = some z) : jan1 - 3 ≤ z ∧ z ≤ jan1 + yearLen leap + 2 := by
  obtain ⟨h1, h2, h3, h4, rfl⟩ := isoWeekDayNumber_some jan1 leap w d z h
  have hn := week1Monday_next jan1 leap
  have hs := week1Monday_fourDays jan1
  have hs' := week1Monday_fourDays (jan1 + yearLen leap)
  rcases h2 with h2 | ⟨h2, h53⟩
  · split at hn <;> omega
  · simp only [h53, if_true] at hn
    omega

/-- `isocalendar` undoes `iso_to_ymd` (on day numbers; the civil year of the date is the ISO year, the
    year before — offset `+1` back to it — or the year after — offset `-1`). -/
theorem isoCalendarRel_roundtrip (jan1 : Int) (leap leapPrev leapNext : Bool) (w d : Nat) (z : Int)
    (h : isoWeekDayNumber jan1 leap w d = some z) :
    (jan1 ≤ z → z < jan1 + yearLen leap →
      isoCalendarRel (jan1 - yearLen leapPrev) jan1 (jan1 + yearLen leap) z = (0, (w : Int), (d : Int))) ∧
    (z < jan1 → ∀ jpp, isoCalendarRel jpp (jan1 - yearLen leapPrev) jan1 z = (1, (w : Int), (d : Int))) ∧
    (jan1 + yearLen leap ≤ z →
      isoCalendarRel jan1 (jan1 + yearLen leap) (jan1 + yearLen leap + yearLen leapNext) z = (-1, (w : Int), (d : Int))) := by
  obtain ⟨h1, h2, h3, h4, rfl⟩ := isoWeekDayNumber_some jan1 leap w d z h
  have hn := week1Monday_next jan1 leap
  have hs := week1Monday_fourDays jan1
  have hsn := week1Monday_fourDays (jan1 + yearLen leap)
  have hsp := week1Monday_fourDays (jan1 - yearLen leapPrev)
  have hm := (week1Monday_spec jan1).1
  refine ⟨?_, ?_, ?_⟩
  · intro _ _
    unfold isoCalendarRel
    simp only []
    have e1 : (isoWeek1Monday jan1 + ((w : Int) - 1) * 7 + ((d : Int) - 1) - isoWeek1Monday jan1) / 7 = (w : Int) - 1 := by omega
    have e2 : (isoWeek1Monday jan1 + ((w : Int) - 1) * 7 + ((d : Int) - 1) - isoWeek1Monday jan1) % 7 = (d : Int) - 1 := by omega
    rw [e1, e2]
    have hw0 : ¬ ((w : Int) - 1 < 0) := by omega
    rw [if_neg hw0]
    have : ¬ ((decide ((w : Int) - 1 ≥ 52) && decide (isoWeek1Monday jan1 + ((w : Int) - 1) * 7 + ((d : Int) - 1) ≥ isoWeek1Monday (jan1 + yearLen leap))) = true) := by
      simp only [Bool.and_eq_true, decide_eq_true_eq, not_and]
      intro hw
      rcases h2 with h2 | ⟨h2, h53⟩
      · omega
      · simp only [h53, if_true] at hn
        omega
    rw [if_neg this]
    simp only [Prod.mk.injEq, true_and]
    omega
  · intro hz jpp
    unfold isoCalendarRel
    simp only []
    -- the date lies before 1 January of the ISO year: its civil year is the year before, whose week 1 is long past
    have hlen : yearLen leapPrev = 365 ∨ yearLen leapPrev = 366 := by unfold yearLen; split <;> simp
    have hnp := week1Monday_next (jan1 - yearLen leapPrev) leapPrev
    have hcancel : jan1 - yearLen leapPrev + yearLen leapPrev = jan1 := by omega
    rw [hcancel] at hnp
    have hmp := (week1Monday_spec (jan1 - yearLen leapPrev)).1
    unfold weekdayOfDays at hm hmp
    have hge : ¬ ((isoWeek1Monday jan1 + ((w : Int) - 1) * 7 + ((d : Int) - 1) - isoWeek1Monday (jan1 - yearLen leapPrev)) / 7 < 0) := by omega
    rw [if_neg hge]
    have h52 : (decide ((isoWeek1Monday jan1 + ((w : Int) - 1) * 7 + ((d : Int) - 1) - isoWeek1Monday (jan1 - yearLen leapPrev)) / 7 ≥ 52)
        && decide (isoWeek1Monday jan1 + ((w : Int) - 1) * 7 + ((d : Int) - 1) ≥ isoWeek1Monday jan1)) = true := by
      simp only [Bool.and_eq_true, decide_eq_true_eq]
      omega
    rw [if_pos h52]
    simp only [Prod.mk.injEq, true_and]
    omega
  · intro hz
    unfold isoCalendarRel
    simp only []
    have hlt : (isoWeek1Monday jan1 + ((w : Int) - 1) * 7 + ((d : Int) - 1) - isoWeek1Monday (jan1 + yearLen leap)) / 7 < 0 := by
      rcases h2 with h2 | ⟨h2, h53⟩
      · split at hn <;> omega
      · simp only [h53, if_true] at hn
        omega
    rw [if_pos hlt]
    simp only [Prod.mk.injEq, true_and]
    omega

/-! ### year starts of the civil calendar -/

theorem jan4_eq (y : Int) : daysOfCivil { year := y, month := 1, day := 4 } = jan1Of y + 3 := by
  unfold jan1Of daysOfCivil
  simp only []
  omega

theorem jan1Of_formula (y : Int) :
    jan1Of y = 365 * (y - 1) + (y - 1) / 4 - (y - 1) / 100 + (y - 1) / 400 - 719162 := by
  unfold jan1Of daysOfCivil
  simp only []
  omega

theorem jan1Of_succ (y : Int) : jan1Of (y + 1) = jan1Of y + yearLen (isLeap y) := by
  rw [jan1Of_formula, jan1Of_formula]
  unfold yearLen isLeap
  split <;> simp_all <;> omega

theorem jan1Of_pred (y : Int) : jan1Of (y - 1) = jan1Of y - yearLen (isLeap (y - 1)) := by
  have := jan1Of_succ (y - 1)
  rw [show y - 1 + 1 = y by omega] at this
  omega

/-- a valid date lies in its year -/
theorem year_bounds (c : Civil) (hv : c.valid = true) :
    jan1Of c.year ≤ daysOfCivil c ∧ daysOfCivil c < jan1Of (c.year + 1) := by
  rw [jan1Of_formula, jan1Of_formula]
  obtain ⟨y, m, d⟩ := c
  simp only [Civil.valid, Bool.and_eq_true, decide_eq_true_eq] at hv
  obtain ⟨⟨⟨h1, h2⟩, h3⟩, h4⟩ := hv
  have hm : m = 1 ∨ m = 2 ∨ m = 3 ∨ m = 4 ∨ m = 5 ∨ m = 6 ∨ m = 7 ∨ m = 8 ∨ m = 9 ∨ m = 10 ∨ m = 11 ∨ m = 12 := by omega
  unfold daysOfCivil
  rcases hm with rfl | rfl | rfl | rfl | rfl | rfl | rfl | rfl | rfl | rfl | rfl | rfl <;>
    simp [daysInMonth, isLeap] at h4 ⊢ <;> (try split at h4) <;> omega

theorem jan1Of_mono (a b : Int) (h : a ≤ b) : jan1Of a ≤ jan1Of b := by
  rw [jan1Of_formula, jan1Of_formula]
  omega

/-- … and in no other: the year of a day number is determined by the year starts -/
theorem year_unique (a b z : Int) (h1 : jan1Of a ≤ z) (h2 : z < jan1Of (a + 1)) (h3 : jan1Of b ≤ z)
    (h4 : z < jan1Of (b + 1)) : a = b := by
  by_cases hab : a < b
  · have := jan1Of_mono (a + 1) b (by omega); omega
  · by_cases hba : b < a
    · have := jan1Of_mono (b + 1) a (by omega); omega
    · omega

/-! ### the reader on week-date text -/

theorem utf8OfChars_ascii (cs : List Char) (h : ∀ c ∈ cs, c.toNat < 128) : utf8OfChars cs = cs := by
  induction cs with
  | nil => rfl
  | cons a t ih =>
    have ha : a.toNat < 128 := h a (by simp)
    have : utf8Octets a = [a] := by unfold utf8Octets; simp [ha]
    unfold utf8OfChars at ih ⊢
    simp only [List.flatMap_cons, this, List.singleton_append]
    rw [ih (fun c hc => h c (by simp [hc]))]

theorem isoToCivil_valid (y : Int) (w d : Nat) (c : Civil) (h : isoToCivil y w d = some c) : c.valid = true := by
  unfold isoToCivil at h
  cases hz : isoWeekDayNumber (daysOfCivil { year := y, month := 1, day := 1 }) (isLeap y) w d with
  | none => simp [hz] at h
  | some z =>
    simp only [hz, Option.map_some, Option.some.injEq] at h
    subst h
    exact civilOfDays_valid z

/-- the reader on the extended week-date layout `YYYY-Www-d`, digits abstract -/
theorem fromIso_week_chars (y3 y2 y1 y0 w1 w0 d0 : Char)
    (hy3 : y3.isDigit = true) (hy2 : y2.isDigit = true) (hy1 : y1.isDigit = true) (hy0 : y0.isDigit = true)
    (hw1 : w1.isDigit = true) (hw0 : w0.isDigit = true) (hd0 : d0.isDigit = true) :
    fromIsoChars [y3, y2, y1, y0, '-', 'W', w1, w0, '-', d0]
      = (let year := (((0 * 10 + (y3.toNat - 48)) * 10 + (y2.toNat - 48)) * 10 + (y1.toNat - 48)) * 10 + (y0.toNat - 48)
         let week := (0 * 10 + (w1.toNat - 48)) * 10 + (w0.toNat - 48)
         let day := 0 * 10 + (d0.toNat - 48)
         match isoToCivil (year : Nat) week day with
         | none => err .value
         | some c =>
           if !(decide (1 ≤ c.year) && decide (c.year ≤ 9999)) then err .value
           else pure (daysOfCivil c * usPerDay)) := by
  have hascii : ∀ c ∈ [y3, y2, y1, y0, '-', 'W', w1, w0, '-', d0], c.toNat < 128 := by
    intro c hc
    simp only [List.mem_cons, List.not_mem_nil, or_false] at hc
    rcases hc with rfl | rfl | rfl | rfl | rfl | rfl | rfl | rfl | rfl | rfl
    all_goals first | (apply digit_ascii; assumption) | decide
  unfold fromIsoChars
  simp only [List.length_cons, List.length_nil, List.getD_cons_succ, List.getD_cons_zero, ↓reduceIte,
    any_nonascii_false _ _ _ hascii, Bool.false_eq_true, parseDigitsN, hy3, hy2, hy1, hy0, peek,
    List.headD_cons]
  rw [if_neg (by decide)]
  unfold fromIsoGeneral
  rw [utf8OfChars_ascii _ hascii]
  dsimp only
  have hsep : findIsoSeparator [y3, y2, y1, y0, '-', 'W', w1, w0, '-', d0] = some 10 := by
    simp [findIsoSeparator]
  simp only [hsep, List.length_cons, List.length_nil]
  have hdate : parseIsoDateG [y3, y2, y1, y0, '-', 'W', w1, w0, '-', d0] 10 =
      isoToCivil ((((0 * 10 + (y3.toNat - 48)) * 10 + (y2.toNat - 48)) * 10 + (y1.toNat - 48)) * 10 + (y0.toNat - 48) : Nat)
        ((0 * 10 + (w1.toNat - 48)) * 10 + (w0.toNat - 48)) (0 * 10 + (d0.toNat - 48)) := by
    simp [parseIsoDateG, parseDigitsN, hy3, hy2, hy1, hy0, hw1, hw0, hd0, peek]
  rw [hdate]
  cases hc : isoToCivil ((((0 * 10 + (y3.toNat - 48)) * 10 + (y2.toNat - 48)) * 10 + (y1.toNat - 48)) * 10 + (y0.toNat - 48) : Nat)
        ((0 * 10 + (w1.toNat - 48)) * 10 + (w0.toNat - 48)) (0 * 10 + (d0.toNat - 48)) with
  | none => rfl
  | some c =>
    have hv : c.valid = true := isoToCivil_valid _ _ _ _ hc
    simp [hv]
end Kskm.C11Week
