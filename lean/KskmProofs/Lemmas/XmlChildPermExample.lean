/-
  Non-vacuity for C12's sibling-order theorems: a KSR-shaped document (header attributes, a request policy
  with six durations and two signature algorithms, five levels of nesting) and the same document with the
  children of `ZSK` in another order — the two `SignatureAlgorithm` siblings swapped and moved in front of the
  durations — and other white space between them.  Both are PlainXml under Python's character classes, they
  are `ChildPermT`, both load, and the loaded policies list the two algorithms in different orders (a `set` in
  Python): equal as sets, not as lists.  The expensive `decide +kernel` steps live here, not in
  KskmProofs/C12.lean.
-/
import KskmProofs.Lemmas.XmlGlueSame
import KskmProofs.Lemmas.XmlRenderW
namespace Kskm.Xml.SiblingExample

def at1 (k v : String) : List Char × (List Char × List Char) := ([' '], (k.toList, v.toList))
def dur (n v : String) : WTree := .leaf n.toList [] [] v.toList
def sigAlg (a : String) : WTree :=
  .node "SignatureAlgorithm".toList [at1 "algorithm" a] [] [] (.empty "RSA".toList [at1 "size" "2048", at1 "exponent" "65537"] [])
    .nil []

def d1 : WTree := dur "PublishSafety" "P10D"
def d2 : WTree := dur "RetireSafety" "P10D"
def d3 : WTree := dur "MaxSignatureValidity" "P21D"
def d4 : WTree := dur "MinSignatureValidity" "P21D"
def d5 : WTree := dur "MaxValidityOverlap" "P12D"
def d6 : WTree := dur "MinValidityOverlap" "P9D"

def wrap (zsk : WTree) : WTree :=
  .node "KSR".toList [at1 "id" "4fe9bb10", at1 "serial" "99", at1 "domain" "."] [] ['\n']
    (.node "Request".toList [] [] ['\n'] (.node "RequestPolicy".toList [] [] ['\n'] zsk .nil ['\n']) .nil ['\n'])
    .nil ['\n']

/-- the schema's order: durations, then the algorithms 8 and 10 -/
def doc : WTree :=
  wrap (.node "ZSK".toList [] [] ['\n'] d1
    (.cons ['\n'] d2 (.cons ['\n'] d3 (.cons ['\n'] d4 (.cons ['\n'] d5 (.cons ['\n'] d6
      (.cons ['\n'] (sigAlg "8") (.cons ['\n'] (sigAlg "10") .nil))))))) ['\n'])

/-- algorithm 10 before algorithm 8, both before the durations; other white space -/
def docP : WTree :=
  wrap (.node "ZSK".toList [] [] [' '] (sigAlg "10")
    (.cons [] (sigAlg "8") (.cons ['\t'] d1 (.cons [] d2 (.cons [' ', ' '] d3 (.cons ['\n'] d4 (.cons [] d5
      (.cons ['\n', ' '] d6 .nil))))))) [])

set_option synthInstance.maxSize 8192 in
set_option synthInstance.maxHeartbeats 2000000 in
set_option maxRecDepth 4096 in
theorem doc_plain : PlainW pyClasses doc ∧ heightW doc ≤ 5 := by
  simp only [doc, wrap, d1, d2, d3, d4, d5, d6, dur, sigAlg, at1, PlainW, PlainWF, PlainWAttrs, AttrWs, occursW, occursWF,
    PlainName, PlainAttr, PlainText, Gap, Ws, heightW, heightWF, wplain]
  decide +kernel

set_option synthInstance.maxSize 8192 in
set_option synthInstance.maxHeartbeats 2000000 in
set_option maxRecDepth 4096 in
theorem docP_plain : PlainW pyClasses docP ∧ heightW docP ≤ 5 := by
  simp only [docP, wrap, d1, d2, d3, d4, d5, d6, dur, sigAlg, at1, PlainW, PlainWF, PlainWAttrs, AttrWs, occursW, occursWF,
    PlainName, PlainAttr, PlainText, Gap, Ws, heightW, heightWF, wplain]
  decide +kernel

/-- only differently named siblings change places: `RetireSafety` before `PublishSafety` -/
def docM : WTree :=
  wrap (.node "ZSK".toList [] [] ['\n'] d2
    (.cons [' '] d1 (.cons ['\n'] d3 (.cons ['\n'] d4 (.cons ['\n'] d5 (.cons ['\n'] d6
      (.cons ['\n'] (sigAlg "8") (.cons ['\n'] (sigAlg "10") .nil))))))) ['\n'])

set_option synthInstance.maxSize 8192 in
set_option synthInstance.maxHeartbeats 2000000 in
set_option maxRecDepth 4096 in
theorem docM_plain : PlainW pyClasses docM ∧ heightW docM ≤ 5 := by
  simp only [docM, wrap, d1, d2, d3, d4, d5, d6, dur, sigAlg, at1, PlainW, PlainWF, PlainWAttrs, AttrWs, occursW, occursWF,
    PlainName, PlainAttr, PlainText, Gap, Ws, heightW, heightWF, wplain]
  decide +kernel

/-- `docM` is `doc` with two differently named children of `ZSK` swapped -/
theorem doc_move : ChildMoveT (eraseT doc) (eraseT docM) := by
  have hz : ChildMoveL
      [eraseT d1, eraseT d2, eraseT d3, eraseT d4, eraseT d5, eraseT d6, eraseT (sigAlg "8"), eraseT (sigAlg "10")]
      [eraseT d2, eraseT d1, eraseT d3, eraseT d4, eraseT d5, eraseT d6, eraseT (sigAlg "8"), eraseT (sigAlg "10")] :=
    .swap _ _ _ (by decide)
  exact .node _ _ _ _ _ _ _ _ (.cons (.node _ _ _ _ _ _ _ _ (.cons (.node _ _ _ _ _ _ _ _ (.cons
    (.node _ _ _ _ _ _ _ _ hz) .nil)) .nil)) .nil)

theorem doc_names : doc.name = "KSR".toList ∧ docP.name = "KSR".toList := ⟨rfl, rfl⟩

/-- `docP` is `doc` with the children of `ZSK` permuted -/
theorem doc_perm : ChildPermT (eraseT doc) (eraseT docP) := by
  have hz : ChildPermL
      [eraseT d1, eraseT d2, eraseT d3, eraseT d4, eraseT d5, eraseT d6, eraseT (sigAlg "8"), eraseT (sigAlg "10")]
      [eraseT (sigAlg "10"), eraseT (sigAlg "8"), eraseT d1, eraseT d2, eraseT d3, eraseT d4, eraseT d5, eraseT d6] := by
    apply ChildPermL.of_perm
    have h1 : ([eraseT d1, eraseT d2, eraseT d3, eraseT d4, eraseT d5, eraseT d6] ++
        [eraseT (sigAlg "8"), eraseT (sigAlg "10")]).Perm
        ([eraseT (sigAlg "8"), eraseT (sigAlg "10")] ++ [eraseT d1, eraseT d2, eraseT d3, eraseT d4, eraseT d5, eraseT d6]) :=
      List.perm_append_comm
    exact h1.trans (List.Perm.swap _ _ _)
  exact .node _ _ _ _ _ _ _ _ (.cons (.node _ _ _ _ _ _ _ _ (.cons (.node _ _ _ _ _ _ _ _ (.cons
    (.node _ _ _ _ _ _ _ _ hz) .nil)) .nil)) .nil)

def p8 : AlgPolicy := { kind := .rsa, bits := 2048, algorithm := 8, exponent := some 65537 }
def p10 : AlgPolicy := { kind := .rsa, bits := 2048, algorithm := 10, exponent := some 65537 }

/-- both standard readings load; the declared algorithms come out in document order — `[8, 10]` and
    `[10, 8]`: the same Python `set`, different lists -/
theorem doc_loads (gs : GlueSwitches) :
    (requestFromDict gs (.dict (dictOf (eraseT doc)))).map (fun r => (r.id, r.serial, r.domain, r.zskPolicy.algorithms, r.bundles)) =
      .ok ("4fe9bb10", 99, ".", [p8, p10], []) ∧
    (requestFromDict gs (.dict (dictOf (eraseT docP)))).map (fun r => (r.id, r.serial, r.domain, r.zskPolicy.algorithms, r.bundles)) =
      .ok ("4fe9bb10", 99, ".", [p10, p8], []) := by
  obtain ⟨a, b, c, d⟩ := gs
  cases a <;> cases b <;> cases c <;> cases d <;> exact ⟨by decide +kernel, by decide +kernel⟩

theorem doc_algs (gs : GlueSwitches) :
    (requestFromDict gs (.dict (dictOf (eraseT doc)))).map (·.zskPolicy.algorithms) = .ok [p8, p10] ∧
    (requestFromDict gs (.dict (dictOf (eraseT docP)))).map (·.zskPolicy.algorithms) = .ok [p10, p8] := by
  obtain ⟨a, b, c, d⟩ := gs
  cases a <;> cases b <;> cases c <;> cases d <;> exact ⟨by decide +kernel, by decide +kernel⟩

/-- the first document's standard reading loads -/
theorem doc_request (gs : GlueSwitches) :
    ∃ r, requestFromDict gs (.dict (dictOf (eraseT doc))) = .ok r ∧ r.zskPolicy.algorithms = [p8, p10] := by
  have h := (doc_algs gs).1
  cases hr : requestFromDict gs (.dict (dictOf (eraseT doc))) with
  | error e => rw [hr] at h; cases h
  | ok r =>
    rw [hr] at h
    simp only [Except.map, Except.ok.injEq] at h
    exact ⟨r, rfl, h⟩

/-- the two readings differ as values (lists of same-named siblings in document order) — `DictPerm` is not `=` -/
theorem doc_dict_ne : dictOf (eraseT docP) ≠ dictOf (eraseT doc) := by decide +kernel

/-- a loader built from `parse_ksr` returns what the glue returns on the parsed dict -/
theorem fromXmlWith_ok {α} {cls : Classes} {sw : Switches} {glue : XVal → Res α} {x : List Char} {d : Dict} {r : α}
    (h : parseKsr cls sw x = .ok d) (hg : glue (.dict d) = .ok r) : fromXmlWith cls sw glue x = .done (.ok r) := by
  unfold fromXmlWith
  rw [h]
  exact congrArg Load.done hg

end Kskm.Xml.SiblingExample
