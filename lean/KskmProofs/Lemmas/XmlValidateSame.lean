/-
  The verdict of validation on `SameRequest` / `SameResponsePerm` objects (C12, sibling order).

  Two requests that are the same Python object up to the list representation of their `set` fields are
  accepted or rejected together by `validate_request`; likewise two responses by `validate_response` and the
  gate of `load_skr`.  Rule by rule, from the characterisations proved for C05 (timing rules: functions of
  the bundle list's ids / inceptions / expirations), C06 (key, algorithm and header rules: stated by
  membership in the declared algorithms and over the multiset of all keys) and C07 (`validate_signatures` /
  proof of possession: `makeRawRrsig_perm`, honesty depends on the SETS of keys and signatures).

  WHICH rule rejects may depend on the order in which a set is visited when several are violated (the first
  offending element raises); what is invariant — and stated — is acceptance.  The ECDSA / EdDSA parameter
  search of `check_keys_match_zsk_policy` is order dependent for a declared entry whose algorithm number is
  not of its own family (`C06.ecdsa_declared_order_witness`); no such entry can come out of the loader
  (`requestFromDict_wellFormed`), so the hypothesis `DeclaredWellFormed` is discharged for loaded requests.
-/
import KskmProofs.Lemmas.XmlGlueSame
import KskmProofs.C05
import KskmProofs.C06
import KskmProofs.C07
namespace Kskm.Xml
open Kskm.C05 Kskm.C06 Kskm.C07

/-! ### pieces -/

theorem SameRequest.get_left {a b : Request} (h : SameRequest a b) {i : Nat} {x : Bundle} (hx : a.bundles[i]? = some x) :
    ∃ y, b.bundles[i]? = some y ∧ SameBundle x y := by
  have hi : i < a.bundles.length := (List.getElem?_eq_some_iff.mp hx).1
  have hi' : i < b.bundles.length := h.length ▸ hi
  exact ⟨b.bundles[i], List.getElem?_eq_getElem hi', h.bundles i x _ hx (List.getElem?_eq_getElem hi')⟩

theorem SameRequest.mem_left {a b : Request} (h : SameRequest a b) {x : Bundle} (hx : x ∈ a.bundles) :
    ∃ y ∈ b.bundles, SameBundle x y := by
  obtain ⟨i, hi⟩ := List.mem_iff_getElem?.mp hx
  obtain ⟨y, hy, hs⟩ := h.get_left hi
  exact ⟨y, List.mem_of_getElem? hy, hs⟩

theorem SameRequest.allKeys_perm {a b : Request} (h : SameRequest a b) : (allKeys a).Perm (allKeys b) :=
  allKeys_perm_of_bundles _ _ h.length (fun i x y hx hy => (h.bundles i x y hx hy).keys)

theorem SameRequest.wellFormed {a b : Request} (h : SameRequest a b) (hw : DeclaredWellFormed a) : DeclaredWellFormed b :=
  fun x hx => hw x (h.zskPolicy.algorithms.mem_iff.mpr hx)

/-! ### the rules, one by one: each accepts `a` iff it accepts `b` (→; ← by symmetry) -/

theorem keyClause_same {a b : Request} (h : SameRequest a b) (pol : RequestPolicy) (k : Key)
    (hk : KeyClause a pol k) : KeyClause b pol k := by
  have hm : ∀ x, x ∈ a.zskPolicy.algorithms → x ∈ b.zskPolicy.algorithms :=
    fun x hx => h.zskPolicy.algorithms.mem_iff.mp hx
  obtain ⟨hf, hc⟩ := hk
  refine ⟨hf, ?_⟩
  rcases hc with ⟨ha, pk, pub, h1, h2, x, hx, h3⟩ | ⟨ha, pk, h1, x, hx, h3⟩ | ⟨ha, pk, h1, x, hx, h3⟩
  · exact Or.inl ⟨ha, pk, pub, h1, h2, x, hm x hx, h3⟩
  · exact Or.inr (Or.inl ⟨ha, pk, h1, x, hm x hx, h3⟩)
  · exact Or.inr (Or.inr ⟨ha, pk, h1, x, hm x hx, h3⟩)

theorem keysMatch_same {a b : Request} (h : SameRequest a b) (hw : DeclaredWellFormed a) (pol : RequestPolicy)
    (hok : checkKeysMatchZskPolicy a pol = .ok ()) : checkKeysMatchZskPolicy b pol = .ok () := by
  cases hf : pol.keysMatchZskPolicy
  · simp [checkKeysMatchZskPolicy, hf]
  · rw [keysMatch_iff a pol hf] at hok
    rw [keysMatch_iff b pol hf]
    have hp := h.allKeys_perm
    refine ⟨fun k hk => ?_, ?_⟩
    · rw [checkNewKey_iff_partial b pol k (h.wellFormed hw)]
      exact keyClause_same h pol k ((checkNewKey_iff_partial a pol k hw).mp (hok.1 k (hp.mem_iff.mpr hk)))
    · intro k₁ h1 k₂ h2
      exact hok.2 k₁ (hp.mem_iff.mpr h1) k₂ (hp.mem_iff.mpr h2)

theorem pop_same {a b : Request} (h : SameRequest a b) (verify : Verifier) (pol : RequestPolicy) :
    checkProofOfPossession verify a pol = .ok () ↔ checkProofOfPossession verify b pol = .ok () :=
  C07_order_invariant verify a b pol h.length
    (fun i x y hx hy => ⟨(h.bundles i x y hx hy).keys, (h.bundles i x y hx hy).signatures⟩)

theorem uniqueIds_same {a b : Request} (h : SameRequest a b) : checkUniqueIds a = checkUniqueIds b := by
  have e : hasDupBundleIds a.bundles = hasDupBundleIds b.bundles := by
    have := h.all₂
    generalize a.bundles = l, b.bundles = l' at this
    induction this with
    | nil => rfl
    | @cons x y l l' h1 t ih =>
      simp only [hasDupBundleIds, ih, h1.id]
      congr 1
      clear ih
      induction t with
      | nil => rfl
      | cons h2 _ ih2 => simp only [List.any_cons, ih2, h2.id]
  unfold checkUniqueIds
  rw [e]

theorem cycleClause_same {a b : Request} (h : SameRequest a b) (pol : RequestPolicy) (hc : CycleClause a pol) :
    CycleClause b pol := by
  intro f l hf hl
  rw [List.head?_eq_getElem?] at hf
  rw [List.getLast?_eq_getElem?] at hl
  obtain ⟨f', hf', sf⟩ := h.symm.get_left hf
  obtain ⟨l', hl', sl⟩ := h.symm.get_left hl
  have := hc f' l' (by rw [List.head?_eq_getElem?]; exact hf')
    (by rw [List.getLast?_eq_getElem?, h.length]; exact hl')
  rw [sf.inception, sl.inception]
  exact this

theorem overlapClause_same {a b : Request} (h : SameRequest a b) (hc : OverlapClause a) : OverlapClause b := by
  intro i p t hp ht
  obtain ⟨p', hp', sp⟩ := h.symm.get_left hp
  obtain ⟨t', ht', st⟩ := h.symm.get_left ht
  have := hc i p' t' hp' ht'
  rw [sp.expiration, st.inception, ← h.zskPolicy.minValidityOverlap, ← h.zskPolicy.maxValidityOverlap]
  exact this

theorem intervalClause_same {a b : Request} (h : SameRequest a b) (pol : RequestPolicy) (hc : IntervalClause a pol) :
    IntervalClause b pol := by
  intro i p t hp ht
  obtain ⟨p', hp', sp⟩ := h.symm.get_left hp
  obtain ⟨t', ht', st⟩ := h.symm.get_left ht
  have := hc i p' t' hp' ht'
  rw [sp.inception, st.inception]
  exact this

theorem validityClause_same {a b : Request} (h : SameRequest a b) (hc : ValidityClause a) : ValidityClause b := by
  intro x hx
  obtain ⟨y, hy, s⟩ := h.symm.mem_left hx
  have := hc y hy
  rw [s.expiration, s.inception, ← h.zskPolicy.minSignatureValidity, ← h.zskPolicy.maxSignatureValidity]
  exact this

theorem horizon_same {a b : Request} (h : SameRequest a b) (now : Int) (pol : RequestPolicy)
    (hok : checkSignatureHorizon now a pol = .ok ()) : checkSignatureHorizon now b pol = .ok () := by
  unfold checkSignatureHorizon at hok ⊢
  split
  · rfl
  · rename_i hf
    rw [if_neg hf, forEach_ok_iff] at hok
    rw [forEach_ok_iff]
    intro x hx
    obtain ⟨y, hy, s⟩ := h.symm.mem_left hx
    have := hok y hy
    unfold checkHorizonOne at this ⊢
    rw [s.expiration]
    exact this

theorem keyCounts_same {a b : Request} (h : SameRequest a b) (pol : RequestPolicy) (hc : KeyCountsClause a pol) :
    KeyCountsClause b pol := by
  obtain ⟨h1, h2, h3⟩ := hc
  refine ⟨h.length ▸ h1, ?_, ?_⟩
  · intro i x n hx hn
    obtain ⟨y, hy, s⟩ := h.symm.get_left hx
    rw [s.keys.length_eq]
    exact h2 i y n hy hn
  · rw [← h3]
    congr 1
    symm
    obtain ⟨d, hd, hm, hl⟩ := distinctKeyCount_spec a
    rw [← hl]
    apply distinctKeyCount_unique b d hd
    intro x
    rw [hm]
    have hp := h.allKeys_perm
    exact ⟨fun ⟨k, hk, e⟩ => ⟨k, hp.mem_iff.mp hk, e⟩, fun ⟨k, hk, e⟩ => ⟨k, hp.mem_iff.mpr hk, e⟩⟩

theorem algorithmClause_same {a b : Request} (h : SameRequest a b) (pol : RequestPolicy) (hc : AlgorithmClause a pol) :
    AlgorithmClause b pol := by
  have hm : ∀ x, x ∈ b.zskPolicy.algorithms → x ∈ a.zskPolicy.algorithms :=
    fun x hx => h.zskPolicy.algorithms.mem_iff.mpr hx
  exact ⟨fun x hx => hc.1 x (hm x hx), fun hf => ⟨(hc.2 hf).1, fun x hx => (hc.2 hf).2 x (hm x hx)⟩⟩

/-- one direction of the verdict theorem -/
theorem validateRequest_same_mp (verify : Verifier) (now : Int) (pol : RequestPolicy) {a b : Request}
    (h : SameRequest a b) (hw : DeclaredWellFormed a) (hok : validateRequest verify now a pol = .ok ()) :
    validateRequest verify now b pol = .ok () := by
  rw [validateRequest_ok_iff] at hok ⊢
  obtain ⟨h1, h2, h3, h4, h5, h6, h7, h8, h9, h10, h11, h12⟩ := hok
  refine ⟨?_, ?_, keysMatch_same h hw pol h3, (pop_same h verify pol).mp h4, ?_, ?_, ?_, ?_, ?_, ?_,
    horizon_same h now pol h11, ?_⟩
  · unfold checkDomain at h1 ⊢; rw [← h.domain]; exact h1
  · rw [← uniqueIds_same h]; exact h2
  · unfold checkBundleCount at h5 ⊢; rw [← h.length]; exact h5
  · rw [cycle_iff] at h6 ⊢; exact fun hf => cycleClause_same h pol (h6 hf)
  · rw [keysInBundles_iff] at h7 ⊢; exact fun hf => keyCounts_same h pol (h7 hf)
  · rw [zskPolicyAlgorithm_iff] at h8 ⊢; exact algorithmClause_same h pol h8
  · rw [overlap_iff] at h9 ⊢; exact fun hf => overlapClause_same h (h9 hf)
  · rw [validity_iff] at h10 ⊢; exact fun hf => validityClause_same h (h10 hf)
  · rw [interval_iff] at h12 ⊢; exact fun hf => intervalClause_same h pol (h12 hf)

/-- **The verdict of `validate_request` does not depend on the order in which the `set` fields were
    filled**: `SameRequest` objects are accepted together or rejected together — for every verifier, clock
    value and policy (every flag assignment). -/
theorem validateRequest_same (verify : Verifier) (now : Int) (pol : RequestPolicy) {a b : Request}
    (h : SameRequest a b) (hw : DeclaredWellFormed a) :
    validateRequest verify now a pol = .ok () ↔ validateRequest verify now b pol = .ok () :=
  ⟨validateRequest_same_mp verify now pol h hw, validateRequest_same_mp verify now pol h.symm (h.wellFormed hw)⟩

/-! ### responses -/

theorem validateSignatures_same_mp (verify : Verifier) {b b' : Bundle} (h : SameBundle b b')
    (hok : validateSignatures verify b = .ok ()) : validateSignatures verify b' = .ok () := by
  rw [validateSignatures_ok_iff] at hok ⊢
  obtain ⟨h1, h2, h3, h4⟩ := hok
  refine ⟨?_, ?_, ((h.keys.map _).nodup_iff).mp h3, ?_⟩
  · intro he; have := h.keys; rw [he] at this; exact h1 (List.Perm.eq_nil this)
  · intro he; have := h.signatures; rw [he] at this; exact h2 (List.Perm.eq_nil this)
  · intro sig hsig
    obtain ⟨key, ⟨hm, hid, raw, sb, hr, hd, hv⟩, hl⟩ := h4 sig (h.signatures.mem_iff.mpr hsig)
    exact ⟨key, ⟨h.keys.mem_iff.mp hm, hid, raw, sb, makeRawRrsig_perm sig _ _ h.keys raw hr, hd, hv⟩, hl⟩

/-- `validate_signatures` looks at the SETS of keys and signatures only -/
theorem validateSignatures_same (verify : Verifier) {b b' : Bundle} (h : SameBundle b b') :
    validateSignatures verify b = .ok () ↔ validateSignatures verify b' = .ok () :=
  ⟨validateSignatures_same_mp verify h, validateSignatures_same_mp verify h.symm⟩

theorem checkValidSignatures_ok_iff (verify : Verifier) (b : Bundle) (pol : ResponsePolicy) :
    checkValidSignatures verify b pol = .ok () ↔ (pol.validateSignatures = true → validateSignatures verify b = .ok ()) := by
  unfold checkValidSignatures
  cases pol.validateSignatures with
  | false => simp
  | true =>
    simp only [Bool.not_true, Bool.false_eq_true, ↓reduceIte, forall_const]
    cases hv : validateSignatures verify b with
    | ok u => cases u; simp
    | error e =>
      cases e with
      | violation r => simp
      | unsupported => simp
      | error k => cases k <;> simp [violation]

theorem validateResponse_ok_iff (verify : Verifier) (resp : Response) (pol : ResponsePolicy) :
    validateResponse verify resp pol = .ok () ↔
      (resp.bundles.length : Int) = pol.numBundles ∧
      ∀ b ∈ resp.bundles, checkValidSignatures verify b pol = .ok () := by
  unfold validateResponse
  by_cases hl : (resp.bundles.length : Int) = pol.numBundles
  · simp [hl, forEach_ok_iff]
  · simp [hl, violation, bind, Except.bind]

theorem All₂.mem_right {α β} {R : α → β → Prop} : ∀ {l : List α} {l' : List β}, All₂ R l l' → ∀ y ∈ l', ∃ x ∈ l, R x y
  | _, _, .nil, y, hy => by simp at hy
  | _, _, .cons (a := a) h t, y, hy => by
    rcases List.mem_cons.mp hy with rfl | hy
    · exact ⟨a, List.mem_cons_self, h⟩
    · obtain ⟨x, hx, hr⟩ := All₂.mem_right t y hy
      exact ⟨x, List.mem_cons_of_mem _ hx, hr⟩

theorem All₂.flip {α β} {R : α → β → Prop} : ∀ {l : List α} {l' : List β}, All₂ R l l' → All₂ (fun b a => R a b) l' l
  | _, _, .nil => .nil
  | _, _, .cons h t => .cons h (All₂.flip t)

theorem PermRel.mem_right {α} {R : α → α → Prop} {l l' : List α} (h : PermRel R l l') : ∀ y ∈ l', ∃ x ∈ l, R x y := by
  obtain ⟨m, hp, ha⟩ := h
  intro y hy
  obtain ⟨x, hx, hr⟩ := ha.mem_right y hy
  exact ⟨x, hp.mem_iff.mpr hx, hr⟩

theorem PermRel.symm {α} {R : α → α → Prop} (hs : ∀ a b, R a b → R b a) {l l' : List α} (h : PermRel R l l') :
    PermRel R l' l := by
  obtain ⟨m, hp, ha⟩ := h
  obtain ⟨m', hp', ha'⟩ := All₂.perm_comm hp.symm ha.flip
  exact ⟨m', hp', ha'.imp (fun _ _ h => hs _ _ h)⟩

theorem validateResponse_of_bundles (verify : Verifier) (pol : ResponsePolicy) {a b : Response}
    (hl : a.bundles.length = b.bundles.length) (hm : ∀ y ∈ b.bundles, ∃ x ∈ a.bundles, SameBundle x y)
    (hok : validateResponse verify a pol = .ok ()) : validateResponse verify b pol = .ok () := by
  rw [validateResponse_ok_iff] at hok ⊢
  refine ⟨hl ▸ hok.1, fun y hy => ?_⟩
  obtain ⟨x, hx, s⟩ := hm y hy
  have := hok.2 x hx
  rw [checkValidSignatures_ok_iff] at this ⊢
  exact fun hf => (validateSignatures_same verify s).mp (this hf)

/-- **The verdict of `validate_response`** is the same on responses whose bundle lists hold the same bundles
    (up to `set` fields) in ANY order — it checks the count and every bundle on its own -/
theorem validateResponse_same (verify : Verifier) (pol : ResponsePolicy) {a b : Response}
    (h : PermRel SameBundle a.bundles b.bundles) :
    validateResponse verify a pol = .ok () ↔ validateResponse verify b pol = .ok () :=
  have h' := h.symm (fun _ _ s => s.symm)
  ⟨validateResponse_of_bundles verify pol h.length_eq h.mem_right,
   validateResponse_of_bundles verify pol h'.length_eq h'.mem_right⟩

theorem loadSkrGate_ok_iff (verify : Verifier) (resp : Response) (pol : ResponsePolicy) :
    loadSkrGate verify resp pol = .ok () ↔ validateResponse verify resp pol = .ok () := by
  unfold loadSkrGate
  cases hv : validateResponse verify resp pol with
  | ok u => simp
  | error e => cases e <;> simp [err]

/-- … and so is the gate of `load_skr` -/
theorem loadSkrGate_same (verify : Verifier) (pol : ResponsePolicy) {a b : Response}
    (h : PermRel SameBundle a.bundles b.bundles) :
    loadSkrGate verify a pol = .ok () ↔ loadSkrGate verify b pol = .ok () := by
  rw [loadSkrGate_ok_iff, loadSkrGate_ok_iff]
  exact validateResponse_same verify pol h

/-! ### what the loader returns is well formed -/

/-- every result (if any) satisfies `P` -/
def ResAll {α : Type} (P : α → Prop) (x : Res α) : Prop :=
  match x with
  | .ok a => P a
  | .error _ => True

theorem ResAll.bind {α β : Type} {Q : α → Prop} {P : β → Prop} {x : Res α} {f : α → Res β} (h : ResAll Q x)
    (hf : ∀ a, Q a → ResAll P (f a)) : ResAll P (x >>= f) := by
  cases x with
  | error e => exact trivial
  | ok a => exact hf a h

theorem ResAll.bind_any {α β : Type} {P : β → Prop} {x : Res α} {f : α → Res β} (hf : ∀ a, ResAll P (f a)) :
    ResAll P (x >>= f) := by
  cases x with
  | error e => exact trivial
  | ok a => exact hf a

theorem ResAll.of_ok {α : Type} {P : α → Prop} {x : Res α} {a : α} (h : ResAll P x) (hx : x = .ok a) : P a := by
  subst hx; exact h

/-- an entry of a declared policy as the loader builds it: the subclass is chosen BY the algorithm number -/
def AlgEntryOk (a : AlgPolicy) : Prop :=
  (a.kind = .ecdsa → isAlgorithmEcdsa a.algorithm = true) ∧ (a.kind = .eddsa → isAlgorithmEddsa a.algorithm = true)

theorem algPolicyOf_ok (v : XVal) : ResAll AlgEntryOk (algPolicyOf v) := by
  unfold algPolicyOf
  refine ResAll.bind_any (fun _ => ResAll.bind_any (fun _ => ResAll.bind_any (fun alg => ?_)))
  split
  · repeat (refine ResAll.bind_any (fun _ => ?_))
    exact ⟨fun h => (by cases h), fun h => (by cases h)⟩
  · split
    · rename_i he
      repeat (refine ResAll.bind_any (fun _ => ?_))
      exact ⟨fun _ => he, fun h => (by cases h)⟩
    · split
      · rename_i hd
        repeat (refine ResAll.bind_any (fun _ => ?_))
        exact ⟨fun h => (by cases h), fun _ => hd⟩
      · exact trivial

theorem mapM_all {α β : Type} {P : β → Prop} {f : α → Res β} (hf : ∀ a, ResAll P (f a)) :
    ∀ (l : List α), ResAll (fun r => ∀ b ∈ r, P b) (l.mapM f)
  | [] => by intro b hb; simp at hb
  | a :: l => by
    rw [List.mapM_cons]
    refine ResAll.bind (hf a) (fun y hy => ResAll.bind (mapM_all hf l) (fun ys hys => ?_))
    intro b hb
    rcases List.mem_cons.mp hb with rfl | hb
    · exact hy
    · exact hys b hb

theorem signatureAlgorithmsOf_ok (v : XVal) : ResAll (fun l => ∀ a ∈ l, AlgEntryOk a) (signatureAlgorithmsOf v) := by
  unfold signatureAlgorithmsOf
  refine ResAll.bind (mapM_all algPolicyOf_ok _) (fun l hl => ?_)
  exact (fun a ha => hl a ((mem_dedup' a l).mp ha) : ∀ a ∈ dedup l, AlgEntryOk a)

theorem signaturePolicyOf_ok (v : XVal) : ResAll (fun p => ∀ a ∈ p.algorithms, AlgEntryOk a) (signaturePolicyOf v) := by
  unfold signaturePolicyOf
  repeat (first
    | refine ResAll.bind (signatureAlgorithmsOf_ok _) (fun _ _ => ?_)
    | refine ResAll.bind_any (fun _ => ?_))
  assumption

/-- **a loaded request's declared policy is well formed** (`C06.DeclaredWellFormed`): an ECDSA / EdDSA entry
    exists only for an algorithm number of that family -/
theorem requestFromDict_wellFormed (gs : GlueSwitches) (data : XVal) (r : Request)
    (h : requestFromDict gs data = .ok r) : DeclaredWellFormed r := by
  have : ResAll (fun r => ∀ a ∈ r.zskPolicy.algorithms, AlgEntryOk a) (requestFromDict gs data) := by
    unfold requestFromDict
    repeat (first
      | refine ResAll.bind (signaturePolicyOf_ok _) (fun _ _ => ?_)
      | refine ResAll.bind_any (fun _ => ?_)
      | dsimp only)
    assumption
  have hr := this.of_ok h
  intro a ha
  exact ⟨fun hk => (isEcdsa_iff_table _).mp ((hr a ha).1 hk), fun hk => (isEddsa_iff_table _).mp ((hr a ha).2 hk)⟩

/-! ### `load_ksr` / `load_skr` return an object exactly when the text loads and validates -/

theorem loadKsr_ok_iff (cls : Classes) (sw : Switches) (gs : GlueSwitches) (verify : Verifier) (now : Int)
    (f : FileOracle) (pol : RequestPolicy) (ro : Bool) (hsz : f.statSize ≤ KskmGen.maxKsrSize) (xml : List Char)
    (hd : f.decode (f.read KskmGen.maxKsrSize) = some xml) (r : Request) :
    (loadKsr cls sw gs verify now f pol ro).result = .done (.ok r) ↔
      requestFromXmlL cls sw gs xml = .done (.ok r) ∧ validateRequest verify now r pol = .ok () := by
  have hn : ¬ f.statSize > KskmGen.maxKsrSize := by omega
  unfold loadKsr
  simp only [hn, ↓reduceIte, hd]
  cases hx : requestFromXmlL cls sw gs xml with
  | hang => simp
  | done y =>
    cases y with
    | error e => simp
    | ok req =>
      simp only
      cases hv : validateRequest verify now req pol with
      | ok u =>
        cases u
        simp only [pure, Except.pure, Load.done.injEq, Except.ok.injEq]
        constructor
        · intro h; subst h; exact ⟨rfl, hv⟩
        · intro h; exact h.1
      | error e =>
        cases e with
        | violation rule =>
          simp only [Load.done.injEq, Except.ok.injEq]
          constructor
          · intro h; split at h <;> simp [violation, err] at h
          · intro h; obtain ⟨h1, h2⟩ := h; subst h1; rw [hv] at h2; cases h2
        | error k =>
          simp only [Load.done.injEq, Except.ok.injEq]
          constructor
          · intro h; cases h
          · intro h; obtain ⟨h1, h2⟩ := h; subst h1; rw [hv] at h2; cases h2
        | unsupported =>
          simp only [Load.done.injEq, Except.ok.injEq]
          constructor
          · intro h; cases h
          · intro h; obtain ⟨h1, h2⟩ := h; subst h1; rw [hv] at h2; cases h2

theorem loadSkr_ok_iff (cls : Classes) (sw : Switches) (gs : GlueSwitches) (verify : Verifier)
    (f : FileOracle) (pol : ResponsePolicy) (hsz : f.statSize ≤ KskmGen.maxSkrSize) (xml : List Char)
    (hd : f.decode (f.read KskmGen.maxSkrSize) = some xml) (r : Response) :
    (loadSkr cls sw gs verify f pol).result = .done (.ok r) ↔
      responseFromXmlL cls sw gs xml = .done (.ok r) ∧ loadSkrGate verify r pol = .ok () := by
  have hn : ¬ f.statSize > KskmGen.maxSkrSize := by omega
  unfold loadSkr
  simp only [hn, ↓reduceIte, hd]
  cases hx : responseFromXmlL cls sw gs xml with
  | hang => simp
  | done y =>
    cases y with
    | error e => simp
    | ok resp =>
      simp only
      cases hv : loadSkrGate verify resp pol with
      | ok u =>
        cases u
        simp only [pure, Except.pure, Load.done.injEq, Except.ok.injEq]
        constructor
        · intro h; subst h; exact ⟨rfl, hv⟩
        · intro h; exact h.1
      | error e =>
        simp only [Load.done.injEq, Except.ok.injEq]
        constructor
        · intro h; cases h
        · intro h; obtain ⟨h1, h2⟩ := h; subst h1; rw [hv] at h2; cases h2

/-- an accepted request has pairwise distinct bundle ids (`check_unique_ids` is not behind a flag) -/
theorem validateRequest_ids (verify : Verifier) (now : Int) (r : Request) (pol : RequestPolicy)
    (h : validateRequest verify now r pol = .ok ()) : r.bundles.Pairwise (fun a b => a.id ≠ b.id) := by
  rw [validateRequest_ok_iff] at h
  rw [pairwise_ids_iff]
  exact (uniqueIds_iff r).mp h.2.1

end Kskm.Xml
