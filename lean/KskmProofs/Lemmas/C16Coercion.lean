/-
  Lemmas for C16 §8 (KskmProofs/C16.lean): the coercion classes of Kskm/Config.lean that the model decides
  exactly since wave B3 — whole numbers as validities and durations, floats as integers, the characters a
  duration text may consist of, a configuration whose top level is not a mapping.
-/
import Kskm.Config
namespace Kskm.C16
open Kskm Kskm.Config

/-! ### numbers as validities -/

theorem pydDatetimeOfNumber_iff (i us : Int) (off : Option Int) :
    pydDatetimeOfNumber i = some (us, off) ↔
      off = some 0 ∧
      us = (if -20000000000 ≤ i ∧ i ≤ 20000000000 then i * 1000000 else i * 1000) ∧
      -62135596800000000 ≤ us ∧ us ≤ 253402300799999999 := by
  unfold pydDatetimeOfNumber msWatershed usPerSec minTimestampUs maxTimestampUs
  by_cases hw : -20000000000 ≤ i ∧ i ≤ 20000000000
  · simp only [hw, and_self, decide_true, Bool.and_self, if_true]
    constructor
    · intro h
      split at h
      · rename_i hb
        simp only [Bool.and_eq_true, decide_eq_true_eq] at hb
        simp only [Option.some.injEq, Prod.mk.injEq] at h
        obtain ⟨h1, h2⟩ := h
        subst h1; subst h2
        exact ⟨rfl, rfl, hb.1, hb.2⟩
      · simp at h
    · rintro ⟨rfl, rfl, h1, h2⟩
      simp [h1, h2]
  · have hw' : (decide (-20000000000 ≤ i) && decide (i ≤ 20000000000)) = false := by
      simp only [Bool.and_eq_false_iff, decide_eq_false_iff_not]
      by_cases h1 : -20000000000 ≤ i
      · right; intro h2; exact hw ⟨h1, h2⟩
      · left; exact h1
    simp only [hw', hw, if_false, Bool.false_eq_true]
    constructor
    · intro h
      split at h
      · rename_i hb
        simp only [Bool.and_eq_true, decide_eq_true_eq] at hb
        simp only [Option.some.injEq, Prod.mk.injEq] at h
        obtain ⟨h1, h2⟩ := h
        subst h1; subst h2
        exact ⟨rfl, rfl, hb.1, hb.2⟩
      · simp at h
    · rintro ⟨rfl, rfl, h1, h2⟩
      simp [h1, h2]

/-! ### whole seconds as durations -/

theorem pydDurationOfSeconds_in_range (i : Int)
    (hlo : -(999999999 * 86400) ≤ i) (hhi : i < 1000000000 * 86400) :
    pydDurationOfSeconds i = .ok (some (i * 1000000)) := by
  unfold pydDurationOfSeconds i64Limit tdRangeOk maxTdDays usPerSec usPerDay
  have h0 : ¬ (i < -9223372036854775808 ∨ i ≥ 9223372036854775808) := by omega
  have hd : (i.natAbs / 86400) % 4294967296 = i.natAbs / 86400 := by omega
  have htot : (((i.natAbs / 86400) % 4294967296 * 86400 + i.natAbs % 86400 : Nat) : Int) = (i.natAbs : Int) := by
    rw [hd]; omega
  have hdle : ¬ ((i.natAbs / 86400) % 4294967296 > 999999999) := by omega
  simp only [Bool.or_eq_true, decide_eq_true_eq, h0, if_false, hdle, htot, pure, Except.pure]
  by_cases hneg : i < 0
  · have ha : -((i.natAbs : Int) * 1000000) = i * 1000000 := by omega
    simp only [hneg, if_true, ha]
    have h1 : (-86399999913600000000 : Int) ≤ i * 1000000 := by omega
    have h2 : i * 1000000 < (86400000000000000000 : Int) := by omega
    have h3 : ¬ ((86400000000000000000 : Int) ≤ i * 1000000) := by omega
    simp [h1, h3]
  · have ha : (i.natAbs : Int) * 1000000 = i * 1000000 := by omega
    simp only [hneg, if_false, ha]

theorem pydDurationOfSeconds_some_in_td_range (i u : Int)
    (h : pydDurationOfSeconds i = .ok (some u)) : tdRangeOk u = true := by
  unfold pydDurationOfSeconds at h
  split at h
  · simp [pure, Except.pure] at h
  · simp only at h
    split at h
    · simp [pure, Except.pure] at h
    · rename_i hd
      split at h
      · split at h
        · rename_i hr
          simp only [pure, Except.pure, Except.ok.injEq, Option.some.injEq] at h
          subst h; exact hr
        · simp [err] at h
      · simp only [pure, Except.pure, Except.ok.injEq, Option.some.injEq] at h
        subst h
        unfold tdRangeOk maxTdDays usPerSec usPerDay
        simp only [Bool.and_eq_true, decide_eq_true_eq]
        constructor <;> omega

/-! ### floats as integers -/

theorem laxInt_float_iff (i j : Int) :
    laxInt (.float (some i) true) = .ok (some j) ↔ j = i ∧ -9223372036854775808 < i ∧ i < 9223372036854775808 := by
  unfold laxInt i64Limit
  simp only [Bool.not_true, Bool.false_eq_true, if_false, pure, Except.pure, Except.ok.injEq]
  constructor
  · intro h
    split at h
    · rename_i hb
      simp only [Bool.and_eq_true, decide_eq_true_eq] at hb
      simp only [Option.some.injEq] at h
      exact ⟨h.symm, hb.1, hb.2⟩
    · simp at h
  · rintro ⟨rfl, h1, h2⟩
    simp [h1, h2]

/-! ### the characters of an accepted duration text -/

theorem signedBody_cases (l : List Char) :
    signedBody l = l ∨ l = '+' :: signedBody l ∨ l = '-' :: signedBody l := by
  unfold signedBody
  split
  · right; left; rfl
  · right; right; rfl
  · left; rfl

theorem pydDuration_some_chars (s : String) (u : Int) (h : pydDuration s = .ok (some u)) :
    ∀ c ∈ s.toList, isAsciiDigit c = true ∨ c ∈ pydDurationChars := by
  unfold pydDuration at h
  simp only at h
  generalize s.toList = l at h
  split at h
  · simp [pure, Except.pure] at h
  · split at h
    · -- `P…`
      split at h
      · simp [pure, Except.pure] at h
      · rename_i h1
        split at h
        · simp [unsupported] at h
        · rename_i h2
          have hbody : ∀ c ∈ signedBody l, isAsciiDigit c = true ∨ c ∈ pydDurationChars := by
            intro c hc
            have a1 := (by simpa using h1 :
              ∀ x ∈ signedBody l, isAsciiDigit x = false → ¬x ∈ pydDurationChars → ¬x = '.' → x = ',') c hc
            have a2 : ¬ (c = '.' ∨ c = ',') := by
              intro hcc
              apply h2
              simp only [List.any_eq_true, Bool.or_eq_true, beq_iff_eq]
              exact ⟨c, hc, hcc⟩
            by_cases hd : isAsciiDigit c = true
            · exact Or.inl hd
            · by_cases hm : c ∈ pydDurationChars
              · exact Or.inr hm
              · exfalso
                by_cases hdot : c = '.'
                · exact a2 (Or.inl hdot)
                · exact a2 (Or.inr (a1 (by simpa using hd) hm hdot))
          intro c hc
          rcases signedBody_cases l with hl | hl | hl
          · rw [hl] at hbody; exact hbody c hc
          · rw [hl] at hc
            rcases List.mem_cons.mp hc with rfl | hc
            · right; decide
            · exact hbody c hc
          · rw [hl] at hc
            rcases List.mem_cons.mp hc with rfl | hc
            · right; decide
            · exact hbody c hc
    · split at h
      · simp [pure, Except.pure] at h
      · split at h
        · simp [pure, Except.pure] at h
        · simp [unsupported] at h

/-! ### a configuration that is not a mapping -/

theorem fromDict_string_rejected (env : Env) (s : String) (hs : s.isEmpty = false) :
    fromDict env (.str s) = .error (.error .value) := by
  simp [fromDict, transformConfig, topLevelDict, hs, err, bind, Except.bind]

theorem dictOfPairs_scalar_rejected (xs ys : List CVal) (x : CVal)
    (hpre : ∀ y ∈ xs, ∃ kv, dictPairOf y = .ok kv)
    (hx : dictPairOf x = .error (.error .type) ∨ dictPairOf x = .error (.error .value)) :
    ∀ r, dictOfPairs (xs ++ x :: ys) ≠ .ok r := by
  induction xs with
  | nil =>
    intro r h
    simp only [List.nil_append, dictOfPairs, bind, Except.bind] at h
    rcases hx with hx | hx <;> simp [hx] at h
  | cons y ys' ih =>
    intro r h
    obtain ⟨kv, hkv⟩ := hpre y List.mem_cons_self
    simp only [List.cons_append, dictOfPairs, bind, Except.bind, hkv] at h
    cases hrest : dictOfPairs (ys' ++ x :: ys) with
    | error e => simp [hrest] at h
    | ok rest => exact ih (fun y hy => hpre y (List.mem_cons_of_mem _ hy)) rest hrest

/-! ### the characters of text accepted as an integer -/

theorem mem_stripDecimalZeros (l : List Char) (c : Char) (hc : c ∈ l) :
    c ∈ stripDecimalZeros l ∨ c = '.' ∨ c = '0' := by
  unfold stripDecimalZeros
  simp only
  split
  · rename_i rest hd
    split
    · exact Or.inl hc
    · have hsplit : l.reverse = l.reverse.takeWhile (· == '0') ++ l.reverse.dropWhile (· == '0') :=
        (List.takeWhile_append_dropWhile).symm
      rw [hd] at hsplit
      have hc' : c ∈ l.reverse := List.mem_reverse.mpr hc
      rw [hsplit] at hc'
      rcases List.mem_append.mp hc' with h | h
      · right; right
        have hall := List.all_takeWhile (l := l.reverse) (p := (· == '0'))
        have := List.all_eq_true.mp hall c h
        simpa using this
      · rcases List.mem_cons.mp h with h | h
        · right; left; exact h
        · left; exact List.mem_reverse.mpr h
  · exact Or.inl hc

/-- whatever text is accepted as an integer consists — between the trimmed white space — of ASCII
    digits, `_`, `.`, `+` and `-` only -/
theorem pydStrInt_some_chars (s : String) (i : Int) (h : pydStrInt s = .ok (some i)) :
    ∀ c ∈ trimBy isRustWhitespace s.toList, isAsciiDigit c = true ∨ c ∈ ['_', '.', '+', '-'] := by
  unfold pydStrInt at h
  simp only at h
  generalize trimBy isRustWhitespace s.toList = l at h
  split at h
  · simp [unsupported] at h
  · split at h
    · simp [pure, Except.pure] at h
    · rename_i hforeign
      have hb : ∀ c ∈ stripDecimalZeros (signedBody l), isAsciiDigit c = true ∨ c ∈ ['_', '.', '+', '-'] := by
        intro c hc
        have a := (by simpa using hforeign :
          ∀ x ∈ stripDecimalZeros (signedBody l), isAsciiDigit x = false → ¬x = '_' → ¬x = '+' → x = '-') c hc
        by_cases hd : isAsciiDigit c = true
        · exact Or.inl hd
        · right
          by_cases h1 : c = '_'
          · simp [h1]
          · by_cases h2 : c = '+'
            · simp [h2]
            · have := a (by simpa using hd) h1 h2
              simp [this]
      have hbody : ∀ c ∈ signedBody l, isAsciiDigit c = true ∨ c ∈ ['_', '.', '+', '-'] := by
        intro c hc
        rcases mem_stripDecimalZeros _ c hc with h | h | h
        · exact hb c h
        · right; simp [h]
        · left; subst h; decide
      intro c hc
      rcases signedBody_cases l with hl | hl | hl
      · rw [hl] at hbody; exact hbody c hc
      · rw [hl] at hc
        rcases List.mem_cons.mp hc with rfl | hc
        · right; decide
        · exact hbody c hc
      · rw [hl] at hc
        rcases List.mem_cons.mp hc with rfl | hc
        · right; decide
        · exact hbody c hc

end Kskm.C16
