/-
  Results that depend on the token only through its answers.

  `ResultVia P m`: the RESULT (not the log) of the token computation `m` is the same on two tokens —
  from any two states — as soon as the two tokens give the same answer, at whatever operation index,
  to every operation satisfying `P`.  Two uses:

  * `t' = t` (C02, order independence): on a token whose answers do not depend on the operation index
    (`IndexFree`: a store-backed token, a healthy HSM) the result of `_fetch_keys`, `_sign_keys`, …
    does not depend on what was asked before — so the order of the schema lists cannot matter;
  * `t' = storeToken …` (C01, completion): a token that answers reads like the store-backed token of
    C15 / C04 and, in addition, signs, fetches the same keys as `storeToken`; the theorems of C15 /
    C04 about `storeToken` carry over.

  Proved by structural composition (`via_step`), exactly like `Emits` in Lemmas/Hsm.lean.
-/
import KskmProofs.Lemmas.Hsm
namespace Kskm

/-- `t` and `t'` answer every operation satisfying `P` alike, at whatever operation index -/
def AnswersAlike (P : TokOp → Prop) (t t' : Token) : Prop := ∀ i j op, P op → t i op = t' j op

/-- the answers of `t` do not depend on the operation index (history-independent token) -/
def IndexFree (t : Token) : Prop := ∀ i j op, t i op = t j op

theorem IndexFree.alike {t : Token} (h : IndexFree t) (P : TokOp → Prop) : AnswersAlike P t t :=
  fun i j op _ => h i j op

theorem AnswersAlike.mono {P Q : TokOp → Prop} {t t' : Token} (h : AnswersAlike Q t t')
    (hpq : ∀ op, P op → Q op) : AnswersAlike P t t' := fun i j op hp => h i j op (hpq op hp)

/-- the result of `m` depends on the token only through its answers to operations satisfying `P` -/
def ResultVia {α} (P : TokOp → Prop) (m : TokM α) : Prop :=
  ∀ t t' s s', AnswersAlike P t t' → (m t s).1 = (m t' s').1

namespace ResultVia
variable {α β : Type} {P : TokOp → Prop}

theorem pure (a : α) : ResultVia P (Pure.pure a : TokM α) := fun _ _ _ _ _ => rfl
theorem fail (f : Fail) : ResultVia P (TokM.fail f : TokM α) := fun _ _ _ _ _ => rfl
theorem err (k : ErrKind) : ResultVia P (TokM.err k : TokM α) := fun _ _ _ _ _ => rfl
theorem lift (r : Res α) : ResultVia P (TokM.lift r : TokM α) := fun _ _ _ _ _ => rfl

theorem ask (op : TokOp) (h : P op) : ResultVia P (Kskm.ask op) := fun t t' s s' ha => by
  rw [ask_run', ask_run']
  simp only [ha s.count s'.count op h]

theorem bind {m : TokM α} {f : α → TokM β} (hm : ResultVia P m) (hf : ∀ a, ResultVia P (f a)) :
    ResultVia P (m >>= f) := by
  intro t t' s s' ha
  have h1 := hm t t' s s' ha
  rw [TokM.bind_eq, TokM.bind_eq]
  cases hr : m t s with
  | mk r s1 =>
    cases hr' : m t' s' with
    | mk r' s1' =>
      rw [hr, hr'] at h1
      simp only at h1
      subst h1
      cases r with
      | error e => rfl
      | ok a => exact hf a t t' s1 s1' ha

theorem askOk (op : TokOp) (h : P op) : ResultVia P (Kskm.askOk op) := by
  unfold Kskm.askOk
  refine bind (ask op h) (fun a => ?_)
  split
  · exact err _
  · exact pure _

theorem mono {Q : TokOp → Prop} {m : TokM α} (h : ResultVia P m) (hpq : ∀ op, P op → Q op) :
    ResultVia Q m := fun t t' s s' ha => h t t' s s' (ha.mono hpq)

/-- on an index-free token the result does not depend on the starting state -/
theorem indep {m : TokM α} (h : ResultVia P m) {t : Token} (ht : IndexFree t) (s s' : TokState) :
    (m t s).1 = (m t s').1 := h t t s s' (ht.alike P)

/-- transfer of a successful run from `t'` to `t` -/
theorem transfer {m : TokM α} (h : ResultVia P m) {t t' : Token} (ha : AnswersAlike P t t')
    {s' s1' : TokState} {a : α} (hr : m t' s' = (.ok a, s1')) (s : TokState) :
    ∃ s1, m t s = (.ok a, s1) := by
  have := h t t' s s' ha
  rw [hr] at this
  exact ⟨(m t s).2, Prod.ext this rfl⟩

end ResultVia

theorem attr1_via {P} (a : TokAns) : ResultVia P (attr1 a) := by
  unfold attr1; split
  · exact ResultVia.pure _
  · exact ResultVia.fail _

theorem attrBytes_via {P} (a : AttrAns) : ResultVia P (attrBytes a) := by
  unfold attrBytes; split
  · exact ResultVia.pure _
  · exact ResultVia.err _
  · exact ResultVia.fail _

/-- one structural step of a `ResultVia` proof -/
macro "via_step" : tactic => `(tactic| first
  | exact ResultVia.pure _ | exact ResultVia.fail _ | exact ResultVia.err _ | exact ResultVia.lift _
  | exact ResultVia.askOk _ rfl | exact ResultVia.ask _ rfl
  | exact ResultVia.askOk _ ⟨rfl, rfl⟩ | exact ResultVia.askOk _ ⟨rfl, rfl, rfl⟩
  | exact attr1_via _ | exact attrBytes_via _
  | assumption
  | refine ResultVia.bind ?_ (fun _ => ?_)
  | split
  | dsimp only)

theorem p11ObjectToPublicKey_via (path : String) (slot handle : Nat) :
    ResultVia (IsGetAttrOf path slot handle) (p11ObjectToPublicKey path slot handle) := by
  unfold p11ObjectToPublicKey
  repeat' via_step

theorem foundKeyTail_via (m : P11Module) (label : String) (cls : Nat) (hh : Option Bool) (sl h : Nat)
    (pk : Option String) : ResultVia (IsGetAttrOf m.path sl h) (foundKeyTail m label cls hh sl h pk) := by
  unfold foundKeyTail
  repeat' via_step

theorem foundKey_via (m : P11Module) (label : String) (cls : Nat) (hh : Option Bool) (sl h : Nat) :
    ResultVia (IsGetAttrOf m.path sl h) (foundKey m label cls hh sl h) := by
  unfold foundKey
  split
  · exact ResultVia.bind (p11ObjectToPublicKey_via m.path sl h)
      (fun pk => foundKeyTail_via m label cls hh sl h pk)
  · exact foundKeyTail_via m label cls hh sl h none

theorem findInSlots_via (m : P11Module) (label : String) (cls : Nat) (hh : Option Bool)
    (slots : List Nat) : ResultVia (IsReadOn m.path) (findInSlots m label cls hh slots) := by
  induction slots with
  | nil => exact ResultVia.pure _
  | cons sl rest ih =>
    rw [findInSlots_cons]
    refine ResultVia.bind (ResultVia.askOk _ rfl) (fun r => ?_)
    split
    · exact ih
    · exact (foundKey_via m label cls hh sl _).mono (fun _ h => h.isReadOn)
    · exact ResultVia.err _
    · exact ResultVia.fail _

theorem getP11Key_via (label : String) (isPublic : Bool) (hh : Option Bool) (mods : List P11Module) :
    ResultVia (IsReadAmong mods) (getP11Key label isPublic hh mods) := by
  induction mods with
  | nil => exact ResultVia.pure _
  | cons m rest ih =>
    rw [getP11Key_cons]
    refine ResultVia.bind ((findInSlots_via m label _ hh _).mono
      (fun op h => ⟨m, List.mem_cons_self, h⟩)) (fun r => ?_)
    split
    · exact ResultVia.pure _
    · exact ih.mono (fun op ⟨m', hm', h⟩ => ⟨m', List.mem_cons_of_mem _ hm', h⟩)

theorem refetchPublic_via (mods : List P11Module) (ksk : KskKey) (isPublic : Bool) (found : P11Key) :
    ResultVia (IsReadAmong mods) (refetchPublic mods ksk isPublic found) := by
  have := getP11Key_via ksk.label true ksk.hashUsingHsm mods
  unfold refetchPublic
  repeat' via_step

theorem acceptKeyM_via {P} (ksk : KskKey) (pol : KskPolicy) (found : P11Key) :
    ResultVia P (acceptKeyM ksk pol found) := by
  rw [acceptKeyM_eq]; exact ResultVia.lift _

theorem loadAfterWindowM_via (mods : List P11Module) (ksk : KskKey) (pol : KskPolicy)
    (isPublic : Bool) : ResultVia (IsReadAmong mods) (loadAfterWindowM mods ksk pol isPublic) := by
  unfold loadAfterWindowM
  refine ResultVia.bind (getP11Key_via ksk.label isPublic ksk.hashUsingHsm mods) (fun o => ?_)
  split
  · exact ResultVia.pure _
  · exact ResultVia.bind (refetchPublic_via mods ksk isPublic _) (fun f => acceptKeyM_via ksk pol f)

theorem loadPkcs11Key_via (mods : List P11Module) (ksk : KskKey) (pol : KskPolicy) (b : Bundle)
    (isPublic : Bool) : ResultVia (IsReadAmong mods) (loadPkcs11Key mods ksk pol b isPublic) := by
  intro t t' s s' ha
  by_cases h : WindowViolated ksk b
  · rw [loadPkcs11Key_violated _ _ _ _ _ _ _ h, loadPkcs11Key_violated _ _ _ _ _ _ _ h]
  · rw [loadPkcs11Key_inside _ _ _ _ _ _ _ h, loadPkcs11Key_inside _ _ _ _ _ _ _ h,
      ← loadAfterWindowM_run, ← loadAfterWindowM_run]
    exact loadAfterWindowM_via mods ksk pol isPublic t t' s s' ha

theorem fetchKeys_via (ext : Externals) (mods : List P11Module) (cfg : SignerConfig) (b : Bundle)
    (isPublic : Bool) (names : List String) :
    ResultVia (IsReadAmong mods) (fetchKeys ext mods cfg b isPublic names) := by
  induction names with
  | nil => exact ResultVia.pure _
  | cons name rest ih =>
    have := fun ksk => loadPkcs11Key_via mods ksk cfg.kskPolicy b isPublic
    rw [fetchKeys]
    split
    · exact ResultVia.err _
    · refine ResultVia.bind (this _) (fun o => ?_)
      repeat' via_step

/-- `sign_using_p11` / `_sign_keys` / the signing loop issue `C_Sign` operations only -/
theorem signUsingP11_via (hash : Hasher) (key : P11Key) (data : Bytes) (alg : Nat) :
    ResultVia (fun op => isSignOp op = true) (signUsingP11 hash key data alg) := by
  unfold signUsingP11
  repeat' via_step

theorem signKeys_via (ext : Externals) (bundle : Bundle) (keys : List Key) (sk : CompositeKey)
    (pol : KskPolicy) :
    ResultVia (fun op => isSignOp op = true) (signKeys ext bundle keys sk pol) := by
  have := signUsingP11_via ext.hash sk.p11
  unfold signKeys
  repeat' (first | exact this _ _ | via_step)

end Kskm
