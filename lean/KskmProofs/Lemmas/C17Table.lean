/- Helper lemmas for C17: the key loop of `format_bundles_for_humans` is the two filters. -/
import Kskm.BundleTable
namespace Kskm.C17

/-- the specification of one row, written from the property text: the ZSK column holds the tags of
    exactly the keys WITHOUT the SEP flag, the KSK column one `tag(label)/usage` entry for exactly
    the keys WITH it, both in key order -/
def zskColumnSpec (b : Bundle) : List String := (b.keys.filter (fun k => !isSepKey k)).map tagStr
def kskColumnSpec (b : Bundle) : List String := (b.keys.filter isSepKey).map (kskEntry b)

theorem splitKeys_eq (b : Bundle) (ks : List Key) :
    splitKeys b ks = ((ks.filter (fun k => !isSepKey k)).map tagStr, (ks.filter isSepKey).map (kskEntry b)) := by
  induction ks with
  | nil => rfl
  | cons k r ih =>
    simp only [splitKeys, ih]
    cases h : isSepKey k <;> simp [h]

theorem tableRowsFrom_getElem (fmtTime : Int → String) (bundles : List Bundle) :
    ∀ (n i : Nat) (b : Bundle), bundles[i]? = some b →
      (tableRowsFrom fmtTime n bundles)[i]? = some
        { num := toString (n + i), inception := fmtTime b.inception, expiration := fmtTime b.expiration,
          zskTags := zskColumnSpec b, kskEntries := kskColumnSpec b } := by
  induction bundles with
  | nil => intro n i b h; simp at h
  | cons b0 r ih =>
    intro n i b h
    cases i with
    | zero =>
      simp only [List.getElem?_cons_zero, Option.some.injEq] at h
      subst h
      simp [tableRowsFrom, splitKeys_eq, zskColumnSpec, kskColumnSpec]
    | succ j =>
      simp only [List.getElem?_cons_succ] at h
      have := ih (n + 1) j b h
      have e : n + 1 + j = n + (j + 1) := by omega
      simp only [tableRowsFrom, List.getElem?_cons_succ, this, e]

theorem tableRowsFrom_length (fmtTime : Int → String) (bundles : List Bundle) :
    ∀ n, (tableRowsFrom fmtTime n bundles).length = bundles.length := by
  induction bundles with
  | nil => intro n; rfl
  | cons b r ih => intro n; simp [tableRowsFrom, ih]

end Kskm.C17
