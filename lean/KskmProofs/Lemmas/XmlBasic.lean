/-
  Helper lemmas about the string built-ins and the three matchers of Kskm/Xml.lean:
  what they consume, and that everything they return is a piece of their input.
-/
import Kskm.Xml
namespace Kskm.Xml

theorem length_takeWhile_le {α} (p : α → Bool) (l : List α) : (l.takeWhile p).length ≤ l.length :=
  (List.takeWhile_prefix p).length_le

theorem length_dropWhile_le {α} (p : α → Bool) (l : List α) : (l.dropWhile p).length ≤ l.length :=
  (List.dropWhile_suffix p).length_le

theorem length_take_add_drop {α} (p : α → Bool) (l : List α) :
    (l.takeWhile p).length + (l.dropWhile p).length = l.length := by
  rw [← List.length_append, List.takeWhile_append_dropWhile]

theorem mem_takeWhile_imp {α} {p : α → Bool} : ∀ {l : List α} {x : α}, x ∈ l.takeWhile p → p x = true := by
  intro l
  induction l with
  | nil => intro x h; simp at h
  | cons a r ih =>
    intro x h
    rw [List.takeWhile_cons] at h
    split at h
    · rename_i ha
      rcases List.mem_cons.mp h with rfl | h'
      · exact ha
      · exact ih h'
    · simp at h

/-- the first element the scan stops at does not satisfy the predicate -/
theorem dropWhile_head_not {α} {p : α → Bool} : ∀ {l : List α} {x : α} {r : List α},
    l.dropWhile p = x :: r → p x = false := by
  intro l
  induction l with
  | nil => intro x r h; simp at h
  | cons a t ih =>
    intro x r h
    rw [List.dropWhile_cons] at h
    split at h
    · exact ih h
    · rename_i ha
      simp only [List.cons.injEq] at h
      rw [← h.1]; simpa using ha

/-! ### `str.strip` -/

theorem rstrip_prefix (p : Char → Bool) (t : List Char) : rstrip p t <+: t := by
  unfold rstrip
  have h := List.dropWhile_suffix (l := t.reverse) p
  have := List.reverse_prefix.mpr h
  simpa using this

theorem lstrip_suffix (p : Char → Bool) (t : List Char) : lstrip p t <:+ t := List.dropWhile_suffix p

theorem strip_infix (p : Char → Bool) (s : List Char) : strip p s <:+: s :=
  (rstrip_prefix p _).isInfix.trans (lstrip_suffix p s).isInfix

theorem strip_length_le (p : Char → Bool) (s : List Char) : (strip p s).length ≤ s.length :=
  (strip_infix p s).length_le

theorem slice_infix (s : List Char) (a b : Nat) : slice s a b <:+: s :=
  (List.drop_suffix a _).isInfix.trans (List.take_prefix b s).isInfix

/-! ### the attribute expression -/

/-- A successful match of `^(\w+)="(.+?)"\s*(.*)` consumes at least five characters:
    one of the name, `="`, one of the value, `"`. -/
theorem matchAttr_consumes (cls : Classes) (a n v rest : List Char)
    (h : matchAttr cls a = some (n, v, rest)) : rest.length + 5 ≤ a.length := by
  unfold matchAttr at h
  simp only at h
  split at h
  · simp at h
  · rename_i hname
    split at h
    · rename_i c r hd
      split at h
      · simp at h
      · split at h
        · rename_i after hq
          simp only [Option.some.injEq, Prod.mk.injEq] at h
          obtain ⟨_, _, hrest⟩ := h
          have h1 := length_take_add_drop cls.isWord a
          have h2 := length_take_add_drop (fun x => x ≠ '"' && x ≠ '\n') r
          rw [hd] at h1
          rw [hq] at h2
          have h3 : rest.length ≤ after.length := by
            rw [← hrest]
            exact Nat.le_trans (length_takeWhile_le _ _) (length_dropWhile_le _ _)
          have h4 : 0 < (a.takeWhile cls.isWord).length := by
            cases hn : a.takeWhile cls.isWord with
            | nil => simp [hn] at hname
            | cons _ _ => simp
          simp only [List.length_cons] at h1 h2
          omega
        · simp at h
    · simp at h

/-- the pieces a successful attribute match returns are pieces of its input -/
theorem matchAttr_infix (cls : Classes) (a n v rest : List Char)
    (h : matchAttr cls a = some (n, v, rest)) : n <+: a ∧ v <:+: a ∧ rest <:+: a := by
  unfold matchAttr at h
  simp only at h
  split at h
  · simp at h
  · split at h
    · rename_i c r hd
      split at h
      · simp at h
      · split at h
        · rename_i after hq
          simp only [Option.some.injEq, Prod.mk.injEq] at h
          obtain ⟨hn, hv, hrest⟩ := h
          have hsuf : ('=' :: '"' :: c :: r) <:+ a := hd ▸ List.dropWhile_suffix _
          have hcr : (c :: r) <:+ a := by
            obtain ⟨t, ht⟩ := hsuf
            exact ⟨t ++ ['=', '"'], by simp [← ht]⟩
          refine ⟨hn ▸ List.takeWhile_prefix _, ?_, ?_⟩
          · rw [← hv]
            have : (c :: r.takeWhile (fun x => x ≠ '"' && x ≠ '\n')) <+: (c :: r) :=
              (List.prefix_cons_inj c).mpr (List.takeWhile_prefix _)
            exact this.isInfix.trans hcr.isInfix
          · rw [← hrest]
            have h1 : after <:+ r := by
              have := List.dropWhile_suffix (l := r) (fun x => x ≠ '"' && x ≠ '\n')
              rw [hq] at this
              obtain ⟨t, ht⟩ := this
              exact ⟨t ++ ['"'], by simp [← ht]⟩
            have h2 : r <:+ (c :: r) := List.suffix_cons c r
            exact (List.takeWhile_prefix _).isInfix.trans
              ((List.dropWhile_suffix _).isInfix.trans (h1.isInfix.trans (h2.isInfix.trans hcr.isInfix)))
        · simp at h
    · simp at h

/-- no double quote, no match -/
theorem matchAttr_none_of_no_quote (cls : Classes) (a : List Char) (h : '"' ∉ a) :
    matchAttr cls a = none := by
  cases hm : matchAttr cls a with
  | none => rfl
  | some t =>
    exfalso
    obtain ⟨n, v, rest⟩ := t
    unfold matchAttr at hm
    simp only at hm
    split at hm
    · simp at hm
    · split at hm
      · rename_i c r hd
        have hsuf : ('=' :: '"' :: c :: r) <:+ a := hd ▸ List.dropWhile_suffix _
        have : '"' ∈ a := hsuf.subset (by simp)
        exact h this
      · simp at hm

/-- two range tables have no code point in common -/
def rangesDisjoint (a b : List (Nat × Nat)) : Bool :=
  a.all fun x => b.all fun y => decide (x.2 < y.1) || decide (y.2 < x.1)

theorem inRanges_disjoint (a b : List (Nat × Nat)) (h : rangesDisjoint a b = true) (c : Char) :
    ¬ (inRanges a c = true ∧ inRanges b c = true) := by
  rintro ⟨ha, hb⟩
  simp only [inRanges, List.any_eq_true, Bool.and_eq_true, decide_eq_true_eq] at ha hb
  obtain ⟨x, hx, hx1, hx2⟩ := ha
  obtain ⟨y, hy, hy1, hy2⟩ := hb
  simp only [rangesDisjoint, List.all_eq_true, Bool.or_eq_true, decide_eq_true_eq] at h
  have := h x hx y hy
  omega

end Kskm.Xml
