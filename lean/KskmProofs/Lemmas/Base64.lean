/-
  Base64 round trip: the canonical decoder of `Kskm.Base64` inverts the encoder on every octet
  string (`decode (encode b) = some b`), by induction on the 3-octet groups.
-/
import Kskm.Base64
namespace Kskm.Base64

theorem decChar_encChar : ∀ n, n < 64 → decChar (encChar n) = some n := by decide +kernel

theorem encChar_ne_pad : ∀ n, n < 64 → encChar n ≠ '=' := by decide +kernel

theorem decodeChars_quad (a b c d : Char) (r : List Char) (hd : d ≠ '=') :
    decodeChars (a :: b :: c :: d :: r) =
      (do
        let x ← decChar a; let y ← decChar b; let z ← decChar c; let w ← decChar d
        let n := x * 262144 + y * 4096 + z * 64 + w
        let t ← decodeChars r
        some (UInt8.ofNat (n / 65536) :: UInt8.ofNat (n / 256 % 256) :: UInt8.ofNat (n % 256) :: t)) := by
  rw [decodeChars]
  · intro _ h; exact absurd h hd
  · intro h; exact absurd h hd

theorem decodeChars_pad1 (a b c : Char) (hc : c ≠ '=') :
    decodeChars [a, b, c, '='] =
      (do
        let x ← decChar a; let y ← decChar b; let z ← decChar c
        if z % 4 = 0 then
          let n := x * 4096 + y * 64 + z
          some [UInt8.ofNat (n / 1024), UInt8.ofNat (n / 4 % 256)]
        else none) := by
  rw [decodeChars]
  intro h; exact absurd h hc

theorem ofNat_of_eq (a : UInt8) (n : Nat) (h : n = a.toNat) : UInt8.ofNat n = a := by
  subst h; simp

theorem decodeChars_encodeChars : ∀ b : Bytes, decodeChars (encodeChars b) = some b
  | [] => by simp [encodeChars, decodeChars]
  | [a] => by
    have ha := a.toNat_lt
    simp only [encodeChars, decodeChars]
    rw [decChar_encChar _ (by omega), decChar_encChar _ (by omega)]
    simp only [Option.bind_eq_bind, Option.bind_some]
    rw [if_pos (by omega)]
    congr 2
    apply ofNat_of_eq; omega
  | [a, b] => by
    have ha := a.toNat_lt
    have hb := b.toNat_lt
    simp only [encodeChars]
    rw [decodeChars_pad1 _ _ _ (encChar_ne_pad _ (by omega))]
    rw [decChar_encChar _ (by omega), decChar_encChar _ (by omega), decChar_encChar _ (by omega)]
    simp only [Option.bind_eq_bind, Option.bind_some]
    rw [if_pos (by omega)]
    congr 2
    · apply ofNat_of_eq; omega
    · congr 1; apply ofNat_of_eq; omega
  | a :: b :: c :: r => by
    have ha := a.toNat_lt
    have hb := b.toNat_lt
    have hc := c.toNat_lt
    simp only [encodeChars]
    rw [decodeChars_quad _ _ _ _ _ (encChar_ne_pad _ (by omega))]
    rw [decChar_encChar _ (by omega), decChar_encChar _ (by omega), decChar_encChar _ (by omega),
      decChar_encChar _ (by omega), decodeChars_encodeChars r]
    simp only [Option.bind_eq_bind, Option.bind_some]
    congr 2
    · apply ofNat_of_eq; omega
    · congr 1
      · apply ofNat_of_eq; omega
      · congr 1; apply ofNat_of_eq; omega

theorem decode_encode (b : Bytes) : decode (encode b) = some b := by
  simp [decode, encode, decodeChars_encodeChars]

end Kskm.Base64
