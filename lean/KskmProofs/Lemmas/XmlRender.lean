/-
  The specification side of C12: `PlainXml` trees, their rendering as text under a LAYOUT, and the dict a
  standard reading yields (`valT` / `storeF`: element structure, repeated siblings collected in document
  order).  Written independently of the reader: nothing here mentions `parse*`, `match*` or `index`.

  The layout is carried by the tree itself, as the pieces of insignificant white space a standard parser
  drops:  `sep` before every further sibling, `pre` / `post` inside a node around its children, and `gap`
  between the last attribute and the closing `>` / `/>` of a start tag.  The standard reading (`valT`)
  ignores all of them.  Fixed by THIS rendering: exactly one space before every attribute, attributes in
  the order given; an empty element with attributes is in self-closing form (`PTree.empty`) or an empty
  pair (`PTree.leaf` with empty text).  KskmProofs/Lemmas/XmlRenderW.lean varies the white space in front of
  the attributes (`WTree`, of which this is the instance "one space"), KskmProofs/Lemmas/XmlDictEq.lean the
  attribute order (`AttrPermT`).
-/
import Kskm.Xml
namespace Kskm.Xml

mutual
/-- an element: a text leaf `<n a="v">text</n>`, a self-closing empty element `<n a="v"/>`, or a node
    with at least one child element -/
inductive PTree where
  | leaf (name : List Char) (attrs : Attrs) (gap : List Char) (text : List Char)
  | empty (name : List Char) (attrs : Attrs) (gap : List Char)
  | node (name : List Char) (attrs : Attrs) (gap : List Char) (pre : List Char) (first : PTree)
      (rest : PForest) (post : List Char)
/-- further siblings, each preceded by white space `sep` -/
inductive PForest where
  | nil
  | cons (sep : List Char) (t : PTree) (f : PForest)
end

def PTree.name : PTree → List Char
  | .leaf n _ _ _ => n
  | .empty n _ _ => n
  | .node n _ _ _ _ _ _ => n

def PTree.attrs : PTree → Attrs
  | .leaf _ a _ _ => a
  | .empty _ a _ => a
  | .node _ a _ _ _ _ _ => a

/-! ### rendering -/

/-- `k="v"` -/
def attrText (p : List Char × List Char) : List Char := p.1 ++ '=' :: '"' :: (p.2 ++ ['"'])

/-- the attributes, each preceded by one space -/
def attrsText : Attrs → List Char
  | [] => []
  | p :: r => ' ' :: (attrText p ++ attrsText r)

/-- the text of a start tag after its "<" -/
def startBody (n : List Char) (a : Attrs) (gap : List Char) : List Char := n ++ attrsText a ++ gap ++ ['>']
def startTag (n : List Char) (a : Attrs) (gap : List Char) : List Char := '<' :: startBody n a gap

/-- the text of a self-closing tag after its "<" -/
def selfBody (n : List Char) (a : Attrs) (gap : List Char) : List Char := n ++ attrsText a ++ gap ++ ['/', '>']
def selfTag (n : List Char) (a : Attrs) (gap : List Char) : List Char := '<' :: selfBody n a gap

mutual
def renderT : PTree → List Char
  | .leaf n a gap text => startTag n a gap ++ text ++ endTag n
  | .empty n a gap => selfTag n a gap
  | .node n a gap pre first rest post =>
    startTag n a gap ++ pre ++ renderT first ++ renderF rest ++ post ++ endTag n
def renderF : PForest → List Char
  | .nil => []
  | .cons sep t f => sep ++ renderT t ++ renderF f
end

/-! ### the standard reading -/

/-- attributes as a dict: a repeated name keeps its first position and its last value -/
def attrsDict (a : Attrs) : Attrs := a.foldl (fun acc p => dictSet acc p.1 p.2) []

def attrsOpt (a : Attrs) : Option Attrs := if a.isEmpty then none else some (attrsDict a)

mutual
/-- the value of an element in the tree a standard parser builds, in the reader's vocabulary:
    text ↦ `str`, children ↦ `dict` (same-named siblings collected), attributes ↦ `{attrs, value}` -/
def valT : PTree → XVal
  | .leaf _ a _ text => elementValue (attrsOpt a) (.str text)
  | .empty _ a _ => elementValue (attrsOpt a) (.str [])
  | .node _ a _ _ first rest _ =>
    elementValue (attrsOpt a) (.dict (storeF (storeElement [] first.name (valT first)) rest))
/-- the siblings of a forest stored one after the other, in document order -/
def storeF : Dict → PForest → Dict
  | res, .nil => res
  | res, .cons _ t f => storeF (storeElement res t.name (valT t)) f
end

/-- the dict of a whole document whose root element is `t` -/
def dictOf (t : PTree) : Dict := [(t.name, valT t)]

/-! ### plainness -/

/-- element and attribute names: non-empty runs of word characters -/
def PlainName (cls : Classes) (n : List Char) : Prop := n ≠ [] ∧ ∀ c ∈ n, cls.isWord c = true

/-- attribute: a name and a non-empty value without `"`, newline, `<`, `>` -/
def PlainAttr (cls : Classes) (p : List Char × List Char) : Prop :=
  PlainName cls p.1 ∧ p.2 ≠ [] ∧ ∀ c ∈ p.2, c ≠ '"' ∧ c ≠ '\n' ∧ c ≠ '<' ∧ c ≠ '>'

/-- text: `<`-free and stripped (may be empty, may span lines) -/
def PlainText (cls : Classes) (s : List Char) : Prop := '<' ∉ s ∧ strip cls.isStrip s = s

/-- white space between elements: anything `str.strip()` removes (spaces, tabs, newlines, CR, …) -/
def Ws (cls : Classes) (s : List Char) : Prop := ∀ c ∈ s, cls.isStrip c = true

/-- white space inside a start tag before `>` / `/>`: as `Ws`, on one line; none in a tag that has
    no attributes (finding F17) -/
def Gap (cls : Classes) (a : Attrs) (s : List Char) : Prop :=
  (∀ c ∈ s, cls.isStrip c = true ∧ c ≠ '\n') ∧ (a = [] → s = [])

mutual
/-- `n` is the name of some element of the subtree -/
def occursT (n : List Char) : PTree → Prop
  | .leaf m _ _ _ => m = n
  | .empty m _ _ => m = n
  | .node m _ _ _ first rest _ => m = n ∨ occursT n first ∨ occursF n rest
def occursF (n : List Char) : PForest → Prop
  | .nil => False
  | .cons _ t f => occursT n t ∨ occursF n f
end

mutual
/-- **PlainXml**: plain names, attributes, texts and white space everywhere, and no element has a
    proper descendant of its own name -/
def PlainT (cls : Classes) : PTree → Prop
  | .leaf n a gap text => PlainName cls n ∧ (∀ p ∈ a, PlainAttr cls p) ∧ Gap cls a gap ∧ PlainText cls text
  | .empty n a gap => PlainName cls n ∧ (∀ p ∈ a, PlainAttr cls p) ∧ Gap cls a gap ∧ a ≠ []
  | .node n a gap pre first rest post =>
    PlainName cls n ∧ (∀ p ∈ a, PlainAttr cls p) ∧ Gap cls a gap ∧ Ws cls pre ∧ Ws cls post ∧
      PlainT cls first ∧ PlainF cls rest ∧ ¬ occursT n first ∧ ¬ occursF n rest
def PlainF (cls : Classes) : PForest → Prop
  | .nil => True
  | .cons sep t f => Ws cls sep ∧ PlainT cls t ∧ PlainF cls f
end

mutual
/-- number of element levels that have child elements -/
def heightT : PTree → Nat
  | .leaf _ _ _ _ => 0
  | .empty _ _ _ => 0
  | .node _ _ _ _ first rest _ => 1 + max (heightT first) (heightF rest)
def heightF : PForest → Nat
  | .nil => 0
  | .cons _ t f => max (heightT t) (heightF f)
end

def countF : PForest → Nat
  | .nil => 0
  | .cons _ _ f => 1 + countF f

/-- what the theorems need to know about the character classes (all true of Python's, see
    `pyClasses_sane` in KskmProofs/C12.lean) -/
structure Sane (cls : Classes) : Prop where
  word_not_space : ∀ c, cls.isWord c = true → cls.isSpace c = false
  word_not_strip : ∀ c, cls.isWord c = true → cls.isStrip c = false
  space_sp : cls.isSpace ' ' = true
  space_gt : cls.isSpace '>' = false
  strip_nl : cls.isStrip '\n' = true
  strip_lt : cls.isStrip '<' = false
  strip_gt : cls.isStrip '>' = false
  strip_quote : cls.isStrip '"' = false
  strip_slash : cls.isStrip '/' = false
  word_lt : cls.isWord '<' = false
  word_gt : cls.isWord '>' = false
  word_eq : cls.isWord '=' = false
  word_slash : cls.isWord '/' = false
  word_quote : cls.isWord '"' = false

theorem Sane.word_sp {cls : Classes} (h : Sane cls) : cls.isWord ' ' = false := by
  cases hw : cls.isWord ' ' with
  | false => rfl
  | true => have := h.word_not_space ' ' hw; rw [h.space_sp] at this; cases this

theorem Ws.no_lt {cls : Classes} (hs : Sane cls) {s : List Char} (h : Ws cls s) : '<' ∉ s := by
  intro hc
  have := h '<' hc
  rw [hs.strip_lt] at this; cases this

end Kskm.Xml
